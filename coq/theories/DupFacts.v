(** DupFacts.v -- C14: re-sending an acknowledged claim / release / open /
    close on a fresh connection of the same side, at the same instant, gets the
    same answer and leaves the channel state (both database copies,
    subscriptions, every other connection) exactly as it was. *)
From MW Require Import Base Store Monad Usage Server Websocket Service Findings
     Inv StoreFacts Hoare DbFactsA DbFactsB OpFacts ProtoFacts Obs NpFactsA MbFactsA MbFactsB.
Local Open Scope list_scope.

Definition bind_cmd (a side : string) : command :=
  mkCmd (Some TBind) None (Some a) (Some side) None None None None None None None.
Definition no_oracle : oracle := mkOracle None (mkAO None []).

(** the duplicate: connect, bind as the same side, re-send, go away *)
Definition dup_events (c' : nat) (a side : string) (cmd : command) (o : oracle) : list event :=
  [EB (EConnect c'); EB (ECmd c' (bind_cmd a side) no_oracle); EB (ECmd c' cmd o);
   EB (EDisconnect c')].

(** everything that determines later answers and the stored channel state *)
Definition same_channel (s s' : state) : Prop :=
  chan_w s' = chan_w s /\ chan_c s' = chan_c s /\ subs s' = subs s /\ conns s' = conns s /\
  now s' = now s /\ timer_start s' = timer_start s /\ next_due s' = next_due s.

(** what a successfully answered command leaves behind (established by the
    `_establishes` theorems below), as far as the duplicate depends on it *)
Definition not_crowded (d : chan_db) (m : string) : Prop :=
  (List.length (sel_mbs_all d m) <= 2)%nat.

Definition claim_done (d : chan_db) (a n side : string) (t : Z) : Prop :=
  exists np r1 r2,
    sel_np d a n = Some np /\
    sel_nps d (np_id np) side = Some r1 /\ nps_claimed r1 = true /\
    (List.length (sel_nps_all d (np_id np)) <= 2)%nat /\
    sel_mbs d (np_mbox np) side = Some r2 /\ not_crowded d (np_mbox np) /\
    (forall r, In r (mailboxes d) -> mb_id r = np_mbox np -> mb_updated r = t).

Definition release_done (d : chan_db) (a n side : string) : Prop :=
  match sel_np d a n with
  | None => True
  | Some np =>
      match sel_nps d (np_id np) side with
      | None => True
      | Some r => nps_claimed r = false /\
                  exists r', In r' (np_sides d) /\ nps_npid r' = np_id np /\ nps_claimed r' = true
      end
  end.

Definition open_done (d : chan_db) (a m side : string) (t : Z) : Prop :=
  has_mb d a m /\ (exists r, sel_mbs d m side = Some r) /\ not_crowded d m /\
  (forall r, In r (mailboxes d) -> mb_id r = m -> mb_updated r = t).

(** after a close: the mailbox is gone, or this side's row says closed with
    that mood while another side still has it open *)
Definition close_done (d : chan_db) (a m side : string) (mood : option string) : Prop :=
  ~ mb_alive d m \/
  (has_mb d a m /\ not_crowded d m /\
   (exists r, sel_mbs d m side = Some r /\ mbs_opened r = false /\ mbs_mood r = mood) /\
   (exists r', In r' (mb_sides d) /\ mbs_mbox r' = m /\ mbs_opened r' = true)).

(** * Auxiliary: the connection table around a fresh connection *)

Lemma dup_lookup_snoc c x l :
  lookup_conn c l = None -> lookup_conn c (l ++ [(c, x)]) = Some x.
Proof.
  induction l as [|[c0 x0] l IH]; cbn [app lookup_conn].
  - intros _. rewrite Nat.eqb_refl. reflexivity.
  - destruct (Nat.eqb c c0); [discriminate|exact IH].
Qed.

Lemma dup_update_snoc c x y l :
  lookup_conn c l = None -> update_conn c y (l ++ [(c, x)]) = l ++ [(c, y)].
Proof.
  induction l as [|[c0 x0] l IH]; cbn [app lookup_conn update_conn].
  - intros _. rewrite Nat.eqb_refl. reflexivity.
  - destruct (Nat.eqb c c0); [discriminate|]. intros H. rewrite (IH H). reflexivity.
Qed.

Lemma dup_remove_snoc c x l :
  lookup_conn c l = None -> remove_conn c (l ++ [(c, x)]) = l.
Proof.
  unfold remove_conn.
  induction l as [|[c0 x0] l IH]; cbn [app lookup_conn filter fst].
  - intros _. rewrite Nat.eqb_refl. reflexivity.
  - rewrite (Nat.eqb_sym c0 c). destruct (Nat.eqb c c0); [discriminate|].
    intros H. cbn [negb]. rewrite (IH H). reflexivity.
Qed.

Lemma dup_update_update c x y l :
  update_conn c y (update_conn c x l) = update_conn c y l.
Proof.
  induction l as [|[c0 x0] l IH]; cbn [update_conn]; [reflexivity|].
  destruct (Nat.eqb c c0) eqn:E; cbn [update_conn]; rewrite E; [reflexivity|].
  rewrite IH. reflexivity.
Qed.

Lemma dup_lookup_remove c l : lookup_conn c (remove_conn c l) = None.
Proof.
  unfold remove_conn.
  induction l as [|[c0 x0] l IH]; cbn [filter fst lookup_conn]; [reflexivity|].
  destruct (Nat.eqb c0 c) eqn:E; cbn [negb]; [exact IH|].
  cbn [lookup_conn]. rewrite (Nat.eqb_sym c c0), E. exact IH.
Qed.

Lemma dup_lookup_drop c s : lookup_conn c (conns (drop_conn c s)) = None.
Proof.
  unfold drop_conn. destruct (on_close c s); cbn [conns set_conns]; apply dup_lookup_remove.
Qed.

(** the clock and timer fields *)
Definition clk (s : state) : Z * Z * Z := (now s, timer_start s, next_due s).

Lemma clk_inv s s' :
  clk s' = clk s -> now s' = now s /\ timer_start s' = timer_start s /\ next_due s' = next_due s.
Proof. unfold clk. intros H. inversion H. auto. Qed.

(** * Auxiliary: updates that change nothing *)

Lemma nps_unique d r r' :
  DbInv d -> In r (np_sides d) -> In r' (np_sides d) ->
  nps_npid r = nps_npid r' -> nps_side r = nps_side r' -> r = r'.
Proof.
  intros Hinv H1 H2 E1 E2.
  apply (NoDup_map_inj nps_key (np_sides d) r r' (inv_nps_key d Hinv) H1 H2).
  unfold nps_key. rewrite E1, E2. reflexivity.
Qed.

Lemma mbs_unique d r r' :
  DbInv d -> In r (mb_sides d) -> In r' (mb_sides d) ->
  mbs_mbox r = mbs_mbox r' -> mbs_side r = mbs_side r' -> r = r'.
Proof.
  intros Hinv H1 H2 E1 E2.
  apply (NoDup_map_inj mbs_key (mb_sides d) r r' (inv_mbs_key d Hinv) H1 H2).
  unfold mbs_key. rewrite E1, E2. reflexivity.
Qed.

Lemma np_unique d r r' :
  DbInv d -> In r (nameplates d) -> In r' (nameplates d) ->
  np_app r = np_app r' -> np_name r = np_name r' -> r = r'.
Proof.
  intros Hinv H1 H2 E1 E2.
  apply (NoDup_map_inj np_key (nameplates d) r r' (inv_np_key d Hinv) H1 H2).
  unfold np_key. rewrite E1, E2. reflexivity.
Qed.

Lemma upd_touch_same d m t :
  (forall r, In r (mailboxes d) -> mb_id r = m -> mb_updated r = t) -> upd_touch d m t = d.
Proof.
  intros H. unfold upd_touch, set_mailboxes. rewrite cl_map_id_in; [destruct d; reflexivity|].
  intros r Hr. destruct (seqb (mb_id r) m) eqn:E; [|reflexivity].
  apply seqb_eq in E. specialize (H r Hr E). destruct r; cbn in *. subst. reflexivity.
Qed.

Lemma upd_touch_absent d m t : ~ mb_alive d m -> upd_touch d m t = d.
Proof.
  intros Hna. apply upd_touch_same. intros r Hr E. exfalso. apply Hna. exists r. auto.
Qed.

Lemma upd_nps_release_same d npid side :
  (forall r, In r (np_sides d) -> nps_npid r = npid -> nps_side r = side -> nps_claimed r = false) ->
  upd_nps_release d npid side = d.
Proof.
  intros H. unfold upd_nps_release, set_np_sides. rewrite cl_map_id_in; [destruct d; reflexivity|].
  intros r Hr. destruct ((nps_npid r =? npid) && seqb (nps_side r) side) eqn:E; [|reflexivity].
  apply andb_true_iff in E. destruct E as [E1 E2]. apply Z.eqb_eq in E1. apply seqb_eq in E2.
  specialize (H r Hr E1 E2). destruct r; cbn in *. subst. reflexivity.
Qed.

Lemma upd_mbs_close_same d m side mood :
  (forall r, In r (mb_sides d) -> mbs_mbox r = m -> mbs_side r = side ->
             mbs_opened r = false /\ mbs_mood r = mood) ->
  upd_mbs_close d m side mood = d.
Proof.
  intros H. unfold upd_mbs_close, set_mb_sides. rewrite cl_map_id_in; [destruct d; reflexivity|].
  intros r Hr. destruct (seqb (mbs_mbox r) m && seqb (mbs_side r) side) eqn:E; [|reflexivity].
  apply andb_true_iff in E. destruct E as [E1 E2]. apply seqb_eq in E1. apply seqb_eq in E2.
  destruct (H r Hr E1 E2) as [Ho Hm]. destruct r; cbn in *. subst. reflexivity.
Qed.

(** * Auxiliary: [open_db] *)

Lemma open_db_touch d a m side t :
  has_mb d a m -> (exists r, sel_mbs d m side = Some r) -> open_db d a m side t = upd_touch d m t.
Proof.
  intros Hmb [r Hr]. apply has_mb_sel in Hmb. destruct Hmb as [x Hx].
  unfold open_db. rewrite Hx, Hr. reflexivity.
Qed.

Lemma open_db_has_mb d a m side t : has_mb (open_db d a m side t) a m.
Proof.
  unfold open_db, has_mb. cbn [mailboxes].
  destruct (sel_mb d a m) as [r0|] eqn:E.
  - apply sel_mb_some in E. destruct E as (Hin & Ha & Hm).
    exists (touch_row m t r0). split; [apply in_map; exact Hin|].
    unfold touch_row. rewrite Hm, seqb_refl. cbn. auto.
  - exists (touch_row m t (mkMb a m t false)).
    split; [apply in_map, in_or_app; right; left; reflexivity|].
    unfold touch_row. cbn [mb_id mb_app]. rewrite seqb_refl. cbn. auto.
Qed.

Lemma open_db_side d a m side t : exists r, sel_mbs (open_db d a m side t) m side = Some r.
Proof.
  unfold open_db, sel_mbs. cbn [mb_sides].
  destruct (find (fun r => seqb (mbs_mbox r) m && seqb (mbs_side r) side) (mb_sides d)) as [r|] eqn:E.
  - exists r. exact E.
  - exists (mkMbs m true side t None). apply find_snoc; [exact E|].
    cbn [mbs_mbox mbs_side]. rewrite !seqb_refl. reflexivity.
Qed.

Lemma open_db_stamp d a m side t r :
  In r (mailboxes (open_db d a m side t)) -> mb_id r = m -> mb_updated r = t.
Proof.
  unfold open_db. cbn [mailboxes]. intros Hin Hid. apply in_map_iff in Hin.
  destruct Hin as [r0 [<- _]]. unfold touch_row in *.
  destruct (seqb (mb_id r0) m) eqn:E; [reflexivity|]. apply seqb_neq in E. contradiction.
Qed.

Lemma open_body_has d a m side t :
  has_mb d a m -> open_body d a m side t = TxOk tt (open_db d a m side t).
Proof.
  intros Hmb. destruct (open_body_eval d a m side t) as [[_ [_ Hno]]|H]; [contradiction|exact H].
Qed.

Lemma open_body_absent d a m side t :
  ~ mb_alive d m -> open_body d a m side t = TxOk tt (open_db d a m side t).
Proof.
  intros Hna. destruct (open_body_eval d a m side t) as [[_ [Hex _]]|H]; [|exact H].
  exfalso. apply mb_exists_iff in Hex. exact (Hna Hex).
Qed.

Lemma le2_ltb n : (n <= 2)%nat -> (2 <? n)%nat = false.
Proof. intros H. apply Nat.ltb_ge. exact H. Qed.

(** * Auxiliary: subscriptions of a connection that does not exist *)

Lemma fresh_not_sub s c a m :
  SInv s -> lookup_conn c (conns s) = None -> ~ In (a, m, c) (subs s).
Proof.
  intros Hinv Hl Hin. apply (si_subs s Hinv) in Hin. cbn in Hin.
  destruct Hin as [_ [cs [side [Hl' _]]]]. congruence.
Qed.

Lemma fresh_no_sub s c a m :
  SInv s -> lookup_conn c (conns s) = None -> existsb (sub_is a m c) (subs s) = false.
Proof.
  intros Hinv Hl. apply existsb_false_iff. intros p Hin.
  destruct (sub_is a m c p) eqn:E; [|reflexivity].
  apply sub_is_true in E. subst p. exfalso. exact (fresh_not_sub s c a m Hinv Hl Hin).
Qed.

Lemma fresh_filter_subs s c a m :
  SInv s -> lookup_conn c (conns s) = None ->
  filter (fun p => negb (sub_is a m c p)) (subs s ++ [(a, m, c)]) = subs s.
Proof.
  intros Hinv Hl. apply cl_filter_snoc_out.
  - intros p Hin. apply negb_true_iff.
    pose proof (fresh_no_sub s c a m Hinv Hl) as H.
    exact (proj1 (existsb_false_iff _ _) H p Hin).
  - unfold sub_is. cbn [fst snd]. rewrite !seqb_refl, Nat.eqb_refl. reflexivity.
Qed.

Lemma dead_not_sub s a m c :
  SInv s -> ~ mb_alive (chan_w s) m -> ~ In (a, m, c) (subs s).
Proof.
  intros Hinv Hna Hin. apply (si_subs s Hinv) in Hin. cbn in Hin.
  destruct Hin as [[r [Hr [_ Hm]]] _]. apply Hna. exists r. auto.
Qed.

(** reduce state projections applied to state constructors / setters *)
Ltac st_simpl :=
  cbn [chan_w chan_c usage_w usage_c subs conns now boot timer_start next_due log
       set_chan_w set_usage_w set_subs set_conns set_log].
Ltac st_simpl_in H :=
  cbn [chan_w chan_c usage_w usage_c subs conns now boot timer_start next_due log
       set_chan_w set_usage_w set_subs set_conns set_log] in H.

(** * Auxiliary: database facts behind the `_done` predicates *)

Lemma dup_filter_nil {A} (p : A -> bool) l : (forall x, In x l -> p x = false) -> filter p l = [].
Proof.
  induction l as [|x l IH]; intros H; cbn [filter]; [reflexivity|].
  rewrite (H x (or_introl eq_refl)). apply IH. intros y Hy. apply H. right. exact Hy.
Qed.

Lemma find_map_same {A} (p : A -> bool) (f : A -> A) l r :
  (forall x, p (f x) = p x) -> find p l = Some r -> find p (map f l) = Some (f r).
Proof.
  intros Hp. induction l as [|x l IH]; cbn [find map]; [discriminate|].
  rewrite Hp. destruct (p x); [|exact IH]. intros E. inversion E. reflexivity.
Qed.

Lemma filter_map_length {A} (p : A -> bool) (f : A -> A) l :
  (forall x, p (f x) = p x) -> List.length (filter p (map f l)) = List.length (filter p l).
Proof.
  intros Hp. induction l as [|x l IH]; cbn [filter map]; [reflexivity|].
  rewrite Hp. destruct (p x); cbn [List.length]; rewrite IH; reflexivity.
Qed.

Lemma claim_done_intro d1 a n side t np :
  DbInv d1 -> sel_np d1 a n = Some np -> holder d1 a n side ->
  (List.length (sel_mbs_all (open_db d1 a (np_mbox np) side t) (np_mbox np)) <= 2)%nat ->
  (List.length (sel_nps_all (open_db d1 a (np_mbox np) side t) (np_id np)) <= 2)%nat ->
  claim_done (open_db d1 a (np_mbox np) side t) a n side t.
Proof.
  intros Hdb Hnp (np' & r & Hnp' & Hr & Hid & Hsd & Hcl) L1 L2.
  assert (np' = np) by congruence. subst np'.
  destruct (open_db_side d1 a (np_mbox np) side t) as [r2 Hr2].
  assert (Hs : sel_nps d1 (np_id np) side = Some r).
  { destruct (sel_nps d1 (np_id np) side) as [r1|] eqn:E.
    - destruct (sel_nps_some _ _ _ _ E) as (H1 & H2 & H3). f_equal.
      apply (nps_unique d1); auto; congruence.
    - exfalso. apply (proj1 (sel_nps_none _ _ _) E r Hr). auto. }
  exists np, r, r2. split; [exact Hnp|]. split; [exact Hs|]. split; [exact Hcl|].
  split; [exact L2|]. split; [exact Hr2|]. split; [exact L1|].
  intros x Hx Ex. eapply open_db_stamp; eauto.
Qed.

Lemma release_done_after d d' a n side :
  DbInv d ->
  match sel_np d a n with
  | None => d' = d
  | Some np =>
      match sel_nps d (np_id np) side with
      | None => d' = d
      | Some _ =>
          if existsb (fun r => nps_claimed r && negb (seqb (nps_side r) side))
                     (sel_nps_all d (np_id np))
          then d' = upd_nps_release d (np_id np) side
          else nameplates d' = filter (fun r => negb (np_id r =? np_id np)) (nameplates d) /\
               np_sides d' = filter (fun r => negb (nps_npid r =? np_id np)) (np_sides d)
      end
  end ->
  release_done d' a n side.
Proof.
  intros Hdb H. unfold release_done.
  destruct (sel_np d a n) as [np|] eqn:Enp.
  2:{ subst d'. rewrite Enp. exact I. }
  destruct (sel_nps d (np_id np) side) as [r|] eqn:Er.
  2:{ subst d'. rewrite Enp, Er. exact I. }
  destruct (existsb (fun r => nps_claimed r && negb (seqb (nps_side r) side))
                    (sel_nps_all d (np_id np))) eqn:Ex.
  - subst d'.
    assert (Enp2 : sel_np (upd_nps_release d (np_id np) side) a n = Some np) by exact Enp.
    rewrite Enp2.
    destruct (sel_nps (upd_nps_release d (np_id np) side) (np_id np) side) as [x|] eqn:Ex2; [|exact I].
    destruct (sel_nps_some _ _ _ _ Ex2) as (Hx & Hxi & Hxs).
    unfold upd_nps_release in Hx. cbn [np_sides set_np_sides] in Hx.
    apply in_map_iff in Hx. destruct Hx as (x0 & Hx0 & Hin0).
    split.
    + subst x. destruct ((nps_npid x0 =? np_id np) && seqb (nps_side x0) side) eqn:E; [reflexivity|].
      exfalso. apply andb_false_iff in E.
      destruct E as [E|E]; [apply Z.eqb_neq in E|apply seqb_neq in E]; contradiction.
    + apply existsb_exists in Ex. destruct Ex as (r' & Hr' & Hc).
      apply sel_nps_all_In in Hr'. destruct Hr' as [Hr'in Hr'id].
      apply andb_true_iff in Hc. destruct Hc as [Hc1 Hc2]. apply negb_true_iff in Hc2.
      exists r'. split; [|auto]. unfold upd_nps_release. cbn [np_sides set_np_sides].
      apply in_map_iff. exists r'. split; [|exact Hr'in]. rewrite Hc2, andb_false_r. reflexivity.
  - destruct H as [Hn' Hs'].
    destruct (sel_np d' a n) as [np'|] eqn:Enp'; [|exact I]. exfalso.
    destruct (sel_np_some _ _ _ _ Enp') as (Hin' & Ha' & Hnm'). rewrite Hn' in Hin'.
    apply filter_In in Hin'. destruct Hin' as [Hin' Hf].
    destruct (sel_np_some _ _ _ _ Enp) as (Hin & Ha & Hnm).
    assert (np' = np) by (apply (np_unique d); auto; congruence). subst np'.
    rewrite Z.eqb_refl in Hf. discriminate.
Qed.

Lemma close_done_after d a h side mood :
  has_mb d a h -> sel_mbs d h side <> None -> not_crowded d h ->
  close_done (close_db d a h side mood) a h side mood.
Proof.
  intros Hmb Hsel Hnc. rewrite close_db_unfold.
  apply has_mb_sel in Hmb. destruct Hmb as [x Hx]. rewrite Hx.
  destruct (sel_mbs d h side) as [r|] eqn:Er; [|congruence].
  assert (Hkey : forall y : mbs_row,
            seqb (mbs_mbox (if seqb (mbs_mbox y) h && seqb (mbs_side y) side
                            then mkMbs (mbs_mbox y) false (mbs_side y) (mbs_added y) mood else y)) h
            = seqb (mbs_mbox y) h).
  { intros y. destruct (seqb (mbs_mbox y) h && seqb (mbs_side y) side); reflexivity. }
  unfold close_del_db.
  destruct (existsb mbs_opened (sel_mbs_all (upd_mbs_close d h side mood) h)) eqn:Ex.
  - right. split; [apply has_mb_sel; exists x; exact Hx|].
    split.
    { unfold not_crowded, sel_mbs_all, upd_mbs_close in *. cbn [mb_sides set_mb_sides].
      rewrite filter_map_length; [exact Hnc|exact Hkey]. }
    split.
    { exists (mkMbs (mbs_mbox r) false (mbs_side r) (mbs_added r) mood).
      split; [|split; reflexivity].
      unfold sel_mbs, upd_mbs_close in *. cbn [mb_sides set_mb_sides].
      pose proof (find_some _ _ Er) as [_ Hp].
      erewrite find_map_same;
        [|intros y; destruct (seqb (mbs_mbox y) h && seqb (mbs_side y) side) eqn:E;
          cbv beta; cbn [mbs_mbox mbs_side]; first [exact E|reflexivity|rewrite E; reflexivity]|exact Er].
      cbv beta. rewrite Hp. reflexivity. }
    apply existsb_exists in Ex. destruct Ex as (r' & Hr' & Ho).
    apply sel_mbs_all_In in Hr'. exists r'. tauto.
  - left. intros [r0 [Hr0 E0]]. cbn [mailboxes] in Hr0. apply filter_In in Hr0.
    destruct Hr0 as [_ Hf]. rewrite E0, seqb_refl in Hf. discriminate.
Qed.

Lemma close_done_db d a m side mood t :
  DbInv d -> close_done d a m side mood ->
  open_body d a m side t = TxOk tt (open_db d a m side t) /\
  (List.length (sel_mbs_all (open_db d a m side t) m) <= 2)%nat /\
  close_db (open_db d a m side t) a m side mood = upd_touch d m t /\
  (close_deletes (open_db d a m side t) a m side mood = true -> ~ mb_alive d m).
Proof.
  intros Hdb [Hgone|(Hmb & Hnc & (r & Hr & Ho & Hmd) & (r' & Hr' & Hm' & Ho'))].
  - split; [apply open_body_absent; exact Hgone|].
    split.
    { assert (Hs : forall x, In x (mb_sides d) -> seqb (mbs_mbox x) m = false).
      { intros x Hx. apply seqb_neq. intros E.
        destruct (inv_fk_mbs d Hdb x Hx) as [y [Hy Ey]]. apply Hgone. exists y. split; congruence. }
      unfold open_db, sel_mbs_all. cbn [mb_sides].
      destruct (sel_mbs d m side).
      - rewrite (dup_filter_nil _ _ Hs). cbn. lia.
      - rewrite filter_app, (dup_filter_nil _ _ Hs). cbn [filter app mbs_mbox].
        destruct (seqb m m); cbn; lia. }
    split; [rewrite (reclose_gone d a m side t mood Hdb Hgone), (upd_touch_absent _ _ _ Hgone); reflexivity|].
    intros _. exact Hgone.
  - assert (Eo : open_db d a m side t = upd_touch d m t) by (apply open_db_touch; eauto).
    split; [apply open_body_has; exact Hmb|]. rewrite Eo.
    split; [exact Hnc|].
    assert (Hx : exists x, sel_mb (upd_touch d m t) a m = Some x).
    { apply has_mb_sel, has_mb_upd_touch. exact Hmb. }
    destruct Hx as [x Hx].
    assert (Hr1 : sel_mbs (upd_touch d m t) m side = Some r) by exact Hr.
    destruct (sel_mbs_some _ _ _ _ Hr) as (Hrin & Hrm & Hrs).
    assert (Eu : upd_mbs_close (upd_touch d m t) m side mood = upd_touch d m t).
    { apply upd_mbs_close_same. intros y Hy E1 E2.
      assert (y = r) by (apply (mbs_unique d); auto; congruence). subst y. auto. }
    assert (Ex : existsb mbs_opened (sel_mbs_all (upd_touch d m t) m) = true).
    { apply existsb_exists. exists r'. split; [|exact Ho']. apply sel_mbs_all_In. auto. }
    split.
    + rewrite close_db_unfold, Hx, Hr1, Eu. unfold close_del_db. rewrite Ex. reflexivity.
    + unfold close_deletes. rewrite Hx, Hr1, Eu, Ex. discriminate.
Qed.

Section WithConfig.
Variable cfg : config.

(** * The scaffold: connect, bind, (command), disconnect *)

Lemma step_connect s c :
  has_conn c s = false ->
  step cfg s (EB (EConnect c)) =
    (set_log (set_conns s (conns s ++ [(c, new_conn)])) [],
     mkObs true [LFrame c (FWelcome (welcome cfg)) (is_clean s) (now s)] None []).
Proof.
  intros H. unfold step.
  assert (H' : has_conn c (set_log s []) = false) by exact H.
  rewrite (welcome_first cfg c (set_log s []) H'). reflexivity.
Qed.

Lemma step_bind s c a side :
  lookup_conn c (conns s) = Some new_conn ->
  exists s' ob,
    step cfg s (EB (ECmd c (bind_cmd a side) no_oracle)) = (s', ob) /\
    chan_w s' = chan_w s /\ chan_c s' = chan_c s /\ subs s' = subs s /\
    conns s' = update_conn c (set_bound new_conn (Some (a, side))) (conns s) /\
    clk s' = clk s /\ log s' = [].
Proof.
  intros Hl. rewrite (step_cmd cfg s c (bind_cmd a side) no_oracle TBind new_conn Hl eq_refl).
  unfold dispatch, handle_bind. rewrite bind_get_conn. unfold conn_of.
  cbn [conns set_log]. rewrite Hl. cbn [c_bound new_conn bind_cmd m_appid m_side m_client_version].
  unfold log_client_version.
  destruct (usage_on cfg); eexists; eexists; (split; [reflexivity|]); cbn; auto 10.
Qed.

Lemma on_close_eval c s cs :
  lookup_conn c (conns s) = Some cs ->
  on_close c s =
  Ok tt (match c_mailbox cs, c_bound cs with
         | Some m, Some (a, _) =>
             if c_listening cs
             then set_subs s (filter (fun p => negb (sub_is a m c p)) (subs s)) else s
         | _, _ => s
         end).
Proof.
  intros Hl. unfold on_close. rewrite bind_get_conn. unfold conn_of. rewrite Hl.
  destruct (c_mailbox cs) as [m|]; [|reflexivity].
  destruct (c_bound cs) as [[a sd]|]; [|reflexivity].
  destruct (c_listening cs); reflexivity.
Qed.

Lemma step_disconnect s c l cs :
  conns s = l ++ [(c, cs)] -> lookup_conn c l = None ->
  exists s' ob,
    step cfg s (EB (EDisconnect c)) = (s', ob) /\
    chan_w s' = chan_w s /\ chan_c s' = chan_c s /\ conns s' = l /\ clk s' = clk s /\
    subs s' = match c_mailbox cs, c_bound cs with
              | Some m, Some (a, _) =>
                  if c_listening cs
                  then filter (fun p => negb (sub_is a m c p)) (subs s) else subs s
              | _, _ => subs s
              end.
Proof.
  intros Hc Hl.
  assert (Hlk : lookup_conn c (conns (set_log s [])) = Some cs).
  { cbn [conns set_log]. rewrite Hc. apply dup_lookup_snoc. exact Hl. }
  unfold step, step_b, has_conn. rewrite Hlk. unfold drop_conn.
  rewrite (on_close_eval c (set_log s []) cs Hlk).
  assert (Hrm : remove_conn c (conns s) = l).
  { rewrite Hc. apply dup_remove_snoc. exact Hl. }
  eexists; eexists; (split; [reflexivity|]).
  destruct (c_mailbox cs) as [m|]; [destruct (c_bound cs) as [[a sd]|]; [destruct (c_listening cs)|]|];
    unfold clk; cbn [chan_w chan_c conns subs set_log set_conns set_subs now timer_start next_due];
    rewrite Hrm; auto 10.
Qed.

(** the run of the four events, reduced to the command step and the disconnect *)
Lemma dup_run s c' a side cmd o :
  has_conn c' s = false ->
  lookup_conn c' (conns s) = None /\
  exists s2 o1 o2,
    chan_w s2 = chan_w s /\ chan_c s2 = chan_c s /\ subs s2 = subs s /\
    conns s2 = conns s ++ [(c', set_bound new_conn (Some (a, side)))] /\
    clk s2 = clk s /\ log s2 = [] /\
    forall s3 o3 s4 o4,
      step cfg s2 (EB (ECmd c' cmd o)) = (s3, o3) ->
      step cfg s3 (EB (EDisconnect c')) = (s4, o4) ->
      run cfg s (dup_events c' a side cmd o) = (s4, [o1; o2; o3; o4]).
Proof.
  intros Hno.
  assert (Hl : lookup_conn c' (conns s) = None).
  { unfold has_conn in Hno. destruct (lookup_conn c' (conns s)); [discriminate|reflexivity]. }
  split; [exact Hl|].
  set (s1 := set_log (set_conns s (conns s ++ [(c', new_conn)])) []).
  assert (Hl1 : lookup_conn c' (conns s1) = Some new_conn).
  { unfold s1. cbn [conns set_log set_conns]. apply dup_lookup_snoc. exact Hl. }
  destruct (step_bind s1 c' a side Hl1) as (s2 & o2 & E2 & Hw & Hc & Hs & Hcn & Hk & Hlog).
  exists s2, (mkObs true [LFrame c' (FWelcome (welcome cfg)) (is_clean s) (now s)] None []), o2.
  split; [exact Hw|]. split; [exact Hc|]. split; [exact Hs|].
  split. { rewrite Hcn. unfold s1. cbn [conns set_log set_conns]. apply dup_update_snoc. exact Hl. }
  split; [exact Hk|]. split; [exact Hlog|].
  intros s3 o3 s4 o4 E3 E4. unfold dup_events. cbn [run].
  rewrite (step_connect s c' Hno). fold s1. rewrite E2, E3, E4. reflexivity.
Qed.

(** * claim *)

Lemma claim_body_done d a n side t draw np r1 :
  sel_np d a n = Some np -> sel_nps d (np_id np) side = Some r1 -> nps_claimed r1 = true ->
  claim_body d a n side t draw = TxOk (np_id np, np_mbox np) d.
Proof.
  intros H1 H2 H3. unfold claim_body, claim_side_body. rewrite H1, H2, H3. reflexivity.
Qed.

Lemma claim_nameplate_eval a n side when draw s npid mbox d1 d2 :
  claim_body (chan_w s) a n side when draw = TxOk (npid, mbox) d1 ->
  open_body d1 a mbox side when = TxOk tt d2 ->
  claim_nameplate a n side when draw s =
    if ((2 <? List.length (sel_mbs_all d2 mbox)) || (2 <? List.length (sel_nps_all d2 npid)))%nat
    then Exn XCrowded (claimed_state s d1 d2) else Ok mbox (claimed_state s d1 d2).
Proof.
  intros H1 H2. unfold claim_nameplate.
  rewrite (bind_ok _ _ s (npid, mbox) (set_chan_w s d1)) by (unfold tx; rewrite H1; reflexivity).
  cbv beta iota.
  erewrite bind_ok by reflexivity.
  unfold bind at 1. rewrite open_mailbox_eval. st_simpl. rewrite H2. cbv zeta.
  destruct (2 <? List.length (sel_mbs_all d2 mbox))%nat; [reflexivity|].
  cbn [orb]. unfold bind, q. cbn [chan_w].
  destruct (2 <? List.length (sel_nps_all d2 npid))%nat; reflexivity.
Qed.

Lemma handle_claim_eval c a side msg o n s cs npid mbox d1 d2 :
  lookup_conn c (conns s) = Some cs -> m_nameplate msg = Some n -> c_did_claim cs = false ->
  claim_body (chan_w s) a n side (now s) (o_draw o) = TxOk (npid, mbox) d1 ->
  open_body d1 a mbox side (now s) = TxOk tt d2 ->
  handle_claim c a side msg o s =
    if ((2 <? List.length (sel_mbs_all d2 mbox)) || (2 <? List.length (sel_nps_all d2 npid)))%nat
    then Exn (XErr ErrCrowded) (claimed_state (claim_conn s c cs n) d1 d2)
    else Ok tt (set_log (claimed_state (claim_conn s c cs n) d1 d2)
                  (LFrame c (FClaimed mbox) (is_clean (claimed_state (claim_conn s c cs n) d1 d2)) (now (claimed_state (claim_conn s c cs n) d1 d2)) ::
                   log (claimed_state (claim_conn s c cs n) d1 d2))).
Proof.
  intros Hl Hn Hdc H1 H2. unfold handle_claim. rewrite Hn.
  rewrite bind_get_conn. unfold conn_of. rewrite Hl, Hdc.
  rewrite (bind_ok _ _ s tt (claim_conn s c cs n)) by reflexivity.
  rewrite bind_get.
  unfold bind, catch_crowded_reclaimed, try_catch.
  rewrite (claim_nameplate_eval a n side (now (claim_conn s c cs n)) (o_draw o)
             (claim_conn s c cs n) npid mbox d1 d2 H1 H2).
  destruct ((2 <? List.length (sel_mbs_all d2 mbox)) || (2 <? List.length (sel_nps_all d2 npid)))%nat;
    reflexivity.
Qed.

Lemma claim_step_done s c cs a side n cmd o :
  DbInv (chan_w s) -> lookup_conn c (conns s) = Some cs -> c_bound cs = Some (a, side) ->
  c_did_claim cs = false ->
  m_type cmd = Some TClaim -> m_nameplate cmd = Some n ->
  claim_done (chan_w s) a n side (now s) ->
  exists np s3 o3 cs3,
    sel_np (chan_w s) a n = Some np /\
    step cfg s (EB (ECmd c cmd o)) = (s3, o3) /\
    chan_w s3 = chan_w s /\ chan_c s3 = chan_w s /\ subs s3 = subs s /\
    conns s3 = update_conn c cs3 (conns s) /\ c_mailbox cs3 = c_mailbox cs /\ clk s3 = clk s /\
    frames_of (o_log o3) = [(c, FAck (m_id cmd)); (c, FClaimed (np_mbox np))] /\ o_exc o3 = None.
Proof.
  intros Hdb Hl Hb Hdc Ht Hn (np & r1 & r2 & Hnp & Hr1 & Hcl & Hn2 & Hr2 & Hnc & Hst).
  unfold not_crowded in Hnc.
  destruct (sel_np_some _ _ _ _ Hnp) as (Hin & Ha & Hnm).
  assert (Hmb : has_mb (chan_w s) a (np_mbox np)).
  { rewrite <- Ha. exact (inv_fk_np _ Hdb np Hin). }
  assert (Eod : open_db (chan_w s) a (np_mbox np) side (now s) = chan_w s).
  { rewrite open_db_touch; [apply upd_touch_same; exact Hst|exact Hmb|eauto]. }
  assert (Eob : open_body (chan_w s) a (np_mbox np) side (now s) = TxOk tt (chan_w s)).
  { rewrite (open_body_has _ _ _ _ _ Hmb), Eod. reflexivity. }
  pose proof (claim_body_done (chan_w s) a n side (now s) (o_draw o) np r1 Hnp Hr1 Hcl) as Ecb.
  rewrite (step_cmd cfg s c cmd o TClaim cs Hl Ht).
  set (s0 := set_log s [LFrame c (FAck (m_id cmd)) (is_clean s) (now s)]).
  rewrite (dispatch_bound cfg c TClaim cmd o s0 a side)
    by (try discriminate; unfold conn_of, s0; cbn [conns set_log]; rewrite Hl; exact Hb).
  rewrite (handle_claim_eval c a side cmd o n s0 cs (np_id np) (np_mbox np) (chan_w s) (chan_w s)
             Hl Hn Hdc Ecb Eob).
  rewrite (le2_ltb _ Hnc), (le2_ltb _ Hn2). cbn [orb].
  exists np. eexists. eexists. eexists.
  split; [exact Hnp|]. split; [reflexivity|].
  unfold clk.
  cbn [chan_w chan_c subs conns now timer_start next_due log set_log claimed_state claim_conn
       set_conns o_log o_exc s0].
  split; [reflexivity|]. split; [reflexivity|]. split; [reflexivity|].
  split; [reflexivity|]. split; [reflexivity|]. split; [reflexivity|].
  split; reflexivity.
Qed.


(** * release *)

Lemma release_nameplate_noop a n side when s :
  DbInv (chan_w s) -> chan_c s = chan_w s -> release_done (chan_w s) a n side ->
  exists s', release_nameplate cfg a n side when s = Ok tt s' /\
    chan_w s' = chan_w s /\ chan_c s' = chan_w s /\ subs s' = subs s /\ conns s' = conns s /\
    clk s' = clk s /\ lframes (log s') = lframes (log s).
Proof.
  intros Hdb Hc Hdone. unfold release_done in Hdone. unfold release_nameplate.
  destruct (sel_np (chan_w s) a n) as [np|] eqn:Enp.
  - destruct (sel_nps (chan_w s) (np_id np) side) as [r|] eqn:Er.
    + destruct Hdone as (Hcl & r' & Hr' & Hid' & Hcl').
      destruct (sel_nps_some _ _ _ _ Er) as (Hr & Hid & Hsd).
      assert (Eid : upd_nps_release (chan_w s) (np_id np) side = chan_w s).
      { apply upd_nps_release_same. intros x Hx E1 E2.
        assert (x = r) by (apply (nps_unique (chan_w s)); auto; congruence).
        subst x. exact Hcl. }
      rewrite (bind_ok _ _ s (Some (np_id np)) s).
      2:{ unfold tx, release_mark_body. rewrite Enp, Er, Eid. rewrite set_chan_w_same. reflexivity. }
      cbv beta iota.
      erewrite bind_ok by reflexivity.
      assert (Hex : existsb nps_claimed (sel_nps_all (chan_w s) (np_id np)) = true).
      { apply existsb_exists. exists r'. split; [|exact Hcl']. apply sel_nps_all_In. auto. }
      erewrite bind_ok.
      2:{ unfold tx, release_delete_body. st_simpl. rewrite Hex. reflexivity. }
      cbv beta iota. eexists. split; [reflexivity|]. unfold clk. st_simpl.
      rewrite lframes_commit_chan. auto 10.
    + rewrite (bind_ok _ _ s None s).
      2:{ unfold tx, release_mark_body. rewrite Enp, Er. rewrite set_chan_w_same. reflexivity. }
      cbv beta iota. eexists. split; [reflexivity|]. auto 10.
  - rewrite (bind_ok _ _ s None s).
    2:{ unfold tx, release_mark_body. rewrite Enp. rewrite set_chan_w_same. reflexivity. }
    cbv beta iota. eexists. split; [reflexivity|]. auto 10.
Qed.

Lemma lframes_one c f b tx : lframes [LFrame c f b tx] = [(c, f)].
Proof. reflexivity. Qed.

Lemma release_step_done s c cs a side n cmd o :
  DbInv (chan_w s) -> chan_c s = chan_w s ->
  lookup_conn c (conns s) = Some cs -> c_bound cs = Some (a, side) ->
  c_did_release cs = false -> c_nameplate_id cs = None ->
  m_type cmd = Some TRelease -> m_nameplate cmd = Some n ->
  release_done (chan_w s) a n side ->
  exists s3 o3 cs3,
    step cfg s (EB (ECmd c cmd o)) = (s3, o3) /\
    chan_w s3 = chan_w s /\ chan_c s3 = chan_w s /\ subs s3 = subs s /\
    conns s3 = update_conn c cs3 (conns s) /\ c_mailbox cs3 = c_mailbox cs /\ clk s3 = clk s /\
    frames_of (o_log o3) = [(c, FAck (m_id cmd)); (c, FReleased)] /\ o_exc o3 = None.
Proof.
  intros Hdb Hc Hl Hb Hdr Hni Ht Hn Hdone.
  rewrite (step_cmd cfg s c cmd o TRelease cs Hl Ht).
  set (s0 := set_log s [LFrame c (FAck (m_id cmd)) (is_clean s) (now s)]).
  rewrite (dispatch_bound cfg c TRelease cmd o s0 a side)
    by (try discriminate; unfold conn_of, s0; cbn [conns set_log]; rewrite Hl; exact Hb).
  unfold handle_release. rewrite bind_get_conn. unfold conn_of.
  change (conns s0) with (conns s). rewrite Hl, Hdr, Hn, Hni. rewrite bind_ret.
  set (s1 := set_conns s0 (update_conn c (set_did_release cs true) (conns s0))).
  rewrite (bind_ok _ _ s0 tt s1) by reflexivity.
  rewrite bind_get.
  destruct (release_nameplate_noop a n side (now s1) s1 Hdb Hc Hdone)
    as (s2 & E2 & Hw2 & Hc2 & Hs2 & Hcn2 & Hk2 & Hf2).
  rewrite (bind_ok _ _ s1 tt s2 E2). unfold send.
  eexists. eexists. exists (set_did_release cs true).
  split; [reflexivity|]. st_simpl. cbn [o_log o_exc].
  split; [exact Hw2|]. split; [exact Hc2|]. split; [exact Hs2|].
  split; [exact Hcn2|]. split; [reflexivity|]. split; [exact Hk2|].
  split; [|reflexivity].
  change (frames_of (rev (LFrame c FReleased (is_clean s2) (now s2) :: log s2)))
    with (lframes (LFrame c FReleased (is_clean s2) (now s2) :: log s2)).
  rewrite lframes_frame, Hf2. reflexivity.
Qed.

(** * open *)

Lemma open_done_db d a m side t :
  open_done d a m side t ->
  open_body d a m side t = TxOk tt d /\ (2 <? List.length (sel_mbs_all d m))%nat = false.
Proof.
  intros (Hmb & Hr & Hnc & Hst). split; [|apply le2_ltb; exact Hnc].
  rewrite (open_body_has _ _ _ _ _ Hmb), (open_db_touch _ _ _ _ _ Hmb Hr), (upd_touch_same _ _ _ Hst).
  reflexivity.
Qed.

Lemma open_step_done s c cs a side m cmd o :
  lookup_conn c (conns s) = Some cs -> c_bound cs = Some (a, side) -> c_mailbox cs = None ->
  m_type cmd = Some TOpen -> m_mailbox cmd = Some m ->
  open_done (chan_w s) a m side (now s) ->
  existsb (sub_is a m c) (subs s) = false ->
  exists s3 o3 cs3,
    step cfg s (EB (ECmd c cmd o)) = (s3, o3) /\
    chan_w s3 = chan_w s /\ chan_c s3 = chan_w s /\ subs s3 = subs s ++ [(a, m, c)] /\
    conns s3 = update_conn c cs3 (conns s) /\
    c_mailbox cs3 = Some m /\ c_bound cs3 = Some (a, side) /\ c_listening cs3 = true /\
    clk s3 = clk s /\
    frames_of (o_log o3) =
      (c, FAck (m_id cmd)) ::
      map (fun r => (c, msg_frame r)) (msg_sort (sel_msgs (chan_w s) a m)) /\
    o_exc o3 = None.
Proof.
  intros Hl Hb Hmb Ht Hm Hdone Hns.
  destruct (open_done_db _ _ _ _ _ Hdone) as [Eob Ecr].
  rewrite (step_cmd cfg s c cmd o TOpen cs Hl Ht).
  set (s0 := set_log s [LFrame c (FAck (m_id cmd)) (is_clean s) (now s)]).
  rewrite (dispatch_bound cfg c TOpen cmd o s0 a side)
    by (try discriminate; unfold conn_of, s0; cbn [conns set_log]; rewrite Hl; exact Hb).
  unfold handle_open. rewrite bind_get_conn. unfold conn_of.
  change (conns s0) with (conns s). rewrite Hl, Hmb, Hm.
  set (cs1 := set_mailbox_id cs (Some m)).
  set (s1 := set_conns s0 (update_conn c cs1 (conns s0))).
  rewrite (bind_ok _ _ s0 tt s1) by reflexivity.
  rewrite bind_get.
  set (d := chan_w s).
  set (s2 := mkState d d (usage_w s1) (usage_c s1) (subs s1) (conns s1) (now s1) (boot s1)
                     (timer_start s1) (next_due s1) (LCommitChan d :: LCommitChan d :: log s1)).
  assert (E2 : catch_crowded (open_mailbox a m side (now s1)) s1 = Ok tt s2).
  { unfold catch_crowded, try_catch. rewrite open_mailbox_eval.
    change (chan_w s1) with d. change (now s1) with (now s). unfold d at 1. rewrite Eob.
    cbv zeta. rewrite Ecr. reflexivity. }
  rewrite (bind_ok _ _ s1 tt s2 E2).
  assert (Hl1 : lookup_conn c (conns s1) = Some cs1).
  { unfold s1. cbn [conns set_conns]. eapply lookup_upd_same. exact Hl. }
  rewrite bind_get_conn. unfold conn_of. change (conns s2) with (conns s1). rewrite Hl1.
  set (cs2 := set_listening (set_mailbox cs1 (Some m)) true).
  set (s3 := set_conns s2 (update_conn c cs2 (conns s2))).
  rewrite (bind_ok _ _ s2 tt s3) by reflexivity.
  set (s4 := set_subs s3 (subs s3 ++ [(a, m, c)])).
  assert (Hsub : add_sub a m c s3 = Ok tt s4).
  { unfold add_sub. change (subs s3) with (subs s). rewrite Hns. reflexivity. }
  rewrite (bind_ok _ _ s3 tt s4 Hsub).
  rewrite (bind_ok _ _ s4 (msg_sort (sel_msgs d a m)) s4) by reflexivity.
  rewrite send_each_eval.
  eexists. eexists. exists cs2.
  split; [reflexivity|]. unfold clk. st_simpl. cbn [o_log o_exc].
  split; [reflexivity|]. split; [reflexivity|]. split; [reflexivity|].
  split. { unfold s4, s3, s2, s1, s0. st_simpl. rewrite dup_update_update. reflexivity. }
  split; [reflexivity|]. split; [exact Hb|]. split; [reflexivity|]. split; [reflexivity|].
  split; [|reflexivity].
  rewrite rev_app_distr, rev_involutive.
  unfold s4, s3, s2, s1, s0. st_simpl. cbn [rev app]. cbn [frames_of app].
  rewrite frames_of_map_rows. reflexivity.
Qed.

(** * close *)

Lemma mailbox_close_clk a h side mood when s :
  wp (mailbox_close cfg a h side mood when) (fun _ s' => clk s' = clk s) (fun _ _ => True) s.
Proof.
  unfold mailbox_close. wp_step. wp_step.
  destruct (close_mark_body (chan_w s) a h side mood) as [[f d1]|]; cbv beta iota;
    [|wp_step; reflexivity].
  wp_step. wp_step. wp_step. wp_step. st_simpl.
  destruct (close_delete_body cfg d1 a h f when) as [[[u1 u2]|] d2|e d2]; cbv beta iota;
    [|wp_step; reflexivity|exact I].
  wp_step.
  destruct (usage_on cfg).
  - unfold write_usage. wp_step. wp_step. wp_step. wp_step. wp_step.
    apply wp_stop_listeners. reflexivity.
  - wp_step. wp_step. wp_step. apply wp_stop_listeners. reflexivity.
Qed.

Lemma close_rest_quiet c a side mood held when s cs :
  DbInv (chan_w s) -> chan_c s = chan_w s -> lookup_conn c (conns s) = Some cs ->
  (close_deletes (chan_w s) a held side mood = true -> forall c0, ~ In (a, held, c0) (subs s)) ->
  exists s', close_rest cfg c a side mood held when s = Ok tt s' /\
    chan_w s' = close_db (chan_w s) a held side mood /\ chan_c s' = chan_w s' /\
    subs s' = subs s /\
    conns s' = update_conn c (set_mailbox (set_did_close cs true) None) (conns s) /\
    clk s' = clk s /\
    lframes (log s') = lframes (log s) ++ [(c, FClosed)].
Proof.
  intros Hinv Hcl Hl Hq. unfold close_rest.
  rewrite bind_get_conn. unfold conn_of. rewrite Hl.
  set (cs3 := set_did_close cs true).
  set (s1 := set_conns s (update_conn c cs3 (conns s))).
  rewrite (bind_ok (set_conn c cs3) _ s tt s1) by reflexivity.
  destruct (mailbox_close_run cfg a held side mood when s1 Hinv)
    as [s2 [E2 [Hw [Hc [Hsubs [Hconns Hfr]]]]]].
  pose proof (mailbox_close_clk a held side mood when s1) as Hk. unfold wp in Hk. rewrite E2 in Hk.
  change (chan_w s1) with (chan_w s) in *. change (chan_c s1) with (chan_c s) in *.
  change (subs s1) with (subs s) in *. change (log s1) with (log s) in *.
  change (clk s1) with (clk s) in Hk.
  assert (Hsubs' : subs s2 = subs s).
  { rewrite Hsubs. destruct (close_deletes (chan_w s) a held side mood) eqn:Ed; [|reflexivity].
    apply cl_filter_true. intros [[a' m'] c0] Hin. cbn [fst snd].
    destruct (seqb a' a && seqb m' held) eqn:E; [|reflexivity].
    apply andb_true_iff in E. destruct E as [E1 E2']. apply seqb_eq in E1. apply seqb_eq in E2'.
    subst. elim (Hq eq_refl c0 Hin). }
  assert (Hconns' : conns s2 = conns s1).
  { rewrite Hconns. destruct (close_deletes (chan_w s) a held side mood) eqn:Ed; [|reflexivity].
    apply cl_map_id_in. intros p _.
    destruct (existsb (Nat.eqb (fst p)) (subs_of a held (subs s))) eqn:E; [|reflexivity].
    apply existsb_exists in E. destruct E as [c0 [Hc0 _]]. apply cl_In_subs_of in Hc0.
    elim (Hq eq_refl c0 Hc0). }
  rewrite (bind_ok _ _ s1 tt s2 E2).
  rewrite bind_get_conn. unfold conn_of. rewrite Hconns'.
  assert (Hl1 : lookup_conn c (conns s1) = Some cs3).
  { unfold s1. cbn [conns set_conns]. apply (cl_lookup_update_same c cs3 _ cs Hl). }
  rewrite Hl1.
  eexists. split; [reflexivity|].
  st_simpl.
  split; [exact Hw|]. split; [apply Hc; exact Hcl|]. split; [exact Hsubs'|].
  split. { rewrite Hconns'. unfold s1. cbn [conns set_conns]. apply dup_update_update. }
  split; [exact Hk|].
  rewrite lframes_frame, Hfr. reflexivity.
Qed.

Lemma close_step_fresh s c cs a side m cmd o :
  DbInv (chan_w s) ->
  lookup_conn c (conns s) = Some cs -> c_bound cs = Some (a, side) ->
  c_did_close cs = false -> c_mailbox_id cs = None -> c_mailbox cs = None ->
  c_listening cs = false ->
  m_type cmd = Some TClose -> m_mailbox cmd = Some m ->
  open_body (chan_w s) a m side (now s) = TxOk tt (open_db (chan_w s) a m side (now s)) ->
  (List.length (sel_mbs_all (open_db (chan_w s) a m side (now s)) m) <= 2)%nat ->
  (close_deletes (open_db (chan_w s) a m side (now s)) a m side (m_mood cmd) = true ->
   forall c0, ~ In (a, m, c0) (subs s)) ->
  exists s3 o3 cs3,
    step cfg s (EB (ECmd c cmd o)) = (s3, o3) /\
    chan_w s3 = close_db (open_db (chan_w s) a m side (now s)) a m side (m_mood cmd) /\
    chan_c s3 = chan_w s3 /\ subs s3 = subs s /\
    conns s3 = update_conn c cs3 (conns s) /\ c_mailbox cs3 = None /\ clk s3 = clk s /\
    frames_of (o_log o3) = [(c, FAck (m_id cmd)); (c, FClosed)] /\ o_exc o3 = None.
Proof.
  intros Hdb Hl Hb Hdc Hmi Hmb Hlis Ht Hm Hob Hnc Hq.
  set (d1 := open_db (chan_w s) a m side (now s)) in *.
  assert (Hdb1 : DbInv d1).
  { pose proof (open_body_ok (chan_w s) a m side (now s) Hdb) as H. rewrite Hob in H. exact (proj1 H). }
  assert (Hnm : name_mismatch (m_mailbox cmd) (c_mailbox_id cs) = false).
  { unfold name_mismatch. rewrite Hm, Hmi. reflexivity. }
  assert (Hcm : cmd_mbox cs cmd = Some m) by (unfold cmd_mbox; rewrite Hm; reflexivity).
  rewrite (step_cmd cfg s c cmd o TClose cs Hl Ht).
  set (s0 := set_log s [LFrame c (FAck (m_id cmd)) (is_clean s) (now s)]).
  rewrite (dispatch_bound cfg c TClose cmd o s0 a side)
    by (try discriminate; unfold conn_of, s0; cbn [conns set_log]; rewrite Hl; exact Hb).
  rewrite (handle_close_fresh_ok cfg c a side cmd s0 cs m d1 Hl Hdc Hnm Hcm Hmb Hlis Hob).
  cbv zeta. rewrite (le2_ltb _ Hnc).
  set (s2 := mkState d1 d1 (usage_w s0) (usage_c s0) (subs s0) (conns s0) (now s0) (boot s0)
                     (timer_start s0) (next_due s0) (LCommitChan d1 :: LCommitChan d1 :: log s0)).
  set (s3 := set_conns s2 (update_conn c (set_mailbox cs (Some m)) (conns s0))).
  destruct (close_rest_quiet c a side (m_mood cmd) m (now s0) s3 (set_mailbox cs (Some m)))
    as (s' & E & Hw & Hc & Hs & Hcn & Hk & Hfr).
  { exact Hdb1. }
  { reflexivity. }
  { unfold s3. cbn [conns set_conns]. apply (cl_lookup_update_same c _ _ cs Hl). }
  { exact Hq. }
  rewrite E. eexists. eexists. eexists.
  split; [reflexivity|]. st_simpl. cbn [o_log o_exc].
  split; [exact Hw|]. split; [exact Hc|]. split; [exact Hs|].
  split. { rewrite Hcn. unfold s3. cbn [conns set_conns set_log s0 s2]. apply dup_update_update. }
  split; [reflexivity|]. split; [exact Hk|]. split; [|reflexivity].
  change (frames_of (rev (log s'))) with (lframes (log s')). rewrite Hfr.
  unfold s3, s2, s0. st_simpl. reflexivity.
Qed.

(** * the original command establishes the precondition of its duplicate *)
Theorem claim_establishes s c cs a side msg o n mbox :
  SInv s -> log s = [] ->
  lookup_conn c (conns s) = Some cs -> c_bound cs = Some (a, side) ->
  m_type msg = Some TClaim -> erroneous cs msg = false -> m_nameplate msg = Some n ->
  let '(s', ob) := step cfg s (EB (ECmd c msg o)) in
  In (c, FClaimed mbox) (frames_of (o_log ob)) ->
  claim_done (chan_w s') a n side (now s) /\
  exists np, sel_np (chan_w s') a n = Some np /\ np_mbox np = mbox.
Proof.
  intros HS Hlog Hlk Hb Ht Herr Hn.
  destruct HS as [Hdb [Hcw Hcu] _ _ _ _].
  unfold erroneous in Herr. rewrite Ht, Hb, Hn in Herr.
  rewrite (step_cmd cfg s c msg o TClaim cs Hlk Ht).
  set (s1 := set_log s [LFrame c (FAck (m_id msg)) (is_clean s) (now s)]).
  assert (Hco : conn_of s1 c = cs) by (unfold conn_of; cbn; rewrite Hlk; reflexivity).
  rewrite (dispatch_bound cfg c TClaim msg o s1 a side); try discriminate;
    [|rewrite Hco; exact Hb].
  pose proof (claim_body_ok (chan_w s) a n side (now s) (o_draw o) Hdb) as Hok.
  pose proof (claim_body_extras (chan_w s) a n side (now s) (o_draw o) Hdb) as Hex.
  destruct (claim_body (chan_w s) a n side (now s) (o_draw o)) as [[npid mbox'] d1|e d1] eqn:Ecb.
  - destruct Hok as (Hdb1 & _ & Hmb1 & np & Hnp & Hid & Hmx).
    destruct Hex as (_ & _ & np' & Hnp' & _ & _ & Hh).
    subst npid mbox'.
    pose proof (open_body_has d1 a (np_mbox np) side (now s) Hmb1) as Eob.
    rewrite (handle_claim_eval c a side msg o n s1 cs (np_id np) (np_mbox np) d1 _ Hlk Hn Herr Ecb Eob).
    set (d2 := open_db d1 a (np_mbox np) side (now s)).
    destruct (2 <? List.length (sel_mbs_all d2 (np_mbox np)))%nat eqn:E1; cbn [orb].
    { cbv beta iota. cbn [o_log log claimed_state claim_conn set_conns set_log s1 rev app frames_of In].
      intros [H|[H|[]]]; discriminate. }
    destruct (2 <? List.length (sel_nps_all d2 (np_id np)))%nat eqn:E2.
    { cbv beta iota. cbn [o_log log claimed_state claim_conn set_conns set_log s1 rev app frames_of In].
      intros [H|[H|[]]]; discriminate. }
    cbv beta iota. cbn [o_log log claimed_state claim_conn set_conns set_log s1 rev app frames_of In chan_w].
    intros [H|[H|[]]]; [discriminate|]. inversion H. subst mbox.
    apply Nat.ltb_ge in E1. apply Nat.ltb_ge in E2.
    split; [|exists np; split; [exact Hnp|reflexivity]].
    apply claim_done_intro; assumption.
  - destruct Hok as (-> & _).
    pose proof (handle_claim_fail_wp c a side msg o n s1 cs e Hlk Hn Herr Ecb) as W.
    apply wp_elim in W. destruct W as [(x & s' & _ & [])|(e' & s' & E & -> & ->)].
    rewrite E.
    destruct e; cbv beta iota;
      try rewrite (proj2 (proj2 (drop_conn_frame c (claim_conn s1 c cs n))));
      cbn [o_log log claim_conn set_conns set_log s1 rev app frames_of In];
      intros Hin; exfalso;
      repeat (destruct Hin as [Hin|Hin]; [discriminate|]); exact Hin.
Qed.

Theorem release_establishes s c cs a side msg o n :
  SInv s -> log s = [] ->
  lookup_conn c (conns s) = Some cs -> c_bound cs = Some (a, side) ->
  m_type msg = Some TRelease -> erroneous cs msg = false -> cmd_nameplate cs msg = Some n ->
  let '(s', ob) := step cfg s (EB (ECmd c msg o)) in
  release_done (chan_w s') a n side.
Proof.
  intros HS Hlog Hlk Hb Ht Herr Hn.
  pose proof (release_effect cfg s c cs a side msg o n HS Hlog Hlk Hb Ht Herr Hn) as H.
  destruct (step cfg s (EB (ECmd c msg o))) as [s' ob]. cbv zeta in H.
  destruct H as (_ & _ & _ & _ & _ & _ & _ & _ & Hd).
  exact (release_done_after (chan_w s) (chan_w s') a n side (si_db s HS) Hd).
Qed.

Theorem open_establishes s c cs a side msg o m :
  SInv s -> log s = [] ->
  lookup_conn c (conns s) = Some cs -> c_bound cs = Some (a, side) ->
  m_type msg = Some TOpen -> erroneous cs msg = false -> m_mailbox msg = Some m ->
  let '(s', ob) := step cfg s (EB (ECmd c msg o)) in
  holds s' c a m -> open_done (chan_w s') a m side (now s).
Proof.
  intros Hinv Hlog Hc Hb Ht Herr Hm.
  assert (Hmb : c_mailbox cs = None).
  { unfold erroneous in Herr. rewrite Ht, Hb in Herr.
    destruct (c_mailbox cs); [discriminate|reflexivity]. }
  pose proof (on_message_open cfg s c cs a side msg o m Hinv Hlog Hc Hb Ht Hmb Hm) as H.
  cbv zeta in H.
  unfold step. rewrite (set_log_nil s Hlog). unfold step_b, has_conn. rewrite Hc.
  destruct (on_message cfg c msg o s) as [u s1|e s1].
  - cbv beta iota. intros Hh.
    destruct H as [Hw [_ [(_ & _ & _ & Hno)|(Hle & _ & _ & _)]]].
    + exfalso. apply Hno. exact Hh.
    + cbn [chan_w set_log]. rewrite Hw.
      split; [apply open_db_has_mb|]. split; [apply open_db_side|]. split; [exact Hle|].
      intros r Hr E. eapply open_db_stamp; eauto.
  - cbv beta iota. intros (cs0 & sd & Hl0 & _). exfalso. cbn [conns set_log] in Hl0.
    rewrite dup_lookup_drop in Hl0. discriminate.
Qed.

Theorem close_establishes s c cs a side msg o h :
  SInv s -> log s = [] ->
  lookup_conn c (conns s) = Some cs -> c_bound cs = Some (a, side) -> c_mailbox cs = Some h ->
  m_type msg = Some TClose -> erroneous cs msg = false ->
  sel_mbs (chan_w s) h side <> None -> not_crowded (chan_w s) h ->
  let '(s', ob) := step cfg s (EB (ECmd c msg o)) in
  close_done (chan_w s') a h side (m_mood msg).
Proof.
  intros Hinv Hlog Hl Hb Hmb Ht Herr Hsel Hnc.
  pose proof (close_held_effect cfg s c cs a side msg o h Hinv Hlog Hl Hb Hmb Ht Herr) as H.
  destruct (step cfg s (EB (ECmd c msg o))) as [s' ob]. cbv zeta in H.
  destruct H as (_ & _ & Hw & _). rewrite Hw.
  pose proof (si_conns s Hinv c cs Hl) as Hok. unfold conn_ok in Hok. rewrite Hmb in Hok.
  destruct Hok as (a0 & sd0 & Hb0 & _ & Hin). rewrite Hb in Hb0. inversion Hb0; subst a0 sd0.
  pose proof (si_subs s Hinv _ Hin) as Hsub. cbn in Hsub. destruct Hsub as [Hhas _].
  apply close_done_after; assumption.
Qed.

(** * the duplicate is a no-op with the same answer *)
Theorem claim_dup s c' a side n cmd o :
  SInv s -> log s = [] -> has_conn c' s = false ->
  m_type cmd = Some TClaim -> m_nameplate cmd = Some n ->
  claim_done (chan_w s) a n side (now s) ->
  let '(s2, obs) := run cfg s (dup_events c' a side cmd o) in
  same_channel s s2 /\
  exists np o1 o2 o3 o4, obs = [o1; o2; o3; o4] /\ sel_np (chan_w s) a n = Some np /\
    frames_of (o_log o3) = [(c', FAck (m_id cmd)); (c', FClaimed (np_mbox np))] /\
    o_exc o3 = None.
Proof.
  intros Hinv Hlog Hno Ht Hn Hdone.
  destruct (dup_run s c' a side cmd o Hno) as (Hl & s2 & o1 & o2 & Hw & Hc & Hs & Hcn & Hk & Hlg & Hrun).
  destruct (si_clean s Hinv) as [Hcl _].
  assert (Hl2 : lookup_conn c' (conns s2) = Some (set_bound new_conn (Some (a, side)))).
  { rewrite Hcn. apply dup_lookup_snoc. exact Hl. }
  assert (Hdb2 : DbInv (chan_w s2)) by (rewrite Hw; exact (si_db s Hinv)).
  assert (Hd2 : claim_done (chan_w s2) a n side (now s2)).
  { rewrite Hw. destruct (clk_inv _ _ Hk) as (-> & _). exact Hdone. }
  destruct (claim_step_done s2 c' _ a side n cmd o Hdb2 Hl2 eq_refl eq_refl Ht Hn Hd2)
    as (np & s3 & o3 & cs3 & Hnp & E3 & Hw3 & Hc3 & Hs3 & Hcn3 & Hmb3 & Hk3 & Hfr & Hex).
  rewrite Hcn, (dup_update_snoc _ _ _ _ Hl) in Hcn3.
  destruct (step_disconnect s3 c' (conns s) cs3 Hcn3 Hl) as (s4 & o4 & E4 & Hw4 & Hc4 & Hcn4 & Hk4 & Hs4).
  rewrite (Hrun s3 o3 s4 o4 E3 E4).
  rewrite Hmb3 in Hs4. cbn [c_mailbox set_bound new_conn] in Hs4.
  split.
  - unfold same_channel. rewrite Hk3, Hk in Hk4. apply clk_inv in Hk4.
    destruct Hk4 as (K1 & K2 & K3).
    repeat split; try congruence.
  - exists np, o1, o2, o3, o4. rewrite Hw in Hnp. auto.
Qed.

Theorem release_dup s c' a side n cmd o :
  SInv s -> log s = [] -> has_conn c' s = false ->
  m_type cmd = Some TRelease -> m_nameplate cmd = Some n ->
  release_done (chan_w s) a n side ->
  let '(s2, obs) := run cfg s (dup_events c' a side cmd o) in
  same_channel s s2 /\
  exists o1 o2 o3 o4, obs = [o1; o2; o3; o4] /\
    frames_of (o_log o3) = [(c', FAck (m_id cmd)); (c', FReleased)] /\ o_exc o3 = None.
Proof.
  intros Hinv Hlog Hno Ht Hn Hdone.
  destruct (dup_run s c' a side cmd o Hno) as (Hl & s2 & o1 & o2 & Hw & Hc & Hs & Hcn & Hk & Hlg & Hrun).
  destruct (si_clean s Hinv) as [Hcl _].
  assert (Hl2 : lookup_conn c' (conns s2) = Some (set_bound new_conn (Some (a, side)))).
  { rewrite Hcn. apply dup_lookup_snoc. exact Hl. }
  assert (Hdb2 : DbInv (chan_w s2)) by (rewrite Hw; exact (si_db s Hinv)).
  assert (Hcc2 : chan_c s2 = chan_w s2) by congruence.
  assert (Hd2 : release_done (chan_w s2) a n side) by (rewrite Hw; exact Hdone).
  destruct (release_step_done s2 c' _ a side n cmd o Hdb2 Hcc2 Hl2 eq_refl eq_refl eq_refl Ht Hn Hd2)
    as (s3 & o3 & cs3 & E3 & Hw3 & Hc3 & Hs3 & Hcn3 & Hmb3 & Hk3 & Hfr & Hex).
  rewrite Hcn, (dup_update_snoc _ _ _ _ Hl) in Hcn3.
  destruct (step_disconnect s3 c' (conns s) cs3 Hcn3 Hl) as (s4 & o4 & E4 & Hw4 & Hc4 & Hcn4 & Hk4 & Hs4).
  rewrite (Hrun s3 o3 s4 o4 E3 E4).
  rewrite Hmb3 in Hs4. cbn [c_mailbox set_bound new_conn] in Hs4.
  split.
  - unfold same_channel. rewrite Hk3, Hk in Hk4. apply clk_inv in Hk4.
    destruct Hk4 as (K1 & K2 & K3).
    repeat split; congruence.
  - exists o1, o2, o3, o4. auto.
Qed.

Theorem open_dup s c' a side m cmd o :
  SInv s -> log s = [] -> has_conn c' s = false ->
  m_type cmd = Some TOpen -> m_mailbox cmd = Some m ->
  open_done (chan_w s) a m side (now s) ->
  let '(s2, obs) := run cfg s (dup_events c' a side cmd o) in
  same_channel s s2 /\
  exists o1 o2 o3 o4, obs = [o1; o2; o3; o4] /\
    frames_of (o_log o3) =
      (c', FAck (m_id cmd)) ::
      map (fun r => (c', msg_frame r)) (msg_sort (sel_msgs (chan_w s) a m)) /\
    o_exc o3 = None.
Proof.
  intros Hinv Hlog Hno Ht Hm Hdone.
  destruct (dup_run s c' a side cmd o Hno) as (Hl & s2 & o1 & o2 & Hw & Hc & Hs & Hcn & Hk & Hlg & Hrun).
  destruct (si_clean s Hinv) as [Hcl _].
  assert (Hl2 : lookup_conn c' (conns s2) = Some (set_bound new_conn (Some (a, side)))).
  { rewrite Hcn. apply dup_lookup_snoc. exact Hl. }
  assert (Hd2 : open_done (chan_w s2) a m side (now s2)).
  { rewrite Hw. destruct (clk_inv _ _ Hk) as (-> & _). exact Hdone. }
  assert (Hns : existsb (sub_is a m c') (subs s2) = false).
  { rewrite Hs. apply fresh_no_sub; assumption. }
  destruct (open_step_done s2 c' _ a side m cmd o Hl2 eq_refl eq_refl Ht Hm Hd2 Hns)
    as (s3 & o3 & cs3 & E3 & Hw3 & Hc3 & Hs3 & Hcn3 & Hmb3 & Hb3 & Hli3 & Hk3 & Hfr & Hex).
  rewrite Hcn, (dup_update_snoc _ _ _ _ Hl) in Hcn3.
  destruct (step_disconnect s3 c' (conns s) cs3 Hcn3 Hl) as (s4 & o4 & E4 & Hw4 & Hc4 & Hcn4 & Hk4 & Hs4).
  rewrite (Hrun s3 o3 s4 o4 E3 E4).
  rewrite Hmb3, Hb3, Hli3, Hs3, Hs, (fresh_filter_subs s c' a m Hinv Hl) in Hs4.
  split.
  - unfold same_channel. rewrite Hk3, Hk in Hk4. apply clk_inv in Hk4.
    destruct Hk4 as (K1 & K2 & K3).
    repeat split; congruence.
  - exists o1, o2, o3, o4. rewrite Hw in Hfr. auto.
Qed.

(** close: when the mailbox is gone the duplicate changes nothing at all; when
    it is still there the only difference is the mailbox's `updated` stamp
    (known finding KF4) -- none if it already carries the current time *)
Theorem close_dup s c' a side m cmd o :
  SInv s -> log s = [] -> has_conn c' s = false ->
  m_type cmd = Some TClose -> m_mailbox cmd = Some m ->
  close_done (chan_w s) a m side (m_mood cmd) ->
  let '(s2, obs) := run cfg s (dup_events c' a side cmd o) in
  chan_w s2 = upd_touch (chan_w s) m (now s) /\ chan_c s2 = chan_w s2 /\
  subs s2 = subs s /\ conns s2 = conns s /\ now s2 = now s /\
  (~ mb_alive (chan_w s) m -> chan_w s2 = chan_w s) /\
  ((forall r, In r (mailboxes (chan_w s)) -> mb_id r = m -> mb_updated r = now s) ->
   chan_w s2 = chan_w s) /\
  exists o1 o2 o3 o4, obs = [o1; o2; o3; o4] /\
    frames_of (o_log o3) = [(c', FAck (m_id cmd)); (c', FClosed)] /\ o_exc o3 = None.
Proof.
  intros Hinv Hlog Hno Ht Hm Hdone.
  destruct (dup_run s c' a side cmd o Hno) as (Hl & s2 & o1 & o2 & Hw & Hc & Hs & Hcn & Hk & Hlg & Hrun).
  assert (Hl2 : lookup_conn c' (conns s2) = Some (set_bound new_conn (Some (a, side)))).
  { rewrite Hcn. apply dup_lookup_snoc. exact Hl. }
  assert (Hdb2 : DbInv (chan_w s2)) by (rewrite Hw; exact (si_db s Hinv)).
  destruct (clk_inv _ _ Hk) as (Hnow2 & _).
  destruct (close_done_db (chan_w s) a m side (m_mood cmd) (now s) (si_db s Hinv) Hdone)
    as (Hob & Hle & Hcd & Hdel).
  rewrite <- Hw, <- Hnow2 in Hob, Hle, Hcd, Hdel.
  assert (Hq : close_deletes (open_db (chan_w s2) a m side (now s2)) a m side (m_mood cmd) = true ->
               forall c0, ~ In (a, m, c0) (subs s2)).
  { intros Hd c0. rewrite Hs. apply dead_not_sub; [exact Hinv|]. rewrite <- Hw. exact (Hdel Hd). }
  destruct (close_step_fresh s2 c' _ a side m cmd o Hdb2 Hl2 eq_refl eq_refl eq_refl eq_refl eq_refl
              Ht Hm Hob Hle Hq)
    as (s3 & o3 & cs3 & E3 & Hw3 & Hc3 & Hs3 & Hcn3 & Hmb3 & Hk3 & Hfr & Hex).
  rewrite Hcn, (dup_update_snoc _ _ _ _ Hl) in Hcn3.
  destruct (step_disconnect s3 c' (conns s) cs3 Hcn3 Hl) as (s4 & o4 & E4 & Hw4 & Hc4 & Hcn4 & Hk4 & Hs4).
  rewrite (Hrun s3 o3 s4 o4 E3 E4).
  rewrite Hmb3 in Hs4.
  rewrite Hk3, Hk in Hk4. apply clk_inv in Hk4. destruct Hk4 as (K1 & _ & _).
  assert (W : chan_w s4 = upd_touch (chan_w s) m (now s)).
  { rewrite Hw4, Hw3, Hcd, Hw, Hnow2. reflexivity. }
  split; [exact W|]. split; [congruence|]. split; [congruence|]. split; [exact Hcn4|].
  split; [exact K1|].
  split. { intros Hgone. rewrite W. apply upd_touch_absent. exact Hgone. }
  split. { intros Hst. rewrite W. apply upd_touch_same. exact Hst. }
  exists o1, o2, o3, o4. auto.
Qed.

End WithConfig.
