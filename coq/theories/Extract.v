(** Extract.v -- extraction of the executable model to OCaml.
    Only ExtrOcamlBasic (bool, option, unit, list, prod, sumbool, sumor, andb,
    orb); Z, N, positive, nat, ascii, string stay the extracted inductives. *)
From MW Require Import Base Store Monad Usage Server Websocket Service Findings Render.
Require Import Coq.extraction.Extraction.
Require Import Coq.extraction.ExtrOcamlBasic.
Extraction Language OCaml.

Extraction "../ocaml/model.ml" process_line PStart.
