(** KeeperCrash.v -- C08 for EVERY event and every history, crashes included:
    the side rows of a mailbox.

    MbStable.v states [side_row_stable], [keeper_stable] and
    [open_side_keeps_mailbox] for events other than [ECrash k b].  Here the
    restriction is removed: over an event that dies right after any of its
    commits (then the process starts again and sweeps), a side row of a mailbox
    is changed or removed by nothing but that side's OWN close of that mailbox
    -- completed, or cut short after its first commit, the mark -- or the
    deletion of the whole mailbox.

    Route: CrashLife.v's calculus of "what the database an operation finds,
    every snapshot it commits and the one it leaves have to do with each
    other" ([LP], [lpost], [GS]) is run once more over server_websocket.py's
    close handler, this time with a restriction on which (app, mailbox, side)
    may be CLOSED (CrashLife restricts which nameplate may be released); every
    other handler and the sweep are taken from CrashLife as they are.  The
    instance: writing transactions keep "mailbox (a, m) exists and has side
    row x", deleting ones are CrowdFacts' [Shrink]. *)
From MW Require Import Base Store Monad Usage Server Websocket Service Findings
     Inv StoreFacts Hoare DbFactsA DbFactsB OpFacts ProtoFacts Obs StepFacts SweepFacts
     NpFactsA MbFactsA MbFactsB CrowdFacts LifeFacts NpFactsB ResumeFacts Corollaries HistFacts
     CrashHist CrashLife MbStable.
From Coq Require Import RelationClasses.
Local Open Scope list_scope.

(** * Part A: a bind rule that knows the value bound *)

Lemma LP_bind_val {A B} (R1 R2 R3 : Rel) (m : M A) (k : A -> M B) (P : A -> Prop) :
  (forall x y, R1 x y -> R3 x y) -> (forall x y z, R1 x y -> R2 y z -> R3 x z) ->
  LP R1 m -> (forall s a s', m s = Ok a s' -> P a) -> (forall a, P a -> LP R2 (k a)) ->
  LP R3 (bind m k).
Proof.
  intros Hw Hc Hm Hv Hk s HI. unfold bind. specialize (Hm s HI). specialize (Hv s).
  destruct (m s) as [a s1|e s1]; cbn [out] in *.
  - eapply lpost_comp; [exact Hw|exact Hc|exact Hm|]. apply Hk; [exact (Hv a s1 eq_refl)|]. apply Hm.
  - eapply lpost_weaken; [exact Hw|exact Hm].
Qed.

(** * Part B: the close handler, for any two relations the transaction
    bodies respect -- the marking body only for the closes allowed *)
Section GenC.
Variable cfg : config.
Variables G S : Rel.
Context {Gr : Reflexive G} {Gt : Transitive G} {Sr : Reflexive S} {St : Transitive S}.

(** which (app, mailbox, side) may be closed *)
Variable OKcl : string -> string -> string -> Prop.

Hypothesis H_open : forall a m side w, txp DbInv G (fun d => open_body d a m side w).
Hypothesis H_claim : forall a n side w draw, txp DbInv G (fun d => claim_body d a n side w draw).
Hypothesis H_relmark : forall a n side,
  txp DbInv G (fun d => match release_mark_body d a n side with
                        | None => TxOk None d
                        | Some (npid, d1) => TxOk (Some npid) d1
                        end).
Hypothesis H_closemark : forall a m side mood, OKcl a m side ->
  txp DbInv G (fun d => match close_mark_body d a m side mood with
                        | None => TxOk None d
                        | Some (fornp, d1) => TxOk (Some fornp) d1
                        end).
Hypothesis H_add : forall d r, DbInv d -> has_mb d (msg_app r) (msg_mbox r) ->
  G d (upd_touch (ins_msg d r) (msg_mbox r) (msg_rx r)).
Hypothesis H_closedel : forall a m fornp w, txp DbInv S (fun d => close_delete_body cfg d a m fornp w).
Hypothesis H_reldel : forall a npid w, txp DbInv S (fun d => release_delete_body cfg d a npid w).
Hypothesis H_prune : forall a w o, txp DbInv S (fun d => prune_body cfg d a w o).
Hypothesis H_touch : forall ms w, txp DbInv S (fun d => TxOk tt (touch_all d ms w)).

Local Instance GSr : Reflexive (GS G S) := GS_refl G S.

Ltac lp_tx ::=
  first [ apply H_open | apply H_claim | apply H_relmark | apply H_closedel | apply H_reldel
        | apply H_prune | apply H_touch | (apply H_closemark; assumption) ].
Ltac lp_ops ::=
  first [ apply (LP_open_mailbox G H_open) | apply LP_send_each; [tc|tc]
        | apply LP_log_client_version; [tc|tc] ].

Ltac gs_bind := apply (LP_bind_gen G (GS G S) (GS G S)); [exact (G_GS G S)|exact (G_then_GS G S)| |intros ?].
Ltac gs_tail := apply (LP_bind_gen (GS G S) S (GS G S)); [auto|exact (GS_then_S G S)| |intros ?].

Lemma LP_mailbox_close_ok a m side mood w :
  OKcl a m side -> LP (GS G S) (mailbox_close cfg a m side mood w).
Proof.
  intros Hok. unfold mailbox_close. gs_bind; [lp|]. destruct a0 as [fornp|]; [|lp].
  apply (LP_weaken S (GS G S)); [exact (S_GS G S)|]. unfold write_usage. lp.
Qed.

(** handle_close from the point at which the mailbox to close is known *)
Definition close_tail (c : nat) (a side held : string) (mood : option string) (w : Z) : M unit :=
  cs2 <- get_conn c ;;
  (if c_listening cs2
   then remove_sub a held c ;;; set_conn c (set_listening cs2 false)
   else ret tt) ;;;
  cs3 <- get_conn c ;;
  set_conn c (set_did_close cs3 true) ;;;
  mailbox_close cfg a held side mood w ;;;
  cs4 <- get_conn c ;;
  set_conn c (set_mailbox cs4 None) ;;;
  send c FClosed.

Lemma LP_close_tail c a side held mood w :
  OKcl a held side -> LP (GS G S) (close_tail c a side held mood w).
Proof.
  intros Hok. unfold close_tail. gs_bind; [lp|]. gs_bind; [lp|]. gs_bind; [lp|]. gs_bind; [lp|].
  gs_tail; [apply LP_mailbox_close_ok; exact Hok|lp].
Qed.

(** the implicit open of a close on a connection that holds nothing yields
    the mailbox the command names *)
Definition fresh_open (c : nat) (a side m : string) (w : Z) : M string :=
  catch_crowded (open_mailbox a m side w) ;;;
  cs1 <- get_conn c ;;
  set_conn c (set_mailbox cs1 (Some m)) ;;;
  ret m.

Lemma LP_fresh_open c a side m w : LP G (fresh_open c a side m w).
Proof. unfold fresh_open, catch_crowded. lp. Qed.

Lemma fresh_open_val c a side m w s x s' : fresh_open c a side m w s = Ok x s' -> x = m.
Proof.
  unfold fresh_open, bind. destruct (catch_crowded (open_mailbox a m side w) s) as [u s1|e s1];
    [|discriminate].
  cbn. intros H. inversion H. reflexivity.
Qed.

Lemma close_core_lp c a side mood m s :
  DbInv (chan_w s) ->
  (forall h, match c_mailbox (conn_of s c) with Some h0 => Some h0 | None => Some m end = Some h ->
             OKcl a h side) ->
  lpost (GS G S) s
    (out ((held <- match c_mailbox (conn_of s c) with
                   | Some h => ret h
                   | None => fresh_open c a side m (now s)
                   end ;;
           close_tail c a side held mood (now s)) s)).
Proof.
  intros HI Hok. destruct (c_mailbox (conn_of s c)) as [h|].
  - exact (LP_close_tail c a side h mood (now s) (Hok h eq_refl) s HI).
  - refine (LP_bind_val G (GS G S) (GS G S) _ _ (fun x => x = m) (G_GS G S) (G_then_GS G S)
              (LP_fresh_open c a side m (now s)) _ _ s HI).
    + intros s0 x s' H. exact (fresh_open_val _ _ _ _ _ _ _ _ H).
    + intros x ->. apply LP_close_tail. exact (Hok m eq_refl).
Qed.

Lemma handle_close_lp c a side msg s :
  DbInv (chan_w s) ->
  (c_did_close (conn_of s c) = false ->
   name_mismatch (m_mailbox msg) (c_mailbox_id (conn_of s c)) = false ->
   forall h, closed_mbox (conn_of s c) msg = Some h -> OKcl a h side) ->
  lpost (GS G S) s (out (handle_close cfg c a side msg s)).
Proof.
  intros HI Hok. unfold handle_close. rewrite bind_get_conn.
  assert (Hid : lpost (GS G S) s s) by (apply lpost_same; [tc|auto..]).
  destruct (c_did_close (conn_of s c)); [exact Hid|]. specialize (Hok eq_refl).
  unfold closed_mbox, cmd_mbox in Hok.
  destruct (m_mailbox msg) as [m1|]; destruct (c_mailbox_id (conn_of s c)) as [m2|].
  - destruct (seqb m1 m2) eqn:Eq; [|exact Hid].
    assert (Hmm : name_mismatch (Some m1) (Some m2) = false) by (cbn; rewrite Eq; reflexivity).
    exact (close_core_lp c a side (m_mood msg) m1 s HI (Hok Hmm)).
  - exact (close_core_lp c a side (m_mood msg) m1 s HI (Hok eq_refl)).
  - exact (close_core_lp c a side (m_mood msg) m2 s HI (Hok eq_refl)).
  - exact Hid.
Qed.

(** ** a command as a whole *)

Definition close_ok (s : state) (c : nat) (msg : command) : Prop :=
  forall a side h, c_bound (conn_of s c) = Some (a, side) ->
    c_did_close (conn_of s c) = false ->
    name_mismatch (m_mailbox msg) (c_mailbox_id (conn_of s c)) = false ->
    closed_mbox (conn_of s c) msg = Some h -> OKcl a h side.

Lemma dispatch_lp_c c t msg o s :
  DbInv (chan_w s) -> held_ok s c -> (t = TClose -> close_ok s c msg) ->
  lpost (GS G S) s (out (dispatch cfg c t msg o s)).
Proof.
  intros Hinv Hheld Hcl.
  assert (HG : forall m, LP G m -> lpost (GS G S) s (out (m s : res unit))).
  { intros m H. apply (lpost_weaken G (GS G S)); [exact (G_GS G S)|]. apply H. exact Hinv. }
  assert (Hid : lpost (GS G S) s s) by (apply lpost_same; [tc|auto..]).
  destruct t; unfold dispatch; cbv iota;
    try (apply HG; apply LP_handle_ping; tc);
    try (apply HG; apply LP_handle_bind; tc);
    rewrite bind_get_conn;
    (destruct (c_bound (conn_of s c)) as [[a side]|] eqn:Eb; [|exact Hid]).
  - apply HG. apply LP_handle_list; tc.
  - apply HG. apply (LP_handle_allocate G H_open H_claim).
  - apply HG. apply (LP_handle_claim G H_open H_claim).
  - apply (handle_release_lp cfg G S (fun _ _ _ => True)); [intros; apply H_relmark|exact H_reldel|exact Hinv|].
    intros; exact I.
  - apply HG. apply (LP_handle_open G H_open).
  - apply (lpost_weaken G (GS G S)); [exact (G_GS G S)|].
    apply (handle_add_lp G H_add); [exact Hinv|]. intros m Hm. exact (Hheld a side m Eb Hm).
  - apply handle_close_lp; [exact Hinv|]. intros Hdc Hmm h Hh.
    exact (Hcl eq_refl a side h Eb Hdc Hmm Hh).
  - exact Hid.
Qed.

Lemma on_message_lp_c c msg o s :
  DbInv (chan_w s) -> held_ok s c -> (m_type msg = Some TClose -> close_ok s c msg) ->
  lpost (GS G S) s (out (on_message cfg c msg o s)).
Proof.
  intros Hinv Hheld Hcl. unfold on_message, try_catch.
  assert (Hid : lpost (GS G S) s s) by (apply lpost_same; [tc|auto..]).
  destruct (m_type msg) as [t|].
  - set (s0 := set_log s (LFrame c (FAck (m_id msg)) (is_clean s) (now s) :: log s)).
    rewrite (bind_ok _ _ s tt s0) by reflexivity.
    assert (H : lpost (GS G S) s0 (out (dispatch cfg c t msg o s0))).
    { apply dispatch_lp_c; [exact Hinv|exact Hheld|]. intros ->. exact (Hcl eq_refl). }
    assert (H' : lpost (GS G S) s (out (dispatch cfg c t msg o s0))).
    { eapply (lpost_pre G S); [exact H|reflexivity|reflexivity|reflexivity| |exact Hinv].
      intros d; discriminate. }
    destruct (dispatch cfg c t msg o s0) as [u s1|e s1]; cbn [out] in H'; [exact H'|].
    destruct e; try exact H'.
    eapply (lpost_post G S); [exact H'|reflexivity|reflexivity|reflexivity|]. intros d; discriminate.
  - cbn [err raise send out].
    eapply (lpost_post G S); [exact Hid|reflexivity|reflexivity|reflexivity|]. intros d; discriminate.
Qed.

(** ** base events *)

Definition close_ok_b (s : state) (b : bevent) : Prop :=
  forall c msg o, b = ECmd c msg o -> m_type msg = Some TClose -> close_ok s c msg.

Lemma step_b_lp_c s b :
  SInv s -> close_ok_b s b -> lpost (GS G S) s (fst (fst (step_b cfg s b))).
Proof.
  intros HS Hcl. pose proof (si_db s HS) as Hinv.
  assert (Hid : lpost (GS G S) s s) by (apply lpost_same; [tc|auto..]).
  destruct b as [c|c m o|c|fault|dt fault]; unfold step_b.
  - destruct (has_conn c s); [exact Hid|].
    unfold run_m, on_open, send. cbn [fst].
    eapply (lpost_post G S); [exact Hid|reflexivity|reflexivity|reflexivity|]. intros d; discriminate.
  - destruct (has_conn c s); [|exact Hid].
    pose proof (on_message_lp_c c m o s Hinv (held_has_mb s c HS)
                  (fun Ht => Hcl c m o eq_refl Ht)) as H.
    destruct (on_message cfg c m o s) as [u s'|e s']; cbn [out fst] in *; [exact H|].
    destruct (MbFactsA.drop_conn_frame c s') as (E1 & Ec & E2).
    eapply lpost_eq; [exact H|exact E1|exact Ec|exact E2].
  - destruct (has_conn c s); [|exact Hid]. cbn [fst].
    destruct (MbFactsA.drop_conn_frame c s) as (E1 & Ec & E2).
    eapply lpost_eq; [exact Hid|exact E1|exact Ec|exact E2].
  - unfold run_m. pose proof (expire_lp cfg G S H_prune H_touch fault s Hinv) as H.
    destruct (expire cfg fault s); exact H.
  - destruct (dt <? 0); [exact Hid|]. cbv zeta.
    set (s1 := set_now s (now s + dt)).
    destruct (next_due s1 <=? now s1); [|exact Hid].
    unfold run_m. pose proof (expire_lp cfg G S H_prune H_touch fault s1 Hinv) as H.
    destruct (expire cfg fault s1); exact H.
Qed.

(** ** every event, crashes included *)

Definition close_ok_e (s : state) (e : event) : Prop :=
  forall b, (e = EB b \/ exists k, e = ECrash k b) -> close_ok_b s b.

Theorem step_GS_c s e :
  SInv s -> close_ok_e s e -> GS G S (chan_w s) (chan_w (fst (step cfg s e))).
Proof.
  intros HS Hcl. unfold step. cbv zeta. set (s0 := set_log s []).
  assert (HS0 : SInv s0) by (apply (SInv_same s); auto).
  assert (Hc0 : chan_c s0 = chan_w s) by (symmetry; apply (si_clean s HS)).
  pose proof (boot_S cfg S H_prune H_touch) as boot.
  destruct e as [b|k b|].
  - assert (Hb : close_ok_b s0 b) by (apply (Hcl b); left; reflexivity).
    pose proof (step_b_lp_c s0 b HS0 Hb) as H.
    destruct (step_b cfg s0 b) as [[s1 valid] x]. cbn [fst chan_w set_log] in *. apply H.
  - assert (Hb : close_ok_b s0 b) by (apply (Hcl b); right; exists k; reflexivity).
    pose proof (step_b_lp_c s0 b HS0 Hb) as H.
    destruct (step_b cfg s0 b) as [[s1 valid] x]. cbn [fst] in H.
    destruct H as (HI1 & HR1 & kk & Ek & Hcc & Hk).
    cbn [log s0 set_log] in Ek. rewrite app_nil_r in Ek. subst kk.
    change (chan_w s0) with (chan_w s) in *.
    destruct ((count_commits (rev (log s1)) <? k)%nat || negb valid).
    + assert (Hd : DbInv (chan_c s1) /\ GS G S (chan_w s) (chan_c s1)).
      { destruct Hcc as [->|Hcc]; [|apply Hk; exact Hcc].
        rewrite Hc0. split; [exact (si_db s HS)|reflexivity]. }
      pose proof (boot (chan_c s1) (usage_c s1) (now s1) (proj1 Hd)) as B.
      destruct (boot_on cfg (chan_c s1) (usage_c s1) (now s1)) as [[s2 bl] x2]. cbn [fst] in *.
      exact (GS_then_S G S _ _ _ (proj2 Hd) B).
    + pose proof (replay_in (rev (log s1)) k (chan_c s0) (usage_c s0)) as Rp.
      destruct (replay_commits (log_prefix k (rev (log s1))) (chan_c s0) (usage_c s0)) as [c0 u0].
      cbn [fst] in Rp. rewrite Hc0 in Rp.
      assert (Hd : DbInv c0 /\ GS G S (chan_w s) c0).
      { destruct Rp as [->|Rp]; [split; [exact (si_db s HS)|reflexivity]|].
        apply Hk. apply in_rev. exact Rp. }
      pose proof (boot c0 u0 (now s1) (proj1 Hd)) as B.
      destruct (boot_on cfg c0 u0 (now s1)) as [[s2 bl] x2]. cbn [fst] in *.
      exact (GS_then_S G S _ _ _ (proj2 Hd) B).
  - assert (B : S (chan_w s) (chan_w (fst (fst (boot_on cfg (chan_c s0) (usage_c s0) (now s0)))))).
    { rewrite <- Hc0 at 1. apply boot. rewrite Hc0. exact (si_db s HS). }
    destruct (boot_on cfg (chan_c s0) (usage_c s0) (now s0)) as [[s2 bl] x2]. cbn [fst] in *.
    apply (S_GS G S). exact B.
Qed.

End GenC.

(** * Part C: the instance -- one side row of one mailbox *)

Lemma txp_change_db {A} (R R' : Rel) (f : chan_db -> txres A) :
  txp DbInv R f -> (forall d, DbInv d -> R' d (txdb (f d))) -> txp DbInv R' f.
Proof.
  intros H1 H2 d Hd. specialize (H1 d Hd). specialize (H2 d Hd).
  destruct (f d); cbn [txdb] in H2; (split; [apply H1|exact H2]).
Qed.

Lemma claim_side_body_sides d npid mbox side w :
  mb_sides (txdb (claim_side_body d npid mbox side w)) = mb_sides d.
Proof.
  unfold claim_side_body. destruct (sel_nps d npid side) as [r|].
  - destruct (nps_claimed r); reflexivity.
  - unfold ins_nps. destruct (np_exists d _); reflexivity.
Qed.

Lemma claim_body_sides d a n side w draw :
  mb_sides (txdb (claim_body d a n side w draw)) = mb_sides d.
Proof.
  unfold claim_body. destruct (sel_np d a n) as [row|]; [apply claim_side_body_sides|].
  destruct draw as [bytes|]; [|reflexivity]. cbv zeta.
  destruct (add_mailbox d a (genid bytes) true w) as [d1|] eqn:E1; [|reflexivity].
  apply add_mailbox_tables in E1. destruct E1 as (_ & A2 & _).
  unfold ins_np. destruct (mb_exists d1 (genid bytes)); [|exact A2].
  rewrite claim_side_body_sides. exact A2.
Qed.

Section Row.
(** the app of the mailbox and the side row followed (the mailbox is the row's) *)
Variables (ka : string) (x : mbs_row).

Definition rowp (d : chan_db) : Prop := has_mb d ka (mbs_mbox x) /\ In x (mb_sides d).

(** writing transactions keep the mailbox and the row *)
Definition G4 : Rel := fun d d' => rowp d -> rowp d'.

(** a close other than the close of the followed mailbox by the row's own side *)
Definition OK4 (a h side : string) : Prop := ~ (a = ka /\ h = mbs_mbox x /\ side = mbs_side x).

Global Instance G4_refl : Reflexive G4.
Proof. intros d H. exact H. Qed.
Global Instance G4_trans : Transitive G4.
Proof. intros d1 d2 d3 A B H. auto. Qed.

Lemma G4_keep d d' : mbkeep d d' -> incl (mb_sides d) (mb_sides d') -> G4 d d'.
Proof. intros K I [H1 H2]. split; [apply K; exact H1|apply I; exact H2]. Qed.

Lemma open_body_G4 d a m side w : G4 d (txdb (open_body d a m side w)).
Proof.
  apply G4_keep; [apply open_body_keep|].
  destruct (open_body_eval d a m side w) as [[E _]|E]; rewrite E; cbn [txdb].
  - apply incl_refl.
  - intros y Hy. apply open_db_sides. exact Hy.
Qed.

Lemma claim_body_G4 d a n side w draw : G4 d (txdb (claim_body d a n side w draw)).
Proof. apply G4_keep; [apply claim_body_keep|]. rewrite claim_body_sides. apply incl_refl. Qed.

Lemma release_mark_G4 d a n side :
  G4 d (txdb (match release_mark_body d a n side with
              | None => TxOk None d
              | Some (npid, d1) => TxOk (Some npid) d1
              end)).
Proof.
  apply G4_keep; [apply release_mark_keep|].
  unfold release_mark_body. destruct (sel_np d a n) as [np|]; [|apply incl_refl].
  destruct (sel_nps d (np_id np) side); apply incl_refl.
Qed.

Lemma close_mark_G4 d a h side mood :
  DbInv d -> OK4 a h side ->
  G4 d (txdb (match close_mark_body d a h side mood with
              | None => TxOk None d
              | Some (fornp, d1) => TxOk (Some fornp) d1
              end)).
Proof.
  intros Hdb Hok [Hmb Hx].
  split; [exact (close_mark_keep d a h side mood ka (mbs_mbox x) Hmb)|].
  unfold close_mark_body. destruct (sel_mb d a h) as [row|] eqn:Es; [|exact Hx].
  destruct (sel_mbs d h side); [|exact Hx]. cbn [txdb].
  apply upd_mbs_close_other; [exact Hx|].
  destruct (string_dec (mbs_mbox x) h) as [Eh|Nh]; [|left; exact Nh].
  destruct (string_dec (mbs_side x) side) as [Esd|Ns]; [|right; exact Ns].
  exfalso. apply Hok.
  assert (Hah : has_mb d a h) by (apply has_mb_sel; eauto).
  rewrite <- Eh in Hah. split; [exact (has_mb_app d a ka _ Hdb Hah Hmb)|]. split; congruence.
Qed.

Lemma add_G4 d r : G4 d (upd_touch (ins_msg d r) (msg_mbox r) (msg_rx r)).
Proof.
  intros [Hmb Hx]. split; [|exact Hx]. apply upd_touch_keep.
  destruct Hmb as (r0 & Hr0 & K). exists r0. split; [exact Hr0|exact K].
Qed.

(** [b] is not the close of the followed mailbox by the row's own side *)
Lemma own_close_dec s b :
  close_by s (EB b) ka (mbs_mbox x) (mbs_side x) \/ close_ok_b OK4 s b.
Proof.
  destruct b as [c|c msg o|c|f|dt f]; try (right; intros ? ? ? K; discriminate).
  destruct (lookup_conn c (conns s)) as [cs|] eqn:El.
  2:{ right. intros c' msg' o' K _ a side h Hb. inversion K; subst c' msg' o'.
      unfold conn_of in Hb. rewrite El in Hb. discriminate. }
  assert (Hno : (forall a side h, c_bound cs = Some (a, side) -> m_type msg = Some TClose ->
                   c_did_close cs = false ->
                   name_mismatch (m_mailbox msg) (c_mailbox_id cs) = false ->
                   closed_mbox cs msg = Some h -> OK4 a h side) ->
                close_ok_b OK4 s (ECmd c msg o)).
  { intros H c' msg' o' K Ht a side h. inversion K; subst c' msg' o'.
    unfold conn_of. rewrite El. intros Hb Hdc Hmm Hh. exact (H a side h Hb Ht Hdc Hmm Hh). }
  destruct (c_bound cs) as [[a side]|] eqn:Eb; [|right; apply Hno; intros; congruence].
  destruct (m_type msg) as [t|] eqn:Et; [|right; apply Hno; intros; congruence].
  destruct (c_did_close cs) eqn:Edc; [right; apply Hno; intros; congruence|].
  destruct (name_mismatch (m_mailbox msg) (c_mailbox_id cs)) eqn:Emm;
    [right; apply Hno; intros; congruence|].
  destruct (closed_mbox cs msg) as [h|] eqn:Eh; [|right; apply Hno; intros; congruence].
  assert (Hne : ~ (a = ka /\ h = mbs_mbox x /\ side = mbs_side x) ->
                close_by s (EB (ECmd c msg o)) ka (mbs_mbox x) (mbs_side x) \/
                close_ok_b OK4 s (ECmd c msg o)).
  { intros Hne. right. apply Hno. intros a' side' h' K1 _ _ _ K5 (E1 & E2 & E3).
    apply Hne. split; [congruence|]. split; congruence. }
  destruct (string_dec a ka) as [Ea|Na]; [|apply Hne; tauto].
  destruct (string_dec h (mbs_mbox x)) as [Eh'|Nh]; [|apply Hne; tauto].
  destruct (string_dec side (mbs_side x)) as [Es|Ns]; [|apply Hne; tauto].
  destruct t; try (right; apply Hno; intros; congruence).
  left. exists c, cs, msg, o. subst a h side.
  split; [reflexivity|]. split; [exact El|]. split; [exact Eb|]. split; [exact Et|].
  split; [|exact Eh]. unfold erroneous. rewrite Et, Eb, Edc, Emm. reflexivity.
Qed.

End Row.

(** * Part D: C08 for every event *)

(** [e] is -- or is a crashed run of -- a well-formed close of mailbox (a, m)
    by a connection bound to (a, side) *)
Definition own_close (s : state) (e : event) (a m side : string) : Prop :=
  exists b, (e = EB b \/ exists k, e = ECrash k b) /\ close_by s (EB b) a m side.

Section C08.
Variable cfg : config.
Hypothesis Hexp : 0 < exp cfg.

(** the followed row survives every event that is not a close of its mailbox
    by its own side, up to the deletion of whole mailboxes *)
Lemma row_GS s e a x :
  SInv s -> close_ok_e (OK4 a x) s e ->
  GS (G4 a x) Shrink (chan_w s) (chan_w (fst (step cfg s e))).
Proof.
  intros HS Hok. apply (step_GS_c cfg (G4 a x) Shrink (OK4 a x)).
  - intros a0 m side w. eapply txp_change_db; [apply open_body_txp|]. intros d _. apply open_body_G4.
  - intros a0 n side w draw. eapply txp_change_db; [apply claim_body_txp|]. intros d _. apply claim_body_G4.
  - intros a0 n side. eapply txp_change_db; [apply release_mark_txp|]. intros d _. apply release_mark_G4.
  - intros a0 m side mood Hk. eapply txp_change_db; [apply close_mark_txp|]. intros d Hd.
    apply close_mark_G4; assumption.
  - intros d r _ _. apply add_G4.
  - intros; apply close_delete_txp.
  - intros; apply release_delete_txp.
  - intros; apply prune_body_txp.
  - intros; apply touch_all_txp.
  - exact HS.
  - exact Hok.
Qed.

(** C08 for every event: a side row of a mailbox is changed or removed by
    nothing but (i) a close of that mailbox sent by that side -- processed
    completely or cut short by a crash after any of its commits --, or (ii) the
    deletion of the whole mailbox.  In particular a crash at any commit
    boundary of the OTHER side's close, of anybody's open / add / claim /
    release, of a sweep ... changes no side row of a mailbox that survives *)
Theorem side_row_stable_all s e a m x :
  SInv s -> log s = [] -> has_mb (chan_w s) a m ->
  In x (mb_sides (chan_w s)) -> mbs_mbox x = m ->
  let s' := fst (step cfg s e) in
  In x (mb_sides (chan_w s')) \/ own_close s e a m (mbs_side x) \/ ~ has_mb (chan_w s') a m.
Proof.
  intros HS Hlog Hmb Hx Hxm. cbv zeta. subst m.
  assert (Hdec : own_close s e a (mbs_mbox x) (mbs_side x) \/ close_ok_e (OK4 a x) s e).
  { destruct e as [b|k b|].
    - destruct (own_close_dec a x s b) as [O|O].
      + left. exists b. split; [left; reflexivity|exact O].
      + right. intros b' [K|[k K]]; inversion K; subst b'. exact O.
    - destruct (own_close_dec a x s b) as [O|O].
      + left. exists b. split; [right; exists k; reflexivity|exact O].
      + right. intros b' [K|[k' K]]; inversion K; subst b'. exact O.
    - right. intros b' [K|[k K]]; discriminate. }
  destruct Hdec as [K|Hok]; [right; left; exact K|].
  destruct (row_GS s e a x HS Hok) as (d1 & Gd & _ & Ssel & _).
  destruct (Gd (conj Hmb Hx)) as [_ Hx1].
  destruct (has_mb_b (chan_w (fst (step cfg s e))) a (mbs_mbox x)) eqn:Eb.
  - left. apply has_mb_b_true in Eb. apply has_mb_alive in Eb.
    assert (Hin : In x (sel_mbs_all (chan_w (fst (step cfg s e))) (mbs_mbox x))).
    { rewrite (Ssel _ Eb). apply sel_mbs_all_In. auto. }
    apply sel_mbs_all_In in Hin. apply Hin.
  - right; right. apply has_mb_b_false. exact Eb.
Qed.

(** C08: a side that has the mailbox open keeps it open through every event --
    crashes at any commit boundary included -- that is not its own close of it,
    as long as the mailbox exists *)
Theorem keeper_stable_all s e a m side :
  SInv s -> log s = [] -> has_mb (chan_w s) a m -> keeper (chan_w s) m side ->
  let s' := fst (step cfg s e) in
  keeper (chan_w s') m side \/ own_close s e a m side \/ ~ has_mb (chan_w s') a m.
Proof.
  intros HS Hlog Hmb (x & Hx & Hxm & Hxs & Hxo). cbv zeta.
  destruct (side_row_stable_all s e a m x HS Hlog Hmb Hx Hxm) as [K|[K|K]].
  - left. exists x. auto.
  - right; left. rewrite <- Hxs. exact K.
  - right; right. exact K.
Qed.

(** what can take a mailbox away while a side has it open and does not close
    it: expiry -- at [e] itself or, for a crashed event, at the start-up sweep
    that follows the crash *)
Definition expiry_cause (s : state) (e : event) (a m : string) : Prop :=
  match e with
  | ECrash k b =>
      expired cfg s (EB b) a m \/
      exists r, In r (mailboxes (crash_chan cfg s k b)) /\ mb_app r = a /\ mb_id r = m /\
                mb_updated r <= now (fst (step cfg s e)) - exp cfg
  | _ => expired cfg s e a m
  end.

Lemma last_close_own s e a m side :
  keeper (chan_w s) m side ->
  (match e with ECrash k b => last_close s (EB b) a m | _ => last_close s e a m end) ->
  own_close s e a m side.
Proof.
  intros Hk. destruct e as [b|k b|].
  - intros (sd & Hc & Hl). rewrite (Hl side Hk). exists b. split; [left; reflexivity|exact Hc].
  - intros (sd & Hc & Hl). rewrite (Hl side Hk). exists b. split; [right; exists k; reflexivity|exact Hc].
  - intros (sd & (c & cs & msg & o & E & _) & _). discriminate.
Qed.

Lemma removal_cause_split s e a m side :
  keeper (chan_w s) m side -> removal_cause cfg s e a m ->
  own_close s e a m side \/ expiry_cause s e a m.
Proof.
  intros Hk Hr. destruct e as [b|k b|]; cbn [removal_cause expiry_cause] in *.
  - destruct Hr as [Hr|Hr]; [left; exact (last_close_own s (EB b) a m side Hk Hr)|right; exact Hr].
  - destruct Hr as [Hr|Hr]; [left; exact (last_close_own s (ECrash k b) a m side Hk Hr)|right; exact Hr].
  - destruct Hr as [Hr|Hr]; [left; exact (last_close_own s ERestart a m side Hk Hr)|right; exact Hr].
Qed.

(** C08 for every event, in one statement: while a side has the mailbox open,
    every event leaves the mailbox in place and that side's row open -- unless
    the event is that side's own close of it (possibly cut short by a crash), or
    the mailbox expires *)
Theorem keeper_event_all s e a m side :
  SInv s -> log s = [] -> has_mb (chan_w s) a m -> keeper (chan_w s) m side ->
  let s' := fst (step cfg s e) in
  (has_mb (chan_w s') a m /\ keeper (chan_w s') m side) \/
  own_close s e a m side \/ expiry_cause s e a m.
Proof.
  intros HS Hlog Hmb Hk. cbv zeta.
  destruct (mailbox_stable_all cfg Hexp s e a m HS Hlog Hmb) as [Hmb'|Hr].
  - destruct (keeper_stable_all s e a m side HS Hlog Hmb Hk) as [K|[K|K]].
    + left. split; assumption.
    + right; left. exact K.
    + contradiction.
  - right. exact (removal_cause_split s e a m side Hk Hr).
Qed.

Theorem open_side_keeps_mailbox_all s e a m side :
  SInv s -> log s = [] -> has_mb (chan_w s) a m ->
  keeper (chan_w s) m side -> ~ own_close s e a m side ->
  let s' := fst (step cfg s e) in
  (has_mb (chan_w s') a m /\ keeper (chan_w s') m side) \/ expiry_cause s e a m.
Proof.
  intros HS Hlog Hmb Hk Hno. cbv zeta.
  destruct (keeper_event_all s e a m side HS Hlog Hmb Hk) as [K|[K|K]];
    [left; exact K|contradiction|right; exact K].
Qed.

(** * Every history *)

(** what can end "side has mailbox (a, m) open" at event [e] *)
Definition keeper_ender (s : state) (e : event) (a m side : string) : Prop :=
  own_close s e a m side \/ expiry_cause s e a m.

(** C08 over any history (crashes at any commit boundary included): a side
    that has the mailbox open at the start has it open at the end -- and the
    mailbox is there --, or some event of the history found it so and was that
    side's own close of it or the expiry of the mailbox *)
Theorem keeper_stable_run a m side h : forall s,
  SInv s -> log s = [] -> has_mb (chan_w s) a m -> keeper (chan_w s) m side ->
  (has_mb (chan_w (fst (run cfg s h))) a m /\ keeper (chan_w (fst (run cfg s h))) m side) \/
  exists h1 e h2, h = h1 ++ e :: h2 /\
    has_mb (chan_w (fst (run cfg s h1))) a m /\ keeper (chan_w (fst (run cfg s h1))) m side /\
    keeper_ender (fst (run cfg s h1)) e a m side.
Proof.
  induction h as [|e h IH]; intros s HS Hlog Hmb Hk; [left; split; assumption|].
  destruct (keeper_event_all s e a m side HS Hlog Hmb Hk) as [[K1 K2]|K].
  - destruct (step_inv cfg Hexp s e HS) as [HS1 Hlog1].
    rewrite (run_cons_fst cfg).
    destruct (IH _ HS1 Hlog1 K1 K2) as [K|(h1 & e1 & h2 & -> & K3 & K4 & K5)]; [left; exact K|].
    right. exists (e :: h1), e1, h2. split; [reflexivity|].
    rewrite (run_cons_fst cfg). auto.
  - right. exists [], e, h. split; [reflexivity|]. split; [exact Hmb|]. split; [exact Hk|exact K].
Qed.

End C08.

(** * Non-vacuity: on MbStable's concrete states

    [s0]: sides A and B of app "a" have mailbox "m" open (connections 1, 2), one
    message stored; [s1]: A has closed.
    (1) A's close from [s0], dying after its k-th commit, k = 0..3: B's row stays
    open and the mailbox stays whatever k; A's own row is open for k = 0 and
    closed from k = 1 on (the mark is the first commit).
    (2) B's LAST close from [s1]: k = 0 keeps B's row open; k = 1 (the mark) closes
    it while the mailbox is still there -- the middle disjunct of
    [keeper_stable_all] is needed for crash events --; k >= 2 removes the mailbox.
    (3) a history: A's close cut short, a sweep, B reconnects and re-sends its
    close on the fresh connection (implicit open, then mark, then delete): B's
    row is open after every prefix; cutting that close right after its third
    commit -- the mark -- ends it, with the mailbox still in place. *)
Module KeeperCrashExamples.
Import MbStableExamples.

Lemma split_at {A} (l h1 h2 : list A) e d :
  l = h1 ++ e :: h2 ->
  firstn (List.length h1) l = h1 /\ nth (List.length h1) l d = e /\
  (List.length h1 < List.length l)%nat.
Proof.
  intros ->. split; [|split].
  - rewrite firstn_app, firstn_all, Nat.sub_diag. cbn [firstn]. apply app_nil_r.
  - rewrite app_nth2 by lia. rewrite Nat.sub_diag. reflexivity.
  - rewrite app_length. cbn [List.length]. lia.
Qed.

Definition keeper_b (d : chan_db) (m side : string) : bool :=
  existsb (fun r => seqb (mbs_mbox r) m && seqb (mbs_side r) side && mbs_opened r) (mb_sides d).

Lemma keeper_b_iff d m side : keeper_b d m side = true <-> keeper d m side.
Proof.
  unfold keeper_b, keeper. rewrite existsb_exists. split.
  - intros (r & Hr & Hb). apply andb_true_iff in Hb. destruct Hb as [Hb H3].
    apply andb_true_iff in Hb. destruct Hb as [H1 H2]. apply seqb_eq in H1. apply seqb_eq in H2.
    exists r. auto.
  - intros (r & Hr & H1 & H2 & H3). exists r. split; [exact Hr|].
    rewrite H1, H2, H3, !seqb_refl. reflexivity.
Qed.

Definition A_dies (k : nat) : state := fst (step cfg s0 (ECrash k (ECmd 1 cls o))).
Definition B_dies (k : nat) : state := fst (step cfg s1 (ECrash k (ECmd 2 cls o))).

Example crashed_close_of_other_side :
  keeper_b (chan_w s0) "m" "A" = true /\ keeper_b (chan_w s0) "m" "B" = true /\
  map (fun k => (keeper_b (chan_w (A_dies k)) "m" "A", keeper_b (chan_w (A_dies k)) "m" "B",
                 has_mb_b (chan_w (A_dies k)) "a" "m")) [0; 1; 2; 3]%nat =
  [(true, true, true); (false, true, true); (false, true, true); (false, true, true)].
Proof. vm_compute. auto. Qed.

Example crashed_own_last_close :
  keeper_b (chan_w s1) "m" "B" = true /\
  map (fun k => (keeper_b (chan_w (B_dies k)) "m" "B", has_mb_b (chan_w (B_dies k)) "a" "m"))
      [0; 1; 2; 3]%nat =
  [(true, true); (false, true); (false, false); (false, false)].
Proof. vm_compute. auto. Qed.

(** [keeper_stable_all] applied to a crash event: A's close dies right after
    its first commit; the theorem's hypotheses hold at [s0], its second and
    third disjunct are refuted, so it yields that B's row is still open *)
Example keeper_stable_all_applied : keeper (chan_w (A_dies 1)) "m" "B".
Proof.
  assert (Hk : keeper (chan_w s0) "m" "B") by (apply keeper_b_iff; vm_compute; reflexivity).
  destruct (keeper_stable_all cfg s0 (ECrash 1 (ECmd 1 cls o)) "a" "m" "B"
              (proj1 s0_inv) (proj2 s0_inv) s0_has Hk)
    as [K|[(b & He & (c & cs & msg & o' & Eb & Hl & Hb & _))|K]].
  - exact K.
  - exfalso. destruct He as [He|[k He]]; [discriminate He|].
    inversion He; subst b. inversion Eb; subst c msg o'.
    assert (E : lookup_conn 1 (conns s0) =
                Some (mkConn (Some ("a", "A")) false true false None false (Some "m") (Some "m") false))
      by (vm_compute; reflexivity).
    rewrite E in Hl. inversion Hl; subst cs. discriminate Hb.
  - exfalso. apply K. apply has_mb_b_true. vm_compute. reflexivity.
Qed.

(** ... and to B's own last close dying right after the mark: the first and the
    third disjunct fail, the event is B's own close *)
Example keeper_stable_all_own :
  ~ keeper (chan_w (B_dies 1)) "m" "B" /\ has_mb (chan_w (B_dies 1)) "a" "m" /\
  own_close s1 (ECrash 1 (ECmd 2 cls o)) "a" "m" "B".
Proof.
  split; [intros H; apply keeper_b_iff in H; vm_compute in H; discriminate H|].
  split; [apply has_mb_b_true; vm_compute; reflexivity|].
  exists (ECmd 2 cls o). split; [right; exists 1%nat; reflexivity|].
  exists 2%nat, (mkConn (Some ("a", "B")) false true false None false (Some "m") (Some "m") false),
         cls, o. vm_compute. auto 10.
Qed.

(** (3) a history *)
Definition hist : list event :=
  [ECrash 1 (ECmd 1 cls o); EB (ESweep false); EB (EConnect 3); EB (ECmd 3 (bind "B") o)].
Definition s_h : state := fst (run cfg s0 hist).

Example keeper_survives_history :
  forall i, (i <= List.length hist)%nat ->
    keeper (chan_w (fst (run cfg s0 (firstn i hist)))) "m" "B" /\
    has_mb (chan_w (fst (run cfg s0 (firstn i hist)))) "a" "m".
Proof.
  intros i Hi.
  do 5 (destruct i as [|i];
        [split; [apply keeper_b_iff; vm_compute; reflexivity|apply has_mb_b_true; vm_compute; reflexivity]|]).
  cbn in Hi. lia.
Qed.

Example keeper_stable_run_second :
  let h := hist ++ [ECrash 3 (ECmd 3 cls o)] in
  ~ keeper (chan_w (fst (run cfg s0 h))) "m" "B" /\
  has_mb (chan_w (fst (run cfg s0 h))) "a" "m" /\
  exists h1 e h2, h = h1 ++ e :: h2 /\
    has_mb (chan_w (fst (run cfg s0 h1))) "a" "m" /\ keeper (chan_w (fst (run cfg s0 h1))) "m" "B" /\
    keeper_ender cfg (fst (run cfg s0 h1)) e "a" "m" "B".
Proof.
  cbv zeta.
  split; [intros H; apply keeper_b_iff in H; vm_compute in H; discriminate H|].
  split; [apply has_mb_b_true; vm_compute; reflexivity|].
  exists hist, (ECrash 3 (ECmd 3 cls o)), []. split; [reflexivity|].
  split; [apply has_mb_b_true; vm_compute; reflexivity|].
  split; [apply keeper_b_iff; vm_compute; reflexivity|].
  left. exists (ECmd 3 cls o). split; [right; exists 3%nat; reflexivity|].
  exists 3%nat, (mkConn (Some ("a", "B")) false false false None false None None false), cls, o.
  vm_compute. auto 10.
Qed.

(** [keeper_stable_run] applied: over [hist] no event is a [keeper_ender] for
    B, so the theorem yields its first disjunct *)
Example keeper_stable_run_applied :
  has_mb (chan_w s_h) "a" "m" /\ keeper (chan_w s_h) "m" "B".
Proof.
  assert (Hk : keeper (chan_w s0) "m" "B") by (apply keeper_b_iff; vm_compute; reflexivity).
  destruct (keeper_stable_run cfg cfg_exp "a" "m" "B" hist s0 (proj1 s0_inv) (proj2 s0_inv) s0_has Hk)
    as [K|(h1 & e & h2 & E & _ & _ & K)]; [exact K|exfalso].
  (* which event, at which state *)
  assert (Hpos : (h1 = [] /\ e = ECrash 1 (ECmd 1 cls o)) \/
                 (h1 = [ECrash 1 (ECmd 1 cls o)] /\ e = EB (ESweep false)) \/
                 (h1 = [ECrash 1 (ECmd 1 cls o); EB (ESweep false)] /\ e = EB (EConnect 3)) \/
                 (h1 = [ECrash 1 (ECmd 1 cls o); EB (ESweep false); EB (EConnect 3)] /\
                  e = EB (ECmd 3 (bind "B") o))).
  { destruct (split_at hist h1 h2 e ERestart E) as (E1 & E2 & E3).
    remember (List.length h1) as i eqn:Ei. clear Ei E.
    destruct i as [|[|[|[|i]]]]; cbn in E1, E2, E3; subst h1 e; auto 6. lia. }
  assert (Hown : forall s1 e1, own_close s1 e1 "a" "m" "B" ->
            exists c cs msg o', (e1 = EB (ECmd c msg o') \/ exists k, e1 = ECrash k (ECmd c msg o')) /\
              lookup_conn c (conns s1) = Some cs /\ c_bound cs = Some ("a", "B") /\
              m_type msg = Some TClose).
  { intros s1 e1 (b & He & c & cs & msg & o' & Eb & Hl & Hb & Ht & _). inversion Eb; subst b.
    exists c, cs, msg, o'. auto. }
  destruct K as [K|K].
  - apply Hown in K. destruct K as (c & cs & msg & o' & He & Hl & Hb & Ht).
    destruct Hpos as [[-> ->]|[[-> ->]|[[-> ->]|[-> ->]]]].
    + destruct He as [He|[k He]]; [discriminate He|]. inversion He; subst c msg o'.
      assert (El : lookup_conn 1 (conns (fst (run cfg s0 []))) =
                   Some (mkConn (Some ("a", "A")) false true false None false (Some "m") (Some "m") false))
        by (vm_compute; reflexivity).
      rewrite El in Hl. inversion Hl; subst cs. discriminate Hb.
    + destruct He as [He|[k He]]; discriminate He.
    + destruct He as [He|[k He]]; discriminate He.
    + destruct He as [He|[k He]]; [|discriminate He]. inversion He; subst c msg o'. discriminate Ht.
  - destruct Hpos as [[-> ->]|[[-> ->]|[[-> ->]|[-> ->]]]]; cbn [expiry_cause] in K.
    + destruct K as [(t & r & Ht & _)|(r & Hr & Ha & Hi & Ho)]; [discriminate Ht|].
      assert (Er : mailboxes (crash_chan cfg (fst (run cfg s0 [])) 1 (ECmd 1 cls o)) = [row0])
        by (vm_compute; reflexivity).
      rewrite Er in Hr. destruct Hr as [<-|[]].
      revert Ho. vm_compute. intros Ho. apply Ho. reflexivity.
    + destruct K as (t & r & Ht & Hr & Ha & Hi & Ho & _).
      assert (Er : mailboxes (chan_w (fst (run cfg s0 [ECrash 1 (ECmd 1 cls o)]))) = [row0])
        by (vm_compute; reflexivity).
      rewrite Er in Hr. destruct Hr as [<-|[]].
      assert (Et : sweep_time (fst (run cfg s0 [ECrash 1 (ECmd 1 cls o)])) (EB (ESweep false)) = Some 0)
        by (vm_compute; reflexivity).
      rewrite Et in Ht. inversion Ht; subst t.
      revert Ho. vm_compute. intros Ho. apply Ho. reflexivity.
    + destruct K as (t & r & Ht & _). discriminate Ht.
    + destruct K as (t & r & Ht & _). discriminate Ht.
Qed.

End KeeperCrashExamples.

Print Assumptions step_GS_c.
Print Assumptions side_row_stable_all.
Print Assumptions keeper_stable_all.
Print Assumptions keeper_event_all.
Print Assumptions open_side_keeps_mailbox_all.
Print Assumptions keeper_stable_run.
Print Assumptions KeeperCrashExamples.crashed_close_of_other_side.
Print Assumptions KeeperCrashExamples.crashed_own_last_close.
Print Assumptions KeeperCrashExamples.keeper_stable_all_applied.
Print Assumptions KeeperCrashExamples.keeper_stable_all_own.
Print Assumptions KeeperCrashExamples.keeper_survives_history.
Print Assumptions KeeperCrashExamples.keeper_stable_run_second.
Print Assumptions KeeperCrashExamples.keeper_stable_run_applied.
