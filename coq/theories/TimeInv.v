(** TimeInv.v -- no stored timestamp is in the future: every `updated`,
    `added` and `server_rx` value in the channel database is at most the
    current time, in every reachable state (the clock never goes back).
    Needed by C13: after the last activity at time T every mailbox has
    updated <= T, so a sweep at T + expiration or later removes it. *)
From MW Require Import Base Store Monad Usage Server Websocket Service Hoare.
Local Open Scope list_scope.

Definition db_times_le (t : Z) (d : chan_db) : Prop :=
  Forall (fun r => mb_updated r <= t) (mailboxes d) /\
  Forall (fun r => nps_added r <= t) (np_sides d) /\
  Forall (fun r => mbs_added r <= t) (mb_sides d) /\
  Forall (fun r => msg_rx r <= t) (messages d).

Definition time_entry (t : Z) (e : log_entry) : Prop :=
  match e with LCommitChan d => db_times_le t d | _ => True end.

Definition time_ok (s : state) : Prop :=
  db_times_le (now s) (chan_w s) /\ db_times_le (now s) (chan_c s) /\
  Forall (time_entry (now s)) (log s).

(** * List helpers *)

Lemma Forall_filter_keep {A} (P : A -> Prop) f l : Forall P l -> Forall P (filter f l).
Proof.
  intros H. induction H as [|x l Hx Hl IH]; cbn [filter]; [constructor|].
  destruct (f x); [constructor; assumption|assumption].
Qed.

Lemma Forall_map_keep {A} (P : A -> Prop) g l :
  (forall x, P x -> P (g x)) -> Forall P l -> Forall P (map g l).
Proof.
  intros Hg H. induction H as [|x l Hx Hl IH]; cbn [map]; constructor; auto.
Qed.

Lemma Forall_snoc {A} (P : A -> Prop) l x : Forall P l -> P x -> Forall P (l ++ [x]).
Proof. intros Hl Hx. apply Forall_app. split; [exact Hl|]. constructor; [exact Hx|constructor]. Qed.

(** * Monotonicity in the time bound *)

Lemma db_times_le_mono t t' d : t <= t' -> db_times_le t d -> db_times_le t' d.
Proof.
  intros Ht [H1 [H2 [H3 H4]]]. unfold db_times_le.
  repeat split; (eapply Forall_impl; [|eassumption]); cbv beta; intros r Hr; lia.
Qed.

Lemma time_entry_mono t t' e : t <= t' -> time_entry t e -> time_entry t' e.
Proof.
  intros Ht. destruct e as [d|u|c f b]; cbn [time_entry]; auto.
  apply db_times_le_mono. exact Ht.
Qed.

Lemma db_times_le_empty t : db_times_le t empty_chan.
Proof. unfold db_times_le, empty_chan. cbn. repeat split; constructor. Qed.

(** * Statements of Store.v keep the bound *)

Section Bodies.
Variables (cfg : config) (T : Z).

Local Notation LE := (db_times_le T).

Lemma le_ins_mb d r d' : ins_mb d r = Some d' -> mb_updated r <= T -> LE d -> LE d'.
Proof.
  unfold ins_mb. destruct (mb_exists d (mb_id r)); [discriminate|].
  intros H Hr [H1 [H2 [H3 H4]]]. inversion H; subst d'.
  unfold db_times_le, set_mailboxes. cbn. repeat split; auto using Forall_snoc.
Qed.

Lemma le_ins_np d a n m d' i : ins_np d a n m = Some (d', i) -> LE d -> LE d'.
Proof.
  unfold ins_np. destruct (mb_exists d m); [|discriminate].
  intros H [H1 [H2 [H3 H4]]]. inversion H; subst d' i.
  unfold db_times_le. cbn. repeat split; assumption.
Qed.

Lemma le_ins_nps d r d' : ins_nps d r = Some d' -> nps_added r <= T -> LE d -> LE d'.
Proof.
  unfold ins_nps. destruct (np_exists d (nps_npid r)); [|discriminate].
  intros H Hr [H1 [H2 [H3 H4]]]. inversion H; subst d'.
  unfold db_times_le, set_np_sides. cbn. repeat split; auto using Forall_snoc.
Qed.

Lemma le_ins_mbs d r d' : ins_mbs d r = Some d' -> mbs_added r <= T -> LE d -> LE d'.
Proof.
  unfold ins_mbs. destruct (mb_exists d (mbs_mbox r)); [|discriminate].
  intros H Hr [H1 [H2 [H3 H4]]]. inversion H; subst d'.
  unfold db_times_le, set_mb_sides. cbn. repeat split; auto using Forall_snoc.
Qed.

Lemma le_ins_msg d r : msg_rx r <= T -> LE d -> LE (ins_msg d r).
Proof.
  intros Hr [H1 [H2 [H3 H4]]].
  unfold db_times_le, ins_msg, set_messages. cbn. repeat split; auto using Forall_snoc.
Qed.

Lemma le_upd_touch d m w : w <= T -> LE d -> LE (upd_touch d m w).
Proof.
  intros Hw [H1 [H2 [H3 H4]]].
  unfold db_times_le, upd_touch, set_mailboxes. cbn. repeat split; auto.
  apply Forall_map_keep; [|exact H1]. intros r Hr. cbv beta.
  destruct (seqb (mb_id r) m); [cbn; exact Hw|exact Hr].
Qed.

Lemma le_upd_mbs_close d m side mood : LE d -> LE (upd_mbs_close d m side mood).
Proof.
  intros [H1 [H2 [H3 H4]]].
  unfold db_times_le, upd_mbs_close, set_mb_sides. cbn. repeat split; auto.
  apply Forall_map_keep; [|exact H3]. intros r Hr. cbv beta.
  destruct (seqb (mbs_mbox r) m && seqb (mbs_side r) side); [cbn; exact Hr|exact Hr].
Qed.

Lemma le_upd_nps_release d npid side : LE d -> LE (upd_nps_release d npid side).
Proof.
  intros [H1 [H2 [H3 H4]]].
  unfold db_times_le, upd_nps_release, set_np_sides. cbn. repeat split; auto.
  apply Forall_map_keep; [|exact H2]. intros r Hr. cbv beta.
  destruct ((nps_npid r =? npid) && seqb (nps_side r) side); [cbn; exact Hr|exact Hr].
Qed.

Lemma le_del_nps_of d npid : LE d -> LE (del_nps_of d npid).
Proof.
  intros [H1 [H2 [H3 H4]]].
  unfold db_times_le, del_nps_of, set_np_sides. cbn. repeat split; auto using Forall_filter_keep.
Qed.

Lemma le_del_np d npid d' : del_np d npid = Some d' -> LE d -> LE d'.
Proof.
  unfold del_np.
  destruct (np_exists d npid && existsb (fun r => nps_npid r =? npid) (np_sides d)); [discriminate|].
  intros H [H1 [H2 [H3 H4]]]. inversion H; subst d'.
  unfold db_times_le, set_nameplates. cbn. repeat split; assumption.
Qed.

Lemma le_del_msgs_of d m : LE d -> LE (del_msgs_of d m).
Proof.
  intros [H1 [H2 [H3 H4]]].
  unfold db_times_le, del_msgs_of, set_messages. cbn. repeat split; auto using Forall_filter_keep.
Qed.

Lemma le_del_mbs_of d m : LE d -> LE (del_mbs_of d m).
Proof.
  intros [H1 [H2 [H3 H4]]].
  unfold db_times_le, del_mbs_of, set_mb_sides. cbn. repeat split; auto using Forall_filter_keep.
Qed.

Lemma le_del_mb d m d' : del_mb d m = Some d' -> LE d -> LE d'.
Proof.
  unfold del_mb.
  destruct (mb_exists d m &&
            (existsb (fun r => seqb (np_mbox r) m) (nameplates d) ||
             existsb (fun r => seqb (mbs_mbox r) m) (mb_sides d))); [discriminate|].
  intros H [H1 [H2 [H3 H4]]]. inversion H; subst d'.
  unfold db_times_le, set_mailboxes. cbn. repeat split; auto using Forall_filter_keep.
Qed.

(** * Transaction bodies of Server.v keep the bound (with [when] = T) *)

Definition txok {A} (r : txres A) : Prop :=
  match r with TxOk _ d => LE d | TxFail _ d => LE d end.

Lemma le_add_mailbox d a m fornp d' : add_mailbox d a m fornp T = Some d' -> LE d -> LE d'.
Proof.
  unfold add_mailbox. destruct (sel_mb d a m).
  - intros H Hd. inversion H; subst d'. exact Hd.
  - intros H Hd. eapply le_ins_mb; [exact H| |exact Hd]. cbn. lia.
Qed.

Lemma le_mailbox_open_body d m side d' :
  mailbox_open_body d m side T = Some d' -> LE d -> LE d'.
Proof.
  unfold mailbox_open_body. destruct (sel_mbs d m side).
  - intros H Hd. inversion H; subst d'. apply le_upd_touch; [lia|exact Hd].
  - destruct (ins_mbs d (mkMbs m true side T None)) as [d1|] eqn:E; [|discriminate].
    intros H Hd. inversion H; subst d'. apply le_upd_touch; [lia|].
    eapply le_ins_mbs; [exact E| |exact Hd]. cbn. lia.
Qed.

Lemma tx_open_body a m side d : LE d -> txok (open_body d a m side T).
Proof.
  intros Hd. unfold open_body.
  destruct (add_mailbox d a m false T) as [d1|] eqn:E1; [|exact Hd].
  pose proof (le_add_mailbox _ _ _ _ _ E1 Hd) as Hd1.
  destruct (mailbox_open_body d1 m side T) as [d2|] eqn:E2; [|exact Hd1].
  cbn [txok]. eapply le_mailbox_open_body; [exact E2|exact Hd1].
Qed.

Lemma tx_claim_side_body npid mbox side d : LE d -> txok (claim_side_body d npid mbox side T).
Proof.
  intros Hd. unfold claim_side_body. destruct (sel_nps d npid side) as [r|].
  - destruct (nps_claimed r); exact Hd.
  - destruct (ins_nps d (mkNps npid true side T)) as [d1|] eqn:E; [|exact Hd].
    cbn [txok]. eapply le_ins_nps; [exact E| |exact Hd]. cbn. lia.
Qed.

Lemma tx_claim_body a name side draw d : LE d -> txok (claim_body d a name side T draw).
Proof.
  intros Hd. unfold claim_body. destruct (sel_np d a name) as [row|].
  - apply tx_claim_side_body. exact Hd.
  - destruct draw as [bytes|]; [|exact Hd]. cbv zeta.
    destruct (add_mailbox d a (genid bytes) true T) as [d1|] eqn:E1; [|exact Hd].
    pose proof (le_add_mailbox _ _ _ _ _ E1 Hd) as Hd1.
    destruct (ins_np d1 a name (genid bytes)) as [[d2 npid]|] eqn:E2; [|exact Hd1].
    apply tx_claim_side_body. eapply le_ins_np; [exact E2|exact Hd1].
Qed.

Lemma tx_del_nameplates_body a when pruned ids : forall d acc,
  LE d -> txok (del_nameplates_body cfg d a ids when pruned acc).
Proof.
  induction ids as [|npid rest IH]; intros d acc Hd; cbn [del_nameplates_body]; cbv zeta.
  - exact Hd.
  - pose proof (le_del_nps_of d npid Hd) as Hd1.
    destruct (del_np (del_nps_of d npid) npid) as [d2|] eqn:E; [|exact Hd1].
    pose proof (le_del_np _ _ _ E Hd1) as Hd2.
    destruct (usage_on cfg).
    + destruct (summarize_nameplate (blur cfg) a (sel_nps_all d npid) when pruned);
        [apply IH; exact Hd2|exact Hd2].
    + apply IH; exact Hd2.
Qed.

Lemma tx_del_mailbox_body a m fornp rows when pruned d :
  LE d -> txok (del_mailbox_body cfg d a m fornp rows when pruned).
Proof.
  intros Hd. unfold del_mailbox_body. cbv zeta.
  pose proof (le_del_mbs_of _ m (le_del_msgs_of d m Hd)) as Hd2.
  destruct (del_mb (del_mbs_of (del_msgs_of d m) m) m) as [d3|] eqn:E; [|exact Hd2].
  cbn [txok]. eapply le_del_mb; [exact E|exact Hd2].
Qed.

Lemma tx_del_mailboxes_body a when rows : forall d acc,
  LE d -> txok (del_mailboxes_body cfg d a rows when acc).
Proof.
  induction rows as [|r rest IH]; intros d acc Hd; cbn [del_mailboxes_body].
  - exact Hd.
  - pose proof (tx_del_mailbox_body a (mb_id r) (mb_fornp r) (sel_mbs_all d (mb_id r)) when true d Hd)
      as H.
    destruct (del_mailbox_body cfg d a (mb_id r) (mb_fornp r) (sel_mbs_all d (mb_id r)) when true)
      as [us d1|e d1]; [apply IH; exact H|exact H].
Qed.

Lemma tx_close_mark a m side mood d :
  LE d -> txok (match close_mark_body d a m side mood with
                | None => TxOk None d
                | Some (fornp, d1) => TxOk (Some fornp) d1
                end).
Proof.
  intros Hd. unfold close_mark_body.
  destruct (sel_mb d a m) as [row|]; [|exact Hd].
  destruct (sel_mbs d m side); [|exact Hd].
  cbn [txok]. apply le_upd_mbs_close. exact Hd.
Qed.

Lemma tx_close_delete_body a m fornp when d :
  LE d -> txok (close_delete_body cfg d a m fornp when).
Proof.
  intros Hd. unfold close_delete_body. cbv zeta.
  destruct (existsb mbs_opened (sel_mbs_all d m)); [exact Hd|].
  pose proof (tx_del_nameplates_body a when false (map np_id (sel_np_by_mbox d m)) d [] Hd) as H1.
  destruct (del_nameplates_body cfg d a (map np_id (sel_np_by_mbox d m)) when false [])
    as [unps d1|e d1]; [|exact H1].
  pose proof (tx_del_mailbox_body a m fornp (sel_mbs_all d m) when false d1 H1) as H2.
  destruct (del_mailbox_body cfg d1 a m fornp (sel_mbs_all d m) when false) as [umbs d2|e d2];
    exact H2.
Qed.

Lemma tx_release_mark a name side d :
  LE d -> txok (match release_mark_body d a name side with
                | None => TxOk None d
                | Some (npid, d1) => TxOk (Some npid) d1
                end).
Proof.
  intros Hd. unfold release_mark_body.
  destruct (sel_np d a name) as [np|]; [|exact Hd].
  destruct (sel_nps d (np_id np) side); [|exact Hd].
  cbn [txok]. apply le_upd_nps_release. exact Hd.
Qed.

Lemma tx_release_delete_body a npid when d :
  LE d -> txok (release_delete_body cfg d a npid when).
Proof.
  intros Hd. unfold release_delete_body. cbv zeta.
  destruct (existsb nps_claimed (sel_nps_all d npid)); [exact Hd|].
  pose proof (le_del_nps_of d npid Hd) as Hd1.
  destruct (del_np (del_nps_of d npid) npid) as [d2|] eqn:E; [|exact Hd1].
  pose proof (le_del_np _ _ _ E Hd1) as Hd2.
  destruct (usage_on cfg); [|exact Hd2].
  destruct (summarize_nameplate (blur cfg) a (sel_nps_all d npid) when false); exact Hd2.
Qed.

Lemma tx_prune_body a when old d : LE d -> txok (prune_body cfg d a when old).
Proof.
  intros Hd. unfold prune_body. cbv zeta.
  pose proof (tx_del_nameplates_body a when true (map np_id (old_nameplates d a old)) d [] Hd) as H1.
  destruct (del_nameplates_body cfg d a (map np_id (old_nameplates d a old)) when true [])
    as [unps d1|e d1]; [|exact H1].
  pose proof (tx_del_mailboxes_body a when (old_mailboxes d a old) d1 [] H1) as H2.
  destruct (del_mailboxes_body cfg d1 a (old_mailboxes d a old) when []) as [umbs d2|e d2];
    exact H2.
Qed.

Lemma le_touch_all ms : forall d, LE d -> LE (touch_all d ms T).
Proof.
  induction ms as [|m rest IH]; intros d Hd; cbn [touch_all]; [exact Hd|].
  apply IH. apply le_upd_touch; [lia|exact Hd].
Qed.

Lemma tx_add_message_body m r d :
  msg_rx r <= T -> LE d -> @txok unit (TxOk tt (upd_touch (ins_msg d r) m (msg_rx r))).
Proof. intros Hr Hd. cbn [txok]. apply le_upd_touch; [exact Hr|]. apply le_ins_msg; assumption. Qed.

End Bodies.

(** * The invariant carried through a handler

    [b = true]: the full invariant (all stored times are at most T, and the
    clock reads T); [b = false]: only "the clock reads T" (used for the
    unconditional monotonicity of the clock). *)

Definition dbpart (T : Z) (s : state) : Prop :=
  db_times_le T (chan_w s) /\ db_times_le T (chan_c s) /\ Forall (time_entry T) (log s).

Definition TI (b : bool) (T : Z) (s : state) : Prop :=
  (b = true -> dbpart T s) /\ now s = T.

Lemma TI_ext b T s s' :
  chan_w s' = chan_w s -> chan_c s' = chan_c s -> log s' = log s -> now s' = now s ->
  TI b T s -> TI b T s'.
Proof.
  intros Ew Ec El En [Hd Hn]. unfold TI, dbpart. rewrite Ew, Ec, El, En. split; assumption.
Qed.

Lemma TI_mono b T T' s : T <= T' -> TI b T s -> TI b T' (set_now s T').
Proof.
  intros HT [Hd Hn]. split; [|reflexivity]. intros Hb. destruct (Hd Hb) as [Hw [Hc Hl]].
  unfold dbpart. cbn [set_now chan_w chan_c log].
  split; [eapply db_times_le_mono; eassumption|].
  split; [eapply db_times_le_mono; eassumption|].
  eapply Forall_impl; [|exact Hl]. intros e He. eapply time_entry_mono; eassumption.
Qed.

Lemma TI_self b T s : TI b T s -> TI b (now s) s /\ T = now s.
Proof. intros H. pose proof (proj2 H) as Hn. rewrite Hn. split; [exact H|reflexivity]. Qed.

Lemma time_ok_TI s : time_ok s <-> TI true (now s) s.
Proof.
  unfold time_ok, TI, dbpart. split.
  - intros H. split; [intros _; exact H|reflexivity].
  - intros [H _]. apply H. reflexivity.
Qed.

Lemma TI_false s : TI false (now s) s.
Proof. split; [discriminate|reflexivity]. Qed.

Section Pres.
Variables (cfg : config) (b : bool) (T : Z).

Local Notation INV := (TI b T).
Local Notation LE := (db_times_le T).

Definition pres {A} (P : A -> Prop) (m : M A) : Prop :=
  forall s, INV s -> wp m (fun a s' => P a /\ INV s') (fun _ s' => INV s') s.

Lemma pres_elim {A} (P : A -> Prop) (m : M A) s :
  pres P m -> INV s -> match m s with Ok _ s' => INV s' | Exn _ s' => INV s' end.
Proof.
  intros Hm Hs. specialize (Hm s Hs). unfold wp in Hm.
  destruct (m s); [apply Hm|exact Hm].
Qed.

Lemma pres_bind {A C} (P : A -> Prop) (Q : C -> Prop) (m : M A) (k : A -> M C) :
  pres P m -> (forall a, P a -> pres Q (k a)) -> pres Q (bind m k).
Proof.
  intros Hm Hk s Hs. apply wp_bind. eapply wp_conseq; [apply (Hm s Hs)| |].
  - intros a s' [Ha Hs']. apply (Hk a Ha s' Hs').
  - auto.
Qed.

Lemma pres_try_catch {A} (P : A -> Prop) (m : M A) (h : exn -> M A) :
  pres P m -> (forall e, pres P (h e)) -> pres P (try_catch m h).
Proof.
  intros Hm Hh s Hs. apply wp_try_catch. eapply wp_conseq; [apply (Hm s Hs)| |].
  - auto.
  - intros e s' Hs'. apply (Hh e s' Hs').
Qed.

Lemma pres_ret {A} (P : A -> Prop) (a : A) : P a -> pres P (ret a).
Proof. intros Ha s Hs. apply wp_ret. split; assumption. Qed.

Lemma pres_raise {A} (P : A -> Prop) e : pres P (raise e).
Proof. intros s Hs. apply wp_raise. exact Hs. Qed.

(** reading the state also tells what the clock says *)
Lemma pres_get : pres (fun s => now s = T) get.
Proof. intros s Hs. apply wp_get. split; [exact (proj2 Hs)|exact Hs]. Qed.

Lemma pres_q {A} (f : chan_db -> A) : pres (fun _ => True) (q f).
Proof. intros s Hs. apply wp_q. split; [exact I|exact Hs]. Qed.

Lemma pres_tx {A} (f : chan_db -> txres A) :
  (forall d, LE d -> txok T (f d)) -> pres (fun _ => True) (tx f).
Proof.
  intros Hf s [Hd Hn]. apply wp_tx.
  assert (Hset : forall d, LE d -> INV (set_chan_w s d)).
  { intros d Hle. split; [|exact Hn]. intros Hb. destruct (Hd Hb) as [Hw [Hc Hl]].
    unfold dbpart. cbn [set_chan_w chan_w chan_c log]. auto. }
  destruct b eqn:Eb.
  - specialize (Hf (chan_w s) (proj1 (Hd eq_refl))).
    destruct (f (chan_w s)) as [a d|e d]; cbn [txok] in Hf; [split; [exact I|]|]; apply Hset; exact Hf.
  - destruct (f (chan_w s)) as [a d|e d]; [split; [exact I|]|]; (split; [discriminate|exact Hn]).
Qed.

Lemma pres_utx f : pres (fun _ => True) (utx f).
Proof.
  intros s Hs. apply wp_utx. split; [exact I|]. eapply TI_ext; [..|exact Hs]; reflexivity.
Qed.

Lemma pres_commit_chan : pres (fun _ => True) commit_chan.
Proof.
  intros s [Hd Hn]. apply wp_commit_chan. split; [exact I|]. split; [|exact Hn].
  intros Hb. destruct (Hd Hb) as [Hw [Hc Hl]]. unfold dbpart. cbn [chan_w chan_c log].
  split; [exact Hw|]. split; [exact Hw|]. constructor; [exact Hw|exact Hl].
Qed.

Lemma pres_commit_usage : pres (fun _ => True) commit_usage.
Proof.
  intros s [Hd Hn]. apply wp_commit_usage. split; [exact I|]. split; [|exact Hn].
  intros Hb. destruct (Hd Hb) as [Hw [Hc Hl]]. unfold dbpart. cbn [chan_w chan_c log].
  split; [exact Hw|]. split; [exact Hc|]. constructor; [exact I|exact Hl].
Qed.

Lemma pres_send c f : pres (fun _ => True) (send c f).
Proof.
  intros s [Hd Hn]. apply wp_send. split; [exact I|]. split; [|exact Hn].
  intros Hb. destruct (Hd Hb) as [Hw [Hc Hl]]. unfold dbpart. cbn [chan_w chan_c log set_log].
  split; [exact Hw|]. split; [exact Hc|]. constructor; [exact I|exact Hl].
Qed.

Lemma pres_get_conn c : pres (fun _ => True) (get_conn c).
Proof. intros s Hs. apply wp_get_conn. split; [exact I|exact Hs]. Qed.

Lemma pres_set_conn c cs : pres (fun _ => True) (set_conn c cs).
Proof.
  intros s Hs. apply wp_set_conn. split; [exact I|]. eapply TI_ext; [..|exact Hs]; reflexivity.
Qed.

Lemma pres_add_sub a m c : pres (fun _ => True) (add_sub a m c).
Proof.
  intros s Hs. apply wp_add_sub. split; [exact I|].
  destruct (existsb (sub_is a m c) (subs s)); [exact Hs|].
  eapply TI_ext; [..|exact Hs]; reflexivity.
Qed.

Lemma pres_remove_sub a m c : pres (fun _ => True) (remove_sub a m c).
Proof.
  intros s Hs. apply wp_remove_sub. split; [exact I|]. eapply TI_ext; [..|exact Hs]; reflexivity.
Qed.

Lemma pres_stop_listeners a m : pres (fun _ => True) (stop_listeners a m).
Proof.
  intros s Hs. unfold wp, stop_listeners. split; [exact I|].
  eapply TI_ext; [..|exact Hs]; reflexivity.
Qed.

Lemma pres_write_usage unps umbs : pres (fun _ => True) (write_usage unps umbs).
Proof. unfold write_usage. apply pres_utx. Qed.

(** one step of the preservation proof; composite operations are found in
    the hint database [tpres].  After [s <- get] every [now s] is rewritten
    to [T], so the operations are met with [when] = T. *)
Ltac tx_body :=
  first [ apply tx_open_body | apply tx_claim_body | apply tx_release_mark
        | apply tx_release_delete_body | apply tx_close_mark | apply tx_close_delete_body
        | apply tx_prune_body ]; assumption.

Ltac pres_step :=
  cbv beta;
  lazymatch goal with
  | |- pres _ (bind get _) =>
      let Hnow := fresh "Hnow" in
      apply (pres_bind (fun s => now s = T)); [apply pres_get|intros ? Hnow; rewrite ?Hnow]
  | |- pres _ (bind _ _) => apply (pres_bind (fun _ => True)); [|intros ? _]
  | |- pres _ (ret _) => apply pres_ret; exact I
  | |- pres _ (raise _) => apply pres_raise
  | |- pres _ err => apply pres_raise
  | |- pres _ (try_catch _ _) => apply pres_try_catch; [|intros ?]
  | |- pres _ (catch_crowded _) => apply pres_try_catch; [|intros ?]
  | |- pres _ (catch_crowded_reclaimed _) => apply pres_try_catch; [|intros ?]
  | |- pres _ (q _) => apply pres_q
  | |- pres _ (tx _) => apply pres_tx; intros ? ?; tx_body
  | |- pres _ (utx _) => apply pres_utx
  | |- pres _ commit_chan => apply pres_commit_chan
  | |- pres _ commit_usage => apply pres_commit_usage
  | |- pres _ (send _ _) => apply pres_send
  | |- pres _ (get_conn _) => apply pres_get_conn
  | |- pres _ (set_conn _ _) => apply pres_set_conn
  | |- pres _ (add_sub _ _ _) => apply pres_add_sub
  | |- pres _ (remove_sub _ _ _) => apply pres_remove_sub
  | |- pres _ (stop_listeners _ _) => apply pres_stop_listeners
  | |- pres _ (write_usage _ _) => apply pres_write_usage
  | |- pres _ (match ?x with _ => _ end) => destruct x
  | |- pres _ _ => solve [eauto with tpres]
  end.

(** * Server.v *)

Lemma pres_open_mailbox a m side : pres (fun _ => True) (open_mailbox a m side T).
Proof. unfold open_mailbox. repeat pres_step. Qed.
Local Hint Resolve pres_open_mailbox : tpres.

Lemma pres_claim_nameplate a name side draw :
  pres (fun _ => True) (claim_nameplate a name side T draw).
Proof. unfold claim_nameplate. repeat pres_step. Qed.
Local Hint Resolve pres_claim_nameplate : tpres.

Lemma pres_allocate_nameplate a side o draw :
  pres (fun _ => True) (allocate_nameplate a side T o draw).
Proof. unfold allocate_nameplate. repeat pres_step. Qed.
Local Hint Resolve pres_allocate_nameplate : tpres.

Lemma pres_release_nameplate a name side when :
  pres (fun _ => True) (release_nameplate cfg a name side when).
Proof. unfold release_nameplate. repeat pres_step. Qed.
Local Hint Resolve pres_release_nameplate : tpres.

Lemma pres_send_all cs f : pres (fun _ => True) (send_all cs f).
Proof. induction cs as [|c rest IH]; cbn [send_all]; repeat pres_step. Qed.
Local Hint Resolve pres_send_all : tpres.

Lemma pres_add_message a m r : msg_rx r <= T -> pres (fun _ => True) (add_message a m r).
Proof.
  intros Hr. unfold add_message.
  apply (pres_bind (fun _ => True)); [|intros ? _; repeat pres_step].
  apply pres_tx. intros d Hd. apply tx_add_message_body; assumption.
Qed.

Lemma pres_get_messages a m : pres (fun _ => True) (get_messages a m).
Proof. unfold get_messages. repeat pres_step. Qed.
Local Hint Resolve pres_get_messages : tpres.

Lemma pres_mailbox_close a m side mood when :
  pres (fun _ => True) (mailbox_close cfg a m side mood when).
Proof. unfold mailbox_close. repeat pres_step. Qed.
Local Hint Resolve pres_mailbox_close : tpres.

Lemma pres_prune_app a old : pres (fun _ => True) (prune_app cfg a T old).
Proof.
  unfold prune_app.
  apply (pres_bind (fun s => now s = T)); [apply pres_get|intros s0 _].
  apply (pres_bind (fun _ => True)).
  { apply pres_tx. intros d Hd. cbn [txok]. apply le_touch_all. exact Hd. }
  intros ? _. repeat pres_step.
Qed.
Local Hint Resolve pres_prune_app : tpres.

Lemma pres_prune_apps apps old : pres (fun _ => True) (prune_apps cfg apps T old).
Proof. induction apps as [|a rest IH]; cbn [prune_apps]; repeat pres_step. Qed.
Local Hint Resolve pres_prune_apps : tpres.

Lemma pres_prune_all_apps old : pres (fun _ => True) (prune_all_apps cfg T old).
Proof. unfold prune_all_apps. repeat pres_step. Qed.
Local Hint Resolve pres_prune_all_apps : tpres.

Lemma pres_dump_stats when rebooted : pres (fun _ => True) (dump_stats cfg when rebooted).
Proof. unfold dump_stats. repeat pres_step. Qed.
Local Hint Resolve pres_dump_stats : tpres.

Lemma pres_log_client_version a side when cv :
  pres (fun _ => True) (log_client_version cfg a side when cv).
Proof. unfold log_client_version. repeat pres_step. Qed.
Local Hint Resolve pres_log_client_version : tpres.

(** * Websocket.v *)

Lemma pres_handle_ping c msg : pres (fun _ => True) (handle_ping c msg).
Proof. unfold handle_ping. repeat pres_step. Qed.
Local Hint Resolve pres_handle_ping : tpres.

Lemma pres_handle_bind c msg : pres (fun _ => True) (handle_bind cfg c msg).
Proof. unfold handle_bind. repeat pres_step. Qed.
Local Hint Resolve pres_handle_bind : tpres.

Lemma pres_handle_list c a : pres (fun _ => True) (handle_list cfg c a).
Proof. unfold handle_list. repeat pres_step. Qed.
Local Hint Resolve pres_handle_list : tpres.

Lemma pres_handle_allocate c a side o : pres (fun _ => True) (handle_allocate c a side o).
Proof. unfold handle_allocate. repeat pres_step. Qed.
Local Hint Resolve pres_handle_allocate : tpres.

Lemma pres_handle_claim c a side msg o : pres (fun _ => True) (handle_claim c a side msg o).
Proof. unfold handle_claim. repeat pres_step. Qed.
Local Hint Resolve pres_handle_claim : tpres.

Lemma pres_handle_release c a side msg : pres (fun _ => True) (handle_release cfg c a side msg).
Proof. unfold handle_release. repeat pres_step. Qed.
Local Hint Resolve pres_handle_release : tpres.

Lemma pres_send_each c l : pres (fun _ => True) (send_each c l).
Proof. induction l as [|r rest IH]; cbn [send_each]; repeat pres_step. Qed.
Local Hint Resolve pres_send_each : tpres.

Lemma pres_handle_open c a side msg : pres (fun _ => True) (handle_open c a side msg).
Proof. unfold handle_open. repeat pres_step. Qed.
Local Hint Resolve pres_handle_open : tpres.

Lemma pres_handle_add c a side msg : pres (fun _ => True) (handle_add c a side msg).
Proof.
  unfold handle_add. repeat pres_step.
  apply pres_add_message. cbn [msg_rx]. lia.
Qed.
Local Hint Resolve pres_handle_add : tpres.

Lemma pres_handle_close c a side msg : pres (fun _ => True) (handle_close cfg c a side msg).
Proof. unfold handle_close. repeat pres_step. Qed.
Local Hint Resolve pres_handle_close : tpres.

Lemma pres_dispatch c t msg o : pres (fun _ => True) (dispatch cfg c t msg o).
Proof. unfold dispatch. repeat pres_step. Qed.
Local Hint Resolve pres_dispatch : tpres.

Lemma pres_on_message c msg o : pres (fun _ => True) (on_message cfg c msg o).
Proof. unfold on_message. repeat pres_step. Qed.

Lemma pres_on_open c : pres (fun _ => True) (on_open cfg c).
Proof. unfold on_open. repeat pres_step. Qed.

Lemma pres_on_close c : pres (fun _ => True) (on_close c).
Proof. unfold on_close. repeat pres_step. Qed.

(** * Service.v *)

Lemma pres_expire fault : pres (fun _ => True) (expire cfg fault).
Proof. unfold expire. repeat pres_step. Qed.

Lemma run_m_INV m s : pres (fun _ => True) m -> INV s -> INV (fst (run_m m s)).
Proof.
  intros Hm Hs. pose proof (pres_elim _ m s Hm Hs) as H. unfold run_m.
  destruct (m s); exact H.
Qed.

Lemma drop_conn_INV c s : INV s -> INV (drop_conn c s).
Proof.
  intros Hs. pose proof (pres_elim _ _ s (pres_on_close c) Hs) as H. unfold drop_conn.
  destruct (on_close c s) as [u s'|e s']; (eapply TI_ext; [..|exact H]; reflexivity).
Qed.

End Pres.

(** * Events *)

Section WithConfig.
Variable cfg : config.

Lemma step_b_TI b s e :
  TI b (now s) s ->
  TI b (now (fst (fst (step_b cfg s e)))) (fst (fst (step_b cfg s e))) /\
  now s <= now (fst (fst (step_b cfg s e))).
Proof.
  intros Hs.
  assert (Hfin : forall s1, TI b (now s) s1 -> TI b (now s1) s1 /\ now s <= now s1).
  { intros s1 H1. destruct (TI_self _ _ _ H1) as [H2 H3]. split; [exact H2|lia]. }
  destruct e as [c|c m o|c|fault|dt fault]; cbn [step_b].
  - destruct (has_conn c s); [apply Hfin; exact Hs|]. cbv zeta.
    assert (Hs1 : TI b (now s) (set_conns s (conns s ++ [(c, new_conn)])))
      by (eapply TI_ext; [..|exact Hs]; reflexivity).
    pose proof (run_m_INV b (now s) (on_open cfg c) _ (pres_on_open cfg b (now s) c) Hs1) as H.
    destruct (run_m (on_open cfg c) (set_conns s (conns s ++ [(c, new_conn)]))) as [s2 x].
    cbn [fst] in *. apply Hfin; exact H.
  - destruct (has_conn c s); [|apply Hfin; exact Hs].
    pose proof (pres_elim b (now s) _ _ s (pres_on_message cfg b (now s) c m o) Hs) as H.
    destruct (on_message cfg c m o s) as [u s'|e s']; cbn [fst]; apply Hfin.
    + exact H.
    + apply drop_conn_INV. exact H.
  - destruct (has_conn c s); [|apply Hfin; exact Hs]. cbn [fst]. apply Hfin.
    apply drop_conn_INV. exact Hs.
  - pose proof (run_m_INV b (now s) (expire cfg fault) s (pres_expire cfg b (now s) fault) Hs) as H.
    destruct (run_m (expire cfg fault) s) as [s1 x]. cbn [fst] in *. apply Hfin; exact H.
  - destruct (dt <? 0) eqn:Edt; [apply Hfin; exact Hs|]. apply Z.ltb_ge in Edt. cbv zeta.
    assert (Hs1 : TI b (now s + dt) (set_now s (now s + dt))) by (apply (TI_mono b (now s)); [lia|exact Hs]).
    destruct (next_due (set_now s (now s + dt)) <=? now (set_now s (now s + dt))).
    + pose proof (run_m_INV b (now s + dt) (expire cfg fault) _
                    (pres_expire cfg b (now s + dt) fault) Hs1) as H.
      destruct (run_m (expire cfg fault) (set_now s (now s + dt))) as [s2 x]. cbn [fst] in *.
      assert (H2 : TI b (now s + dt) (set_next_due s2 (next_grid cfg (timer_start s2) (now s2))))
        by (eapply TI_ext; [..|exact H]; reflexivity).
      destruct (TI_self _ _ _ H2) as [H3 H4]. split; [exact H3|lia].
    + cbn [fst]. destruct (TI_self _ _ _ Hs1) as [H3 H4]. split; [exact H3|lia].
Qed.

Lemma boot_on_TI b c u t :
  (b = true -> db_times_le t c) -> TI b t (fst (fst (boot_on cfg c u t))).
Proof.
  intros Hc.
  assert (H0 : TI b t (mkState c c u u [] [] t t t (t + period cfg) [])).
  { split; [|reflexivity]. intros Hb. unfold dbpart. cbn [chan_w chan_c log].
    split; [exact (Hc Hb)|]. split; [exact (Hc Hb)|constructor]. }
  unfold boot_on. cbv zeta.
  pose proof (run_m_INV b t _ _ (pres_expire cfg b t false) H0) as H1.
  destruct (run_m (expire cfg false) (mkState c c u u [] [] t t t (t + period cfg) [])) as [s1 x].
  cbn [fst] in *. destruct H1 as [Hd Hn]. split; [|exact Hn].
  intros Hb. destruct (Hd Hb) as [Hw [Hc' Hl]]. unfold dbpart. cbn [chan_w chan_c log set_log].
  split; [exact Hw|]. split; [exact Hc'|constructor].
Qed.

Lemma log_prefix_Forall (P : log_entry -> Prop) l : forall k,
  Forall P l -> Forall P (log_prefix k l).
Proof.
  induction l as [|x l IH]; intros k Hl; destruct k as [|k]; cbn [log_prefix]; try constructor.
  inversion Hl as [|x' l' Hx Hl']; subst.
  destruct (is_commit x); (constructor; [exact Hx|apply IH; exact Hl']).
Qed.

Lemma replay_le t l : forall c u,
  Forall (time_entry t) l -> db_times_le t c -> db_times_le t (fst (replay_commits l c u)).
Proof.
  induction l as [|x l IH]; intros c u Hl Hc; cbn [replay_commits]; [exact Hc|].
  inversion Hl as [|x' l' Hx Hl']; subst.
  destruct x as [c'|u'|n f b]; apply IH; auto.
Qed.

Lemma set_log_nil_TI b T s : TI b T s -> TI b T (set_log s []).
Proof.
  intros [Hd Hn]. split; [|exact Hn]. intros Hb. destruct (Hd Hb) as [Hw [Hc Hl]].
  unfold dbpart. cbn [chan_w chan_c log set_log]. split; [exact Hw|]. split; [exact Hc|constructor].
Qed.

Lemma step_TI b s e :
  TI b (now s) s ->
  TI b (now (fst (step cfg s e))) (fst (step cfg s e)) /\ now s <= now (fst (step cfg s e)).
Proof.
  intros Hs0. pose proof (set_log_nil_TI b _ s Hs0) as Hs. unfold step. cbv zeta.
  assert (Hboot : forall c u t, (b = true -> db_times_le t c) -> now s <= t ->
            TI b (now (fst (fst (boot_on cfg c u t)))) (fst (fst (boot_on cfg c u t))) /\
            now s <= now (fst (fst (boot_on cfg c u t)))).
  { intros c u t Hc Ht. pose proof (boot_on_TI b c u t Hc) as H.
    destruct (TI_self _ _ _ H) as [H1 H2]. split; [exact H1|lia]. }
  destruct e as [e|k e|].
  - pose proof (step_b_TI b (set_log s []) e Hs) as [H Hle].
    destruct (step_b cfg (set_log s []) e) as [[s1 valid] x]. cbn [fst snd] in *.
    split; [|exact Hle]. apply (set_log_nil_TI b _ s1 H).
  - pose proof (step_b_TI b (set_log s []) e Hs) as [H Hle].
    destruct (step_b cfg (set_log s []) e) as [[s1 valid] x]. cbn [fst snd] in H, Hle.
    change (now (set_log s [])) with (now s) in Hle.
    destruct ((count_commits (rev (log s1)) <? k)%nat || negb valid).
    + assert (Hc : b = true -> db_times_le (now s1) (chan_c s1))
        by (intros Hb; apply (proj1 H Hb)).
      pose proof (Hboot (chan_c s1) (usage_c s1) (now s1) Hc Hle) as Hb.
      destruct (boot_on cfg (chan_c s1) (usage_c s1) (now s1)) as [[s2 bl] x2].
      cbn [fst snd] in *. exact Hb.
    + assert (Hc : b = true -> db_times_le (now s1)
                (fst (replay_commits (log_prefix k (rev (log s1))) (chan_c (set_log s []))
                        (usage_c (set_log s []))))).
      { intros Hb. destruct (proj1 H Hb) as [_ [_ Hl]]. apply replay_le.
        - apply log_prefix_Forall. apply Forall_rev. exact Hl.
        - eapply db_times_le_mono; [exact Hle|]. apply (proj1 Hs Hb). }
      destruct (replay_commits (log_prefix k (rev (log s1))) (chan_c (set_log s []))
                  (usage_c (set_log s []))) as [c u].
      cbn [fst] in Hc.
      pose proof (Hboot c u (now s1) Hc Hle) as Hb.
      destruct (boot_on cfg c u (now s1)) as [[s2 bl] x2]. cbn [fst snd] in *. exact Hb.
  - assert (Hc : b = true -> db_times_le (now (set_log s [])) (chan_c (set_log s [])))
      by (intros Hb; apply (proj1 Hs Hb)).
    pose proof (Hboot _ (usage_c (set_log s [])) _ Hc (Z.le_refl _)) as Hb.
    destruct (boot_on cfg (chan_c (set_log s [])) (usage_c (set_log s [])) (now (set_log s [])))
      as [[s1 bl] x].
    cbn [fst snd] in *. exact Hb.
Qed.

Theorem step_time_ok s e : time_ok s -> time_ok (fst (step cfg s e)).
Proof. intros Hs. apply time_ok_TI. apply step_TI. apply time_ok_TI. exact Hs. Qed.

Theorem step_now_mono s e : now s <= now (fst (step cfg s e)).
Proof. apply (step_TI false s e). apply TI_false. Qed.

Theorem run_time_ok s h : time_ok s -> time_ok (fst (run cfg s h)) /\ now s <= now (fst (run cfg s h)).
Proof.
  revert s. induction h as [|e h IH]; intros s Hs; cbn [run].
  - split; [exact Hs|apply Z.le_refl].
  - pose proof (step_time_ok s e Hs) as H1. pose proof (step_now_mono s e) as H2.
    destruct (step cfg s e) as [s1 o1]. cbn [fst] in *.
    destruct (IH s1 H1) as [H3 H4].
    destruct (run cfg s1 h) as [s2 os]. cbn [fst] in *. split; [exact H3|lia].
Qed.

Theorem init_time_ok t0 : time_ok (init cfg t0).
Proof.
  unfold init. pose proof (boot_on_TI true empty_chan empty_usage t0
                             (fun _ => db_times_le_empty t0)) as H.
  destruct (TI_self _ _ _ H) as [H1 _]. apply time_ok_TI. exact H1.
Qed.

End WithConfig.
