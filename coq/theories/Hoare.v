(** Hoare.v -- weakest-precondition style reasoning for the model's monad.
    [wp m Q E s]: running [m] from [s] ends in [Ok a s'] with [Q a s'] or in
    [Exn e s'] with [E e s']. *)
From MW Require Import Base Store Monad.

Definition wp {A} (m : M A) (Q : A -> state -> Prop) (E : exn -> state -> Prop)
           (s : state) : Prop :=
  match m s with
  | Ok a s' => Q a s'
  | Exn e s' => E e s'
  end.

Lemma wp_conseq {A} (m : M A) (Q Q' : A -> state -> Prop) (E E' : exn -> state -> Prop) s :
  wp m Q E s ->
  (forall a s', Q a s' -> Q' a s') ->
  (forall e s', E e s' -> E' e s') ->
  wp m Q' E' s.
Proof. unfold wp. destruct (m s); auto. Qed.

Lemma wp_ret {A} (a : A) (Q : A -> state -> Prop) (E : exn -> state -> Prop) s : Q a s -> wp (ret a) Q E s.
Proof. exact (fun H => H). Qed.

Lemma wp_raise {A} e (Q : A -> state -> Prop) (E : exn -> state -> Prop) s : E e s -> wp (raise e) Q E s.
Proof. exact (fun H => H). Qed.

Lemma wp_bind {A B} (m : M A) (k : A -> M B) (Q : B -> state -> Prop) (E : exn -> state -> Prop) s :
  wp m (fun a s' => wp (k a) Q E s') E s -> wp (bind m k) Q E s.
Proof. unfold wp, bind. destruct (m s); auto. Qed.

Lemma wp_bind_inv {A B} (m : M A) (k : A -> M B) (Q : B -> state -> Prop) (E : exn -> state -> Prop) s :
  wp (bind m k) Q E s -> wp m (fun a s' => wp (k a) Q E s') E s.
Proof. unfold wp, bind. destruct (m s); auto. Qed.

Lemma wp_try_catch {A} (m : M A) (h : exn -> M A) (Q : A -> state -> Prop) (E : exn -> state -> Prop) s :
  wp m Q (fun e s' => wp (h e) Q E s') s -> wp (try_catch m h) Q E s.
Proof. unfold wp, try_catch. destruct (m s); auto. Qed.

Lemma wp_get (Q : state -> state -> Prop) (E : exn -> state -> Prop) s : Q s s -> wp get Q E s.
Proof. exact (fun H => H). Qed.

Lemma wp_q {A} (f : chan_db -> A) (Q : A -> state -> Prop) (E : exn -> state -> Prop) s : Q (f (chan_w s)) s -> wp (q f) Q E s.
Proof. exact (fun H => H). Qed.

Lemma wp_tx {A} (f : chan_db -> txres A) (Q : A -> state -> Prop) (E : exn -> state -> Prop) s :
  match f (chan_w s) with
  | TxOk a d => Q a (set_chan_w s d)
  | TxFail e d => E e (set_chan_w s d)
  end -> wp (tx f) Q E s.
Proof. unfold wp, tx. destruct (f (chan_w s)); auto. Qed.

Lemma wp_utx f (Q : unit -> state -> Prop) (E : exn -> state -> Prop) s : Q tt (set_usage_w s (f (usage_w s))) -> wp (utx f) Q E s.
Proof. exact (fun H => H). Qed.

Lemma wp_commit_chan (Q : unit -> state -> Prop) (E : exn -> state -> Prop) s :
  Q tt (mkState (chan_w s) (chan_w s) (usage_w s) (usage_c s) (subs s) (conns s)
                (now s) (boot s) (timer_start s) (next_due s)
                (LCommitChan (chan_w s) :: log s)) ->
  wp commit_chan Q E s.
Proof. exact (fun H => H). Qed.

Lemma wp_commit_usage (Q : unit -> state -> Prop) (E : exn -> state -> Prop) s :
  Q tt (mkState (chan_w s) (chan_c s) (usage_w s) (usage_w s) (subs s) (conns s)
                (now s) (boot s) (timer_start s) (next_due s)
                (LCommitUsage (usage_w s) :: log s)) ->
  wp commit_usage Q E s.
Proof. exact (fun H => H). Qed.

Lemma wp_send c f (Q : unit -> state -> Prop) (E : exn -> state -> Prop) s :
  Q tt (set_log s (LFrame c f (is_clean s) (now s) :: log s)) -> wp (send c f) Q E s.
Proof. exact (fun H => H). Qed.

Lemma wp_get_conn c (Q : conn_state -> state -> Prop) (E : exn -> state -> Prop) s :
  Q (match lookup_conn c (conns s) with Some cs => cs | None => new_conn end) s ->
  wp (get_conn c) Q E s.
Proof. exact (fun H => H). Qed.

Lemma wp_set_conn c cs (Q : unit -> state -> Prop) (E : exn -> state -> Prop) s :
  Q tt (set_conns s (update_conn c cs (conns s))) -> wp (set_conn c cs) Q E s.
Proof. exact (fun H => H). Qed.

Lemma wp_add_sub a m c (Q : unit -> state -> Prop) (E : exn -> state -> Prop) s :
  Q tt (if existsb (sub_is a m c) (subs s) then s else set_subs s (subs s ++ [(a, m, c)])) ->
  wp (add_sub a m c) Q E s.
Proof. exact (fun H => H). Qed.

Lemma wp_remove_sub a m c (Q : unit -> state -> Prop) (E : exn -> state -> Prop) s :
  Q tt (set_subs s (filter (fun p => negb (sub_is a m c p)) (subs s))) ->
  wp (remove_sub a m c) Q E s.
Proof. exact (fun H => H). Qed.

(** a computation that cannot fail, given as a function on states *)
Lemma wp_ok {A} (m : M A) a s' (Q : A -> state -> Prop) (E : exn -> state -> Prop) s : m s = Ok a s' -> Q a s' -> wp m Q E s.
Proof. unfold wp. intros ->. auto. Qed.

Lemma wp_elim {A} (m : M A) (Q : A -> state -> Prop) (E : exn -> state -> Prop) s :
  wp m Q E s ->
  (exists a s', m s = Ok a s' /\ Q a s') \/ (exists e s', m s = Exn e s' /\ E e s').
Proof. unfold wp. destruct (m s) eqn:Em; eauto. Qed.

Lemma is_clean_true s : is_clean s = true <-> chan_w s = chan_c s /\ usage_w s = usage_c s.
Proof.
  unfold is_clean.
  destruct (chan_db_dec (chan_w s) (chan_c s)), (usage_db_dec (usage_w s) (usage_c s));
    cbn; split; intros H; try discriminate; auto; destruct H; contradiction.
Qed.

(** one step of symbolic execution *)
Ltac wp_step :=
  lazymatch goal with
  | |- wp (bind _ _) _ _ _ => apply wp_bind
  | |- wp (ret _) _ _ _ => apply wp_ret
  | |- wp (raise _) _ _ _ => apply wp_raise
  | |- wp (try_catch _ _) _ _ _ => apply wp_try_catch
  | |- wp get _ _ _ => apply wp_get
  | |- wp (q _) _ _ _ => apply wp_q
  | |- wp (tx _) _ _ _ => apply wp_tx
  | |- wp (utx _) _ _ _ => apply wp_utx
  | |- wp commit_chan _ _ _ => apply wp_commit_chan
  | |- wp commit_usage _ _ _ => apply wp_commit_usage
  | |- wp (send _ _) _ _ _ => apply wp_send
  | |- wp (get_conn _) _ _ _ => apply wp_get_conn
  | |- wp (set_conn _ _) _ _ _ => apply wp_set_conn
  | |- wp (add_sub _ _ _) _ _ _ => apply wp_add_sub
  | |- wp (remove_sub _ _ _) _ _ _ => apply wp_remove_sub
  end.
