(** ViewFacts.v -- C18 and C11: the channel behaviour of the server (every
    frame, both copies of the channel database, subscriptions, connection
    records) is a function of the channel-relevant part of the state only.  It
    does not depend on whether listing is allowed (except for the one
    `nameplates` answer), on the presence of a usage database, on the blur
    interval, on the usage database's contents, on the boot time or on the
    timer phase (except for when sweeps fire). *)
From MW Require Import Base Store Monad Usage Server Websocket Service Findings
     Inv StoreFacts UsageFacts Hoare DbFactsA DbFactsB OpFacts ProtoFacts Obs StepFacts.
Local Open Scope list_scope.

(** the channel-relevant part of a state *)
Definition view_of (s : state) : chan_db * chan_db * list (string * string * nat) *
                                 list (nat * conn_state) * Z :=
  (chan_w s, chan_c s, subs s, conns s, now s).

(** frames with the content of `nameplates` answers masked *)
Definition mask_frame (p : nat * frame) : nat * frame :=
  match snd p with
  | FNameplates _ => (fst p, FNameplates [])
  | _ => p
  end.

(** an event that is neither a restart nor a crash *)
Definition plain (e : event) : Prop := match e with EB _ => True | _ => False end.

(** both runs fire their sweep timer, or neither does *)
Definition same_firing (s1 s2 : state) (e : event) : Prop :=
  match e with
  | EB (EAdvance dt _) => (next_due s1 <=? now s1 + dt) = (next_due s2 <=? now s2 + dt)
  | _ => True
  end.

(** * Part 1: the deleting transaction bodies compute a configuration-free
    database (on a well-formed database) *)

Fixpoint rm_nps (d : chan_db) (ids : list Z) : chan_db :=
  match ids with
  | [] => d
  | i :: rest => rm_nps (rm_np d i) rest
  end.

Fixpoint rm_mbs (d : chan_db) (rows : list mb_row) : chan_db :=
  match rows with
  | [] => d
  | r :: rest => rm_mbs (rm_mb d (mb_id r)) rest
  end.

Lemma del_nameplates_char cfg a when pruned ids : forall d acc,
  DbInv d -> NoDup ids -> (forall i, In i ids -> np_exists d i = true) ->
  exists us, del_nameplates_body cfg d a ids when pruned acc = TxOk us (rm_nps d ids).
Proof.
  induction ids as [|i rest IH]; intros d acc Hinv Hnd Hex.
  - exists acc. reflexivity.
  - inversion Hnd as [|? ? Hnin Hnd']; subst.
    assert (Hrec : forall acc', exists us,
      del_nameplates_body cfg (rm_np d i) a rest when pruned acc' =
      TxOk us (rm_nps (rm_np d i) rest)).
    { intros acc'. apply IH; [apply rm_np_inv; exact Hinv|exact Hnd'|].
      intros j Hj. apply np_exists_rm_np; [apply Hex; now right|].
      intros Eq. subst j. contradiction. }
    cbn [del_nameplates_body rm_nps]. rewrite del_np_rm.
    destruct (usage_on cfg).
    + destruct (summarize_nameplate (blur cfg) a (sel_nps_all d i) when pruned) as [u|] eqn:Es.
      * apply Hrec.
      * exfalso. apply nameplate_summary_none in Es.
        apply (np_sided_rows d i Hinv); [apply Hex; now left|exact Es].
    + apply Hrec.
Qed.

Lemma nameplates_rm_mb d m : nameplates (rm_mb d m) = nameplates d.
Proof. reflexivity. Qed.

Lemma del_mailboxes_char cfg a when rows : forall d acc,
  (forall x n, In x rows -> In n (nameplates d) -> np_mbox n <> mb_id x) ->
  exists us, del_mailboxes_body cfg d a rows when acc = TxOk us (rm_mbs d rows).
Proof.
  induction rows as [|r rest IH]; intros d acc Hnp.
  - exists acc. reflexivity.
  - assert (Hr : forall n, In n (nameplates d) -> np_mbox n <> mb_id r).
    { intros n Hn. apply Hnp; [now left|exact Hn]. }
    cbn [del_mailboxes_body rm_mbs]. rewrite (del_mailbox_body_rm cfg _ _ _ _ _ _ _ Hr).
    apply IH. intros x n Hx Hn. rewrite nameplates_rm_mb in Hn. apply Hnp; [now right|exact Hn].
Qed.

Definition close_db (d : chan_db) (m : string) : chan_db :=
  if existsb mbs_opened (sel_mbs_all d m) then d
  else rm_mb (rm_nps d (map np_id (sel_np_by_mbox d m))) m.

Lemma close_delete_char cfg d a m fornp when :
  DbInv d ->
  exists r, close_delete_body cfg d a m fornp when = TxOk r (close_db d m) /\
            (r = None <-> existsb mbs_opened (sel_mbs_all d m) = true) /\
            DbInv (close_db d m).
Proof.
  intros Hinv.
  destruct (close_delete_body_ok cfg d a m fornp when Hinv) as [r0 [d0 [E0 [Hinv0 _]]]].
  revert E0. unfold close_delete_body, close_db. cbv zeta.
  destruct (existsb mbs_opened (sel_mbs_all d m)) eqn:Eo.
  - intros _. exists None. split; [reflexivity|]. split; [tauto|exact Hinv].
  - assert (Hnd : NoDup (map np_id (sel_np_by_mbox d m))).
    { unfold sel_np_by_mbox. apply NoDup_map_filter. apply inv_np_id. exact Hinv. }
    assert (Hex : forall i, In i (map np_id (sel_np_by_mbox d m)) -> np_exists d i = true).
    { intros i Hi. apply in_map_iff in Hi. destruct Hi as [n [En Hn]].
      apply sel_np_by_mbox_In in Hn. apply np_exists_iff. exists n. tauto. }
    destruct (del_nameplates_char cfg a when false _ d [] Hinv Hnd Hex) as [us E1].
    destruct (del_nameplates_body_ok cfg d a _ when false [] Hinv Hnd Hex)
      as [us' [d1 [E1' [Hinv1 [Hn1 _]]]]].
    rewrite E1 in E1'. inversion E1'; subst us' d1. clear E1'. rewrite E1.
    assert (Hnp : forall n, In n (nameplates (rm_nps d (map np_id (sel_np_by_mbox d m)))) ->
                            np_mbox n <> m).
    { intros n Hn Em. rewrite Hn1 in Hn. apply survivors in Hn. destruct Hn as [Hn Hnot].
      apply Hnot. apply in_map. apply sel_np_by_mbox_In. split; assumption. }
    rewrite (del_mailbox_body_rm cfg _ _ _ _ _ _ _ Hnp).
    intros E0. inversion E0; subst. eexists. split; [reflexivity|].
    split; [split; intros K; discriminate|exact Hinv0].
Qed.

Definition release_db (d : chan_db) (npid : Z) : chan_db :=
  if existsb nps_claimed (sel_nps_all d npid) then d else rm_np d npid.

Lemma release_delete_char cfg d a npid when :
  DbInv d -> np_exists d npid = true ->
  exists r, release_delete_body cfg d a npid when = TxOk r (release_db d npid) /\
            (r = None <-> existsb nps_claimed (sel_nps_all d npid) = true) /\
            DbInv (release_db d npid).
Proof.
  intros Hinv Hex. unfold release_delete_body, release_db. cbv zeta.
  destruct (existsb nps_claimed (sel_nps_all d npid)) eqn:Ec.
  - exists None. split; [reflexivity|]. split; [tauto|exact Hinv].
  - rewrite del_np_rm.
    destruct (usage_on cfg).
    + destruct (summarize_nameplate (blur cfg) a (sel_nps_all d npid) when false) as [u|] eqn:Es.
      * eexists. split; [reflexivity|].
        split; [split; intros K; discriminate|apply rm_np_inv, Hinv].
      * exfalso. apply nameplate_summary_none in Es.
        apply (np_sided_rows d npid Hinv Hex Es).
    + eexists. split; [reflexivity|].
      split; [split; intros K; discriminate|apply rm_np_inv, Hinv].
Qed.

Definition prune_db (d : chan_db) (a : string) (old : Z) : chan_db :=
  rm_mbs (rm_nps d (map np_id (old_nameplates d a old))) (old_mailboxes d a old).

Definition prune_flag (d : chan_db) (a : string) (old : Z) : bool :=
  match old_nameplates d a old, old_mailboxes d a old with [], [] => false | _, _ => true end.

Lemma prune_char cfg d a when old :
  DbInv d ->
  exists unps umbs,
    prune_body cfg d a when old = TxOk (prune_flag d a old, unps, umbs) (prune_db d a old) /\
    DbInv (prune_db d a old).
Proof.
  intros Hinv.
  destruct (prune_body_ok cfg d a when old Hinv) as [md0 [u0 [v0 [d0 [E0 [Hinv0 _]]]]]].
  revert E0. unfold prune_body, prune_db, prune_flag. cbv zeta.
  assert (Hnd : NoDup (map np_id (old_nameplates d a old))).
  { unfold old_nameplates, sel_nps_of_app. do 2 apply NoDup_map_filter.
    apply inv_np_id. exact Hinv. }
  assert (Hex : forall i, In i (map np_id (old_nameplates d a old)) -> np_exists d i = true).
  { intros i Hi. apply in_map_iff in Hi. destruct Hi as [n [En Hn]].
    unfold old_nameplates in Hn. apply filter_In in Hn. destruct Hn as [Hn _].
    apply sel_nps_of_app_In in Hn. apply np_exists_iff. exists n. tauto. }
  destruct (del_nameplates_char cfg a when true _ d [] Hinv Hnd Hex) as [us E1].
  destruct (del_nameplates_body_ok cfg d a _ when true [] Hinv Hnd Hex)
    as [us' [d1 [E1' [Hinv1 [Hn1 _]]]]].
  rewrite E1 in E1'. inversion E1'; subst us' d1. clear E1'. rewrite E1.
  assert (Hold : forall x, In x (old_mailboxes d a old) ->
                 In x (mailboxes d) /\ mb_app x = a).
  { intros x Hx. unfold old_mailboxes in Hx. apply filter_In in Hx. destruct Hx as [Hx Ho].
    apply sel_mbs_of_app_In in Hx. exact Hx. }
  destruct (del_mailboxes_char cfg a when (old_mailboxes d a old)
              (rm_nps d (map np_id (old_nameplates d a old))) []) as [vs E2].
  { intros x n Hx Hn Em. rewrite Hn1 in Hn. apply survivors in Hn. destruct Hn as [Hn Hnot].
    apply Hnot. apply in_map. unfold old_nameplates. apply filter_In.
    destruct (Hold x Hx) as [Hxin Hxa].
    destruct (inv_fk_np d Hinv n Hn) as [r [Hr [Ea Ei]]].
    assert (Erx : r = x).
    { apply (NoDup_map_inj mb_id (mailboxes d)); [apply inv_mb_id; exact Hinv|exact Hr|exact Hxin|].
      congruence. }
    subst r. split.
    * apply sel_nps_of_app_In. split; [exact Hn|]. congruence.
    * apply smem_In. rewrite Em. apply in_map. exact Hx. }
  rewrite E2. intros E0. inversion E0; subst. do 2 eexists. split; [reflexivity|exact Hinv0].
Qed.

(** * Part 2: frames of a log *)

Definition fl (s : state) : list (nat * frame) := frames_of (log s).

Lemma frames_of_app_v l1 l2 : frames_of (l1 ++ l2) = frames_of l1 ++ frames_of l2.
Proof.
  induction l1 as [|x l1 IH]; [reflexivity|].
  destruct x; cbn [app frames_of]; rewrite IH; reflexivity.
Qed.

Lemma frames_of_rev l : frames_of (rev l) = rev (frames_of l).
Proof.
  induction l as [|x l IH]; [reflexivity|].
  cbn [rev]. rewrite frames_of_app_v, IH.
  destruct x; cbn [frames_of rev]; rewrite ?app_nil_r; reflexivity.
Qed.

(** computations that only touch the usage database and the commit log *)
Definition invis (m : M unit) : Prop :=
  forall s, exists s',
    m s = Ok tt s' /\ chan_w s' = chan_w s /\ chan_c s' = chan_c s /\ subs s' = subs s /\
    conns s' = conns s /\ now s' = now s /\ fl s' = fl s /\
    timer_start s' = timer_start s /\ next_due s' = next_due s.

Lemma invis_ret : invis (ret tt).
Proof. intros s. exists s. repeat split; reflexivity. Qed.

Lemma invis_utx f : invis (utx f).
Proof. intros s. eexists. split; [reflexivity|]. repeat split; reflexivity. Qed.

Lemma invis_commit_usage : invis commit_usage.
Proof. intros s. eexists. split; [reflexivity|]. repeat split; reflexivity. Qed.

Lemma invis_seq m k : invis m -> invis k -> invis (m ;;; k).
Proof.
  intros Hm Hk s. destruct (Hm s) as (s1 & E1 & A1 & B1 & C1 & D1 & F1 & G1 & T1 & N1).
  destruct (Hk s1) as (s2 & E2 & A2 & B2 & C2 & D2 & F2 & G2 & T2 & N2).
  exists s2. unfold bind. rewrite E1, E2. split; [reflexivity|].
  repeat split; congruence.
Qed.

Lemma invis_if (b : bool) m k : invis m -> invis k -> invis (if b then m else k).
Proof. destruct b; auto. Qed.

Lemma invis_write_usage unps umbs : invis (write_usage unps umbs).
Proof. apply invis_utx. Qed.

Lemma invis_dump_stats cfg when rebooted : invis (dump_stats cfg when rebooted).
Proof.
  unfold dump_stats. destruct (usage_on cfg); [|apply invis_ret].
  intros s. eexists. split; [reflexivity|]. repeat split; reflexivity.
Qed.

Lemma invis_log_client_version cfg a side when cv : invis (log_client_version cfg a side when cv).
Proof.
  unfold log_client_version. apply invis_if; [|apply invis_ret].
  apply invis_seq; [apply invis_utx|apply invis_commit_usage].
Qed.

(** * Part 3: the two-run relation *)
Section Rel.
Variables cfg1 cfg2 : config.
Variable TM : Prop.
Hypothesis Hexp : exp cfg1 = exp cfg2.
Hypothesis HTM : TM -> period cfg1 = period cfg2.
(* the welcome frame carries the configured notices *)
Hypothesis Hwel : welcome cfg1 = welcome cfg2.

Record sim (s1 s2 : state) : Prop := mkSim
  { sim_w : chan_w s1 = chan_w s2;
    sim_c : chan_c s1 = chan_c s2;
    sim_subs : subs s1 = subs s2;
    sim_conns : conns s1 = conns s2;
    sim_now : now s1 = now s2;
    sim_mask : map mask_frame (fl s1) = map mask_frame (fl s2);
    sim_fl : allow_list cfg1 = allow_list cfg2 -> fl s1 = fl s2;
    sim_tm : TM -> timer_start s1 = timer_start s2 /\ next_due s1 = next_due s2 }.

Definition R {A} (I : chan_db -> Prop) (V : A -> A -> Prop) (J : A -> chan_db -> Prop)
           (m1 m2 : M A) : Prop :=
  forall s1 s2, sim s1 s2 -> I (chan_w s1) ->
  match m1 s1, m2 s2 with
  | Ok a1 t1, Ok a2 t2 => V a1 a2 /\ sim t1 t2 /\ J a1 (chan_w t1)
  | Exn e1 t1, Exn e2 t2 => e1 = e2 /\ sim t1 t2
  | _, _ => False
  end.

Definition T : chan_db -> Prop := fun _ => True.

Lemma R_conseq {A} (I I' : chan_db -> Prop) (V V' : A -> A -> Prop) (J J' : A -> chan_db -> Prop) m1 m2 :
  R I V J m1 m2 ->
  (forall d, I' d -> I d) -> (forall a b, V a b -> V' a b) -> (forall a d, J a d -> J' a d) ->
  R I' V' J' m1 m2.
Proof.
  intros H HI HV HJ s1 s2 Hs Hd. specialize (H s1 s2 Hs (HI _ Hd)).
  destruct (m1 s1), (m2 s2); try exact H.
  destruct H as (H1 & H2 & H3). auto.
Qed.

Lemma R_ret' {A} (I J : chan_db -> Prop) (a : A) :
  (forall d, I d -> J d) -> R I eq (fun _ => J) (ret a) (ret a).
Proof. intros HJ s1 s2 Hs Hd. cbn. auto. Qed.

Lemma R_ret {A} (I : chan_db -> Prop) (a : A) : R I eq (fun _ => I) (ret a) (ret a).
Proof. apply R_ret'. auto. Qed.

Lemma R_raise {A} (I : chan_db -> Prop) (V : A -> A -> Prop) (J : A -> chan_db -> Prop) e : R I V J (raise e) (raise e).
Proof. intros s1 s2 Hs Hd. cbn. auto. Qed.

Lemma R_bind {A B} (I : chan_db -> Prop) (V : A -> A -> Prop) (J : A -> chan_db -> Prop) (W : B -> B -> Prop) (K : B -> chan_db -> Prop) m1 m2 k1 k2 :
  R I V J m1 m2 ->
  (forall a1 a2, V a1 a2 -> R (J a1) W K (k1 a1) (k2 a2)) ->
  R I W K (bind m1 k1) (bind m2 k2).
Proof.
  intros Hm Hk s1 s2 Hs Hd. unfold bind. specialize (Hm s1 s2 Hs Hd).
  destruct (m1 s1) as [a1 t1|e1 t1], (m2 s2) as [a2 t2|e2 t2]; try (exfalso; exact Hm); try exact Hm.
  destruct Hm as (Hv & Ht & Hj). exact (Hk a1 a2 Hv t1 t2 Ht Hj).
Qed.

Lemma Rp_bind {A B} (I K : chan_db -> Prop) (W : B -> B -> Prop) (J : B -> chan_db -> Prop) (m1 m2 : M A) k1 k2 :
  R I eq (fun _ => K) m1 m2 ->
  (forall a, R K W J (k1 a) (k2 a)) ->
  R I W J (bind m1 k1) (bind m2 k2).
Proof.
  intros Hm Hk. eapply R_bind; [exact Hm|]. intros a1 a2 <-. apply Hk.
Qed.

Lemma R_bind_get {B} (I : chan_db -> Prop) (W : B -> B -> Prop) (K : B -> chan_db -> Prop) k1 k2 :
  (forall x y, sim x y -> R I W K (k1 x) (k2 y)) ->
  R I W K (bind get k1) (bind get k2).
Proof. intros Hk s1 s2 Hs Hd. unfold bind, get. exact (Hk s1 s2 Hs s1 s2 Hs Hd). Qed.

Lemma R_try_catch {A} (I : chan_db -> Prop) (V : A -> A -> Prop) (J : A -> chan_db -> Prop) m1 m2 h1 h2 :
  R I V J m1 m2 -> (forall e, R T V J (h1 e) (h2 e)) ->
  R I V J (try_catch m1 h1) (try_catch m2 h2).
Proof.
  intros Hm Hh s1 s2 Hs Hd. unfold try_catch. specialize (Hm s1 s2 Hs Hd).
  destruct (m1 s1) as [a1 t1|e1 t1], (m2 s2) as [a2 t2|e2 t2]; try (exfalso; exact Hm); try exact Hm.
  destruct Hm as [<- Ht]. exact (Hh e1 t1 t2 Ht Logic.I).
Qed.

Lemma R_tx {A} (I : chan_db -> Prop) (V : A -> A -> Prop) (J : A -> chan_db -> Prop) (f1 f2 : chan_db -> txres A) :
  (forall d, I d ->
     match f1 d, f2 d with
     | TxOk a1 d1, TxOk a2 d2 => V a1 a2 /\ d1 = d2 /\ J a1 d1
     | TxFail e1 d1, TxFail e2 d2 => e1 = e2 /\ d1 = d2
     | _, _ => False
     end) ->
  R I V J (tx f1) (tx f2).
Proof.
  intros H s1 s2 Hs Hd. unfold tx. specialize (H _ Hd). rewrite <- (sim_w _ _ Hs).
  destruct Hs.
  destruct (f1 (chan_w s1)) as [a1 d1|e1 d1], (f2 (chan_w s1)) as [a2 d2|e2 d2]; try exact H.
  - destruct H as (Hv & <- & Hj). split; [exact Hv|]. split; [|exact Hj].
    constructor; cbn; auto.
  - destruct H as (<- & <-). split; [reflexivity|]. constructor; cbn; auto.
Qed.

Lemma Rp_tx {A} (I J : chan_db -> Prop) (f : chan_db -> txres A) :
  (forall d, I d -> match f d with TxOk _ d' => J d' | TxFail _ _ => True end) ->
  R I eq (fun _ => J) (tx f) (tx f).
Proof.
  intros H. apply R_tx. intros d Hd. cbv beta. specialize (H d Hd). destruct (f d); auto.
Qed.

Lemma Rp_q {A} (I : chan_db -> Prop) (f : chan_db -> A) : R I eq (fun _ => I) (q f) (q f).
Proof. intros s1 s2 Hs Hd. unfold q. rewrite <- (sim_w _ _ Hs). auto. Qed.

Lemma Rp_commit (I : chan_db -> Prop) : R I eq (fun _ => I) commit_chan commit_chan.
Proof.
  intros s1 s2 Hs Hd. unfold commit_chan. split; [reflexivity|]. split; [|exact Hd].
  destruct Hs. constructor; cbn; auto.
Qed.

Lemma Rp_send (I : chan_db -> Prop) c f : R I eq (fun _ => I) (send c f) (send c f).
Proof.
  intros s1 s2 Hs Hd. unfold send. split; [reflexivity|]. split; [|exact Hd].
  destruct Hs. unfold fl in *. constructor; cbn; auto.
  - f_equal. assumption.
  - intros K. f_equal. auto.
Qed.

Lemma Rp_send_names (I : chan_db -> Prop) c l1 l2 :
  (allow_list cfg1 = allow_list cfg2 -> l1 = l2) ->
  R I eq (fun _ => I) (send c (FNameplates l1)) (send c (FNameplates l2)).
Proof.
  intros Hl s1 s2 Hs Hd. unfold send. split; [reflexivity|]. split; [|exact Hd].
  destruct Hs. unfold fl in *. constructor; cbn; auto.
  - f_equal. assumption.
  - intros K. rewrite (Hl K). f_equal. auto.
Qed.

Lemma Rp_get_conn (I : chan_db -> Prop) c : R I eq (fun _ => I) (get_conn c) (get_conn c).
Proof. intros s1 s2 Hs Hd. unfold get_conn. rewrite <- (sim_conns _ _ Hs). auto. Qed.

Lemma Rp_set_conn (I : chan_db -> Prop) c cs : R I eq (fun _ => I) (set_conn c cs) (set_conn c cs).
Proof.
  intros s1 s2 Hs Hd. unfold set_conn. split; [reflexivity|]. split; [|exact Hd].
  destruct Hs. constructor; cbn; auto; congruence.
Qed.

Lemma Rp_add_sub (I : chan_db -> Prop) a m c : R I eq (fun _ => I) (add_sub a m c) (add_sub a m c).
Proof.
  intros s1 s2 Hs Hd. unfold add_sub. rewrite <- (sim_subs _ _ Hs). split; [reflexivity|].
  destruct (existsb (sub_is a m c) (subs s1)); (split; [|exact Hd]); [exact Hs|].
  destruct Hs. constructor; cbn; auto; congruence.
Qed.

Lemma Rp_remove_sub (I : chan_db -> Prop) a m c :
  R I eq (fun _ => I) (remove_sub a m c) (remove_sub a m c).
Proof.
  intros s1 s2 Hs Hd. unfold remove_sub. split; [reflexivity|]. split; [|exact Hd].
  destruct Hs. constructor; cbn; auto; congruence.
Qed.

Lemma Rp_stop_listeners (I : chan_db -> Prop) a m :
  R I eq (fun _ => I) (stop_listeners a m) (stop_listeners a m).
Proof.
  intros s1 s2 Hs Hd. unfold stop_listeners. cbv zeta. split; [reflexivity|]. split; [|exact Hd].
  rewrite <- (sim_subs _ _ Hs), <- (sim_conns _ _ Hs).
  destruct Hs. constructor; cbn; auto.
Qed.

Lemma Rp_invis (I : chan_db -> Prop) m1 m2 :
  invis m1 -> invis m2 -> R I eq (fun _ => I) m1 m2.
Proof.
  intros H1 H2 s1 s2 Hs Hd.
  destruct (H1 s1) as (t1 & -> & A1 & B1 & C1 & D1 & F1 & G1 & T1 & N1).
  destruct (H2 s2) as (t2 & -> & A2 & B2 & C2 & D2 & F2 & G2 & T2 & N2).
  split; [reflexivity|]. split; [|rewrite A1; exact Hd].
  destruct Hs. constructor; try congruence.
  - intros K. rewrite G1, G2. auto.
  - intros K. rewrite T1, T2, N1, N2. auto.
Qed.

Lemma R_q {A} (I : chan_db -> Prop) (V : A -> A -> Prop) (f1 f2 : chan_db -> A) :
  (forall d, I d -> V (f1 d) (f2 d)) -> R I V (fun _ => I) (q f1) (q f2).
Proof. intros H s1 s2 Hs Hd. unfold q. rewrite <- (sim_w _ _ Hs). auto. Qed.

Lemma R_post_T {A} (I J : chan_db -> Prop) (m1 m2 : M A) :
  R I eq (fun _ => J) m1 m2 -> R I eq (fun _ => T) m1 m2.
Proof. intros H. eapply R_conseq; [exact H| | |]; unfold T; auto. Qed.

Lemma R_pre_T {A} (I J : chan_db -> Prop) (m1 m2 : M A) :
  R T eq (fun _ => J) m1 m2 -> R I eq (fun _ => J) m1 m2.
Proof. intros H. eapply R_conseq; [exact H| | |]; unfold T; auto. Qed.

(** * Part 4: every operation, two runs *)

Ltac rlem := fail.

Ltac rp1 :=
  lazymatch goal with
  | |- R _ _ _ (bind get _) (bind get _) =>
      apply R_bind_get;
      let x := fresh "x" in let y := fresh "y" in let H := fresh "Hxy" in
      intros x y H; cbv beta;
      try rewrite <- (sim_now _ _ H); try rewrite <- (sim_subs _ _ H)
  | |- R _ _ _ (bind _ _) (bind _ _) => eapply Rp_bind; [|intros ?]
  | |- R _ _ _ (ret _) (ret _) => apply R_ret
  | |- R _ _ _ (raise _) (raise _) => apply R_raise
  | |- R _ _ _ err err => apply R_raise
  | |- R _ _ _ commit_chan commit_chan => apply Rp_commit
  | |- R _ _ _ (send _ _) (send _ _) => apply Rp_send
  | |- R _ _ _ (q _) (q _) => apply Rp_q
  | |- R _ _ _ (get_messages _ _) (get_messages _ _) => apply Rp_q
  | |- R _ _ _ (get_conn _) (get_conn _) => apply Rp_get_conn
  | |- R _ _ _ (set_conn _ _) (set_conn _ _) => apply Rp_set_conn
  | |- R _ _ _ (add_sub _ _ _) (add_sub _ _ _) => apply Rp_add_sub
  | |- R _ _ _ (remove_sub _ _ _) (remove_sub _ _ _) => apply Rp_remove_sub
  | |- R _ _ _ (stop_listeners _ _) (stop_listeners _ _) => apply Rp_stop_listeners
  | |- R _ _ _ (catch_crowded _) (catch_crowded _) =>
      unfold catch_crowded; apply R_try_catch;
      [|let e := fresh "e" in intros e; destruct e; apply R_raise]
  | |- R _ _ _ (catch_crowded_reclaimed _) (catch_crowded_reclaimed _) =>
      unfold catch_crowded_reclaimed; apply R_try_catch;
      [|let e := fresh "e" in intros e; destruct e; apply R_raise]
  | |- R _ _ _ (if ?b then _ else _) (if ?b then _ else _) => destruct b
  | |- R _ _ _ (match ?x with _ => _ end) (match ?x with _ => _ end) => destruct x
  end.

Ltac rp := repeat first [rp1 | rlem].

Lemma R_send_all (I : chan_db -> Prop) cs f : R I eq (fun _ => I) (send_all cs f) (send_all cs f).
Proof. induction cs as [|c cs IH]; cbn [send_all]; rp. exact IH. Qed.

Lemma R_send_each (I : chan_db -> Prop) c l : R I eq (fun _ => I) (send_each c l) (send_each c l).
Proof. induction l as [|r l IH]; cbn [send_each]; rp. exact IH. Qed.

Lemma R_open_mailbox a m side when :
  R DbInv eq (fun _ => DbInv) (open_mailbox a m side when) (open_mailbox a m side when).
Proof.
  unfold open_mailbox. eapply Rp_bind with (K := DbInv).
  { apply Rp_tx. intros d Hd. cbv beta. pose proof (open_body_ok d a m side when Hd) as H.
    destruct (open_body d a m side when); [tauto|exact Logic.I]. }
  intros _. rp.
Qed.

Ltac rlem ::= first [apply R_send_all | apply R_send_each | apply R_open_mailbox].

Lemma R_claim_nameplate a name side when draw :
  R DbInv eq (fun _ => DbInv) (claim_nameplate a name side when draw)
    (claim_nameplate a name side when draw).
Proof.
  unfold claim_nameplate. eapply Rp_bind with (K := DbInv).
  { apply Rp_tx. intros d Hd. cbv beta. pose proof (claim_body_ok d a name side when draw Hd) as H.
    destruct (claim_body d a name side when draw) as [[npid mbox] d'|]; [tauto|exact Logic.I]. }
  intros [npid mbox]. rp.
Qed.

Ltac rlem ::= first [apply R_send_all | apply R_send_each | apply R_open_mailbox
                    | apply R_claim_nameplate].

Lemma R_allocate_nameplate a side when o draw :
  R DbInv eq (fun _ => DbInv) (allocate_nameplate a side when o draw)
    (allocate_nameplate a side when o draw).
Proof. unfold allocate_nameplate. rp. Qed.

Lemma R_add_message a m r :
  R DbInv eq (fun _ => T) (add_message a m r) (add_message a m r).
Proof.
  unfold add_message. eapply Rp_bind with (K := T).
  { apply Rp_tx. intros d Hd. cbv beta. exact Logic.I. }
  intros _. rp.
Qed.

Lemma R_release_nameplate a name side when :
  R DbInv eq (fun _ => DbInv) (release_nameplate cfg1 a name side when)
    (release_nameplate cfg2 a name side when).
Proof.
  unfold release_nameplate.
  eapply R_bind with (V := eq)
    (J := fun r d => DbInv d /\ match r with Some npid => np_exists d npid = true | None => True end).
  { apply R_tx. intros d Hd. cbv beta. destruct (release_mark_body d a name side) as [[npid d1]|] eqn:E.
    - destruct (release_mark_body_ok d a name side npid d1 Hd E) as (H1 & _ & H2). auto.
    - auto. }
  intros r ? <-. destruct r as [npid|].
  - eapply Rp_bind; [apply Rp_commit|]. intros _.
    eapply R_bind with (V := fun r1 r2 : option (list u_np_row) => r1 = None <-> r2 = None)
                       (J := fun _ => DbInv).
    { apply R_tx. intros d [Hd He]. cbv beta.
      destruct (release_delete_char cfg1 d a npid when Hd He) as (r1 & E1 & N1 & D1).
      destruct (release_delete_char cfg2 d a npid when Hd He) as (r2 & E2 & N2 & D2).
      rewrite E1, E2. split; [tauto|]. split; [reflexivity|exact D1]. }
    intros r1 r2 Hr. destruct r1 as [u1|], r2 as [u2|].
    + eapply Rp_bind; [|intros _; apply Rp_commit].
      apply Rp_invis; (apply invis_if; [|apply invis_ret]);
        (apply invis_seq; [apply invis_write_usage|apply invis_commit_usage]).
    + exfalso. destruct Hr as [_ Hr]. specialize (Hr eq_refl). discriminate.
    + exfalso. destruct Hr as [Hr _]. specialize (Hr eq_refl). discriminate.
    + apply R_ret.
  - apply R_ret'. tauto.
Qed.

Lemma R_mailbox_close a m side mood when :
  R DbInv eq (fun _ => DbInv) (mailbox_close cfg1 a m side mood when)
    (mailbox_close cfg2 a m side mood when).
Proof.
  unfold mailbox_close. eapply Rp_bind with (K := DbInv).
  { apply Rp_tx. intros d Hd. cbv beta. destruct (close_mark_body d a m side mood) as [[f d1]|] eqn:E.
    - destruct (close_mark_body_ok d a m side mood f d1 Hd E) as (H1 & _). exact H1.
    - exact Hd. }
  intros r. destruct r as [fornp|]; [|apply R_ret].
  eapply Rp_bind; [apply Rp_commit|]. intros _.
  eapply R_bind with
    (V := fun r1 r2 : option (list u_np_row * list u_mb_row) => r1 = None <-> r2 = None)
    (J := fun _ => DbInv).
  { apply R_tx. intros d Hd. cbv beta.
    destruct (close_delete_char cfg1 d a m fornp when Hd) as (r1 & E1 & N1 & D1).
    destruct (close_delete_char cfg2 d a m fornp when Hd) as (r2 & E2 & N2 & D2).
    rewrite E1, E2. split; [tauto|]. split; [reflexivity|exact D1]. }
  intros r1 r2 Hr. destruct r1 as [[u1 v1]|], r2 as [[u2 v2]|].
  - eapply Rp_bind; [|intros _; rp].
    apply Rp_invis; (apply invis_if; [|apply invis_ret]);
      (apply invis_seq; [apply invis_write_usage|apply invis_commit_usage]).
  - exfalso. destruct Hr as [_ Hr]. specialize (Hr eq_refl). discriminate.
  - exfalso. destruct Hr as [Hr _]. specialize (Hr eq_refl). discriminate.
  - apply R_ret.
Qed.

Lemma R_prune_app a when old :
  R DbInv eq (fun _ => DbInv) (prune_app cfg1 a when old) (prune_app cfg2 a when old).
Proof.
  unfold prune_app. apply R_bind_get. intros x y Hxy. cbv beta. rewrite <- (sim_subs _ _ Hxy).
  eapply Rp_bind with (K := DbInv).
  { apply Rp_tx. intros d Hd. cbv beta. apply (touch_all_ok d _ when Hd). }
  intros _. eapply Rp_bind; [apply Rp_commit|]. intros _.
  eapply R_bind with
    (V := fun r1 r2 : bool * list u_np_row * list u_mb_row => fst (fst r1) = fst (fst r2))
    (J := fun _ => DbInv).
  { apply R_tx. intros d Hd. cbv beta.
    destruct (prune_char cfg1 d a when old Hd) as (u1 & v1 & E1 & D1).
    destruct (prune_char cfg2 d a when old Hd) as (u2 & v2 & E2 & D2).
    rewrite E1, E2. cbn [fst]. auto. }
  intros [[m1 u1] v1] [[m2 u2] v2] Hm. cbn [fst] in Hm. subst m2.
  eapply Rp_bind.
  { apply Rp_invis; (apply invis_if; [apply invis_write_usage|apply invis_ret]). }
  intros _. destruct m1; [|apply R_ret].
  eapply Rp_bind; [apply Rp_commit|]. intros _.
  apply Rp_invis; (apply invis_if; [apply invis_commit_usage|apply invis_ret]).
Qed.

Lemma R_prune_apps apps when old :
  R DbInv eq (fun _ => DbInv) (prune_apps cfg1 apps when old) (prune_apps cfg2 apps when old).
Proof.
  induction apps as [|a apps IH]; cbn [prune_apps]; [apply R_ret|].
  eapply Rp_bind; [apply R_prune_app|]. intros _. exact IH.
Qed.

Lemma R_prune_all_apps when old :
  R DbInv eq (fun _ => DbInv) (prune_all_apps cfg1 when old) (prune_all_apps cfg2 when old).
Proof.
  unfold prune_all_apps. eapply Rp_bind; [apply Rp_q|]. intros apps. apply R_prune_apps.
Qed.

Lemma R_expire fault : R DbInv eq (fun _ => T) (expire cfg1 fault) (expire cfg2 fault).
Proof.
  unfold expire. apply R_bind_get. intros x y Hxy. cbv beta.
  rewrite <- (sim_now _ _ Hxy), <- Hexp.
  eapply Rp_bind with (K := T).
  - destruct fault.
    + apply R_ret'. unfold T. auto.
    + apply R_try_catch.
      * eapply R_post_T. apply R_prune_all_apps.
      * intros e. apply R_ret.
  - intros _. apply Rp_invis; apply invis_dump_stats.
Qed.

Ltac rlem ::= first [apply R_send_all | apply R_send_each | apply R_open_mailbox
                    | apply R_claim_nameplate | apply R_allocate_nameplate
                    | apply R_release_nameplate | apply R_mailbox_close ].

(** ** handlers *)

Lemma R_handle_ping c msg :
  R DbInv eq (fun _ => DbInv) (handle_ping c msg) (handle_ping c msg).
Proof. unfold handle_ping. rp. Qed.

Lemma R_handle_bind c msg :
  R DbInv eq (fun _ => DbInv) (handle_bind cfg1 c msg) (handle_bind cfg2 c msg).
Proof.
  unfold handle_bind. rp.
  apply Rp_invis; apply invis_log_client_version.
Qed.

Lemma R_handle_list c a :
  R DbInv eq (fun _ => DbInv) (handle_list cfg1 c a) (handle_list cfg2 c a).
Proof.
  unfold handle_list.
  eapply R_bind with (V := fun n1 n2 : list string => allow_list cfg1 = allow_list cfg2 -> n1 = n2)
                     (J := fun _ => DbInv).
  { apply R_q. intros d _ E. rewrite E. reflexivity. }
  intros n1 n2 Hn. apply Rp_send_names. intros E. rewrite (Hn E). reflexivity.
Qed.

Lemma R_handle_allocate c a side o :
  R DbInv eq (fun _ => DbInv) (handle_allocate c a side o) (handle_allocate c a side o).
Proof. unfold handle_allocate. rp. Qed.

Lemma R_handle_claim c a side msg o :
  R DbInv eq (fun _ => DbInv) (handle_claim c a side msg o) (handle_claim c a side msg o).
Proof. unfold handle_claim. rp. Qed.

Lemma R_handle_release c a side msg :
  R DbInv eq (fun _ => DbInv) (handle_release cfg1 c a side msg) (handle_release cfg2 c a side msg).
Proof. unfold handle_release. rp. Qed.

Lemma R_handle_open c a side msg :
  R DbInv eq (fun _ => DbInv) (handle_open c a side msg) (handle_open c a side msg).
Proof. unfold handle_open. rp. Qed.

Lemma R_handle_add c a side msg :
  R DbInv eq (fun _ => T) (handle_add c a side msg) (handle_add c a side msg).
Proof. unfold handle_add. rp. apply R_add_message. Qed.

Lemma R_handle_close c a side msg :
  R DbInv eq (fun _ => DbInv) (handle_close cfg1 c a side msg) (handle_close cfg2 c a side msg).
Proof. unfold handle_close. rp. Qed.

Lemma R_dispatch c t msg o :
  R DbInv eq (fun _ => T) (dispatch cfg1 c t msg o) (dispatch cfg2 c t msg o).
Proof.
  unfold dispatch.
  destruct t;
    try (eapply R_post_T; first [apply R_handle_ping | apply R_handle_bind]);
    (eapply Rp_bind; [apply Rp_get_conn|]); intros cs;
    (destruct (c_bound cs) as [[a side]|]; [|apply R_raise]).
  - eapply R_post_T. apply R_handle_list.
  - eapply R_post_T. apply R_handle_allocate.
  - eapply R_post_T. apply R_handle_claim.
  - eapply R_post_T. apply R_handle_release.
  - eapply R_post_T. apply R_handle_open.
  - apply R_handle_add.
  - eapply R_post_T. apply R_handle_close.
  - apply R_raise.
Qed.

Lemma R_on_message c msg o :
  R DbInv eq (fun _ => T) (on_message cfg1 c msg o) (on_message cfg2 c msg o).
Proof.
  unfold on_message. apply R_try_catch.
  - destruct (m_type msg) as [t|]; [|apply R_raise].
    eapply Rp_bind; [apply Rp_send|]. intros _. apply R_dispatch.
  - intros e. destruct e; try apply R_raise. apply Rp_send.
Qed.

Lemma R_on_close c : R T eq (fun _ => T) (on_close c) (on_close c).
Proof. unfold on_close. rp. Qed.

Lemma sim_set_conns s1 s2 x : sim s1 s2 -> sim (set_conns s1 x) (set_conns s2 x).
Proof. intros Hs. destruct Hs. constructor; cbn; auto. Qed.

Lemma sim_drop_conn c s1 s2 : sim s1 s2 -> sim (drop_conn c s1) (drop_conn c s2).
Proof.
  intros Hs. unfold drop_conn. pose proof (R_on_close c s1 s2 Hs Logic.I) as H.
  destruct (on_close c s1) as [a1 t1|e1 t1], (on_close c s2) as [a2 t2|e2 t2];
    try (exfalso; exact H).
  - destruct H as (_ & Ht & _). rewrite <- (sim_conns _ _ Ht). apply sim_set_conns. exact Ht.
  - destruct H as (_ & Ht). rewrite <- (sim_conns _ _ Ht). apply sim_set_conns. exact Ht.
Qed.

Lemma has_conn_sim c s1 s2 : sim s1 s2 -> has_conn c s1 = has_conn c s2.
Proof. intros Hs. unfold has_conn. rewrite (sim_conns _ _ Hs). reflexivity. Qed.

Lemma run_m_sim (m1 m2 : M unit) (I J : chan_db -> Prop) s1 s2 :
  R I eq (fun _ => J) m1 m2 -> sim s1 s2 -> I (chan_w s1) ->
  sim (fst (run_m m1 s1)) (fst (run_m m2 s2)) /\ snd (run_m m1 s1) = snd (run_m m2 s2).
Proof.
  intros H Hs Hd. unfold run_m. specialize (H s1 s2 Hs Hd).
  destruct (m1 s1) as [a1 t1|e1 t1], (m2 s2) as [a2 t2|e2 t2]; try (exfalso; exact H); cbn [fst snd].
  - destruct H as (_ & Ht & _). auto.
  - destruct H as (<- & Ht). auto.
Qed.

Lemma step_b_sim s1 s2 b :
  sim s1 s2 -> DbInv (chan_w s1) -> same_firing s1 s2 (EB b) ->
  let '(t1, v1, x1) := step_b cfg1 s1 b in
  let '(t2, v2, x2) := step_b cfg2 s2 b in
  sim t1 t2 /\ v1 = v2 /\ x1 = x2.
Proof.
  intros Hs Hd Hf. destruct b as [c|c m o|c|fault|dt fault]; unfold step_b.
  - rewrite <- (has_conn_sim c _ _ Hs). destruct (has_conn c s1); [auto|].
    rewrite <- (sim_conns _ _ Hs).
    assert (Hs1 : sim (set_conns s1 (conns s1 ++ [(c, new_conn)]))
                      (set_conns s2 (conns s1 ++ [(c, new_conn)]))) by (apply sim_set_conns; exact Hs).
    assert (Ro : R T eq (fun _ => T) (on_open cfg1 c) (on_open cfg2 c)).
    { unfold on_open. rewrite <- Hwel. apply Rp_send. }
    destruct (run_m_sim (on_open cfg1 c) (on_open cfg2 c) T T _ _ Ro Hs1 Logic.I) as [A B].
    destruct (run_m (on_open cfg1 c) (set_conns s1 (conns s1 ++ [(c, new_conn)]))) as [u1 x1].
    destruct (run_m (on_open cfg2 c) (set_conns s2 (conns s1 ++ [(c, new_conn)]))) as [u2 x2].
    cbn [fst snd] in A, B. auto.
  - rewrite <- (has_conn_sim c _ _ Hs). destruct (has_conn c s1); [|auto].
    pose proof (R_on_message c m o s1 s2 Hs Hd) as H.
    destruct (on_message cfg1 c m o s1) as [a1 t1|e1 t1],
             (on_message cfg2 c m o s2) as [a2 t2|e2 t2]; try (exfalso; exact H).
    + destruct H as (_ & Ht & _). auto.
    + destruct H as (<- & Ht). split; [apply sim_drop_conn; exact Ht|auto].
  - rewrite <- (has_conn_sim c _ _ Hs). destruct (has_conn c s1); [|auto].
    split; [apply sim_drop_conn; exact Hs|auto].
  - destruct (run_m_sim _ _ _ _ _ _ (R_expire fault) Hs Hd) as [A B].
    destruct (run_m (expire cfg1 fault) s1) as [u1 x1].
    destruct (run_m (expire cfg2 fault) s2) as [u2 x2].
    cbn [fst snd] in A, B. auto.
  - destruct (dt <? 0); [auto|]. cbv zeta.
    assert (Hs1 : sim (set_now s1 (now s1 + dt)) (set_now s2 (now s2 + dt))).
    { destruct Hs. constructor; cbn; auto. congruence. }
    cbn [same_firing] in Hf.
    change (next_due (set_now s1 (now s1 + dt)) <=? now (set_now s1 (now s1 + dt)))
      with (next_due s1 <=? now s1 + dt).
    change (next_due (set_now s2 (now s2 + dt)) <=? now (set_now s2 (now s2 + dt)))
      with (next_due s2 <=? now s2 + dt).
    rewrite <- Hf. destruct (next_due s1 <=? now s1 + dt); [|auto].
    destruct (run_m_sim _ _ _ _ _ _ (R_expire fault) Hs1 Hd) as [A B].
    destruct (run_m (expire cfg1 fault) (set_now s1 (now s1 + dt))) as [u1 x1].
    destruct (run_m (expire cfg2 fault) (set_now s2 (now s2 + dt))) as [u2 x2].
    cbn [fst snd] in A, B. split; [|auto].
    destruct A. constructor; cbn; auto.
    intros K. destruct (sim_tm0 K) as [K1 K2]. split; [exact K1|].
    unfold next_grid. rewrite (HTM K), K1, sim_now0. reflexivity.
Qed.

(** the state-level part of the conclusion of [step_view_congruence] *)
Lemma step_sim s1 s2 b :
  sim s1 s2 -> DbInv (chan_w s1) -> same_firing s1 s2 (EB b) ->
  let '(s1', o1) := step cfg1 s1 (EB b) in
  let '(s2', o2) := step cfg2 s2 (EB b) in
  sim s1' s2' /\
  map mask_frame (frames_of (o_log o1)) = map mask_frame (frames_of (o_log o2)) /\
  (allow_list cfg1 = allow_list cfg2 -> frames_of (o_log o1) = frames_of (o_log o2)) /\
  o_exc o1 = o_exc o2 /\ o_valid o1 = o_valid o2.
Proof.
  intros Hs Hd Hf. unfold step. cbv zeta.
  assert (Hs0 : sim (set_log s1 []) (set_log s2 [])).
  { destruct Hs. constructor; cbn; auto. }
  assert (Hf0 : same_firing (set_log s1 []) (set_log s2 []) (EB b)).
  { destruct b; exact Hf. }
  pose proof (step_b_sim (set_log s1 []) (set_log s2 []) b Hs0 Hd Hf0) as H.
  destruct (step_b cfg1 (set_log s1 []) b) as [[t1 v1] x1].
  destruct (step_b cfg2 (set_log s2 []) b) as [[t2 v2] x2].
  destruct H as (Ht & -> & ->). cbn [o_log o_exc o_valid].
  rewrite !frames_of_rev, !map_rev.
  split; [|split; [|split; [|split; reflexivity]]].
  - destruct Ht. constructor; cbn; auto.
  - f_equal. exact (sim_mask _ _ Ht).
  - intros K. f_equal. exact (sim_fl _ _ Ht K).
Qed.

End Rel.

Lemma sim_view cfg1 cfg2 TM s1 s2 : sim cfg1 cfg2 TM s1 s2 -> view_of s1 = view_of s2.
Proof. intros H. destruct H. unfold view_of. congruence. Qed.

Lemma view_sim cfg1 cfg2 (TM : Prop) s1 s2 :
  view_of s1 = view_of s2 -> log s1 = [] -> log s2 = [] ->
  (TM -> timer_start s1 = timer_start s2 /\ next_due s1 = next_due s2) ->
  sim cfg1 cfg2 TM s1 s2.
Proof.
  unfold view_of. intros Hv L1 L2 Ht. inversion Hv.
  constructor; auto; unfold fl; rewrite L1, L2; reflexivity.
Qed.

(** * one step *)
Theorem step_view_congruence cfg1 cfg2 s1 s2 e :
  exp cfg1 = exp cfg2 -> welcome cfg1 = welcome cfg2 -> 0 < exp cfg1 ->
  SInv s1 -> SInv s2 -> log s1 = [] -> log s2 = [] ->
  view_of s1 = view_of s2 -> plain e -> same_firing s1 s2 e ->
  let '(s1', o1) := step cfg1 s1 e in
  let '(s2', o2) := step cfg2 s2 e in
  view_of s1' = view_of s2' /\
  map mask_frame (frames_of (o_log o1)) = map mask_frame (frames_of (o_log o2)) /\
  (allow_list cfg1 = allow_list cfg2 -> frames_of (o_log o1) = frames_of (o_log o2)) /\
  o_exc o1 = o_exc o2 /\ o_valid o1 = o_valid o2.
Proof.
  intros He Hw Hpos H1 H2 L1 L2 Hv Hp Hf. destruct e as [b|k b|]; try contradiction.
  assert (Hs : sim cfg1 cfg2 False s1 s2).
  { apply view_sim; try assumption. intros []. }
  pose proof (step_sim cfg1 cfg2 False He (fun f : False => match f with end) Hw
                       s1 s2 b Hs (si_db _ H1) Hf) as H.
  destruct (step cfg1 s1 (EB b)) as [s1' o1]. destruct (step cfg2 s2 (EB b)) as [s2' o2].
  destruct H as (A & B & C & D & E). split; [exact (sim_view _ _ _ _ _ A)|auto].
Qed.

(** * whole histories (C18): same history, same oracle, any two configurations
    with the same expiration time, sweeps firing at the same instants *)
Fixpoint same_firing_run cfg1 cfg2 (s1 s2 : state) (h : list event) : Prop :=
  match h with
  | [] => True
  | e :: h' => plain e /\ same_firing s1 s2 e /\
               same_firing_run cfg1 cfg2 (fst (step cfg1 s1 e)) (fst (step cfg2 s2 e)) h'
  end.

Theorem run_view_congruence cfg1 cfg2 h : forall s1 s2,
  exp cfg1 = exp cfg2 -> welcome cfg1 = welcome cfg2 -> 0 < exp cfg1 ->
  SInv s1 -> SInv s2 -> log s1 = [] -> log s2 = [] ->
  view_of s1 = view_of s2 -> same_firing_run cfg1 cfg2 s1 s2 h ->
  let '(s1', os1) := run cfg1 s1 h in
  let '(s2', os2) := run cfg2 s2 h in
  view_of s1' = view_of s2' /\
  map (fun o => map mask_frame (frames_of (o_log o))) os1 =
  map (fun o => map mask_frame (frames_of (o_log o))) os2 /\
  (allow_list cfg1 = allow_list cfg2 ->
   map (fun o => frames_of (o_log o)) os1 = map (fun o => frames_of (o_log o)) os2) /\
  map o_exc os1 = map o_exc os2.
Proof.
  induction h as [|e h IH]; intros s1 s2 He Hw Hpos H1 H2 L1 L2 Hv Hf.
  - cbn. auto.
  - cbn [same_firing_run] in Hf. destruct Hf as (Hp & Hf1 & Hfr). cbn [run].
    assert (Hpos2 : 0 < exp cfg2) by (rewrite <- He; exact Hpos).
    pose proof (step_view_congruence cfg1 cfg2 s1 s2 e He Hw Hpos H1 H2 L1 L2 Hv Hp Hf1) as Hstep.
    pose proof (step_spec cfg1 Hpos s1 e H1) as S1.
    pose proof (step_spec cfg2 Hpos2 s2 e H2) as S2.
    destruct (step cfg1 s1 e) as [t1 o1]. destruct (step cfg2 s2 e) as [t2 o2].
    cbn [fst] in Hfr.
    destruct S1 as (I1 & M1 & _). destruct S2 as (I2 & M2 & _).
    destruct Hstep as (Hv' & Hm & Ha & Hx & _).
    specialize (IH t1 t2 He Hw Hpos I1 I2 M1 M2 Hv' Hfr).
    destruct (run cfg1 t1 h) as [u1 os1]. destruct (run cfg2 t2 h) as [u2 os2].
    destruct IH as (A & B & C & D). cbn [map].
    split; [exact A|]. split; [f_equal; assumption|].
    split; [intros K; f_equal; auto|f_equal; assumption].
Qed.

(** with the same period and the same timer state the firing condition is automatic *)
Lemma same_firing_sim cfg1 cfg2 h : forall s1 s2,
  period cfg1 = period cfg2 -> exp cfg1 = exp cfg2 -> welcome cfg1 = welcome cfg2 -> 0 < exp cfg1 ->
  SInv s1 -> SInv s2 -> sim cfg1 cfg2 True s1 s2 ->
  Forall plain h -> same_firing_run cfg1 cfg2 s1 s2 h.
Proof.
  induction h as [|e h IH]; intros s1 s2 Hper He Hw Hpos H1 H2 Hs Hpl; cbn [same_firing_run]; [exact I|].
  inversion Hpl as [|? ? Hp Hpl']; subst.
  destruct e as [b|k b|]; try contradiction.
  assert (Hf : same_firing s1 s2 (EB b)).
  { destruct b; cbn [same_firing]; try exact I.
    destruct (sim_tm _ _ _ _ _ Hs I) as [_ K]. rewrite K, (sim_now _ _ _ _ _ Hs). reflexivity. }
  split; [exact I|]. split; [exact Hf|].
  assert (Hpos2 : 0 < exp cfg2) by (rewrite <- He; exact Hpos).
  pose proof (step_sim cfg1 cfg2 True He (fun _ => Hper) Hw s1 s2 b Hs (si_db _ H1) Hf) as H.
  pose proof (step_spec cfg1 Hpos s1 (EB b) H1) as S1.
  pose proof (step_spec cfg2 Hpos2 s2 (EB b) H2) as S2.
  destruct (step cfg1 s1 (EB b)) as [t1 o1]. destruct (step cfg2 s2 (EB b)) as [t2 o2].
  cbn [fst]. destruct S1 as (I1 & _). destruct S2 as (I2 & _). destruct H as (A & _).
  apply IH; assumption.
Qed.

Lemma same_firing_same_timer cfg1 cfg2 h : forall s1 s2,
  period cfg1 = period cfg2 -> exp cfg1 = exp cfg2 -> welcome cfg1 = welcome cfg2 -> 0 < exp cfg1 ->
  SInv s1 -> SInv s2 -> log s1 = [] -> log s2 = [] ->
  view_of s1 = view_of s2 -> timer_start s1 = timer_start s2 -> next_due s1 = next_due s2 ->
  Forall plain h -> same_firing_run cfg1 cfg2 s1 s2 h.
Proof.
  intros s1 s2 Hper He Hw Hpos H1 H2 L1 L2 Hv Ht Hn Hpl.
  apply same_firing_sim; try assumption.
  apply view_sim; auto.
Qed.

(** * C11: a restart is a drop of all connections followed by a sweep *)
Definition drop_all (s : state) : list event :=
  map (fun p => EB (EDisconnect (fst p))) (conns s).

Lemma set_log_nil s : log s = [] -> set_log s [] = s.
Proof. destruct s. cbn. intros ->. reflexivity. Qed.

Lemma run_cons_fst cfg s e h : fst (run cfg s (e :: h)) = fst (run cfg (fst (step cfg s e)) h).
Proof.
  cbn [run]. destruct (step cfg s e) as [s1 o]. cbn [fst].
  destruct (run cfg s1 h) as [s2 os]. reflexivity.
Qed.

Lemma run_app_fst cfg h1 h2 : forall s,
  fst (run cfg s (h1 ++ h2)) = fst (run cfg (fst (run cfg s h1)) h2).
Proof.
  induction h1 as [|e h1 IH]; intros s; [reflexivity|].
  cbn [app]. rewrite !run_cons_fst. apply IH.
Qed.

Lemma drop_conn_fields c s cs :
  lookup_conn c (conns s) = Some cs ->
  chan_w (drop_conn c s) = chan_w s /\ chan_c (drop_conn c s) = chan_c s /\
  now (drop_conn c s) = now s.
Proof.
  intros H. unfold drop_conn. rewrite (on_close_eq c s cs H).
  destruct (c_mailbox cs); [|cbn; auto].
  destruct (c_bound cs) as [[a sd]|]; [|cbn; auto].
  destruct (c_listening cs); cbn; auto.
Qed.

Lemma filter_notin c l : ~ In c l -> filter (fun c' => negb (Nat.eqb c' c)) l = l.
Proof.
  induction l as [|x l IH]; intros H; [reflexivity|]. cbn [filter].
  destruct (Nat.eqb x c) eqn:E.
  - apply Nat.eqb_eq in E. subst x. exfalso. apply H. now left.
  - cbn [negb]. rewrite IH; [reflexivity|]. intros K. apply H. now right.
Qed.

Lemma drop_run cfg (Hpos : 0 < exp cfg) l : forall s,
  SInv s -> log s = [] -> map fst (conns s) = l ->
  let s' := fst (run cfg s (map (fun c => EB (EDisconnect c)) l)) in
  SInv s' /\ log s' = [] /\ conns s' = [] /\ chan_w s' = chan_w s /\ chan_c s' = chan_c s /\
  now s' = now s.
Proof.
  induction l as [|c l IH]; intros s H L E; cbv zeta.
  - cbn [map run fst]. apply map_eq_nil in E.
    split; [exact H|]. split; [exact L|]. split; [exact E|]. auto.
  - cbn [map]. rewrite run_cons_fst.
    assert (Hin : In c (map fst (conns s))) by (rewrite E; now left).
    apply lookup_some in Hin. destruct Hin as [cs Hcs].
    assert (Hhc : has_conn c s = true) by (unfold has_conn; rewrite Hcs; reflexivity).
    assert (Et : fst (step cfg s (EB (EDisconnect c))) = set_log (drop_conn c s) []).
    { unfold step. cbv zeta. rewrite (set_log_nil s L). unfold step_b. rewrite Hhc. reflexivity. }
    pose proof (step_spec cfg Hpos s (EB (EDisconnect c)) H) as S.
    destruct (step cfg s (EB (EDisconnect c))) as [t o]. cbn [fst] in Et |- *.
    destruct S as (Ht & Lt & _).
    assert (HH : HInv s) by (split; [exact H|rewrite L; constructor]).
    destruct (drop_conn_spec cfg Hpos c s HH Hhc) as (_ & _ & Eids).
    destruct (drop_conn_fields c s cs Hcs) as (Ew & Ec & En).
    assert (El : map fst (conns t) = l).
    { rewrite Et. cbn [conns set_log]. rewrite Eids, E. cbn [filter]. rewrite Nat.eqb_refl. cbn [negb].
      apply filter_notin. pose proof (si_conn_ids s H) as Nd. rewrite E in Nd.
      inversion Nd; assumption. }
    destruct (IH t Ht Lt El) as (A & B & C & D & F & G).
    split; [exact A|]. split; [exact B|]. split; [exact C|].
    rewrite D, F, G, Et. cbn [chan_w chan_c now set_log]. auto.
Qed.

Lemma restart_state cfg s :
  fst (step cfg s ERestart) =
  set_log (match expire cfg false
                   (mkState (chan_c s) (chan_c s) (usage_c s) (usage_c s) [] [] (now s) (now s)
                            (now s) (now s + period cfg) []) with
           | Ok _ s' => s' | Exn _ s' => s' end) [].
Proof.
  unfold step. cbv zeta. cbn [chan_c usage_c now set_log]. rewrite boot_on_eq.
  destruct (expire cfg false _); reflexivity.
Qed.

Lemma sweep_state cfg s :
  log s = [] ->
  fst (step cfg s (EB (ESweep false))) =
  set_log (match expire cfg false s with Ok _ s' => s' | Exn _ s' => s' end) [].
Proof.
  intros L. unfold step, step_b, run_m. cbv zeta. rewrite (set_log_nil s L).
  destruct (expire cfg false s); reflexivity.
Qed.

Theorem restart_as_drop_and_sweep cfg s :
  0 < exp cfg -> SInv s -> log s = [] ->
  let sr := fst (step cfg s ERestart) in
  let sd := fst (run cfg s (drop_all s ++ [EB (ESweep false)])) in
  view_of sr = view_of sd /\ SInv sr /\ SInv sd /\ log sr = [] /\ log sd = [].
Proof.
  intros Hpos H L sr sd.
  assert (Ed : drop_all s = map (fun c => EB (EDisconnect c)) (map fst (conns s))).
  { unfold drop_all. rewrite map_map. reflexivity. }
  destruct (drop_run cfg Hpos (map fst (conns s)) s H L eq_refl) as (Hd & Ld & Cd & Wd & Cd' & Nd).
  rewrite <- Ed in Hd, Ld, Cd, Wd, Cd', Nd.
  set (sd0 := fst (run cfg s (drop_all s))) in *.
  assert (Esd : sd = fst (step cfg sd0 (EB (ESweep false)))).
  { unfold sd. rewrite run_app_fst. fold sd0. rewrite run_cons_fst. reflexivity. }
  assert (Sd0 : subs sd0 = []).
  { destruct (subs sd0) as [|[[a m] c] rest] eqn:Es; [reflexivity|exfalso].
    assert (Hin : In (a, m, c) (subs sd0)) by (rewrite Es; now left).
    destruct (si_subs sd0 Hd _ Hin) as (_ & cs & side & Hl & _).
    rewrite Cd in Hl. discriminate. }
  pose proof (step_spec cfg Hpos s ERestart H) as Sr. fold sr in Sr.
  pose proof (step_spec cfg Hpos sd0 (EB (ESweep false)) Hd) as Sd.
  assert (Hr : SInv sr /\ log sr = []).
  { unfold sr. destruct (step cfg s ERestart) as [t o]. cbn [fst]. destruct Sr as (A & B & _). auto. }
  assert (Hsd : SInv sd /\ log sd = []).
  { rewrite Esd. destruct (step cfg sd0 (EB (ESweep false))) as [t o]. cbn [fst].
    destruct Sd as (A & B & _). auto. }
  clear Sr Sd. split; [|tauto].
  rewrite Esd. unfold sr. rewrite restart_state, (sweep_state cfg sd0 Ld).
  destruct (si_clean s H) as [Ecl _].
  set (s0 := mkState (chan_c s) (chan_c s) (usage_c s) (usage_c s) [] [] (now s) (now s)
                     (now s) (now s + period cfg) []).
  assert (Hs : sim cfg cfg False s0 sd0).
  { apply view_sim; [|reflexivity|exact Ld|intros []].
    unfold view_of, s0. cbn [chan_w chan_c subs conns now]. rewrite Wd, Cd', Sd0, Cd, Nd, Ecl.
    reflexivity. }
  assert (Hdb : DbInv (chan_w s0)).
  { unfold s0. cbn [chan_w]. rewrite <- Ecl. apply (si_db s H). }
  pose proof (R_expire cfg cfg False eq_refl false s0 sd0 Hs Hdb) as K.
  destruct (expire cfg false s0) as [a1 t1|e1 t1], (expire cfg false sd0) as [a2 t2|e2 t2];
    try (exfalso; exact K).
  - destruct K as (_ & Kt & _). exact (sim_view _ _ _ _ _ Kt).
  - destruct K as (_ & Kt). exact (sim_view _ _ _ _ _ Kt).
Qed.

(** hence every continuation in which the sweeps fire at the same instants
    sees the same answers and reaches the same stored state *)
Corollary restart_invisible cfg s h2 :
  0 < exp cfg -> SInv s -> log s = [] ->
  let sr := fst (step cfg s ERestart) in
  let sd := fst (run cfg s (drop_all s ++ [EB (ESweep false)])) in
  same_firing_run cfg cfg sr sd h2 ->
  let '(sr', osr) := run cfg sr h2 in
  let '(sd', osd) := run cfg sd h2 in
  view_of sr' = view_of sd' /\
  map (fun o => frames_of (o_log o)) osr = map (fun o => frames_of (o_log o)) osd /\
  map o_exc osr = map o_exc osd.
Proof.
  intros Hpos H L sr sd Hf.
  destruct (restart_as_drop_and_sweep cfg s Hpos H L) as (Hv & Hr & Hd & Lr & Ld).
  pose proof (run_view_congruence cfg cfg h2 sr sd eq_refl eq_refl Hpos Hr Hd Lr Ld Hv Hf) as K.
  destruct (run cfg sr h2) as [sr' osr]. destruct (run cfg sd h2) as [sd' osd].
  destruct K as (A & _ & C & D). auto.
Qed.
