(** DupFactsFresh.v -- C14, the remaining successfully answered command: a
    close on a connection that does NOT hold the mailbox (handle_close's fresh
    path: open_mailbox, then close; MbFactsB.close_fresh_outcome).  When it is
    answered `closed` the state it leaves satisfies [close_done] -- the
    hypothesis of [DupFacts.close_dup] -- so re-sending it on a fresh
    connection of the same side gets the same answer and changes nothing but
    (if the mailbox is still there) the mailbox's `updated` stamp (KF4).

    [DupFacts.close_establishes] needs the closing side's row and "not
    crowded" as hypotheses (the holding connection may be a third side that
    was refused).  Here neither is needed: the implicit open creates the row,
    and the answer `closed` is given only when the mailbox is not crowded. *)
From MW Require Import Base Store Monad Usage Server Websocket Service Findings
     Inv StoreFacts Hoare DbFactsA DbFactsB OpFacts ProtoFacts Obs StepFacts
     NpFactsA MbFactsA MbFactsB DupFacts.
Local Open Scope list_scope.

Section WithConfig.
Variable cfg : config.
Hypothesis Hexp : 0 < exp cfg.

(** a fresh close that is answered `closed` establishes [close_done] *)
Theorem close_fresh_establishes s c cs a side msg o m :
  SInv s -> log s = [] ->
  lookup_conn c (conns s) = Some cs -> c_bound cs = Some (a, side) -> c_mailbox cs = None ->
  m_type msg = Some TClose -> erroneous cs msg = false -> cmd_mbox cs msg = Some m ->
  let '(s', ob) := step cfg s (EB (ECmd c msg o)) in
  In (c, FClosed) (frames_of (o_log ob)) ->
  close_done (chan_w s') a m side (m_mood msg).
Proof.
  intros Hinv Hlog Hl Hb Hmb Ht Herr Hcm.
  pose proof (close_fresh_outcome cfg s c cs a side msg o m Hinv Hlog Hl Hb Hmb Ht Herr Hcm) as H.
  destruct (step cfg s (EB (ECmd c msg o))) as [s' ob]. cbv zeta in H.
  intros Hans.
  destruct H as (_ & [(_ & Hf & _)|[(_ & _ & Hf & _)|(_ & Hle & _ & Hw & _)]]).
  - exfalso. rewrite Hf in Hans. destruct Hans as [E|[]]. discriminate.
  - exfalso. rewrite Hf in Hans. destruct Hans as [E|[E|[]]]; discriminate.
  - rewrite Hw. apply close_done_after.
    + apply open_db_has_mb.
    + destruct (open_db_side (chan_w s) a m side (now s)) as [r Hr]. rewrite Hr. discriminate.
    + exact Hle.
Qed.

(** the answer `closed` is given exactly in the served branch: without an
    escaping exception, [ack; closed] and nothing else *)
Lemma close_fresh_answered s c cs a side msg o m :
  SInv s -> log s = [] ->
  lookup_conn c (conns s) = Some cs -> c_bound cs = Some (a, side) -> c_mailbox cs = None ->
  m_type msg = Some TClose -> erroneous cs msg = false -> cmd_mbox cs msg = Some m ->
  let '(s', ob) := step cfg s (EB (ECmd c msg o)) in
  In (c, FClosed) (frames_of (o_log ob)) <->
  (o_exc ob = None /\ frames_of (o_log ob) = [(c, FAck (m_id msg)); (c, FClosed)]).
Proof.
  intros Hinv Hlog Hl Hb Hmb Ht Herr Hcm.
  pose proof (close_fresh_outcome cfg s c cs a side msg o m Hinv Hlog Hl Hb Hmb Ht Herr Hcm) as H.
  destruct (step cfg s (EB (ECmd c msg o))) as [s' ob]. cbv zeta in H.
  split.
  - intros Hans.
    destruct H as (_ & [(_ & Hf & _)|[(_ & _ & Hf & _)|(Hx & _ & Hf & _)]]).
    + exfalso. rewrite Hf in Hans. destruct Hans as [E|[]]. discriminate.
    + exfalso. rewrite Hf in Hans. destruct Hans as [E|[E|[]]]; discriminate.
    + split; assumption.
  - intros [_ ->]. right. left. reflexivity.
Qed.

(** ... hence the re-sent close is a no-op with the same answer: the fresh
    close on connection [c] of state [s] is answered `closed`; the same close
    (same mailbox, same mood) is sent again by a new connection [c'] of the
    same side *)
Theorem close_fresh_dup s c cs a side msg o m c' cmd o' :
  SInv s -> log s = [] ->
  lookup_conn c (conns s) = Some cs -> c_bound cs = Some (a, side) -> c_mailbox cs = None ->
  m_type msg = Some TClose -> erroneous cs msg = false -> cmd_mbox cs msg = Some m ->
  m_type cmd = Some TClose -> m_mailbox cmd = Some m -> m_mood cmd = m_mood msg ->
  let '(s1, ob) := step cfg s (EB (ECmd c msg o)) in
  In (c, FClosed) (frames_of (o_log ob)) -> has_conn c' s1 = false ->
  let '(s2, obs) := run cfg s1 (dup_events c' a side cmd o') in
  chan_w s2 = upd_touch (chan_w s1) m (now s1) /\ chan_c s2 = chan_w s2 /\
  subs s2 = subs s1 /\ conns s2 = conns s1 /\ now s2 = now s1 /\
  (~ mb_alive (chan_w s1) m -> chan_w s2 = chan_w s1) /\
  ((forall r, In r (mailboxes (chan_w s1)) -> mb_id r = m -> mb_updated r = now s1) ->
   chan_w s2 = chan_w s1) /\
  exists o1 o2 o3 o4, obs = [o1; o2; o3; o4] /\
    frames_of (o_log o3) = [(c', FAck (m_id cmd)); (c', FClosed)] /\ o_exc o3 = None.
Proof using Hexp.
  intros Hinv Hlog Hl Hb Hmb Ht Herr Hcm Htc Hmc Hmood.
  pose proof (close_fresh_establishes s c cs a side msg o m Hinv Hlog Hl Hb Hmb Ht Herr Hcm) as Hest.
  pose proof (step_spec cfg Hexp s (EB (ECmd c msg o)) Hinv) as Hsp.
  destruct (step cfg s (EB (ECmd c msg o))) as [s1 ob].
  destruct Hsp as (Hinv1 & Hlog1 & _).
  intros Hans Hno. specialize (Hest Hans). rewrite <- Hmood in Hest.
  exact (close_dup cfg s1 c' a side m cmd o' Hinv1 Hlog1 Hno Htc Hmc Hest).
Qed.

(** the same command, literally, when it names the mailbox *)
Corollary close_fresh_dup_same s c cs a side msg o m c' o' :
  SInv s -> log s = [] ->
  lookup_conn c (conns s) = Some cs -> c_bound cs = Some (a, side) -> c_mailbox cs = None ->
  m_type msg = Some TClose -> erroneous cs msg = false -> m_mailbox msg = Some m ->
  let '(s1, ob) := step cfg s (EB (ECmd c msg o)) in
  In (c, FClosed) (frames_of (o_log ob)) -> has_conn c' s1 = false ->
  let '(s2, obs) := run cfg s1 (dup_events c' a side msg o') in
  chan_w s2 = upd_touch (chan_w s1) m (now s1) /\ chan_c s2 = chan_w s2 /\
  subs s2 = subs s1 /\ conns s2 = conns s1 /\ now s2 = now s1 /\
  (~ mb_alive (chan_w s1) m -> chan_w s2 = chan_w s1) /\
  ((forall r, In r (mailboxes (chan_w s1)) -> mb_id r = m -> mb_updated r = now s1) ->
   chan_w s2 = chan_w s1) /\
  exists o1 o2 o3 o4, obs = [o1; o2; o3; o4] /\
    frames_of (o_log o3) = [(c', FAck (m_id msg)); (c', FClosed)] /\ o_exc o3 = None.
Proof using Hexp.
  intros Hinv Hlog Hl Hb Hmb Ht Herr Hm.
  assert (Hcm : cmd_mbox cs msg = Some m) by (unfold cmd_mbox; rewrite Hm; reflexivity).
  exact (close_fresh_dup s c cs a side msg o m c' msg o' Hinv Hlog Hl Hb Hmb Ht Herr Hcm
           Ht Hm eq_refl).
Qed.

(** [close_fresh_dup] with projections instead of destructuring lets (state part) *)
Corollary close_fresh_dup_proj s c cs a side msg o m c' cmd o' :
  SInv s -> log s = [] ->
  lookup_conn c (conns s) = Some cs -> c_bound cs = Some (a, side) -> c_mailbox cs = None ->
  m_type msg = Some TClose -> erroneous cs msg = false -> cmd_mbox cs msg = Some m ->
  m_type cmd = Some TClose -> m_mailbox cmd = Some m -> m_mood cmd = m_mood msg ->
  In (c, FClosed) (frames_of (o_log (snd (step cfg s (EB (ECmd c msg o)))))) ->
  has_conn c' (fst (step cfg s (EB (ECmd c msg o)))) = false ->
  let s1 := fst (step cfg s (EB (ECmd c msg o))) in
  let s2 := fst (run cfg s1 (dup_events c' a side cmd o')) in
  chan_w s2 = upd_touch (chan_w s1) m (now s1) /\ chan_c s2 = chan_w s2 /\
  subs s2 = subs s1 /\ conns s2 = conns s1 /\ now s2 = now s1 /\
  (~ mb_alive (chan_w s1) m -> chan_w s2 = chan_w s1).
Proof using Hexp.
  intros Hinv Hlog Hl Hb Hmb Ht Herr Hcm Htc Hmc Hmood Hans Hno.
  pose proof (close_fresh_dup s c cs a side msg o m c' cmd o' Hinv Hlog Hl Hb Hmb Ht Herr Hcm
                Htc Hmc Hmood) as T.
  destruct (step cfg s (EB (ECmd c msg o))) as [s1 ob]. cbn [fst snd] in *.
  specialize (T Hans Hno). cbv zeta.
  destruct (run cfg s1 (dup_events c' a side cmd o')) as [s2 obs]. cbn [fst].
  destruct T as (T1 & T2 & T3 & T4 & T5 & T6 & _). auto 10.
Qed.

End WithConfig.

(** * non-vacuity (computed).  Sides A and B open mailbox "m"; A's connection
    goes away without closing; 8 ticks later A reconnects (connection 3, which
    holds nothing) and sends close: the fresh path, answered `closed`, B still
    has the mailbox open.  The close is re-sent 5 ticks later on connection 4:
    same answer, and the only change is the mailbox's `updated` stamp (KF4).
    Then B closes (connection 2 holds the mailbox: it is deleted) and re-sends
    its close on connection 5 -- the fresh path on a mailbox that no longer
    exists, answered `closed` -- and once more on connection 6: nothing changes *)
Definition df_cfg : config := mkCfg true false None 5280 2400 (mkWelcome None None None).
Lemma df_exp : 0 < exp df_cfg.
Proof. reflexivity. Qed.
Definition df_bind (side : string) : command :=
  mkCmd (Some TBind) None (Some "a") (Some side) None None None None None None None.
Definition df_open : command :=
  mkCmd (Some TOpen) None None None None (Some "m") None None None None None.
Definition df_close : command :=
  mkCmd (Some TClose) None None None None (Some "m") None None (Some "happy") None None.
Definition df_hist : list event :=
  [EB (EConnect 1); EB (ECmd 1 (df_bind "A") no_oracle); EB (ECmd 1 df_open no_oracle);
   EB (EConnect 2); EB (ECmd 2 (df_bind "B") no_oracle); EB (ECmd 2 df_open no_oracle);
   EB (EDisconnect 1); EB (EAdvance 8 false);
   EB (EConnect 3); EB (ECmd 3 (df_bind "A") no_oracle)].
Definition df_s : state := fst (run df_cfg (init df_cfg 0) df_hist).
(** A's fresh close, 5 ticks, its duplicate *)
Definition df_s1 : state := fst (step df_cfg df_s (EB (ECmd 3 df_close no_oracle))).
Definition df_s1' : state := fst (step df_cfg df_s1 (EB (EAdvance 5 false))).
Definition df_s2 : state := fst (run df_cfg df_s1' (dup_events 4 "a" "A" df_close no_oracle)).
(** B's close (held), B's fresh close, its duplicate *)
Definition df_t : state :=
  fst (run df_cfg df_s2 [EB (ECmd 2 df_close no_oracle); EB (EConnect 5);
                         EB (ECmd 5 (df_bind "B") no_oracle)]).
Definition df_t1 : state := fst (step df_cfg df_t (EB (ECmd 5 df_close no_oracle))).
Definition df_t2 : state := fst (run df_cfg df_t1 (dup_events 6 "a" "B" df_close no_oracle)).

Example close_fresh_dup_nonvacuous :
  (* the hypotheses of [close_fresh_establishes] / [close_fresh_dup] hold ... *)
  SInv df_s /\ log df_s = [] /\
  (exists cs, lookup_conn 3 (conns df_s) = Some cs /\ c_bound cs = Some ("a", "A") /\
              c_mailbox cs = None /\ erroneous cs df_close = false /\
              cmd_mbox cs df_close = Some "m") /\
  frames_of (o_log (snd (step df_cfg df_s (EB (ECmd 3 df_close no_oracle))))) =
    [(3, FAck None); (3, FClosed)]%nat /\
  has_conn 4 (fst (step df_cfg df_s (EB (ECmd 3 df_close no_oracle)))) = false /\
  (* ... the mailbox is still there, closed for A, open for B ... *)
  map mb_updated (mailboxes (chan_w df_s1)) = [8] /\
  map (fun r => (mbs_side r, mbs_opened r, mbs_mood r)) (mb_sides (chan_w df_s1)) =
    [("A", false, Some "happy"); ("B", true, None)] /\
  (* ... and the duplicate at 13 re-stamps it, nothing else *)
  chan_w df_s2 = upd_touch (chan_w df_s1') "m" 13 /\
  map mb_updated (mailboxes (chan_w df_s2)) = [13] /\
  mb_sides (chan_w df_s2) = mb_sides (chan_w df_s1) /\ subs df_s2 = subs df_s1 /\
  conns df_s2 = conns df_s1 /\
  (* the fresh close of a mailbox that is gone: answered `closed`, and its duplicate changes nothing *)
  mailboxes (chan_w df_t) = [] /\
  frames_of (o_log (snd (step df_cfg df_t (EB (ECmd 5 df_close no_oracle))))) =
    [(5, FAck None); (5, FClosed)]%nat /\
  mailboxes (chan_w df_t1) = [] /\ mb_sides (chan_w df_t1) = [] /\
  chan_w df_t2 = chan_w df_t1 /\ chan_c df_t2 = chan_c df_t1 /\ subs df_t2 = subs df_t1 /\
  conns df_t2 = conns df_t1.
Proof.
  split; [apply (run_spec df_cfg df_exp), (init_spec df_cfg df_exp)|].
  split; [vm_compute; reflexivity|].
  split; [eexists; vm_compute; repeat split; reflexivity|].
  vm_compute. repeat split; reflexivity.
Qed.

(** the theorem applied to this instance (its hypotheses are jointly satisfiable) *)
Example close_fresh_dup_instance :
  let s1 := fst (step df_cfg df_s (EB (ECmd 3%nat df_close no_oracle))) in
  let s2 := fst (run df_cfg s1 (dup_events 4%nat "a" "A" df_close no_oracle)) in
  chan_w s2 = upd_touch (chan_w s1) "m" (now s1) /\ chan_c s2 = chan_w s2 /\
  subs s2 = subs s1 /\ conns s2 = conns s1 /\ now s2 = now s1 /\
  (~ mb_alive (chan_w s1) "m" -> chan_w s2 = chan_w s1).
Proof.
  destruct close_fresh_dup_nonvacuous as (HS & Hl & (cs & Hlk & Hb & Hm & He & Hc) & Hf & Hno & _).
  apply (close_fresh_dup_proj df_cfg df_exp df_s 3%nat cs "a" "A" df_close no_oracle "m" 4%nat
           df_close no_oracle HS Hl Hlk Hb Hm eq_refl He Hc eq_refl eq_refl eq_refl).
  - rewrite Hf. right. left. reflexivity.
  - exact Hno.
Qed.

Print Assumptions close_fresh_establishes.
Print Assumptions close_fresh_answered.
Print Assumptions close_fresh_dup.
Print Assumptions close_fresh_dup_same.
Print Assumptions close_fresh_dup_proj.
Print Assumptions close_fresh_dup_nonvacuous.
Print Assumptions close_fresh_dup_instance.
