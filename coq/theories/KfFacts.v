(** KfFacts.v -- the trigger predicates of the open known findings
    (Findings.v), which the harness uses to excuse the corresponding failures,
    are sound: when a trigger fires, the known failure -- and nothing else --
    happens.  So an excused history cannot hide a different violation of the same
    kind. *)
From MW Require Import Base Store Monad Usage Server Websocket Service Findings
     Inv StoreFacts Hoare DbFactsA DbFactsB OpFacts ProtoFacts Obs StepFacts
     NpFactsA MbFactsA MbFactsB Corollaries.
Local Open Scope list_scope.

(** * Database level: what the triggers say *)

(** KF1: an id that exists under another app is exactly a PRIMARY KEY clash *)
Lemma foreign_clash d a m : DbInv d -> foreign_mailbox d a m = true -> pk_clash d a m.
Proof.
  intros Hinv Hf. unfold foreign_mailbox in Hf. apply existsb_exists in Hf.
  destruct Hf as [r [Hr Hf]]. apply andb_true_iff in Hf. destruct Hf as [Hid Happ].
  apply seqb_eq in Hid. apply negb_true_iff in Happ. apply seqb_neq in Happ.
  split.
  - apply mb_exists_iff. exists r. split; [exact Hr|exact Hid].
  - intros [r' [Hr' [Ha' Hid']]].
    assert (E : r = r').
    { apply (NoDup_map_inj mb_id (mailboxes d)); [exact (inv_mb_id d Hinv)|exact Hr|exact Hr'|].
      congruence. }
    subst r'. contradiction.
Qed.

Lemma clash_foreign d a m : pk_clash d a m -> foreign_mailbox d a m = true.
Proof.
  intros [Hex Hno]. apply mb_exists_iff in Hex. destruct Hex as [r [Hr Hid]].
  unfold foreign_mailbox. apply existsb_exists. exists r. split; [exact Hr|].
  apply andb_true_iff. split; [apply seqb_eq; exact Hid|].
  apply negb_true_iff. apply seqb_neq. intros Ha. apply Hno. exists r. auto.
Qed.

Lemma kf_pk_clash_fail d a m side w :
  pk_clash d a m -> open_body d a m side w = TxFail XIntegrity d.
Proof.
  intros [Hex Hno]. unfold open_body, add_mailbox.
  destruct (sel_mb d a m) as [r|] eqn:E.
  - exfalso. apply Hno. apply has_mb_sel. eauto.
  - unfold ins_mb. cbn [mb_id]. rewrite Hex. reflexivity.
Qed.

Lemma kf_In_firstn {A} n : forall (l : list A) x, In x (firstn n l) -> In x l.
Proof.
  induction n as [|n IH]; intros l x H; [destruct H|].
  destruct l as [|y l]; [destruct H|]. cbn in H. destruct H as [H|H]; [left; exact H|].
  right. apply IH. exact H.
Qed.

(** KF2: the side is among the rows of a mailbox that has more than two *)
Lemma crowded_sel d m side :
  crowded_for d m side = true ->
  (2 < List.length (sel_mbs_all d m))%nat /\ exists r, sel_mbs d m side = Some r.
Proof.
  unfold crowded_for, first_two_sides. intros H.
  apply andb_true_iff in H. destruct H as [Hlen Hmem].
  split; [apply Nat.ltb_lt; exact Hlen|].
  apply smem_In in Hmem. apply in_map_iff in Hmem. destruct Hmem as [r [Hsd Hr]].
  apply kf_In_firstn in Hr. apply sel_mbs_all_In in Hr. destruct Hr as [Hr Hm].
  destruct (sel_mbs d m side) as [r0|] eqn:E; [eauto|].
  exfalso. rewrite sel_mbs_none in E. exact (E r Hr (conj Hm Hsd)).
Qed.

Lemma open_db_sides_same d a m side w r :
  sel_mbs d m side = Some r -> sel_mbs_all (open_db d a m side w) m = sel_mbs_all d m.
Proof. intros H. unfold open_db, sel_mbs_all. cbn [mb_sides]. rewrite H. reflexivity. Qed.

(** the first transaction of a claim of an existing nameplate *)
Lemma claim_body_known d a n side w draw np :
  sel_np d a n = Some np ->
  (claim_body d a n side w draw = TxFail XReclaimed d) \/
  (exists d1, claim_body d a n side w draw = TxOk (np_id np, np_mbox np) d1 /\
              mailboxes d1 = mailboxes d /\ mb_sides d1 = mb_sides d /\
              messages d1 = messages d).
Proof.
  intros Hnp. unfold claim_body. rewrite Hnp. unfold claim_side_body.
  destruct (sel_nps d (np_id np) side) as [r|] eqn:Enps.
  - destruct (nps_claimed r); [right|left; reflexivity].
    exists d. auto.
  - right. unfold ins_nps. cbn [nps_npid].
    assert (Hex : np_exists d (np_id np) = true).
    { apply np_exists_iff. exists np. split; [|reflexivity].
      apply (sel_np_some d a n np Hnp). }
    rewrite Hex. eexists. split; [reflexivity|]. cbn. auto.
Qed.

(** * Monadic level *)

Lemma open_mailbox_clash a m side w s :
  pk_clash (chan_w s) a m -> open_mailbox a m side w s = Exn XIntegrity s.
Proof.
  intros H. rewrite open_mailbox_eval, (kf_pk_clash_fail _ _ _ side w H).
  rewrite set_chan_w_same. reflexivity.
Qed.

Lemma handle_open_clash c a side msg s cs m :
  lookup_conn c (conns s) = Some cs -> c_mailbox cs = None -> m_mailbox msg = Some m ->
  pk_clash (chan_w s) a m ->
  handle_open c a side msg s =
  Exn XIntegrity (set_conns s (update_conn c (set_mailbox_id cs (Some m)) (conns s))).
Proof.
  intros Hl Hmb Hm Hclash. unfold handle_open.
  rewrite bind_get_conn. unfold conn_of. rewrite Hl, Hmb, Hm.
  set (s1 := set_conns s (update_conn c (set_mailbox_id cs (Some m)) (conns s))).
  rewrite (bind_ok _ _ s tt s1) by reflexivity.
  rewrite (bind_ok get _ s1 s1 s1) by reflexivity.
  apply bind_exn. unfold catch_crowded, try_catch.
  rewrite (open_mailbox_clash a m side (now s1) s1 Hclash). reflexivity.
Qed.

Lemma handle_allocate_exhausted c a side o s cs :
  lookup_conn c (conns s) = Some cs -> c_did_allocate cs = false ->
  find_available (sel_names (chan_w s) a) (o_alloc o) = AllocValueError ->
  handle_allocate c a side o s = Exn XValue s.
Proof.
  intros Hl Hda Hf. unfold handle_allocate.
  rewrite bind_get_conn. unfold conn_of. rewrite Hl, Hda.
  rewrite (bind_ok get _ s s s) by reflexivity.
  apply bind_exn. unfold allocate_nameplate.
  rewrite (bind_ok _ _ s (sel_names (chan_w s) a) s) by reflexivity.
  rewrite Hf. reflexivity.
Qed.

Lemma claim_nameplate_crowded a n side w draw s npid mbox d1 d2 :
  claim_body (chan_w s) a n side w draw = TxOk (npid, mbox) d1 ->
  open_body d1 a mbox side w = TxOk tt d2 ->
  (2 < List.length (sel_mbs_all d2 mbox))%nat ->
  claim_nameplate a n side w draw s = Exn XCrowded (claimed_state s d1 d2).
Proof.
  intros H1 H2 Hlen. unfold claim_nameplate.
  rewrite (bind_ok _ _ s (npid, mbox) (set_chan_w s d1)) by (unfold tx; rewrite H1; reflexivity).
  cbv beta iota.
  set (s2 := mkState d1 d1 (usage_w s) (usage_c s) (subs s) (conns s) (now s) (boot s)
                     (timer_start s) (next_due s) (LCommitChan d1 :: log s)).
  rewrite (bind_ok _ _ (set_chan_w s d1) tt s2) by reflexivity.
  apply bind_exn. rewrite open_mailbox_eval.
  change (chan_w s2) with d1. rewrite H2. cbv zeta.
  apply Nat.ltb_lt in Hlen. rewrite Hlen. reflexivity.
Qed.

Lemma handle_claim_crowded c a side msg o n s cs npid mbox d1 d2 :
  lookup_conn c (conns s) = Some cs -> m_nameplate msg = Some n -> c_did_claim cs = false ->
  claim_body (chan_w s) a n side (now s) (o_draw o) = TxOk (npid, mbox) d1 ->
  open_body d1 a mbox side (now s) = TxOk tt d2 ->
  (2 < List.length (sel_mbs_all d2 mbox))%nat ->
  handle_claim c a side msg o s =
  Exn (XErr ErrCrowded) (claimed_state (claim_conn s c cs n) d1 d2).
Proof.
  intros Hl Hn Hdc H1 H2 Hlen. unfold handle_claim. rewrite Hn.
  rewrite bind_get_conn. unfold conn_of. rewrite Hl, Hdc.
  rewrite (bind_ok _ _ s tt (claim_conn s c cs n)) by reflexivity.
  rewrite (bind_ok get _ (claim_conn s c cs n) (claim_conn s c cs n) (claim_conn s c cs n))
    by reflexivity.
  apply bind_exn. unfold catch_crowded_reclaimed, try_catch.
  rewrite (claim_nameplate_crowded a n side (now (claim_conn s c cs n)) (o_draw o)
             (claim_conn s c cs n) npid mbox d1 d2 H1 H2 Hlen).
  reflexivity.
Qed.

Lemma has_conn_lookup c s :
  has_conn c s = true -> lookup_conn c (conns s) = Some (conn_of s c).
Proof.
  unfold has_conn, conn_of. destruct (lookup_conn c (conns s)); [reflexivity|discriminate].
Qed.

Section WithConfig.
Variable cfg : config.
Hypothesis Hexp : 0 < exp cfg.

(** KF1: the named mailbox id exists under another app: IntegrityError, the
    connection is dropped, nothing is stored *)
Theorem kf1_sound s c msg o :
  SInv s -> log s = [] -> has_conn c s = true ->
  kf1_cmd s c msg = true -> erroneous (conn_of s c) msg = false ->
  c_mailbox (conn_of s c) = None ->
  let '(s', ob) := step cfg s (EB (ECmd c msg o)) in
  o_exc ob = Some XIntegrity /\ chan_w s' = chan_w s /\ chan_c s' = chan_c s /\
  frames_of (o_log ob) = [(c, FAck (m_id msg))].
Proof using Hexp.
  intros Hinv Hlog Hhas Hkf Herr Hmb.
  apply has_conn_lookup in Hhas. set (cs := conn_of s c) in *.
  unfold kf1_cmd in Hkf. fold cs in Hkf.
  destruct (c_bound cs) as [[a side]|] eqn:Hb; [|discriminate].
  destruct (m_type msg) as [t|] eqn:Ht; [|discriminate].
  assert (Hcase : (t = TOpen /\ exists m, m_mailbox msg = Some m /\ pk_clash (chan_w s) a m) \/
                  (t = TClose /\ exists m, cmd_mbox cs msg = Some m /\ pk_clash (chan_w s) a m)).
  { destruct t; try discriminate.
    - left. split; [reflexivity|].
      destruct (m_mailbox msg) as [m|] eqn:Hm; [|discriminate].
      exists m. split; [reflexivity|].
      apply foreign_clash; [exact (si_db s Hinv)|exact Hkf].
    - right. split; [reflexivity|]. rewrite Hmb in Hkf. unfold cmd_mbox.
      destruct (m_mailbox msg) as [m|] eqn:Hm.
      + exists m. split; [reflexivity|]. apply foreign_clash; [exact (si_db s Hinv)|exact Hkf].
      + destruct (c_mailbox_id cs) as [m|] eqn:Hid; [|discriminate].
        exists m. split; [reflexivity|]. apply foreign_clash; [exact (si_db s Hinv)|exact Hkf]. }
  clear Hkf.
  rewrite (step_cmd cfg s c msg o t cs Hhas Ht).
  set (s1 := set_log s [LFrame c (FAck (m_id msg)) (is_clean s) (now s)]).
  assert (Hco : conn_of s1 c = cs) by reflexivity.
  assert (Hl1 : lookup_conn c (conns s1) = Some cs) by exact Hhas.
  destruct Hcase as [[-> [m [Hm Hclash]]] | [-> [m [Hcm Hclash]]]].
  - rewrite (dispatch_bound cfg c TOpen msg o s1 a side)
      by (try discriminate; rewrite Hco; exact Hb).
    rewrite (handle_open_clash c a side msg s1 cs m Hl1 Hmb Hm Hclash).
    match goal with |- context [drop_conn c ?x] =>
      destruct (NpFactsA.drop_conn_frame c x) as (D1 & D2 & D3) end.
    cbn [o_exc o_log chan_w chan_c set_log]. rewrite D1, D2, D3.
    cbn [chan_w chan_c log set_conns set_log s1]. auto.
  - assert (Hdc : c_did_close cs = false /\
                  name_mismatch (m_mailbox msg) (c_mailbox_id cs) = false).
    { unfold erroneous in Herr. rewrite Ht, Hb in Herr. apply orb_false_iff in Herr. exact Herr. }
    destruct Hdc as [Hdc Hnm].
    rewrite (dispatch_bound cfg c TClose msg o s1 a side)
      by (try discriminate; rewrite Hco; exact Hb).
    rewrite (handle_close_fresh_fail cfg c a side msg s1 cs m (chan_w s) Hl1 Hdc Hnm Hcm Hmb
               (kf_pk_clash_fail _ _ _ side (now s) Hclash)).
    match goal with |- context [drop_conn c ?x] =>
      destruct (NpFactsA.drop_conn_frame c x) as (D1 & D2 & D3) end.
    cbn [o_exc o_log chan_w chan_c set_log]. rewrite D1, D2, D3.
    cbn [chan_w chan_c log set_chan_w set_log s1]. auto.
Qed.

(** KF2: one of the first two sides of a mailbox that has more than two side
    rows asks for it again: answered `crowded` (or, for a claim by a side that had
    released the nameplate, `reclaimed`); nothing else is sent, no subscription *)
Theorem kf2_sound s c msg o :
  SInv s -> log s = [] -> has_conn c s = true ->
  kf2_cmd s c msg = true -> erroneous (conn_of s c) msg = false ->
  (forall a side m, c_bound (conn_of s c) = Some (a, side) ->
                    cmd_mbox (conn_of s c) msg = Some m -> foreign_mailbox (chan_w s) a m = false) ->
  let '(s', ob) := step cfg s (EB (ECmd c msg o)) in
  o_exc ob = None /\
  (exists k, (k = ErrCrowded \/ (k = ErrReclaimed /\ m_type msg = Some TClaim)) /\
             frames_of (o_log ob) = [(c, FAck (m_id msg)); (c, FError k msg)]) /\
  subs s' = subs s /\ messages (chan_w s') = messages (chan_w s).
Proof using Hexp.
  intros Hinv Hlog Hhas Hkf Herr Hnf.
  apply has_conn_lookup in Hhas. set (cs := conn_of s c) in *.
  unfold kf2_cmd in Hkf. cbv zeta in Hkf. fold cs in Hkf.
  destruct (c_bound cs) as [[a side]|] eqn:Hb; [|discriminate].
  destruct (m_type msg) as [t|] eqn:Ht; [|discriminate].
  assert (Hnoclash : forall m, cmd_mbox cs msg = Some m -> ~ pk_clash (chan_w s) a m).
  { intros m Hcm Hclash. apply clash_foreign in Hclash.
    rewrite (Hnf a side m eq_refl Hcm) in Hclash. discriminate. }
  destruct t; try discriminate.
  - (* claim *)
    destruct (m_nameplate msg) as [n|] eqn:Hn; [|discriminate].
    destruct (sel_np (chan_w s) a n) as [np|] eqn:Hnp; [|discriminate].
    destruct (crowded_sel _ _ _ Hkf) as [Hlen [r0 Hr0]].
    assert (Hdc : c_did_claim cs = false).
    { unfold erroneous in Herr. rewrite Ht, Hb, Hn in Herr. exact Herr. }
    rewrite (step_cmd cfg s c msg o TClaim cs Hhas Ht).
    set (s1 := set_log s [LFrame c (FAck (m_id msg)) (is_clean s) (now s)]).
    assert (Hco : conn_of s1 c = cs) by reflexivity.
    assert (Hl1 : lookup_conn c (conns s1) = Some cs) by exact Hhas.
    rewrite (dispatch_bound cfg c TClaim msg o s1 a side)
      by (try discriminate; rewrite Hco; exact Hb).
    destruct (claim_body_known (chan_w s) a n side (now s) (o_draw o) np Hnp)
      as [Hfail|[d1 [Hok [Emb [Esd Emsg]]]]].
    + pose proof (handle_claim_fail_wp c a side msg o n s1 cs XReclaimed Hl1 Hn Hdc Hfail) as W.
      apply wp_elim in W. destruct W as [(x & s' & _ & [])|(e' & s' & E & -> & ->)].
      rewrite E. cbn [o_exc o_log chan_w subs set_log claim_conn set_conns log s1].
      split; [reflexivity|]. split; [|split; reflexivity].
      exists ErrReclaimed. split; [right; split; reflexivity|reflexivity].
    + assert (Hmb1 : has_mb d1 a (np_mbox np)).
      { apply (has_mb_same (chan_w s) d1 a (np_mbox np) Emb).
        destruct (sel_np_some _ _ _ _ Hnp) as (Hin & Ha & _).
        rewrite <- Ha. apply (inv_fk_np _ (si_db s Hinv)). exact Hin. }
      destruct (open_body_eval d1 a (np_mbox np) side (now s)) as [[_ [_ Hno]]|Hob];
        [exfalso; exact (Hno Hmb1)|].
      assert (Hr1 : sel_mbs d1 (np_mbox np) side = Some r0).
      { unfold sel_mbs. rewrite Esd. exact Hr0. }
      assert (Hlen2 : (2 < List.length (sel_mbs_all (open_db d1 a (np_mbox np) side (now s))
                                                    (np_mbox np)))%nat).
      { rewrite (open_db_sides_same d1 a (np_mbox np) side (now s) r0 Hr1).
        unfold sel_mbs_all. rewrite Esd. exact Hlen. }
      rewrite (handle_claim_crowded c a side msg o n s1 cs _ _ d1 _ Hl1 Hn Hdc Hok Hob Hlen2).
      cbn [o_exc o_log chan_w subs set_log claimed_state claim_conn set_conns log s1].
      split; [reflexivity|]. split; [|split; [reflexivity|]].
      * exists ErrCrowded. split; [left; reflexivity|reflexivity].
      * rewrite open_db_messages. exact Emsg.
  - (* open *)
    destruct (m_mailbox msg) as [m|] eqn:Hm; [|discriminate].
    assert (Hcm : cmd_mbox cs msg = Some m) by (unfold cmd_mbox; rewrite Hm; reflexivity).
    destruct (crowded_sel _ _ _ Hkf) as [Hlen [r0 Hr0]].
    pose proof (open_outcome cfg s c cs a side msg o m Hinv Hlog Hhas Hb Ht Herr Hm) as H.
    destruct (step cfg s (EB (ECmd c msg o))) as [s' ob]. cbv zeta in H.
    destruct H as [_ [(_ & _ & _ & Hclash)|(Hx & Hd' & Hcases)]];
      [exfalso; exact (Hnoclash m Hcm Hclash)|].
    rewrite Hd' in Hcases. rewrite (open_db_sides_same _ a m side (now s) r0 Hr0) in Hcases.
    destruct Hcases as [(_ & Hfr & Hsubs & _)|(Hle & _)]; [|exfalso; lia].
    split; [exact Hx|]. split; [|split; [exact Hsubs|rewrite Hd'; apply open_db_messages]].
    exists ErrCrowded. split; [left; reflexivity|exact Hfr].
  - (* close *)
    destruct (c_mailbox cs) as [h|] eqn:Hmb; [discriminate|].
    assert (Hm : exists m, cmd_mbox cs msg = Some m /\ crowded_for (chan_w s) m side = true).
    { unfold cmd_mbox. destruct (m_mailbox msg) as [m|]; [eauto|].
      destruct (c_mailbox_id cs) as [m|]; [eauto|discriminate]. }
    clear Hkf. destruct Hm as [m [Hcm Hkf]].
    destruct (crowded_sel _ _ _ Hkf) as [Hlen [r0 Hr0]].
    pose proof (close_fresh_outcome cfg s c cs a side msg o m Hinv Hlog Hhas Hb Hmb Ht Herr Hcm) as H.
    destruct (step cfg s (EB (ECmd c msg o))) as [s' ob]. cbv zeta in H.
    rewrite (open_db_sides_same _ a m side (now s) r0 Hr0) in H.
    destruct H as [_ [(_ & _ & _ & Hclash)|[(Hx & _ & Hfr & Hw & Hsubs)|(_ & Hle & _)]]];
      [exfalso; exact (Hnoclash m Hcm Hclash)| |exfalso; lia].
    split; [exact Hx|]. split; [|split; [exact Hsubs|rewrite Hw; apply open_db_messages]].
    exists ErrCrowded. split; [left; reflexivity|exact Hfr].
Qed.

(** KF3: the allocator is exhausted: ValueError, the connection is dropped, nothing is stored *)
Theorem kf3_sound s c msg o :
  SInv s -> log s = [] -> has_conn c s = true ->
  kf3_cmd s c msg o = true -> erroneous (conn_of s c) msg = false ->
  let '(s', ob) := step cfg s (EB (ECmd c msg o)) in
  o_exc ob = Some XValue /\ chan_w s' = chan_w s /\ chan_c s' = chan_c s /\
  frames_of (o_log ob) = [(c, FAck (m_id msg))].
Proof using Hexp.
  intros Hinv Hlog Hhas Hkf Herr.
  apply has_conn_lookup in Hhas. set (cs := conn_of s c) in *.
  unfold kf3_cmd in Hkf. fold cs in Hkf.
  destruct (c_bound cs) as [[a side]|] eqn:Hb; [|discriminate].
  destruct (m_type msg) as [t|] eqn:Ht; [|discriminate].
  destruct t; try discriminate.
  destruct (find_available (sel_names (chan_w s) a) (o_alloc o)) eqn:Hf; try discriminate.
  assert (Hda : c_did_allocate cs = false).
  { unfold erroneous in Herr. rewrite Ht, Hb in Herr. exact Herr. }
  rewrite (step_cmd cfg s c msg o TAllocate cs Hhas Ht).
  set (s1 := set_log s [LFrame c (FAck (m_id msg)) (is_clean s) (now s)]).
  assert (Hco : conn_of s1 c = cs) by reflexivity.
  assert (Hl1 : lookup_conn c (conns s1) = Some cs) by exact Hhas.
  rewrite (dispatch_bound cfg c TAllocate msg o s1 a side)
    by (try discriminate; rewrite Hco; exact Hb).
  rewrite (handle_allocate_exhausted c a side o s1 cs Hl1 Hda Hf).
  destruct (NpFactsA.drop_conn_frame c s1) as (D1 & D2 & D3).
  cbn [o_exc o_log chan_w chan_c set_log]. rewrite D1, D2, D3.
  cbn [chan_w chan_c log set_log s1]. auto.
Qed.

End WithConfig.
