(** Inst_Params.v -- instance obligations for the constants regenerated from
    /repo on every run (gen/GenParams.v).  The theorems are stated for every
    configuration with a positive expiration time (and a positive period where the
    timer matters); here the actual constants are checked.  (The relation between
    the two -- "expiration must exceed the period" -- concerns C12/C13 only and
    lives in Inst_Timer.v.) *)
From MW Require Import Base Store Monad.
From MW Require Import Inst_Writes.   (* the write statements of the current source are the modelled ones *)
From MWGen Require Import GenParams.

Lemma gen_exp_pos : 0 < gen_exp.
Proof. vm_compute. reflexivity. Qed.

Lemma gen_period_pos : 0 < gen_period.
Proof. vm_compute. reflexivity. Qed.

(** the configurations of the real server: any listing / usage / blur setting
    with the repository's constants *)
Definition gen_cfg_w (al us : bool) (bl : option Z) (w : welcome_cfg) : config :=
  mkCfg al us bl gen_exp gen_period w.

(** the same without notices (no --motd, --advertise-version, --signal-error) *)
Definition gen_cfg (al us : bool) (bl : option Z) : config :=
  mkCfg al us bl gen_exp gen_period (mkWelcome None None None).

Lemma gen_cfg_is_w al us bl : gen_cfg al us bl = gen_cfg_w al us bl (mkWelcome None None None).
Proof. reflexivity. Qed.

Lemma gen_cfg_exp al us bl : 0 < exp (gen_cfg al us bl).
Proof. exact gen_exp_pos. Qed.
Lemma gen_cfg_period al us bl : 0 < period (gen_cfg al us bl).
Proof. exact gen_period_pos. Qed.
Lemma gen_cfg_w_exp al us bl w : 0 < exp (gen_cfg_w al us bl w).
Proof. exact gen_exp_pos. Qed.
Lemma gen_cfg_w_period al us bl w : 0 < period (gen_cfg_w al us bl w).
Proof. exact gen_period_pos. Qed.
