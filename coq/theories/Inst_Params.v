(** Inst_Params.v -- instance obligations for the constants regenerated from
    /repo on every run (gen/GenParams.v): the theorems are stated for every
    configuration with a positive expiration time (and, where the timer
    matters, a positive period smaller than the expiration time); here the
    actual constants are checked to satisfy those side conditions. *)
From MW Require Import Base Store Monad.
From MWGen Require Import GenParams.

Definition params_ok (e p : Z) : bool := (0 <? p) && (p <? e).

Lemma gen_params_ok : params_ok gen_exp gen_period = true.
Proof. vm_compute. reflexivity. Qed.

Lemma gen_exp_pos : 0 < gen_exp.
Proof. pose proof gen_params_ok as H. unfold params_ok in H. apply andb_true_iff in H. destruct H as [H1 H2].
       apply Z.ltb_lt in H1. apply Z.ltb_lt in H2. lia. Qed.
Lemma gen_period_pos : 0 < gen_period.
Proof. pose proof gen_params_ok as H. unfold params_ok in H. apply andb_true_iff in H. destruct H as [H1 _].
       now apply Z.ltb_lt in H1. Qed.
(** "expiration must exceed the period" (server_tap.py) *)
Lemma gen_period_lt_exp : gen_period < gen_exp.
Proof. pose proof gen_params_ok as H. unfold params_ok in H. apply andb_true_iff in H. destruct H as [_ H2].
       now apply Z.ltb_lt in H2. Qed.

(** the configurations of the real server: any listing / usage / blur setting
    with the repository's constants *)
Definition gen_cfg (al us : bool) (bl : option Z) : config := mkCfg al us bl gen_exp gen_period.

Lemma gen_cfg_exp al us bl : 0 < exp (gen_cfg al us bl).
Proof. exact gen_exp_pos. Qed.
Lemma gen_cfg_period al us bl : 0 < period (gen_cfg al us bl).
Proof. exact gen_period_pos. Qed.
