(** Service.v -- the process level: events, the expiry timer
    (server_tap.py: expire(), TimerService), restart and crash. *)
From MW Require Import Base Store Monad Usage Server Websocket.

Inductive bevent :=
| EConnect (c : nat)
| ECmd (c : nat) (m : command) (o : oracle)
| EDisconnect (c : nat)
| ESweep (fault : bool)             (* expire() called now; fault: the sweep's first database access raises *)
| EAdvance (dt : Z) (fault : bool). (* the clock advances by dt; the timer fires iff due *)

Inductive event :=
| EB (e : bevent)
| ECrash (k : nat) (e : bevent)     (* process e, but the process dies right after its k-th commit (k=0: before e); then start again *)
| ERestart.                         (* clean stop and start on the same files *)

(** what one event produced *)
Record obs := mkObs
  { o_valid : bool;                 (* false: ill-formed event (unknown / reused connection id, negative dt): ignored *)
    o_log : list log_entry;         (* commits and frames of this event, oldest first *)
    o_exc : option exn;             (* exception that escaped the handler (connection dropped) *)
    o_boot_log : list log_entry     (* commits of the start-up sweep, for restarts and crashes *) }.

Section WithConfig.
Variable cfg : config.

(* expire() *)
Definition expire (fault : bool) : M unit :=
  s <- get ;;
  (if fault then ret tt
   else try_catch (prune_all_apps cfg (now s) (now s - exp cfg)) (fun _ => ret tt)) ;;;
  dump_stats cfg (now s) (boot s).

Definition drop_conn (c : nat) (s : state) : state :=
  match on_close c s with
  | Ok _ s' => set_conns s' (remove_conn c (conns s'))
  | Exn _ s' => set_conns s' (remove_conn c (conns s'))
  end.

Definition has_conn (c : nat) (s : state) : bool :=
  match lookup_conn c (conns s) with Some _ => true | None => false end.

Definition set_now s t := mkState (chan_w s) (chan_c s) (usage_w s) (usage_c s) (subs s) (conns s) t (boot s) (timer_start s) (next_due s) (log s).
Definition set_next_due s t := mkState (chan_w s) (chan_c s) (usage_w s) (usage_c s) (subs s) (conns s) (now s) (boot s) (timer_start s) t (log s).

(* the next point of the grid timer_start + k*period strictly after [t] *)
Definition next_grid (start t : Z) : Z :=
  start + ((t - start) / period cfg + 1) * period cfg.

(** run a handler; result: new state and escaped exception *)
Definition run_m (m : M unit) (s : state) : state * option exn :=
  match m s with
  | Ok _ s' => (s', None)
  | Exn e s' => (s', Some e)
  end.

(** base events; the log of the incoming state must be empty *)
Definition step_b (s : state) (e : bevent) : state * bool * option exn :=
  match e with
  | EConnect c =>
      if has_conn c s then (s, false, None)
      else
        let s1 := set_conns s (conns s ++ [(c, new_conn)]) in
        let '(s2, x) := run_m (on_open cfg c) s1 in (s2, true, x)
  | ECmd c m o =>
      if has_conn c s then
        match on_message cfg c m o s with
        | Ok _ s' => (s', true, None)
        | Exn e s' => (drop_conn c s', true, Some e)
        end
      else (s, false, None)
  | EDisconnect c =>
      if has_conn c s then (drop_conn c s, true, None) else (s, false, None)
  | ESweep fault =>
      let '(s1, x) := run_m (expire fault) s in (s1, true, x)
  | EAdvance dt fault =>
      if dt <? 0 then (s, false, None)
      else
        let s1 := set_now s (now s + dt) in
        if next_due s1 <=? now s1 then
          let '(s2, x) := run_m (expire fault) s1 in
          (set_next_due s2 (next_grid (timer_start s2) (now s2)), true, x)
        else (s1, true, None)
  end.

Definition is_commit (l : log_entry) : bool :=
  match l with LFrame _ _ _ _ => false | _ => true end.

(** prefix of an (oldest-first) log ending at its k-th commit; the whole log if it has fewer *)
Fixpoint log_prefix (k : nat) (l : list log_entry) : list log_entry :=
  match k with
  | O => []
  | S k' =>
      match l with
      | [] => []
      | x :: l' => if is_commit x then x :: log_prefix k' l' else x :: log_prefix k l'
      end
  end.

Definition count_commits (l : list log_entry) : nat := List.length (filter is_commit l).

(** committed databases after replaying a log prefix over given starting ones *)
Fixpoint replay_commits (l : list log_entry) (c : chan_db) (u : usage_db) : chan_db * usage_db :=
  match l with
  | [] => (c, u)
  | LCommitChan c' :: l' => replay_commits l' c' u
  | LCommitUsage u' :: l' => replay_commits l' c u'
  | LFrame _ _ _ _ :: l' => replay_commits l' c u
  end.

(** process start on the given files at time t: empty registries, fresh
    timer, and the timer's immediate first firing *)
Definition boot_on (c : chan_db) (u : usage_db) (t : Z) : state * list log_entry * option exn :=
  let s0 := mkState c c u u [] [] t t t (t + period cfg) [] in
  let '(s1, x) := run_m (expire false) s0 in
  (set_log s1 [], rev (log s1), x).

Definition init (t0 : Z) : state := fst (fst (boot_on empty_chan empty_usage t0)).

Definition step (s : state) (e : event) : state * obs :=
  let s := set_log s [] in
  match e with
  | EB b =>
      let '(s1, valid, x) := step_b s b in
      (set_log s1 [], mkObs valid (rev (log s1)) x [])
  | ERestart =>
      let '(s1, bl, x) := boot_on (chan_c s) (usage_c s) (now s) in
      (s1, mkObs true [] x bl)
  | ECrash k b =>
      let '(s1, valid, x) := step_b s b in
      let full := rev (log s1) in
      if (count_commits full <? k)%nat || negb valid then
        (* the event completed (or was ignored) before the process died *)
        let '(s2, bl, x2) := boot_on (chan_c s1) (usage_c s1) (now s1) in
        (s2, mkObs valid full x bl)
      else
        let pre := log_prefix k full in
        let '(c, u) := replay_commits pre (chan_c s) (usage_c s) in
        let '(s2, bl, x2) := boot_on c u (now s1) in
        (s2, mkObs valid pre None bl)
  end.

Fixpoint run (s : state) (h : list event) : state * list obs :=
  match h with
  | [] => (s, [])
  | e :: h' =>
      let '(s1, o) := step s e in
      let '(s2, os) := run s1 h' in
      (s2, o :: os)
  end.

End WithConfig.
