(** DbFiles.v -- executable model of database.py: an abstract file system, an
    abstract SQLite file, and the entry points [_get_db]
    (= create_or_upgrade_*_db), [create_channel_db]/[create_usage_db] and
    [open_existing_db] written statement for statement in a state+exception
    monad in which every *atomic step* (each file-system call, each SQL
    statement SQLite executes, including the implicit BEGIN/COMMIT issued by
    Python's sqlite3 module) appends the file system it leaves behind to a
    trace.  A crash after the k-th step leaves the k-th file system of that
    trace: everything held in memory (an open transaction) is lost.
    shutil.copy (the backup before an upgrade) is NOT one step: it is the
    three steps copy-create / copy-partial / copy-done, so a crash can leave
    an empty or a truncated backup file.

    Definitions only; facts are in DbFilesFacts.v.  Stdlib + Sql.v only.

    What a file "is" here is what SQLite sees in it: [Empty] is a file in
    which SQLite finds a valid database with no objects (0 bytes, as left by
    mkstemp -- observed: also a 1-byte file), [Junk b] is content on which
    SQLite's first schema read fails (not a database / malformed), [Db d] a
    database with schema objects, rows of the `version` table and a payload
    standing for all rows of all other tables.  A rollback journal next to a
    file is part of that file's content (SQLite's atomic commit is trusted:
    a transaction is visible completely after COMMIT and not at all before). *)
From Coq Require Import ZArith String List Bool.
From MW Require Import Sql.
Import ListNotations.
Open Scope Z_scope.

(** * Schema objects *)
Inductive kind := KTable | KIndex.
Definition obj : Type := kind * string * string.     (* kind, name, normalised DDL text *)

Definition kind_eqb (a b : kind) : bool :=
  match a, b with KTable, KTable | KIndex, KIndex => true | _, _ => false end.
Definition obj_eqb (a b : obj) : bool :=
  match a, b with
  | (k1, n1, d1), (k2, n2, d2) => kind_eqb k1 k2 && String.eqb n1 n2 && String.eqb d1 d2
  end.
Definition obj_name (o : obj) : string := snd (fst o).

Fixpoint smem (x : string) (l : list string) : bool :=
  match l with [] => false | y :: r => String.eqb x y || smem x r end.
Fixpoint omem (x : obj) (l : list obj) : bool :=
  match l with [] => false | y :: r => obj_eqb x y || omem x r end.
Definition names (l : list obj) : list string := map obj_name l.
Fixpoint incl_objs (a b : list obj) : bool :=
  match a with [] => true | x :: r => omem x b && incl_objs r b end.
(** equal as sets of (kind, name, ddl) *)
Definition same_objs (a b : list obj) : bool := incl_objs a b && incl_objs b a.
Fixpoint has_table (t : string) (l : list obj) : bool :=
  match l with
  | [] => false
  | (KTable, n, _) :: r => String.eqb t n || has_table t r
  | _ :: r => has_table t r
  end.

(** objects a script creates, in order *)
Fixpoint created (sc : script) : list obj :=
  match sc with
  | [] => []
  | CreateTable n d :: r => (KTable, n, d) :: created r
  | CreateIndex n d :: r => (KIndex, n, d) :: created r
  | _ :: r => created r
  end.

(** * Paths *)
Inductive path :=
| Main                (* dbfile *)
| Tmp (n : nat)       (* dbfile.<random>, as made by tempfile.mkstemp *)
| Backup (v : Z).     (* dbfile-backup-v<v> *)

Definition path_eqb (a b : path) : bool :=
  match a, b with
  | Main, Main => true
  | Tmp n, Tmp m => Nat.eqb n m
  | Backup v, Backup u => Z.eqb v u
  | _, _ => false
  end.

Inductive label :=
| LExists | LMkstemp | LCloseFd | LConnect | LPragmaFk | LFkCheck
| LSql (s : stmt) | LSelectVersion | LDbClose | LRename
(* shutil.copy(dbfile, dbfile-backup-v<v>) is not atomic: three steps *)
| LCopyCreate (v : Z)     (* destination created / truncated: 0 bytes *)
| LCopyPartial (v : Z)    (* a strict prefix of the bytes is in the destination *)
| LCopyDone (v : Z).      (* all bytes written, file closed *)

Inductive exn :=
| XDBError          (* database.DBError *)
| XSqlite           (* sqlite3.OperationalError / DatabaseError escaping uncaught *)
| XType             (* TypeError: fetchone() returned None *)
| XOS               (* OSError from rename/copy *)
| XAlreadyExists    (* database.DBAlreadyExists *)
| XDoesntExist.     (* database.DBDoesntExist *)

Section Model.
  Variable P : Type.                  (* payload: all rows of all tables other than `version` *)
  Variable pempty : P.                (* no rows anywhere *)
  Variable fk_ok : P -> bool.         (* PRAGMA foreign_key_check reports nothing *)
  Variable pdel : string -> P -> P.   (* DELETE FROM <table other than version> *)

  Record dbc := mkDb { objects : list obj; version_rows : list Z; payload : P }.
  Inductive file := Empty | Junk (b : nat) | Db (d : dbc).

  Definition fs := list (path * file).

  Fixpoint lookup (q : path) (l : fs) : option file :=
    match l with
    | [] => None
    | (k, x) :: r => if path_eqb q k then Some x else lookup q r
    end.
  Fixpoint remove (q : path) (l : fs) : fs :=
    match l with
    | [] => []
    | (k, x) :: r => if path_eqb q k then remove q r else (k, x) :: remove q r
    end.
  Definition set (q : path) (x : file) (l : fs) : fs := (q, x) :: remove q l.

  (** mkstemp returns a name that is not in use; which one is immaterial *)
  Fixpoint max_tmp (l : fs) : nat :=
    match l with
    | [] => O
    | (Tmp n, _) :: r => Nat.max n (max_tmp r)
    | _ :: r => max_tmp r
    end.
  Definition fresh_tmp (l : fs) : path := Tmp (S (max_tmp l)).

  (** * SQLite statements on database content *)
  Definition empty_db : dbc := mkDb [] [] pempty.
  Definition as_db (x : file) : option dbc :=
    match x with Empty => Some empty_db | Junk _ => None | Db d => Some d end.

  Definition apply_stmt (s : stmt) (d : dbc) : option dbc :=
    match s with
    | CreateTable n ddl =>
        if smem n (names (objects d)) then None      (* table/index n already exists *)
        else Some (mkDb (objects d ++ [(KTable, n, ddl)]) (version_rows d) (payload d))
    | CreateIndex n ddl =>
        if smem n (names (objects d)) then None
        else Some (mkDb (objects d ++ [(KIndex, n, ddl)]) (version_rows d) (payload d))
    | DeleteAll t =>
        if has_table t (objects d)
        then Some (if String.eqb t "version"
                   then mkDb (objects d) [] (payload d)
                   else mkDb (objects d) (version_rows d) (pdel t (payload d)))
        else None                                   (* no such table *)
    | InsertVersion v =>
        if has_table "version" (objects d)
        then Some (mkDb (objects d) (version_rows d ++ [v]) (payload d))
        else None
    | Begin | Commit => None                        (* handled by the connection *)
    end.

  Fixpoint apply_script (sc : script) (d : dbc) : option dbc :=
    match sc with
    | [] => Some d
    | s :: r => match apply_stmt s d with Some d' => apply_script r d' | None => None end
    end.

  (** * The process: file system + the open transaction of the one connection
      in use + the trace of file systems left by each step (newest first) *)
  Record world := mkW { w_fs : fs; w_txn : option dbc; w_trace : list (label * fs) }.

  Definition M (A : Type) := world -> (A + exn) * world.
  Definition ret {A} (a : A) : M A := fun w => (inl a, w).
  Definition raise {A} (e : exn) : M A := fun w => (inr e, w).
  Definition bind {A B} (m : M A) (k : A -> M B) : M B :=
    fun w => match m w with
             | (inl a, w') => k a w'
             | (inr e, w') => (inr e, w')
             end.
  (** one atomic step: run [m], then record the file system it leaves *)
  Definition step {A} (l : label) (m : M A) : M A :=
    fun w => match m w with
             | (r, w') => (r, mkW (w_fs w') (w_txn w') ((l, w_fs w') :: w_trace w'))
             end.

  Notation "x <- m ;; k" := (bind m (fun x => k)) (at level 61, m at next level, right associativity).
  Notation "m ;;; k" := (bind m (fun _ => k)) (at level 61, right associativity).

  (** what the connection on file [c] sees *)
  Definition cur_db (c : path) (w : world) : option dbc :=
    match w_txn w with
    | Some d => Some d
    | None => match lookup c (w_fs w) with Some x => as_db x | None => None end
    end.

  (** one statement handed to SQLite (autocommit unless a transaction is open) *)
  Definition sql_raw (c : path) (s : stmt) : M unit :=
    fun w =>
      match s with
      | Begin =>
          match w_txn w with
          | Some _ => (inr XSqlite, w)      (* cannot start a transaction within a transaction *)
          | None => match cur_db c w with
                    | Some d => (inl tt, mkW (w_fs w) (Some d) (w_trace w))
                    | None => (inr XSqlite, w)
                    end
          end
      | Commit =>
          match w_txn w with
          | Some d => (inl tt, mkW (set c (Db d) (w_fs w)) None (w_trace w))
          | None => (inr XSqlite, w)        (* cannot commit - no transaction is active *)
          end
      | _ =>
          match cur_db c w with
          | None => (inr XSqlite, w)
          | Some d =>
              match apply_stmt s d with
              | None => (inr XSqlite, w)
              | Some d' =>
                  match w_txn w with
                  | Some _ => (inl tt, mkW (w_fs w) (Some d') (w_trace w))
                  | None => (inl tt, mkW (set c (Db d') (w_fs w)) None (w_trace w))
                  end
              end
          end
      end.
  Definition sql (c : path) (s : stmt) : M unit := step (LSql s) (sql_raw c s).

  Fixpoint run_stmts (c : path) (sc : script) : M unit :=
    match sc with
    | [] => ret tt
    | s :: r => sql c s ;;; run_stmts c r
    end.

  Definition in_txn : M bool := fun w => (inl (match w_txn w with Some _ => true | None => false end), w).

  (** Python sqlite3 (legacy transaction control, isolation_level = ""):
      execute() of INSERT/UPDATE/DELETE opens a transaction first *)
  Definition py_execute_dml (c : path) (s : stmt) : M unit :=
    t <- in_txn ;; (if t then ret tt else sql c Begin) ;;; sql c s.
  (** commit() does nothing when no transaction is open *)
  Definition py_commit (c : path) : M unit :=
    t <- in_txn ;; if t then sql c Commit else ret tt.
  (** executescript(): COMMIT a pending transaction, then hand the statements
      to SQLite one by one with no transaction control of its own *)
  Definition py_executescript (c : path) (sc : script) : M unit :=
    t <- in_txn ;; (if t then sql c Commit else ret tt) ;;; run_stmts c sc.

  (** * File-system calls *)
  Definition os_path_exists (q : path) : M bool :=
    step LExists (fun w => (inl (match lookup q (w_fs w) with Some _ => true | None => false end), w)).
  Definition mkstemp : M path :=
    step LMkstemp (fun w => let t := fresh_tmp (w_fs w) in
                            (inl t, mkW (set t Empty (w_fs w)) (w_txn w) (w_trace w))).
  Definition os_close : M unit := step LCloseFd (ret tt).
  Definition os_rename (a b : path) : M unit :=
    step LRename (fun w => match lookup a (w_fs w) with
                           | Some x => (inl tt, mkW (set b x (remove a (w_fs w))) (w_txn w) (w_trace w))
                           | None => (inr XOS, w)
                           end).
  (** shutil.copy(a, dbfile-backup-v<v>) is NOT atomic: it opens the source
      (OSError when there is none: nothing is created), creates or truncates
      the destination (whatever was there before is gone: [Empty]), writes the
      bytes (a crash leaves a strict prefix of the source: a truncated SQLite
      file, on which the first schema read fails -- [Junk]; content token 0
      is reserved for "truncated copy of the source", the harness numbers
      pre-existing junk contents from 1), and only then holds the content of
      the source.  Three consecutive atomic steps, so the crash prefixes
      include the two partial states. *)
  Definition partial_copy : file := Junk O.
  Definition write_file (q : path) (x : file) : M unit :=
    fun w => (inl tt, mkW (set q x (w_fs w)) (w_txn w) (w_trace w)).
  Definition copy_steps (v : Z) (x : file) : M unit :=
    step (LCopyCreate v) (write_file (Backup v) Empty) ;;;
    step (LCopyPartial v) (write_file (Backup v) partial_copy) ;;;
    step (LCopyDone v) (write_file (Backup v) x).
  Definition shutil_copy (a : path) (v : Z) : M unit :=
    fun w => match lookup a (w_fs w) with
             | Some x => copy_steps v x w
             | None => step (LCopyCreate v) (raise XOS) w
             end.
  (** sqlite3.connect creates an empty file when there is none *)
  Definition sqlite_connect (q : path) : M unit :=
    step LConnect (fun w => match lookup q (w_fs w) with
                            | Some _ => (inl tt, mkW (w_fs w) None (w_trace w))
                            | None => (inl tt, mkW (set q Empty (w_fs w)) None (w_trace w))
                            end).
  (** db.close(): an open transaction is rolled back *)
  Definition db_close : M unit :=
    step LDbClose (fun w => (inl tt, mkW (w_fs w) None (w_trace w))).

  (** database.py 44-64: connect; PRAGMA foreign_keys = ON; PRAGMA
      foreign_key_check (the first statement that reads the file); every
      sqlite/OS error becomes DBError *)
  Definition open_db_connection (q : path) : M unit :=
    sqlite_connect q ;;;
    step LPragmaFk (ret tt) ;;;
    step LFkCheck (fun w => match cur_db q w with
                            | None => (inr XDBError, w)
                            | Some d => if fk_ok (payload d) then (inl tt, w) else (inr XDBError, w)
                            end).

  (** database.py 101 *)
  Definition select_version (c : path) : M Z :=
    step LSelectVersion
         (fun w => match cur_db c w with
                   | None => (inr XSqlite, w)
                   | Some d => if has_table "version" (objects d)
                               then match version_rows d with
                                    | v :: _ => (inl v, w)
                                    | [] => (inr XType, w)      (* None["version"] *)
                                    end
                               else (inr XSqlite, w)            (* no such table: version *)
                   end).

  (** what the caller finds behind the returned connection *)
  Definition view (c : path) : M dbc :=
    fun w => match cur_db c w with Some d => (inl d, w) | None => (inr XSqlite, w) end.

  Section EntryPoints.
    Variable schema : script.                 (* db-schemas/<name>-v<target>.sql *)
    Variable upgraders : list (Z * script).   (* (n, db-schemas/upgrade-<name>-to-v<n>.sql) *)
    Variable target : Z.

    Fixpoint find_upgrader (l : list (Z * script)) (n : Z) : option script :=
      match l with
      | [] => None
      | (m, u) :: r => if Z.eqb m n then Some u else find_upgrader r n
      end.

    (** database.py 34-42 *)
    Definition initialize_db_schema (c : path) : M unit :=
      py_executescript c schema ;;;
      py_execute_dml c (InsertVersion target) ;;;
      py_commit c.

    (** database.py 66-87 *)
    Definition atomic_create_and_initialize_db : M path :=
      t <- mkstemp ;;
      os_close ;;;
      open_db_connection t ;;;
      initialize_db_schema t ;;;
      db_close ;;;
      os_rename t Main ;;;
      open_db_connection Main ;;;
      ret Main.

    (** database.py 108-119; [fuel] = target - version iterations suffice *)
    Fixpoint upgrade_loop (fuel : nat) (c : path) (v : Z) : M Z :=
      match fuel with
      | O => ret v
      | S fuel' =>
          if v <? target
          then match find_upgrader upgraders (v + 1) with
               | None => raise XDBError
               | Some u => py_executescript c u ;;; py_commit c ;;; upgrade_loop fuel' c (v + 1)
               end
          else ret v
      end.

    (** database.py 89-124 (dbfile other than ":memory:") *)
    Definition get_db : M dbc :=
      e <- os_path_exists Main ;;
      c <- (if e then open_db_connection Main ;;; ret Main
            else atomic_create_and_initialize_db) ;;
      v <- select_version c ;;
      (if v <? target then shutil_copy Main v else ret tt) ;;;
      v' <- upgrade_loop (Z.to_nat (target - v)) c v ;;
      if v' =? target then view c else raise XDBError.

    (** database.py 146-170 *)
    Definition create_only : M dbc :=
      e <- os_path_exists Main ;;
      if e then raise XAlreadyExists
      else c <- atomic_create_and_initialize_db ;; view c.
  End EntryPoints.

  (** database.py 137-141 *)
  Definition open_existing : M dbc :=
    e <- os_path_exists Main ;;
    if e then open_db_connection Main ;;; view Main else raise XDoesntExist.

  (** * Running *)
  Definition exec {A} (m : M A) (f : fs) : (A + exn) * world := m (mkW f None []).
  (** uninterrupted run: outcome and final file system *)
  Definition run_all {A} (m : M A) (f : fs) : (A + exn) * fs :=
    match exec m f with (r, w) => (r, w_fs w) end.
  (** the file systems a crash can leave: before the first step, after each step *)
  Definition states {A} (m : M A) (f : fs) : list fs :=
    f :: rev (map snd (w_trace (snd (exec m f)))).
  Definition labels {A} (m : M A) (f : fs) : list label :=
    rev (map fst (w_trace (snd (exec m f)))).
  (** crash right after the k-th atomic step (k beyond the end = no crash) *)
  Definition run_prefix {A} (k : nat) (m : M A) (f : fs) : fs :=
    nth k (states m f) (last (states m f) f).

  (** * Side conditions on the SQL scripts (decidable; instance in Inst_*.v) *)

  (** statements of a script that can neither fail nor touch the payload:
      CREATE of a name not yet in use, DELETE FROM version, INSERT INTO version *)
  Fixpoint stmts_ok (ns : list string) (sc : script) : bool :=
    match sc with
    | [] => true
    | CreateTable n _ :: r | CreateIndex n _ :: r => negb (smem n ns) && stmts_ok (n :: ns) r
    | DeleteAll t :: r => String.eqb t "version" && stmts_ok ns r
    | InsertVersion _ :: r => stmts_ok ns r
    | Begin :: _ | Commit :: _ => false
    end.
  Fixpoint only_creates (sc : script) : bool :=
    match sc with
    | [] => true
    | CreateTable _ _ :: r | CreateIndex _ _ :: r => only_creates r
    | _ => false
    end.
  (** a schema script: only CREATEs, pairwise distinct names, a `version` table *)
  Definition fresh_ok (sc : script) : bool :=
    only_creates sc && stmts_ok [] sc && has_table "version" (created sc).

  (** rows of `version` after running the statements on rows [l] *)
  Fixpoint ver_after (sc : script) (l : list Z) : list Z :=
    match sc with
    | [] => l
    | DeleteAll _ :: r => ver_after r []
    | InsertVersion v :: r => ver_after r (l ++ [v])
    | _ :: r => ver_after r l
    end.
  (** does the script's effect on `version` forget the rows it started from? *)
  Fixpoint ver_cleared (sc : script) : bool :=
    match sc with
    | [] => false
    | DeleteAll _ :: _ => true
    | _ :: r => ver_cleared r
    end.

  (** [u] is exactly one transaction group BEGIN; body; COMMIT *)
  Definition group_body (u : script) : option script :=
    match u with
    | Begin :: r => match rev r with
                    | Commit :: b => Some (rev b)
                    | _ => None
                    end
    | _ => None
    end.

  (** the upgrade side condition: old schema [so] at version [vo], fresh new
      schema [sn] at version [target], upgrader [u] *)
  Definition upgrade_ok (so : script) (vo : Z) (u : script) (sn : script) (target : Z) : bool :=
    fresh_ok so && fresh_ok sn && Z.eqb (vo + 1) target &&
    match group_body u with
    | None => false                 (* not a single BEGIN..COMMIT group: a crash can split it *)
    | Some body =>
        stmts_ok (names (created so)) body &&
        ver_cleared body &&
        match ver_after body [] with [v] => Z.eqb v target | _ => false end &&
        same_objs (created so ++ created body) (created sn)
    end.

  (** the shape gen_instances.py emits: one old schema, one upgrader *)
  Definition upgrade_inst_ok (olds ups : list (Z * script)) (sn : script) (target : Z) : bool :=
    match olds, ups with
    | [(vo, so)], [(vt, u)] => Z.eqb vt target && upgrade_ok so vo u sn target
    | _, _ => false
    end.
End Model.

Arguments mkDb {P} _ _ _.
Arguments objects {P} _.
Arguments version_rows {P} _.
Arguments payload {P} _.
Arguments Empty {P}.
Arguments Junk {P} _.
Arguments Db {P} _.
Arguments lookup {P} _ _.
Arguments remove {P} _ _.
Arguments set {P} _ _ _.
Arguments max_tmp {P} _.
Arguments fresh_tmp {P} _.
Arguments mkW {P} _ _ _.
Arguments w_fs {P} _.
Arguments w_txn {P} _.
Arguments w_trace {P} _.
Arguments ret {P A} _ _.
Arguments raise {P A} _ _.
Arguments bind {P A B} _ _ _.
Arguments step {P A} _ _ _.
Arguments exec {P A} _ _.
Arguments run_all {P A} _ _.
Arguments states {P A} _ _.
Arguments labels {P A} _ _.
Arguments run_prefix {P A} _ _ _.
Arguments empty_db {P} _.
Arguments as_db {P} _ _.
Arguments apply_stmt {P} _ _ _.
Arguments apply_script {P} _ _ _.
Arguments cur_db {P} _ _ _.
Arguments sql_raw {P} _ _ _ _.
Arguments sql {P} _ _ _ _.
Arguments run_stmts {P} _ _ _ _.
Arguments py_execute_dml {P} _ _ _ _.
Arguments py_commit {P} _ _ _.
Arguments py_executescript {P} _ _ _ _.
Arguments open_db_connection {P} _ _ _.
Arguments select_version {P} _ _.
Arguments view {P} _ _.
Arguments initialize_db_schema {P} _ _ _ _ _.
Arguments atomic_create_and_initialize_db {P} _ _ _ _ _.
Arguments upgrade_loop {P} _ _ _ _ _ _ _.
Arguments get_db {P} _ _ _ _ _ _.
Arguments create_only {P} _ _ _ _ _.
Arguments open_existing {P} _ _.
