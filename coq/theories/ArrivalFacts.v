(** ArrivalFacts.v -- closes four gaps between the English property texts and the theorems:

    1. (C15, C16) the stored column [added] of a side row IS the clock of the event at which that
       side first arrived: [mb_side_added_is_arrival], [np_side_added_is_arrival]
       (every history, crashes at any commit included);
    2. (C16, run level) every usage record written by a crash-free history has
       [started <= t_first < started + B], [t_first] the clock of the arrival event of item 1:
       [record_within_interval_np], [record_within_interval_mb]; on the way: in a crash-free
       history every mailbox has a side row ([crash_free_mailboxes_sided]);
    3. (C12) the timer forms of the away-time / subscriber theorems: [away_time_timer],
       [away_time_subscribed_timer], [subscriber_survives_timer] (and the explicit-sweep forms);
    4. (C18, C06) the send stamps agree: [config_erasure_stamps], [noninterference_x_stamped]. *)
From MW Require Import Base Store Monad Usage Server Websocket Service Findings
     Inv StoreFacts Hoare DbFactsA DbFactsB OpFacts ProtoFacts Obs StepFacts SweepFacts
     NpFactsA MbFactsA MbFactsB CrowdFacts LifeFacts NpFactsB ResumeFacts Corollaries HistFacts
     QuiesceFacts MbStable UsageFacts BlurInv UsageCount UsageCount2 RestartUsage UsageRun
     TimeInv CrashHist CrashLife ActivityFacts WireFacts ViewFacts ViewFactsR
     NonInterference NonInterferenceR NonInterferenceX Inst_Params.
From Coq Require Import RelationClasses Sorting.Permutation.
Local Open Scope list_scope.

(* ====================================================================== *)
(** * PART 1 -- the [added] column of a side row is the clock of its arrival event *)
(* ====================================================================== *)

(** ** what is compared: (key, added) of every side row *)

Definition mbs_view (r : mbs_row) : string * string * Z := (mbs_mbox r, mbs_side r, mbs_added r).
Definition nps_view (r : nps_row) : Z * string * Z := (nps_npid r, nps_side r, nps_added r).
Definition mbv (d : chan_db) : list (string * string * Z) := map mbs_view (mb_sides d).
Definition npv (d : chan_db) : list (Z * string * Z) := map nps_view (np_sides d).

(** ** list relations on (key, added) views *)
Section ViewRel.
Context {K : Type}.

(** rows of [l'] that are not in [l] satisfy [P] *)
Definition NewP (P : K * Z -> Prop) (l l' : list (K * Z)) : Prop :=
  forall x, In x l' -> In x l \/ P x.

(** ... carry a key that no row of [l] has *)
Definition fresh_key (l : list (K * Z)) (x : K * Z) : Prop := forall y, In y l -> fst y <> fst x.

Lemma NewP_refl P l : NewP P l l.
Proof. intros x Hx. left. exact Hx. Qed.

Lemma NewP_trans P l1 l2 l3 : NewP P l1 l2 -> NewP P l2 l3 -> NewP P l1 l3.
Proof.
  intros H1 H2 x Hx. destruct (H2 x Hx) as [K2|K2]; [|right; exact K2]. exact (H1 x K2).
Qed.

Lemma NewP_incl P l l' : incl l' l -> NewP P l l'.
Proof. intros H x Hx. left. apply H. exact Hx. Qed.

Lemma NewP_snoc (P : K * Z -> Prop) l x : P x -> NewP P l (l ++ [x]).
Proof.
  intros Hx y Hy. apply in_app_or in Hy. destruct Hy as [Hy|[<-|[]]]; [left; exact Hy|right; exact Hx].
Qed.

(** writing phase: nothing disappears, what appears has a fresh key *)
Definition KGrow (l l' : list (K * Z)) : Prop := incl l l' /\ NewP (fresh_key l) l l'.

Lemma KGrow_refl l : KGrow l l.
Proof. split; [apply incl_refl|apply NewP_refl]. Qed.

Lemma KGrow_trans l1 l2 l3 : KGrow l1 l2 -> KGrow l2 l3 -> KGrow l1 l3.
Proof.
  intros [A1 A2] [B1 B2]. split; [eapply incl_tran; eassumption|].
  intros x Hx. destruct (B2 x Hx) as [K2|K2].
  - exact (A2 x K2).
  - right. intros y Hy. apply K2. apply A1. exact Hy.
Qed.

Lemma KGrow_then_incl l1 l2 l3 : KGrow l1 l2 -> incl l3 l2 -> NewP (fresh_key l1) l1 l3.
Proof. intros [_ A] B x Hx. apply A. apply B. exact Hx. Qed.

End ViewRel.

(** ** relations between channel databases *)

(** side rows only disappear (or are re-marked in place) *)
Definition VSub (d d' : chan_db) : Prop := incl (mbv d') (mbv d) /\ incl (npv d') (npv d).

(** every side row that was not there satisfies [P] / [Q] *)
Definition Org (P : string * string * Z -> Prop) (Q : Z * string * Z -> Prop) (d d' : chan_db) : Prop :=
  NewP P (mbv d) (mbv d') /\ NewP Q (npv d) (npv d').

Definition VGrow (d d' : chan_db) : Prop := KGrow (mbv d) (mbv d') /\ KGrow (npv d) (npv d').

(** what every event does ([step_fresh_keys]): a side row that was not there has a fresh key *)
Definition VFresh (d d' : chan_db) : Prop :=
  NewP (fresh_key (mbv d)) (mbv d) (mbv d') /\ NewP (fresh_key (npv d)) (npv d) (npv d').

Global Instance VSub_refl : Reflexive VSub.
Proof. intros d. split; apply incl_refl. Qed.
Global Instance VSub_trans : Transitive VSub.
Proof. intros d1 d2 d3 [A1 A2] [B1 B2]. split; eapply incl_tran; eassumption. Qed.
Global Instance VGrow_refl : Reflexive VGrow.
Proof. intros d. split; apply KGrow_refl. Qed.
Global Instance VGrow_trans : Transitive VGrow.
Proof. intros d1 d2 d3 [A1 A2] [B1 B2]. split; eapply KGrow_trans; eassumption. Qed.

Lemma PreO_Org P Q : PreO (Org P Q).
Proof.
  split.
  - intros d. split; apply NewP_refl.
  - intros d1 d2 d3 [A1 A2] [B1 B2]. split; eapply NewP_trans; eassumption.
Qed.

Lemma VSub_Org P Q d d' : VSub d d' -> Org P Q d d'.
Proof. intros [A B]. split; apply NewP_incl; assumption. Qed.

Lemma VSub_same d d' : mb_sides d' = mb_sides d -> np_sides d' = np_sides d -> VSub d d'.
Proof. intros E1 E2. unfold VSub, mbv, npv. rewrite E1, E2. split; apply incl_refl. Qed.

Lemma VGrow_same d d' : mb_sides d' = mb_sides d -> np_sides d' = np_sides d -> VGrow d d'.
Proof. intros E1 E2. unfold VGrow, mbv, npv. rewrite E1, E2. split; apply KGrow_refl. Qed.

Lemma Org_same P Q d d' : mb_sides d' = mb_sides d -> np_sides d' = np_sides d -> Org P Q d d'.
Proof. intros E1 E2. apply VSub_Org, VSub_same; assumption. Qed.

Lemma VSub_views d d' : mbv d' = mbv d -> npv d' = npv d -> VSub d d'.
Proof. intros E1 E2. unfold VSub. rewrite E1, E2. split; apply incl_refl. Qed.

Lemma VGrow_views d d' : mbv d' = mbv d -> npv d' = npv d -> VGrow d d'.
Proof. intros E1 E2. unfold VGrow. rewrite E1, E2. split; apply KGrow_refl. Qed.

Lemma incl_map_filter {A B} (f : A -> B) p l : incl (map f (filter p l)) (map f l).
Proof.
  intros y Hy. apply in_map_iff in Hy. destruct Hy as (x & <- & Hx). apply filter_In in Hx.
  apply in_map. apply Hx.
Qed.

(** ** the statements of Store.v *)

Lemma mbv_upd_mbs_close d m side mood : mbv (upd_mbs_close d m side mood) = mbv d.
Proof.
  unfold mbv, upd_mbs_close. cbn [mb_sides set_mb_sides]. rewrite map_map. apply map_ext.
  intros r. destruct (seqb (mbs_mbox r) m && seqb (mbs_side r) side); reflexivity.
Qed.

Lemma npv_upd_nps_release d i side : npv (upd_nps_release d i side) = npv d.
Proof.
  unfold npv, upd_nps_release. cbn [np_sides set_np_sides]. rewrite map_map. apply map_ext.
  intros r. destruct ((nps_npid r =? i) && seqb (nps_side r) side); reflexivity.
Qed.

Lemma VSub_rm_np d i : VSub d (rm_np d i).
Proof. split; [apply incl_refl|]. unfold npv, rm_np. cbn [np_sides]. apply incl_map_filter. Qed.

Lemma VSub_rm_mb d m : VSub d (rm_mb d m).
Proof. split; [|apply incl_refl]. unfold mbv, rm_mb. cbn [mb_sides]. apply incl_map_filter. Qed.

Lemma VSub_fold_rm_np ids : forall d, VSub d (fold_left rm_np ids d).
Proof.
  induction ids as [|i rest IH]; intros d; cbn [fold_left]; [reflexivity|].
  etransitivity; [apply VSub_rm_np|apply IH].
Qed.

Lemma VSub_fold_rm_mb ms : forall d, VSub d (fold_left rm_mb ms d).
Proof.
  induction ms as [|m rest IH]; intros d; cbn [fold_left]; [reflexivity|].
  etransitivity; [apply VSub_rm_mb|apply IH].
Qed.

(** ** the deleting / marking transaction bodies: side rows only disappear *)
Section SubBodies.
Variable cfg : config.

Lemma del_nameplates_body_VSub a w pruned : forall ids d acc,
  VSub d (txdb (del_nameplates_body cfg d a ids w pruned acc)).
Proof.
  induction ids as [|i ids IH]; intros d acc; cbn [del_nameplates_body]; [reflexivity|].
  rewrite del_np_rm. pose proof (VSub_rm_np d i) as H1.
  destruct (usage_on cfg).
  - destruct (summarize_nameplate (blur cfg) a (sel_nps_all d i) w pruned); [|exact H1].
    etransitivity; [exact H1|apply IH].
  - etransitivity; [exact H1|apply IH].
Qed.

Lemma del_mailbox_body_VSub d a m f rows w p : VSub d (txdb (del_mailbox_body cfg d a m f rows w p)).
Proof.
  unfold del_mailbox_body. cbv zeta.
  assert (H2 : VSub d (del_mbs_of (del_msgs_of d m) m)).
  { split; [|apply incl_refl]. unfold mbv, del_mbs_of, del_msgs_of.
    cbn [mb_sides set_mb_sides set_messages]. apply incl_map_filter. }
  destruct (del_mb (del_mbs_of (del_msgs_of d m) m) m) as [d3|] eqn:E; cbn [txdb]; [|exact H2].
  unfold del_mb in E.
  match type of E with (if ?b then _ else _) = _ => destruct b end; [discriminate|].
  inversion E; subst d3. etransitivity; [exact H2|]. apply VSub_same; reflexivity.
Qed.

Lemma del_mailboxes_body_VSub a w : forall rows d acc,
  VSub d (txdb (del_mailboxes_body cfg d a rows w acc)).
Proof.
  induction rows as [|r rows IH]; intros d acc; cbn [del_mailboxes_body]; [reflexivity|].
  pose proof (del_mailbox_body_VSub d a (mb_id r) (mb_fornp r) (sel_mbs_all d (mb_id r)) w true) as H1.
  destruct (del_mailbox_body cfg d a (mb_id r) (mb_fornp r) (sel_mbs_all d (mb_id r)) w true)
    as [us d1|e d1]; cbn [txdb] in *; [|exact H1].
  etransitivity; [exact H1|apply IH].
Qed.

Lemma prune_body_VSub d a w old : VSub d (txdb (prune_body cfg d a w old)).
Proof.
  unfold prune_body. cbv zeta.
  pose proof (del_nameplates_body_VSub a w true (map np_id (old_nameplates d a old)) d []) as H1.
  destruct (del_nameplates_body cfg d a (map np_id (old_nameplates d a old)) w true [])
    as [unps d1|e d1]; cbn [txdb] in *; [|exact H1].
  pose proof (del_mailboxes_body_VSub a w (old_mailboxes d a old) d1 []) as H2.
  destruct (del_mailboxes_body cfg d1 a (old_mailboxes d a old) w []) as [umbs d2|e d2];
    cbn [txdb] in *; (etransitivity; [exact H1|exact H2]).
Qed.

Lemma close_delete_body_VSub d a m f w : VSub d (txdb (close_delete_body cfg d a m f w)).
Proof.
  unfold close_delete_body. cbv zeta.
  destruct (existsb mbs_opened (sel_mbs_all d m)); [reflexivity|].
  pose proof (del_nameplates_body_VSub a w false (map np_id (sel_np_by_mbox d m)) d []) as H1.
  destruct (del_nameplates_body cfg d a (map np_id (sel_np_by_mbox d m)) w false [])
    as [unps d1|e d1]; cbn [txdb] in *; [|exact H1].
  pose proof (del_mailbox_body_VSub d1 a m f (sel_mbs_all d m) w false) as H2.
  destruct (del_mailbox_body cfg d1 a m f (sel_mbs_all d m) w false) as [umbs d2|e d2];
    cbn [txdb] in *; (etransitivity; [exact H1|exact H2]).
Qed.

Lemma release_delete_body_VSub d a i w : VSub d (txdb (release_delete_body cfg d a i w)).
Proof.
  unfold release_delete_body. cbv zeta.
  destruct (existsb nps_claimed (sel_nps_all d i)); [reflexivity|].
  rewrite del_np_rm. pose proof (VSub_rm_np d i) as H1.
  destruct (usage_on cfg); [|exact H1].
  destruct (summarize_nameplate (blur cfg) a (sel_nps_all d i) w false); exact H1.
Qed.

End SubBodies.

Lemma close_mark_views d a m side mood :
  let d' := txdb (match close_mark_body d a m side mood with
                  | None => TxOk None d
                  | Some (fornp, d1) => TxOk (Some fornp) d1
                  end) in
  mbv d' = mbv d /\ npv d' = npv d.
Proof.
  unfold close_mark_body. destruct (sel_mb d a m) as [row|]; [|split; reflexivity].
  destruct (sel_mbs d m side); [|split; reflexivity].
  cbn [txdb]. split; [apply mbv_upd_mbs_close|reflexivity].
Qed.

Lemma release_mark_views d a n side :
  let d' := txdb (match release_mark_body d a n side with
                  | None => TxOk None d
                  | Some (npid, d1) => TxOk (Some npid) d1
                  end) in
  mbv d' = mbv d /\ npv d' = npv d.
Proof.
  unfold release_mark_body. destruct (sel_np d a n) as [np|]; [|split; reflexivity].
  destruct (sel_nps d (np_id np) side); [|split; reflexivity].
  cbn [txdb]. split; [reflexivity|apply npv_upd_nps_release].
Qed.

Lemma touch_all_sides ms w : forall d,
  mb_sides (touch_all d ms w) = mb_sides d /\ np_sides (touch_all d ms w) = np_sides d.
Proof. intros d. destruct (touch_all_tables ms w d) as (A & B & _). split; assumption. Qed.

(** ** the writing transaction bodies: nothing disappears, what appears has a fresh key *)

Lemma KGrow_snoc {K} (l : list (K * Z)) x : fresh_key l x -> KGrow l (l ++ [x]).
Proof.
  intros Hx. split; [apply incl_appl, incl_refl|]. apply NewP_snoc. exact Hx.
Qed.

Lemma sel_mbs_none_fresh d m side w : sel_mbs d m side = None -> fresh_key (mbv d) (m, side, w).
Proof.
  intros Hn y Hy Heq. unfold mbv in Hy. apply in_map_iff in Hy. destruct Hy as (r & <- & Hr).
  unfold sel_mbs in Hn. pose proof (find_none _ _ Hn r Hr) as Hf. cbv beta in Hf.
  cbn [mbs_view fst] in Heq. inversion Heq as [[E1 E2]].
  rewrite E1, E2, !seqb_refl in Hf. discriminate.
Qed.

Lemma sel_nps_none_fresh d i side w : sel_nps d i side = None -> fresh_key (npv d) (i, side, w).
Proof.
  intros Hn y Hy Heq. unfold npv in Hy. apply in_map_iff in Hy. destruct Hy as (r & <- & Hr).
  unfold sel_nps in Hn. pose proof (find_none _ _ Hn r Hr) as Hf. cbv beta in Hf.
  cbn [nps_view fst] in Heq. inversion Heq as [[E1 E2]].
  rewrite E1, E2, Z.eqb_refl, seqb_refl in Hf. discriminate.
Qed.

Lemma mailbox_open_body_views d m side w d2 :
  mailbox_open_body d m side w = Some d2 ->
  npv d2 = npv d /\
  (mbv d2 = mbv d \/ (sel_mbs d m side = None /\ mbv d2 = mbv d ++ [(m, side, w)])).
Proof.
  unfold mailbox_open_body. destruct (sel_mbs d m side) as [r|] eqn:Es.
  - intros H; inversion H. split; [reflexivity|left; reflexivity].
  - destruct (ins_mbs d (mkMbs m true side w None)) as [d1|] eqn:E; [|discriminate].
    apply ins_mbs_spec in E. destruct E as [_ ->]. intros H; inversion H.
    split; [reflexivity|]. right. split; [reflexivity|].
    unfold mbv. cbn [mb_sides upd_touch set_mailboxes set_mb_sides]. rewrite map_app. reflexivity.
Qed.

Lemma open_body_VGrow d a m side w : VGrow d (txdb (open_body d a m side w)).
Proof.
  unfold open_body. destruct (add_mailbox d a m false w) as [d1|] eqn:E1; [|reflexivity].
  apply add_mailbox_tables in E1. destruct E1 as (A1 & A2 & _).
  assert (G1 : VGrow d d1) by (apply VGrow_same; assumption).
  destruct (mailbox_open_body d1 m side w) as [d2|] eqn:E2; cbn [txdb]; [|exact G1].
  apply mailbox_open_body_views in E2. destruct E2 as [B1 [B2|[Bn B2]]].
  - etransitivity; [exact G1|apply VGrow_views; assumption].
  - etransitivity; [exact G1|]. split; [rewrite B2|rewrite B1; apply KGrow_refl].
    apply KGrow_snoc. apply sel_mbs_none_fresh. exact Bn.
Qed.

Lemma claim_side_body_views d npid mbox side w :
  match claim_side_body d npid mbox side w with
  | TxOk r d' => r = (npid, mbox) /\ mbv d' = mbv d /\
                 (npv d' = npv d \/ (sel_nps d npid side = None /\ npv d' = npv d ++ [(npid, side, w)]))
  | TxFail _ d' => d' = d
  end.
Proof.
  unfold claim_side_body. destruct (sel_nps d npid side) as [r|] eqn:Es.
  - destruct (nps_claimed r); [|reflexivity]. split; [reflexivity|]. split; [reflexivity|left; reflexivity].
  - destruct (ins_nps d (mkNps npid true side w)) as [d1|] eqn:E; [|reflexivity].
    apply ins_nps_spec in E. destruct E as [_ ->]. split; [reflexivity|]. split; [reflexivity|].
    right. split; [reflexivity|]. unfold npv. cbn [np_sides set_np_sides]. rewrite map_app. reflexivity.
Qed.

Lemma claim_side_body_VGrow d npid mbox side w : VGrow d (txdb (claim_side_body d npid mbox side w)).
Proof.
  pose proof (claim_side_body_views d npid mbox side w) as H.
  destruct (claim_side_body d npid mbox side w) as [r d'|e d']; cbn [txdb].
  - destruct H as (_ & Hm & [Hn|[Hs Hn]]).
    + apply VGrow_views; assumption.
    + split; [rewrite Hm; apply KGrow_refl|]. rewrite Hn. apply KGrow_snoc.
      apply sel_nps_none_fresh. exact Hs.
  - subst d'. reflexivity.
Qed.

Lemma claim_body_VGrow d a n side w draw : VGrow d (txdb (claim_body d a n side w draw)).
Proof.
  unfold claim_body. destruct (sel_np d a n) as [row|].
  - apply claim_side_body_VGrow.
  - destruct draw as [bytes|]; [|reflexivity]. cbv zeta.
    destruct (add_mailbox d a (genid bytes) true w) as [d1|] eqn:E1; [|reflexivity].
    apply add_mailbox_tables in E1. destruct E1 as (A1 & A2 & _).
    assert (G1 : VGrow d d1) by (apply VGrow_same; assumption).
    destruct (ins_np d1 a n (genid bytes)) as [[d2 npid]|] eqn:E2; [|exact G1].
    apply ins_np_spec in E2. destruct E2 as (_ & _ & ->).
    etransitivity; [exact G1|]. etransitivity; [|apply claim_side_body_VGrow].
    apply VGrow_same; reflexivity.
Qed.

Lemma txdb_match {A} (R : chan_db -> chan_db -> Prop) d (r : txres A) :
  R d (txdb r) -> match r with TxOk _ d' => R d d' | TxFail _ d' => R d d' end.
Proof. destruct r; auto. Qed.

(** ** every event, crashes at any commit included: a side row that was not there before the
    event carries a key (mailbox, side) / (nameplate id, side) that no row had before it *)
Theorem step_fresh_keys cfg s e :
  SInv s -> VFresh (chan_w s) (chan_w (fst (step cfg s e))).
Proof.
  intros HS.
  assert (H : GS VGrow VSub (chan_w s) (chan_w (fst (step cfg s e)))).
  { apply (step_GS cfg VGrow VSub (fun _ _ _ => True)).
    - intros a m side w. apply (txp_change _ _ _ (open_body_txp a m side w)).
      intros d _. apply txdb_match, open_body_VGrow.
    - intros a n side w draw. apply (txp_change _ _ _ (claim_body_txp a n side w draw)).
      intros d _. apply txdb_match, claim_body_VGrow.
    - intros a n side _. apply (txp_change _ _ _ (release_mark_txp a n side)).
      intros d _. apply txdb_match. destruct (release_mark_views d a n side) as [E1 E2].
      apply VGrow_views; assumption.
    - intros a m side mood. apply (txp_change _ _ _ (close_mark_txp a m side mood)).
      intros d _. apply txdb_match. destruct (close_mark_views d a m side mood) as [E1 E2].
      apply VGrow_views; assumption.
    - intros d r _ _. apply VGrow_same; reflexivity.
    - intros a m fornp w. apply (txp_change _ _ _ (close_delete_txp cfg a m fornp w)).
      intros d _. apply txdb_match, close_delete_body_VSub.
    - intros a npid w. apply (txp_change _ _ _ (release_delete_txp cfg a npid w)).
      intros d _. apply txdb_match, release_delete_body_VSub.
    - intros a w o. apply (txp_change _ _ _ (prune_body_txp cfg a w o)).
      intros d _. apply txdb_match, prune_body_VSub.
    - intros ms w. apply (txp_change _ _ _ (touch_all_txp ms w)).
      intros d _. cbv beta iota. destruct (touch_all_sides ms w d) as [E1 E2]. apply VSub_same; assumption.
    - exact HS.
    - intros b _ c msg o _ _ a side n _ _. exact I. }
  destruct H as (d1 & [G1 G2] & [S1 S2]).
  split; eapply KGrow_then_incl; eassumption.
Qed.
Print Assumptions step_fresh_keys.

(** ** the snapshot calculus of CrashHist.v with [Org P Q]: the working database an operation
    leaves, and every snapshot it commits, has no new side row except those satisfying [P] / [Q] *)
Section OrgOps.
Variable cfg : config.
Variable P : string * string * Z -> Prop.
Variable Q : Z * string * Z -> Prop.

Local Notation R := (Org P Q).
Local Hint Resolve PreO_Org : cxdb.

Lemma open_body_Org d a m side w : P (m, side, w) -> R d (txdb (open_body d a m side w)).
Proof.
  intros HP. destruct (PreO_Org P Q) as [Rr Rt].
  unfold open_body. destruct (add_mailbox d a m false w) as [d1|] eqn:E1; [|apply Rr].
  apply add_mailbox_tables in E1. destruct E1 as (A1 & A2 & _).
  assert (G1 : R d d1) by (apply Org_same; assumption).
  destruct (mailbox_open_body d1 m side w) as [d2|] eqn:E2; cbn [txdb]; [|exact G1].
  apply mailbox_open_body_views in E2. destruct E2 as [B1 [B2|[_ B2]]].
  - eapply Rt; [exact G1|]. apply VSub_Org, VSub_views; assumption.
  - eapply Rt; [exact G1|]. split; [rewrite B2; apply NewP_snoc; exact HP|rewrite B1; apply NewP_refl].
Qed.

Lemma claim_side_body_Org d npid mbox side w :
  Q (npid, side, w) -> R d (txdb (claim_side_body d npid mbox side w)).
Proof.
  intros HQ. pose proof (claim_side_body_views d npid mbox side w) as H.
  destruct (claim_side_body d npid mbox side w) as [r d'|e d']; cbn [txdb].
  - destruct H as (_ & Hm & [Hn|[_ Hn]]).
    + apply VSub_Org, VSub_views; assumption.
    + split; [rewrite Hm; apply NewP_refl|rewrite Hn; apply NewP_snoc; exact HQ].
  - subst d'. apply (PreO_Org P Q).
Qed.

(** *** operations that create no side row *)

Lemma CxM_release_nameplate_Org a n side w : CxM R (release_nameplate cfg a n side w).
Proof.
  unfold release_nameplate, write_usage. cx.
  - destruct (release_mark_views d a n side) as [E1 E2]. apply VSub_Org, VSub_views; assumption.
  - apply VSub_Org, release_delete_body_VSub.
Qed.

Lemma CxM_mailbox_close_Org a m side mood w : CxM R (mailbox_close cfg a m side mood w).
Proof.
  unfold mailbox_close, write_usage. cx.
  - destruct (close_mark_views d a m side mood) as [E1 E2]. apply VSub_Org, VSub_views; assumption.
  - apply VSub_Org, close_delete_body_VSub.
Qed.

Lemma CxM_add_message_Org a m r : CxM R (add_message a m r).
Proof. unfold add_message. cx. cbn [txdb]. apply Org_same; reflexivity. Qed.

Lemma CxM_prune_app_Org a w old : CxM R (prune_app cfg a w old).
Proof.
  unfold prune_app, write_usage. cx.
  - cbn [txdb]. destruct (touch_all_sides (listened_mailboxes a (subs a0)) w d) as [E1 E2].
    apply Org_same; assumption.
  - apply VSub_Org, prune_body_VSub.
Qed.

Lemma CxM_prune_apps_Org w old apps : CxM R (prune_apps cfg apps w old).
Proof.
  induction apps as [|a apps IH]; cbn [prune_apps]; [apply CxM_ret; cx_side|].
  apply CxM_bind; [cx_side|apply CxM_prune_app_Org|intros _; exact IH].
Qed.

Lemma CxM_expire_Org fault : CxM R (expire cfg fault).
Proof. unfold expire, prune_all_apps. cx. apply CxM_prune_apps_Org. Qed.

Local Hint Resolve CxM_release_nameplate_Org CxM_mailbox_close_Org CxM_add_message_Org : cxdb.

Lemma CxM_handle_ping_Org c msg : CxM R (handle_ping c msg).
Proof. unfold handle_ping, err. cx. Qed.

Lemma CxM_handle_bind_Org c msg : CxM R (handle_bind cfg c msg).
Proof. unfold handle_bind, err. cx. Qed.

Lemma CxM_handle_list_Org c a : CxM R (handle_list cfg c a).
Proof. unfold handle_list. cx. Qed.

Lemma CxM_handle_release_Org c a side msg : CxM R (handle_release cfg c a side msg).
Proof. unfold handle_release, err. cx. Qed.

Lemma CxM_handle_add_Org c a side msg : CxM R (handle_add c a side msg).
Proof. unfold handle_add, err. cx. Qed.

(** *** open: the one new mailbox side row is (m, side, when) *)
Lemma CxM_open_mailbox_Org a m side w : P (m, side, w) -> CxM R (open_mailbox a m side w).
Proof. intros HP. unfold open_mailbox. cx. apply open_body_Org. exact HP. Qed.

End OrgOps.

(** ** the nameplate row and the mailbox a claim of (a, n) finds in [d] or creates: an existing
    nameplate keeps its id and its mailbox; a new one gets the next id of the AUTOINCREMENT
    sequence and the mailbox id generated from the random bytes drawn *)
Definition claim_target (d : chan_db) (a n : string) (draw : option string) (npid : Z) (mbox : string) : Prop :=
  match sel_np d a n with
  | Some np => npid = np_id np /\ mbox = np_mbox np
  | None => npid = np_seq d + 1 /\ exists bytes, draw = Some bytes /\ mbox = genid bytes
  end.

Lemma Cx_set_chan_w (T : chan_db -> chan_db -> Prop) s d : T (chan_w s) d -> Cx T s (set_chan_w s d).
Proof. intros H. split; [exact H|]. exists []. split; [reflexivity|intros d0 []]. Qed.

Lemma Cx_frame (T : chan_db -> chan_db -> Prop) s s' c f b t :
  PreO T -> Cx T s s' -> Cx T s (set_log s' (LFrame c f b t :: log s')).
Proof.
  intros HT H. eapply Cx_trans; [exact HT|exact H|].
  eapply Cx_entry; [exact HT|reflexivity|reflexivity|]. intros d Hd. discriminate.
Qed.

Lemma cxm_at (T : chan_db -> chan_db -> Prop) {A} (m : M A) s s' :
  PreO T -> CxM T m -> Cx T s s' ->
  wp m (fun _ s'' => Cx T s s'') (fun _ s'' => Cx T s s'') s'.
Proof.
  intros HT Hm Hs. eapply wp_conseq; [apply (Hm s')| |]; intros x s'' H;
    (eapply Cx_trans; [exact HT|exact Hs|exact H]).
Qed.

Section OrgHandlers.
Variable cfg : config.
Variable P : string * string * Z -> Prop.
Variable Q : Z * string * Z -> Prop.

Local Notation R := (Org P Q).
Local Hint Resolve PreO_Org : cxdb.
Local Hint Resolve CxM_release_nameplate_Org CxM_mailbox_close_Org CxM_add_message_Org : cxdb.

Lemma claim_body_Org d a n side w draw :
  (forall npid m, claim_target d a n draw npid m -> Q (npid, side, w)) ->
  match claim_body d a n side w draw with
  | TxOk r d1 => claim_target d a n draw (fst r) (snd r) /\ R d d1
  | TxFail _ d1 => R d d1
  end.
Proof.
  intros HQ. destruct (PreO_Org P Q) as [Rr Rt].
  unfold claim_body, claim_target in *. destruct (sel_np d a n) as [row|].
  - pose proof (claim_side_body_Org P Q d (np_id row) (np_mbox row) side w
                  (HQ _ _ (conj eq_refl eq_refl))) as H.
    pose proof (claim_side_body_views d (np_id row) (np_mbox row) side w) as V.
    destruct (claim_side_body d (np_id row) (np_mbox row) side w) as [r d'|e d']; cbn [txdb] in H.
    + destruct V as (-> & _). cbn [fst snd]. split; [split; reflexivity|exact H].
    + exact H.
  - destruct draw as [bytes|]; [|apply Rr]. cbv zeta.
    destruct (add_mailbox d a (genid bytes) true w) as [d1|] eqn:E1; [|apply Rr].
    apply add_mailbox_tables in E1. destruct E1 as (A1 & A2 & A3 & _).
    assert (G1 : R d d1) by (apply Org_same; assumption).
    destruct (ins_np d1 a n (genid bytes)) as [[d2 npid]|] eqn:E2; [|exact G1].
    apply ins_np_spec in E2. destruct E2 as (_ & Ei & ->). rewrite A3 in Ei.
    assert (HQ' : Q (npid, side, w)).
    { apply (HQ npid (genid bytes)). split; [exact Ei|]. exists bytes. split; reflexivity. }
    match goal with |- match claim_side_body ?d2 _ _ _ _ with _ => _ end =>
      pose proof (claim_side_body_Org P Q d2 npid (genid bytes) side w HQ') as H;
      pose proof (claim_side_body_views d2 npid (genid bytes) side w) as V;
      assert (G2 : R d1 d2) by (apply Org_same; reflexivity);
      destruct (claim_side_body d2 npid (genid bytes) side w) as [r d'|e d']; cbn [txdb] in H
    end.
    + destruct V as (-> & _). cbn [fst snd]. split.
      * split; [exact Ei|]. exists bytes. split; reflexivity.
      * eapply Rt; [exact G1|]. eapply Rt; [exact G2|exact H].
    + eapply Rt; [exact G1|]. eapply Rt; [exact G2|exact H].
Qed.

Lemma claim_nameplate_cx a n side w draw s :
  (forall npid m, claim_target (chan_w s) a n draw npid m -> P (m, side, w) /\ Q (npid, side, w)) ->
  wp (claim_nameplate a n side w draw) (fun _ s' => Cx R s s') (fun _ s' => Cx R s s') s.
Proof.
  intros H. unfold claim_nameplate. apply wp_bind. apply wp_tx.
  pose proof (claim_body_Org (chan_w s) a n side w draw (fun npid m Ht => proj2 (H npid m Ht))) as B.
  destruct (claim_body (chan_w s) a n side w draw) as [[npid mbox] d1|e d1].
  - destruct B as [Ht B]. cbn [fst snd] in Ht. destruct (H npid mbox Ht) as [HP _].
    apply cxm_at; [apply PreO_Org| |apply Cx_set_chan_w; exact B].
    cx. apply CxM_open_mailbox_Org. exact HP.
  - apply Cx_set_chan_w. exact B.
Qed.

Lemma Cx_R_refl s : Cx R s s.
Proof. apply Cx_refl. apply PreO_Org. Qed.

Lemma handle_claim_cx c a side msg o s :
  (forall n npid m, m_nameplate msg = Some n -> claim_target (chan_w s) a n (o_draw o) npid m ->
                    P (m, side, now s) /\ Q (npid, side, now s)) ->
  wp (handle_claim c a side msg o) (fun _ s' => Cx R s s') (fun _ s' => Cx R s s') s.
Proof.
  intros H. unfold handle_claim. destruct (m_nameplate msg) as [n|]; [|apply wp_raise, Cx_R_refl].
  apply wp_bind, wp_get_conn.
  destruct (c_did_claim _); [apply wp_raise, Cx_R_refl|].
  apply wp_bind, wp_set_conn. apply wp_bind, wp_get. apply wp_bind.
  unfold catch_crowded_reclaimed. apply wp_try_catch.
  match goal with |- wp _ _ _ ?s1 => set (s1' := s1) end.
  assert (Hpre : forall s', Cx R s1' s' -> Cx R s s').
  { intros s' Hc. eapply Cx_pre; [| |exact Hc]; reflexivity. }
  eapply wp_conseq; [apply (claim_nameplate_cx a n side (now s1') (o_draw o) s1')| |].
  - intros npid m Ht. exact (H n npid m eq_refl Ht).
  - intros m s' Hc. apply wp_send. apply Cx_frame; [apply PreO_Org|]. apply Hpre. exact Hc.
  - intros e s' Hc. destruct e; apply wp_raise; apply Hpre; exact Hc.
Qed.

Lemma handle_allocate_cx c a side o s :
  (forall n npid m, find_available (sel_names (chan_w s) a) (o_alloc o) = AllocOk n ->
                    claim_target (chan_w s) a n (o_draw o) npid m ->
                    P (m, side, now s) /\ Q (npid, side, now s)) ->
  wp (handle_allocate c a side o) (fun _ s' => Cx R s s') (fun _ s' => Cx R s s') s.
Proof.
  intros H. unfold handle_allocate. apply wp_bind, wp_get_conn.
  destruct (c_did_allocate _); [apply wp_raise, Cx_R_refl|].
  apply wp_bind, wp_get. apply wp_bind. unfold allocate_nameplate.
  apply wp_bind, wp_q. destruct (find_available (sel_names (chan_w s) a) (o_alloc o)) as [n| |] eqn:Ef;
    [|apply wp_raise, Cx_R_refl|apply wp_raise, Cx_R_refl].
  apply wp_bind.
  eapply wp_conseq; [apply (claim_nameplate_cx a n side (now s) (o_draw o) s)| |].
  - intros npid m Ht. exact (H n npid m eq_refl Ht).
  - intros m s' Hc. apply wp_ret. apply cxm_at; [apply PreO_Org|cx|exact Hc].
  - intros e s' Hc. exact Hc.
Qed.

Lemma handle_open_cx c a side msg s :
  (forall m, m_mailbox msg = Some m -> P (m, side, now s)) ->
  wp (handle_open c a side msg) (fun _ s' => Cx R s s') (fun _ s' => Cx R s s') s.
Proof.
  intros H. unfold handle_open. apply wp_bind, wp_get_conn.
  destruct (c_mailbox _); [apply wp_raise, Cx_R_refl|].
  destruct (m_mailbox msg) as [m|]; [|apply wp_raise, Cx_R_refl].
  apply wp_bind, wp_set_conn. apply wp_bind, wp_get.
  apply cxm_at; [apply PreO_Org| |apply Cx_same; [apply PreO_Org|reflexivity|reflexivity]].
  unfold catch_crowded, get_messages. cx. apply CxM_open_mailbox_Org. exact (H m eq_refl).
Qed.

Lemma handle_close_cx c a side msg s :
  (forall m, c_mailbox (conn_of s c) = None -> cmd_mbox (conn_of s c) msg = Some m ->
             P (m, side, now s)) ->
  wp (handle_close cfg c a side msg) (fun _ s' => Cx R s s') (fun _ s' => Cx R s s') s.
Proof.
  intros H. unfold handle_close. apply wp_bind, wp_get_conn. fold (conn_of s c).
  destruct (c_did_close (conn_of s c)); [apply wp_raise, Cx_R_refl|].
  apply wp_bind.
  assert (Hm : forall m, cmd_mbox (conn_of s c) msg = Some m ->
    wp (ret m) (fun m0 s' => wp
      (s0 <- get ;;
       held <- match c_mailbox (conn_of s c) with
               | Some h => ret h
               | None => catch_crowded (open_mailbox a m0 side (now s0)) ;;;
                         cs1 <- get_conn c ;; set_conn c (set_mailbox cs1 (Some m0)) ;;; ret m0
               end ;;
       cs2 <- get_conn c ;;
       (if c_listening cs2 then remove_sub a held c ;;; set_conn c (set_listening cs2 false) else ret tt) ;;;
       cs3 <- get_conn c ;;
       set_conn c (set_did_close cs3 true) ;;;
       mailbox_close cfg a held side (m_mood msg) (now s0) ;;;
       cs4 <- get_conn c ;; set_conn c (set_mailbox cs4 None) ;;; send c FClosed)
      (fun _ s'' => Cx R s s'') (fun _ s'' => Cx R s s'') s')
      (fun _ s' => Cx R s s') s).
  { intros m Em. apply wp_ret. apply wp_bind, wp_get.
    apply cxm_at; [apply PreO_Org| |apply Cx_R_refl].
    destruct (c_mailbox (conn_of s c)) eqn:Eh.
    - cx.
    - unfold catch_crowded. cx. apply CxM_open_mailbox_Org. exact (H m eq_refl Em). }
  unfold cmd_mbox in Hm.
  destruct (m_mailbox msg) as [m|]; destruct (c_mailbox_id (conn_of s c)) as [m'|].
  - destruct (seqb m m'); [exact (Hm m eq_refl)|apply wp_raise, Cx_R_refl].
  - exact (Hm m eq_refl).
  - exact (Hm m' eq_refl).
  - apply wp_raise, Cx_R_refl.
Qed.

End OrgHandlers.

(** ** arrivals: the commands that create side rows *)

(** the mailbox a command of a connection [cs] bound to app [a] brings its side to: the one an
    `open` names; the one a `close` on a connection that holds no mailbox names (it is opened
    first); the mailbox of the nameplate a `claim` names / an `allocate` picks *)
Definition targets_mb (d : chan_db) (cs : conn_state) (a : string) (msg : command) (o : oracle)
           (m : string) : Prop :=
  match m_type msg with
  | Some TOpen => m_mailbox msg = Some m
  | Some TClose => c_mailbox cs = None /\ cmd_mbox cs msg = Some m
  | Some TClaim => exists n npid, m_nameplate msg = Some n /\ claim_target d a n (o_draw o) npid m
  | Some TAllocate =>
      exists n npid, find_available (sel_names d a) (o_alloc o) = AllocOk n /\
                     claim_target d a n (o_draw o) npid m
  | _ => False
  end.

(** the nameplate (by id) a `claim` / `allocate` brings its side to *)
Definition targets_np (d : chan_db) (a : string) (msg : command) (o : oracle) (npid : Z) : Prop :=
  match m_type msg with
  | Some TClaim => exists n m, m_nameplate msg = Some n /\ claim_target d a n (o_draw o) npid m
  | Some TAllocate =>
      exists n m, find_available (sel_names d a) (o_alloc o) = AllocOk n /\
                  claim_target d a n (o_draw o) npid m
  | _ => False
  end.

(** command [msg] on connection [c], bound to (a, side), arrives in state [s] and concerns
    mailbox [m] / the nameplate with id [npid] *)
Definition arrival_mb (s : state) (c : nat) (msg : command) (o : oracle) (a side m : string) : Prop :=
  exists cs, lookup_conn c (conns s) = Some cs /\ c_bound cs = Some (a, side) /\
             targets_mb (chan_w s) cs a msg o m.
Definition arrival_np (s : state) (c : nat) (msg : command) (o : oracle) (a side : string) (npid : Z) : Prop :=
  exists cs, lookup_conn c (conns s) = Some cs /\ c_bound cs = Some (a, side) /\
             targets_np (chan_w s) a msg o npid.

Definition arr_mb (s : state) (c : nat) (msg : command) (o : oracle) (x : string * string * Z) : Prop :=
  snd x = now s /\ exists a, arrival_mb s c msg o a (snd (fst x)) (fst (fst x)).
Definition arr_np (s : state) (c : nat) (msg : command) (o : oracle) (x : Z * string * Z) : Prop :=
  snd x = now s /\ exists a, arrival_np s c msg o a (snd (fst x)) (fst (fst x)).

Section OrgEvents.
Variable cfg : config.
Hypothesis Hexp : 0 < exp cfg.

Lemma on_message_cx s c cs msg o :
  lookup_conn c (conns s) = Some cs ->
  let R := Org (arr_mb s c msg o) (arr_np s c msg o) in
  wp (on_message cfg c msg o) (fun _ s' => Cx R s s') (fun _ s' => Cx R s s') s.
Proof.
  intros Hl R. pose proof (PreO_Org (arr_mb s c msg o) (arr_np s c msg o)) as HR. fold R in HR.
  unfold on_message. apply wp_try_catch.
  assert (Hh : forall e s', Cx R s s' ->
            wp (match e with XErr k => send c (FError k msg) | _ => raise e end)
               (fun _ s'' => Cx R s s'') (fun _ s'' => Cx R s s'') s').
  { intros e s' Hc. destruct e; try (apply wp_raise; exact Hc).
    apply wp_send. apply Cx_frame; assumption. }
  destruct (m_type msg) as [t|] eqn:Et.
  2:{ apply wp_raise. exact (Hh (XErr ErrOther) s (Cx_refl R HR s)). }
  apply wp_bind, wp_send.
  set (s0 := set_log s (LFrame c (FAck (m_id msg)) (is_clean s) (now s) :: log s)).
  assert (Hs0 : Cx R s s0) by (apply Cx_frame; [exact HR|apply Cx_refl; exact HR]).
  assert (W : wp (dispatch cfg c t msg o) (fun _ s' => Cx R s0 s') (fun _ s' => Cx R s0 s') s0).
  { assert (Hid : Cx R s0 s0) by (apply Cx_refl; exact HR).
    destruct t; unfold dispatch; cbv iota;
      try exact (CxM_handle_ping_Org _ _ c msg s0);
      try exact (CxM_handle_bind_Org cfg _ _ c msg s0);
      apply wp_bind, wp_get_conn; cbn [conns s0 set_log]; rewrite Hl;
      (destruct (c_bound cs) as [[a side]|] eqn:Eb; [|apply wp_raise; exact Hid]).
    - exact (CxM_handle_list_Org cfg _ _ c a s0).
    - apply handle_allocate_cx. intros n npid m Ef Ht. change (chan_w s0) with (chan_w s) in *.
      change (now s0) with (now s).
      split; (split; [reflexivity|]; exists a, cs; cbn [fst snd];
              split; [exact Hl|]; split; [exact Eb|]).
      + unfold targets_mb. rewrite Et. exists n, npid. split; assumption.
      + unfold targets_np. rewrite Et. exists n, m. split; assumption.
    - apply handle_claim_cx. intros n npid m En Ht. change (chan_w s0) with (chan_w s) in *.
      change (now s0) with (now s).
      split; (split; [reflexivity|]; exists a, cs; cbn [fst snd];
              split; [exact Hl|]; split; [exact Eb|]).
      + unfold targets_mb. rewrite Et. exists n, npid. split; assumption.
      + unfold targets_np. rewrite Et. exists n, m. split; assumption.
    - exact (CxM_handle_release_Org cfg _ _ c a side msg s0).
    - apply handle_open_cx. intros m Em. change (now s0) with (now s).
      split; [reflexivity|]. exists a, cs. cbn [fst snd].
      split; [exact Hl|]. split; [exact Eb|]. unfold targets_mb. rewrite Et. exact Em.
    - exact (CxM_handle_add_Org _ _ c a side msg s0).
    - apply handle_close_cx. intros m Eh Em. change (now s0) with (now s).
      assert (Ec : conn_of s0 c = cs) by (unfold conn_of; cbn [conns s0 set_log]; rewrite Hl; reflexivity).
      rewrite Ec in Eh, Em.
      split; [reflexivity|]. exists a, cs. cbn [fst snd].
      split; [exact Hl|]. split; [exact Eb|]. unfold targets_mb. rewrite Et. split; assumption.
    - apply wp_raise. exact Hid. }
  eapply wp_conseq; [exact W| |].
  - intros u s' Hc. eapply Cx_trans; [exact HR|exact Hs0|exact Hc].
  - intros e s' Hc. exact (Hh e s' (Cx_trans R HR _ _ _ Hs0 Hc)).
Qed.

(** the new side rows of a base event *)
Definition b_arr_mb (s : state) (b : bevent) (x : string * string * Z) : Prop :=
  match b with ECmd c msg o => arr_mb s c msg o x | _ => False end.
Definition b_arr_np (s : state) (b : bevent) (x : Z * string * Z) : Prop :=
  match b with ECmd c msg o => arr_np s c msg o x | _ => False end.

Lemma step_b_org s b :
  Cx (Org (b_arr_mb s b) (b_arr_np s b)) s (fst (fst (step_b cfg s b))).
Proof.
  set (R := Org (b_arr_mb s b) (b_arr_np s b)).
  assert (HR : PreO R) by apply PreO_Org.
  assert (Hid : Cx R s s) by (apply Cx_refl; exact HR).
  destruct b as [c|c msg o|c|fault|dt fault]; unfold step_b.
  - destruct (has_conn c s); [exact Hid|].
    unfold run_m, on_open, send. cbn [fst].
    apply Cx_frame; [exact HR|]. apply Cx_same; [exact HR|reflexivity|reflexivity].
  - unfold has_conn. destruct (lookup_conn c (conns s)) as [cs|] eqn:Hl; [|exact Hid].
    pose proof (on_message_cx s c cs msg o Hl) as W. cbv zeta in W. unfold wp in W.
    destruct (on_message cfg c msg o s) as [u s'|e s']; cbn [fst]; [exact W|].
    destruct (MbFactsA.drop_conn_frame c s') as [Dw [_ Dl]].
    eapply Cx_post; [exact Dw|exact Dl|exact W].
  - destruct (has_conn c s); cbn [fst]; [|exact Hid].
    destruct (MbFactsA.drop_conn_frame c s) as [Dw [_ Dl]].
    eapply Cx_post; [exact Dw|exact Dl|exact Hid].
  - pose proof (CxM_expire_Org cfg _ _ fault s : wp _ (fun _ s' => Cx R s s') _ s) as W.
    unfold wp in W. unfold run_m.
    destruct (expire cfg fault s) as [u s'|e s']; cbn [fst]; exact W.
  - destruct (dt <? 0); [exact Hid|]. cbv zeta.
    set (s1 := set_now s (now s + dt)).
    destruct (next_due s1 <=? now s1).
    + pose proof (CxM_expire_Org cfg _ _ fault s1 : wp _ (fun _ s' => Cx R s1 s') _ s1) as W.
      unfold wp in W. unfold run_m.
      destruct (expire cfg fault s1) as [u s'|e s']; cbn [fst];
        (eapply Cx_post; [| |eapply (Cx_pre R s s1); [reflexivity|reflexivity|exact W]]; reflexivity).
    + cbn [fst]. apply Cx_same; [exact HR|reflexivity|reflexivity].
Qed.

Lemma boot_org P Q c u t : Org P Q c (chan_w (fst (fst (boot_on cfg c u t)))).
Proof.
  rewrite (boot_on_eq cfg c u t).
  set (S0 := mkState c c u u [] [] t t t (t + period cfg) []).
  pose proof (CxM_expire_Org cfg P Q false S0) as W. unfold wp in W.
  destruct (expire cfg false S0) as [x s'|e s']; cbn [fst chan_w set_log]; exact (proj1 W).
Qed.

(** the new side rows of an event: those of the command it is, or dies in *)
Definition ev_arr_mb (s : state) (e : event) (x : string * string * Z) : Prop :=
  match e with EB b | ECrash _ b => b_arr_mb s b x | ERestart => False end.
Definition ev_arr_np (s : state) (e : event) (x : Z * string * Z) : Prop :=
  match e with EB b | ECrash _ b => b_arr_np s b x | ERestart => False end.

(** every event, crashes at any commit included: a side row that was not there before the
    event (same key, same [added]) was created by the event, which is a command on a connection
    bound to the row's side, concerning the row's mailbox / nameplate, and the row's [added] is the
    clock of the state the command arrived in *)
Theorem step_org s e :
  SInv s -> log s = [] ->
  Org (ev_arr_mb s e) (ev_arr_np s e) (chan_w s) (chan_w (fst (step cfg s e))).
Proof.
  intros HS Hlog. destruct (PreO_Org (ev_arr_mb s e) (ev_arr_np s e)) as [Rr Rt].
  destruct e as [b|k b|].
  - pose proof (step_b_org s b) as [H _]. unfold step. rewrite (MbFactsA.set_log_nil s Hlog).
    destruct (step_b cfg s b) as [[s1 valid] x]. cbn [fst chan_w set_log] in *. exact H.
  - destruct (crash_fst cfg s k b Hlog) as [u Ef]. rewrite Ef.
    eapply Rt; [|apply boot_org].
    destruct (step_b_inv cfg Hexp s b HS Hlog) as [H1 _].
    destruct (step_b_org s b) as [A [l [El Hl]]]. rewrite Hlog, app_nil_r in El.
    destruct (crash_chan_in cfg s k b) as [E|[E|E]].
    + rewrite E. destruct (si_clean _ H1) as [K _]. rewrite <- K. exact A.
    + rewrite E. destruct (si_clean _ HS) as [K _]. rewrite <- K. apply Rr.
    + rewrite El in E. exact (Hl _ E).
  - unfold step. cbv zeta.
    pose proof (boot_org (fun _ => False) (fun _ => False) (chan_c (set_log s [])) (usage_c (set_log s []))
                         (now (set_log s []))) as B.
    destruct (boot_on cfg (chan_c (set_log s [])) (usage_c (set_log s [])) (now (set_log s [])))
      as [[s1 bl] x]. cbn [fst chan_c set_log] in *.
    destruct (si_clean _ HS) as [K _]. rewrite K. exact B.
Qed.

End OrgEvents.
Print Assumptions step_org.


(** ** histories *)

Lemma af_run_snoc cfg h : forall s e,
  fst (run cfg s (h ++ [e])) = fst (step cfg (fst (run cfg s h)) e).
Proof.
  induction h as [|e0 h IH]; intros s e; cbn [app run].
  - cbn [fst]. destruct (step cfg s e) as [s1 o1]. reflexivity.
  - specialize (IH (fst (step cfg s e0)) e). destruct (step cfg s e0) as [s1 o1]. cbn [fst] in *.
    destruct (run cfg s1 (h ++ [e])) as [s2 os2]. destruct (run cfg s1 h) as [s3 os3]. exact IH.
Qed.

Lemma snoc_split {A} (l : list A) x l1 l2 :
  l ++ [x] = l1 ++ l2 -> (l2 = [] /\ l1 = l ++ [x]) \/ (exists l2', l2 = l2' ++ [x] /\ l = l1 ++ l2').
Proof.
  revert l2. intros l2. pattern l2. apply rev_ind; clear l2.
  - intros E. left. rewrite app_nil_r in E. split; [reflexivity|symmetry; exact E].
  - intros z l2' _ E. right. rewrite app_assoc in E. apply app_inj_tail in E.
    destruct E as [E1 E2]. subst z. exists l2'. split; [reflexivity|exact E1].
Qed.

(** [e] is the command [msg] on connection [c], or the process dies while handling it *)
Definition cmd_event (e : event) (c : nat) (msg : command) (o : oracle) : Prop :=
  e = EB (ECmd c msg o) \/ exists k, e = ECrash k (ECmd c msg o).

Section History.
Variable cfg : config.
Hypothesis Hexp : 0 < exp cfg.
Variable t0 : Z.

Local Notation st h := (fst (run cfg (init cfg t0) h)).

Lemma st_inv h : SInv (st h) /\ log (st h) = [].
Proof.
  destruct (init_spec cfg Hexp t0) as [H0 L0]. exact (ActivityFacts.run_SInv cfg Hexp h _ H0 L0).
Qed.

Lemma init_no_sides : mbv (chan_w (init cfg t0)) = [] /\ npv (chan_w (init cfg t0)) = [].
Proof.
  unfold init.
  destruct (boot_org cfg (fun _ => False) (fun _ => False) empty_chan empty_usage t0) as [A B].
  set (d := chan_w (fst (fst (boot_on cfg empty_chan empty_usage t0)))) in *.
  split.
  - destruct (mbv d) as [|x l]; [reflexivity|]. destruct (A x (or_introl eq_refl)) as [[]|[]].
  - destruct (npv d) as [|x l]; [reflexivity|]. destruct (B x (or_introl eq_refl)) as [[]|[]].
Qed.

(** event [e], arriving after the history [h1], is the arrival of [side] at mailbox [m] at
    clock [t]: a command on a connection bound to [side] concerning [m], the clock of the state
    it arrives in reads [t], and no side row (m, side) exists in that state *)
Definition mb_arrival (h1 : list event) (e : event) (m side : string) (t : Z) : Prop :=
  exists c msg o a, cmd_event e c msg o /\ now (st h1) = t /\
    arrival_mb (st h1) c msg o a side m /\
    (forall r0, In r0 (mb_sides (chan_w (st h1))) -> ~ (mbs_mbox r0 = m /\ mbs_side r0 = side)).

Definition np_arrival (h1 : list event) (e : event) (npid : Z) (side : string) (t : Z) : Prop :=
  exists c msg o a, cmd_event e c msg o /\ now (st h1) = t /\
    arrival_np (st h1) c msg o a side npid /\
    (forall r0, In r0 (np_sides (chan_w (st h1))) -> ~ (nps_npid r0 = npid /\ nps_side r0 = side)).

Lemma mb_view_arrival h : forall x, In x (mbv (chan_w (st h))) ->
  exists h1 e h2, h = h1 ++ e :: h2 /\ mb_arrival h1 e (fst (fst x)) (snd (fst x)) (snd x) /\
    forall h2a h2b, h2 = h2a ++ h2b -> In x (mbv (chan_w (st (h1 ++ e :: h2a)))).
Proof.
  induction h as [|e h IH] using rev_ind; intros x Hx.
  - cbn [run fst] in Hx. rewrite (proj1 init_no_sides) in Hx. destruct Hx.
  - destruct (st_inv h) as [HS Hl].
    pose proof Hx as Hx0. rewrite af_run_snoc in Hx.
    destruct (step_fresh_keys cfg (st h) e HS) as [Fm _].
    destruct (Fm x Hx) as [Hold|Hfresh].
    + destruct (IH x Hold) as (h1 & e1 & h2 & Eh & Ha & Hp).
      exists h1, e1, (h2 ++ [e]). split; [rewrite Eh, <- app_assoc; reflexivity|].
      split; [exact Ha|]. intros h2a h2b E.
      destruct (snoc_split _ _ _ _ E) as [[-> ->]|(h2b' & -> & E2)].
      * replace (h1 ++ e1 :: h2 ++ [e]) with (h ++ [e]) by (rewrite Eh, <- app_assoc; reflexivity).
        exact Hx0.
      * exact (Hp h2a h2b' E2).
    + destruct (step_org cfg Hexp (st h) e HS Hl) as [Om _].
      destruct (Om x Hx) as [Hold|Hnew]; [destruct (Hfresh x Hold eq_refl)|].
      assert (Hc : exists c msg o, cmd_event e c msg o /\ arr_mb (st h) c msg o x).
      { destruct e as [b|k b|]; cbn [ev_arr_mb] in Hnew; [| |destruct Hnew];
          destruct b as [c|c msg o|c|fault|dt fault]; cbn [b_arr_mb] in Hnew; try (exfalso; exact Hnew).
        - exists c, msg, o. split; [left; reflexivity|exact Hnew].
        - exists c, msg, o. split; [right; exists k; reflexivity|exact Hnew]. }
      destruct Hc as (c & msg & o & Hce & Hn & a & Harr).
      exists h, e, []. split; [reflexivity|]. split.
      * exists c, msg, o, a. split; [exact Hce|]. split; [symmetry; exact Hn|]. split; [exact Harr|].
        intros r0 Hr0 [E1 E2]. apply (Hfresh (mbs_view r0)); [apply in_map; exact Hr0|].
        destruct x as [[m sd] t]. cbn [mbs_view fst snd] in *. congruence.
      * intros h2a h2b E. symmetry in E. apply app_eq_nil in E. destruct E as [-> _]. exact Hx0.
Qed.

Lemma np_view_arrival h : forall x, In x (npv (chan_w (st h))) ->
  exists h1 e h2, h = h1 ++ e :: h2 /\ np_arrival h1 e (fst (fst x)) (snd (fst x)) (snd x) /\
    forall h2a h2b, h2 = h2a ++ h2b -> In x (npv (chan_w (st (h1 ++ e :: h2a)))).
Proof.
  induction h as [|e h IH] using rev_ind; intros x Hx.
  - cbn [run fst] in Hx. rewrite (proj2 init_no_sides) in Hx. destruct Hx.
  - destruct (st_inv h) as [HS Hl].
    pose proof Hx as Hx0. rewrite af_run_snoc in Hx.
    destruct (step_fresh_keys cfg (st h) e HS) as [_ Fn].
    destruct (Fn x Hx) as [Hold|Hfresh].
    + destruct (IH x Hold) as (h1 & e1 & h2 & Eh & Ha & Hp).
      exists h1, e1, (h2 ++ [e]). split; [rewrite Eh, <- app_assoc; reflexivity|].
      split; [exact Ha|]. intros h2a h2b E.
      destruct (snoc_split _ _ _ _ E) as [[-> ->]|(h2b' & -> & E2)].
      * replace (h1 ++ e1 :: h2 ++ [e]) with (h ++ [e]) by (rewrite Eh, <- app_assoc; reflexivity).
        exact Hx0.
      * exact (Hp h2a h2b' E2).
    + destruct (step_org cfg Hexp (st h) e HS Hl) as [_ On].
      destruct (On x Hx) as [Hold|Hnew]; [destruct (Hfresh x Hold eq_refl)|].
      assert (Hc : exists c msg o, cmd_event e c msg o /\ arr_np (st h) c msg o x).
      { destruct e as [b|k b|]; cbn [ev_arr_np] in Hnew; [| |destruct Hnew];
          destruct b as [c|c msg o|c|fault|dt fault]; cbn [b_arr_np] in Hnew; try (exfalso; exact Hnew).
        - exists c, msg, o. split; [left; reflexivity|exact Hnew].
        - exists c, msg, o. split; [right; exists k; reflexivity|exact Hnew]. }
      destruct Hc as (c & msg & o & Hce & Hn & a & Harr).
      exists h, e, []. split; [reflexivity|]. split.
      * exists c, msg, o, a. split; [exact Hce|]. split; [symmetry; exact Hn|]. split; [exact Harr|].
        intros r0 Hr0 [E1 E2]. apply (Hfresh (nps_view r0)); [apply in_map; exact Hr0|].
        destruct x as [[i sd] t]. cbn [nps_view fst snd] in *. congruence.
      * intros h2a h2b E. symmetry in E. apply app_eq_nil in E. destruct E as [-> _]. exact Hx0.
Qed.

(** *** item 1: [side_added_is_arrival] *)

(** After ANY history from the initial state (crashes at any commit, restarts, sweeps), every
    mailbox side row [r] has an arrival event: the history splits as [h1 ++ e :: h2] where [e] is a
    command (`open`; `close` on a connection holding no mailbox; `claim`; `allocate`) -- or the
    process dying inside that command after the row was committed -- sent on a connection bound to
    the row's side, concerning the row's mailbox; the clock of the state before [e] IS the row's
    [added]; no row (mailbox, side) existed before [e]; and the row (same key, same [added]) has been
    there ever since (same incarnation). *)
Theorem mb_side_added_is_arrival h r :
  In r (mb_sides (chan_w (st h))) ->
  exists h1 e h2, h = h1 ++ e :: h2 /\
    mb_arrival h1 e (mbs_mbox r) (mbs_side r) (mbs_added r) /\
    forall h2a h2b, h2 = h2a ++ h2b ->
      exists r', In r' (mb_sides (chan_w (st (h1 ++ e :: h2a)))) /\ mbs_view r' = mbs_view r.
Proof.
  intros Hr. destruct (mb_view_arrival h (mbs_view r) (in_map _ _ _ Hr)) as (h1 & e & h2 & Eh & Ha & Hp).
  exists h1, e, h2. split; [exact Eh|]. split; [exact Ha|].
  intros h2a h2b E. specialize (Hp h2a h2b E). unfold mbv in Hp. apply in_map_iff in Hp.
  destruct Hp as (r' & Ev & Hr'). exists r'. split; assumption.
Qed.

(** the same for nameplate side rows ([nps_added]): the arrival is a `claim` or `allocate` *)
Theorem np_side_added_is_arrival h r :
  In r (np_sides (chan_w (st h))) ->
  exists h1 e h2, h = h1 ++ e :: h2 /\
    np_arrival h1 e (nps_npid r) (nps_side r) (nps_added r) /\
    forall h2a h2b, h2 = h2a ++ h2b ->
      exists r', In r' (np_sides (chan_w (st (h1 ++ e :: h2a)))) /\ nps_view r' = nps_view r.
Proof.
  intros Hr. destruct (np_view_arrival h (nps_view r) (in_map _ _ _ Hr)) as (h1 & e & h2 & Eh & Ha & Hp).
  exists h1, e, h2. split; [exact Eh|]. split; [exact Ha|].
  intros h2a h2b E. specialize (Hp h2a h2b E). unfold npv in Hp. apply in_map_iff in Hp.
  destruct Hp as (r' & Ev & Hr'). exists r'. split; assumption.
Qed.

(** both tables at once *)
Theorem side_added_is_arrival h :
  (forall r, In r (mb_sides (chan_w (st h))) ->
     exists h1 e h2, h = h1 ++ e :: h2 /\
       mb_arrival h1 e (mbs_mbox r) (mbs_side r) (mbs_added r) /\
       forall h2a h2b, h2 = h2a ++ h2b ->
         exists r', In r' (mb_sides (chan_w (st (h1 ++ e :: h2a)))) /\ mbs_view r' = mbs_view r) /\
  (forall r, In r (np_sides (chan_w (st h))) ->
     exists h1 e h2, h = h1 ++ e :: h2 /\
       np_arrival h1 e (nps_npid r) (nps_side r) (nps_added r) /\
       forall h2a h2b, h2 = h2a ++ h2b ->
         exists r', In r' (np_sides (chan_w (st (h1 ++ e :: h2a)))) /\ nps_view r' = nps_view r).
Proof. split; [exact (mb_side_added_is_arrival h)|exact (np_side_added_is_arrival h)]. Qed.

End History.
Print Assumptions mb_side_added_is_arrival.
Print Assumptions np_side_added_is_arrival.
Print Assumptions side_added_is_arrival.


(* ====================================================================== *)
(** * PART 2 -- [record_within_interval]: C16 at run level *)
(* ====================================================================== *)

Lemma in_np_records_run cfg h : forall s x,
  In x (np_records_run cfg s h) ->
  exists h1 e h2, h = h1 ++ e :: h2 /\ In x (np_records cfg (fst (run cfg s h1)) e).
Proof.
  induction h as [|e h IH]; intros s x Hx; cbn [np_records_run] in Hx; [destruct Hx|].
  apply in_app_or in Hx. destruct Hx as [Hx|Hx].
  - exists [], e, h. split; [reflexivity|exact Hx].
  - destruct (IH _ _ Hx) as (h1 & e1 & h2 & Eh & H1). exists (e :: h1), e1, h2.
    split; [rewrite Eh; reflexivity|]. rewrite QuiesceFacts.run_cons_fst. exact H1.
Qed.

Lemma in_mb_records_run cfg h : forall s x,
  In x (mb_records_run cfg s h) ->
  exists h1 e h2, h = h1 ++ e :: h2 /\ In x (mb_records cfg (fst (run cfg s h1)) e).
Proof.
  induction h as [|e h IH]; intros s x Hx; cbn [mb_records_run] in Hx; [destruct Hx|].
  apply in_app_or in Hx. destruct Hx as [Hx|Hx].
  - exists [], e, h. split; [reflexivity|exact Hx].
  - destruct (IH _ _ Hx) as (h1 & e1 & h2 & Eh & H1). exists (e :: h1), e1, h2.
    split; [rewrite Eh; reflexivity|]. rewrite QuiesceFacts.run_cons_fst. exact H1.
Qed.

Lemma ev_pre_np_sides s e : np_sides (ev_pre s e) = np_sides (chan_w s).
Proof.
  unfold ev_pre. destruct (ev_close s e) as [[[[[a m] side] mood] fresh]|]; [|reflexivity].
  destruct fresh; reflexivity.
Qed.

Lemma mbv_open_db d a m side w :
  mbv (open_db d a m side w) =
  mbv d ++ match sel_mbs d m side with Some _ => [] | None => [(m, side, w)] end.
Proof.
  unfold mbv, open_db. cbn [mb_sides]. destruct (sel_mbs d m side).
  - rewrite app_nil_r. reflexivity.
  - rewrite map_app. reflexivity.
Qed.

Lemma ev_mbdb_views s e : mbv (ev_mbdb s e) = mbv (ev_pre s e).
Proof.
  unfold ev_mbdb. destruct (ev_close s e) as [[[[[a m] side] mood] fresh]|]; [|reflexivity].
  apply mbv_upd_mbs_close.
Qed.

(** ** in a crash-free history every mailbox has a side row

    (C15 says "a mailbox with no side exists only after a crash"; this is what makes the
    [t_first] of a mailbox record always the arrival of a side.)  A claim creates the mailbox in
    its first transaction and the side row in its second, with a commit in between: the property
    holds at event boundaries of crash-free histories, not at every commit. *)

Definition mb_ids (d : chan_db) : list string := map mb_id (mailboxes d).
Definition sidedv (l : list (string * string * Z)) (m : string) : Prop :=
  exists x, In x l /\ fst (fst x) = m.
Definition all_sided (d : chan_db) : Prop := forall m, In m (mb_ids d) -> sidedv (mbv d) m.

(** a mailbox that appears has a side row; a mailbox that stays keeps having one *)
Definition TS (d d' : chan_db) : Prop :=
  (forall m, In m (mb_ids d') -> In m (mb_ids d) \/ sidedv (mbv d') m) /\
  (forall m, In m (mb_ids d') -> sidedv (mbv d) m -> sidedv (mbv d') m).

(** ... guarded by, and carrying, well-formedness (as CrashHist.meqI) *)
Definition TSI (d d' : chan_db) : Prop := DbInv d -> DbInv d' /\ TS d d'.

Lemma TS_refl d : TS d d.
Proof. split; auto. Qed.

Lemma TS_trans d1 d2 d3 : TS d1 d2 -> TS d2 d3 -> TS d1 d3.
Proof.
  intros [A1 A2] [B1 B2]. split.
  - intros m H3. destruct (B1 m H3) as [H2|H2]; [|right; exact H2].
    destruct (A1 m H2) as [H1|H1]; [left; exact H1|right; exact (B2 m H3 H1)].
  - intros m H3 S1. destruct (B1 m H3) as [H2|H2]; [|exact H2].
    exact (B2 m H3 (A2 m H2 S1)).
Qed.

Lemma PreO_TS : PreO TS.
Proof. split; [exact TS_refl|exact TS_trans]. Qed.

Lemma PreO_TSI : PreO TSI.
Proof.
  split.
  - intros d H. split; [exact H|apply TS_refl].
  - intros d1 d2 d3 H1 H2 H. destruct (H1 H) as [I2 M1]. destruct (H2 I2) as [I3 M2].
    split; [exact I3|eapply TS_trans; eauto].
Qed.

Lemma TS_all_sided d d' : TS d d' -> all_sided d -> all_sided d'.
Proof.
  intros [A1 A2] H m Hm. destruct (A1 m Hm) as [K|K]; [|exact K]. exact (A2 m Hm (H m K)).
Qed.

Lemma TS_same d d' : mb_ids d' = mb_ids d -> mbv d' = mbv d -> TS d d'.
Proof. intros E1 E2. unfold TS. rewrite E1, E2. split; auto. Qed.

Lemma TS_shrink d d' :
  incl (mb_ids d') (mb_ids d) ->
  (forall x, In x (mbv d) -> In (fst (fst x)) (mb_ids d') -> In x (mbv d')) -> TS d d'.
Proof.
  intros Hi Hk. split.
  - intros m Hm. left. apply Hi. exact Hm.
  - intros m Hm (x & Hx & Ex). exists x. split; [|exact Ex]. apply Hk; [exact Hx|]. rewrite Ex. exact Hm.
Qed.

Lemma TS_grow d d' :
  incl (mbv d) (mbv d') ->
  (forall m, In m (mb_ids d') -> In m (mb_ids d) \/ sidedv (mbv d') m) -> TS d d'.
Proof.
  intros Hi Hn. split; [exact Hn|].
  intros m _ (x & Hx & Ex). exists x. split; [apply Hi; exact Hx|exact Ex].
Qed.

Lemma TS_rm_np d i : TS d (rm_np d i).
Proof. apply TS_same; reflexivity. Qed.

Lemma TS_rm_mb d m : TS d (rm_mb d m).
Proof.
  apply TS_shrink.
  - unfold mb_ids, rm_mb. cbn [mailboxes]. apply incl_map_filter.
  - intros x Hx Hid. unfold mb_ids, rm_mb in Hid. cbn [mailboxes] in Hid.
    apply in_map_iff in Hid. destruct Hid as (r & Er & Hr). apply filter_In in Hr.
    destruct Hr as [_ Hr]. apply negb_true_iff, seqb_neq in Hr.
    unfold mbv in *. cbn [rm_mb mb_sides]. apply in_map_iff in Hx. destruct Hx as (y & Ey & Hy).
    apply in_map_iff. exists y. split; [exact Ey|]. apply filter_In. split; [exact Hy|].
    apply negb_true_iff, seqb_neq. subst x. cbn [mbs_view fst] in Er. congruence.
Qed.

Lemma TS_fold_rm_np ids : forall d, TS d (fold_left rm_np ids d).
Proof.
  induction ids as [|i rest IH]; intros d; cbn [fold_left]; [apply TS_refl|].
  eapply TS_trans; [apply TS_rm_np|apply IH].
Qed.

Lemma TS_fold_rm_mb ms : forall d, TS d (fold_left rm_mb ms d).
Proof.
  induction ms as [|m rest IH]; intros d; cbn [fold_left]; [apply TS_refl|].
  eapply TS_trans; [apply TS_rm_mb|apply IH].
Qed.

Lemma add_mailbox_ids d a m f w d1 :
  add_mailbox d a m f w = Some d1 -> incl (mb_ids d1) (mb_ids d ++ [m]).
Proof.
  unfold add_mailbox. destruct (sel_mb d a m).
  - intros H; inversion H. apply incl_appl, incl_refl.
  - intros H. apply ins_mb_spec in H. destruct H as [_ ->].
    unfold mb_ids. cbn [mailboxes set_mailboxes]. rewrite map_app. cbn [map mb_id]. apply incl_refl.
Qed.

Lemma upd_touch_ids d m w : mb_ids (upd_touch d m w) = mb_ids d.
Proof. exact (proj2 (proj2 (proj2 (upd_touch_tables d m w)))). Qed.

Lemma open_body_ids d a m side w d2 :
  open_body d a m side w = TxOk tt d2 -> incl (mb_ids d2) (mb_ids d ++ [m]).
Proof.
  unfold open_body. destruct (add_mailbox d a m false w) as [d1|] eqn:E1; [|discriminate].
  destruct (mailbox_open_body d1 m side w) as [d2'|] eqn:E2; [|discriminate].
  intros H; inversion H; subst d2'. apply add_mailbox_ids in E1.
  assert (E : mb_ids d2 = mb_ids d1).
  { unfold mailbox_open_body in E2. destruct (sel_mbs d1 m side).
    - inversion E2. apply upd_touch_ids.
    - destruct (ins_mbs d1 _) as [d3|] eqn:E3; [|discriminate]. apply ins_mbs_spec in E3.
      destruct E3 as [_ ->]. inversion E2. rewrite upd_touch_ids. reflexivity. }
  rewrite E. exact E1.
Qed.

Lemma open_body_sidedv d a m side w d2 :
  open_body d a m side w = TxOk tt d2 -> sidedv (mbv d2) m.
Proof.
  intros H. apply open_body_side in H. unfold mb_side_list in H. apply in_map_iff in H.
  destruct H as (r & _ & Hr). apply sel_mbs_all_In in Hr. destruct Hr as [Hr Em].
  exists (mbs_view r). split; [apply in_map; exact Hr|exact Em].
Qed.

Lemma claim_side_body_mbs d npid mbox side w :
  mailboxes (txdb (claim_side_body d npid mbox side w)) = mailboxes d.
Proof.
  unfold claim_side_body. destruct (sel_nps d npid side) as [r|].
  - destruct (nps_claimed r); reflexivity.
  - destruct (ins_nps d _) as [d1|] eqn:E; [|reflexivity]. apply ins_nps_spec in E.
    destruct E as [_ ->]. reflexivity.
Qed.

Lemma claim_body_ids d a n side w draw npid mbox d1 :
  claim_body d a n side w draw = TxOk (npid, mbox) d1 -> incl (mb_ids d1) (mb_ids d ++ [mbox]).
Proof.
  unfold claim_body. destruct (sel_np d a n) as [row|].
  - intros H. pose proof (claim_side_body_mbs d (np_id row) (np_mbox row) side w) as M.
    rewrite H in M. cbn [txdb] in M. unfold mb_ids. rewrite M. apply incl_appl, incl_refl.
  - destruct draw as [bytes|]; [|discriminate]. cbv zeta.
    destruct (add_mailbox d a (genid bytes) true w) as [d0|] eqn:E1; [|discriminate].
    destruct (ins_np d0 a n (genid bytes)) as [[d2 i]|] eqn:E2; [|discriminate].
    apply ins_np_spec in E2. destruct E2 as (_ & _ & ->). intros H.
    match type of H with claim_side_body ?dd ?ii ?mm _ _ = _ =>
      pose proof (claim_side_body_mbs dd ii mm side w) as M;
      pose proof (claim_side_body_views dd ii mm side w) as V end.
    rewrite H in M, V. cbn [txdb mailboxes] in M. destruct V as (V & _). inversion V; subst.
    unfold mb_ids at 1. rewrite M. exact (add_mailbox_ids _ _ _ _ _ _ E1).
Qed.

(** the two transactions of a claim together *)
Lemma claim_open_TS d a n side w draw npid mbox d1 d2 :
  claim_body d a n side w draw = TxOk (npid, mbox) d1 ->
  open_body d1 a mbox side w = TxOk tt d2 -> TS d d2.
Proof.
  intros Ec Eo. apply TS_grow.
  - pose proof (claim_body_VGrow d a n side w draw) as G1. rewrite Ec in G1.
    pose proof (open_body_VGrow d1 a mbox side w) as G2. rewrite Eo in G2. cbn [txdb] in *.
    eapply incl_tran; [apply (proj1 (proj1 G1))|apply (proj1 (proj1 G2))].
  - intros m Hm. apply (open_body_ids _ _ _ _ _ _ Eo) in Hm. apply in_app_or in Hm.
    destruct Hm as [Hm|[<-|[]]]; [|right; exact (open_body_sidedv _ _ _ _ _ _ Eo)].
    apply (claim_body_ids _ _ _ _ _ _ _ _ _ Ec) in Hm. apply in_app_or in Hm.
    destruct Hm as [Hm|[<-|[]]]; [left; exact Hm|right; exact (open_body_sidedv _ _ _ _ _ _ Eo)].
Qed.

(** *** the transaction bodies (other than a claim's first) *)
Section SidedBodies.
Variable cfg : config.

Lemma tsi_open_body d a m side w : TSI d (txdb (open_body d a m side w)).
Proof.
  intros Hinv. pose proof (open_body_ok d a m side w Hinv) as Hok.
  pose proof (open_body_VGrow d a m side w) as G.
  destruct (open_body d a m side w) as [[] d2|e d2] eqn:E; cbn [txdb] in *.
  - split; [apply Hok|]. apply TS_grow; [apply (proj1 (proj1 G))|].
    intros m' Hm. apply (open_body_ids _ _ _ _ _ _ E) in Hm. apply in_app_or in Hm.
    destruct Hm as [Hm|[<-|[]]]; [left; exact Hm|right; exact (open_body_sidedv _ _ _ _ _ _ E)].
  - destruct Hok as (_ & -> & _). split; [exact Hinv|apply TS_refl].
Qed.

Lemma tsi_close_mark d a m side mood :
  TSI d (txdb (match close_mark_body d a m side mood with
               | None => TxOk None d
               | Some (fornp, d1) => TxOk (Some fornp) d1
               end)).
Proof.
  intros Hinv. destruct (close_mark_views d a m side mood) as [E1 _]. cbv zeta in E1.
  destruct (close_mark_body d a m side mood) as [[f d1]|] eqn:E; cbn [txdb] in *.
  - split; [apply (close_mark_body_ok _ _ _ _ _ _ _ Hinv E)|].
    apply TS_same; [|exact E1]. unfold close_mark_body in E.
    destruct (sel_mb d a m); [|discriminate]. destruct (sel_mbs d m side); [|discriminate].
    inversion E. reflexivity.
  - split; [exact Hinv|apply TS_refl].
Qed.

Lemma tsi_release_mark d a n side :
  TSI d (txdb (match release_mark_body d a n side with
               | None => TxOk None d
               | Some (npid, d1) => TxOk (Some npid) d1
               end)).
Proof.
  intros Hinv. destruct (release_mark_views d a n side) as [E1 _]. cbv zeta in E1.
  destruct (release_mark_body d a n side) as [[i d1]|] eqn:E; cbn [txdb] in *.
  - split; [apply (release_mark_body_ok _ _ _ _ _ _ Hinv E)|].
    apply TS_same; [|exact E1]. unfold release_mark_body in E.
    destruct (sel_np d a n) as [np|]; [|discriminate].
    destruct (sel_nps d (np_id np) side); [|discriminate]. inversion E. reflexivity.
  - split; [exact Hinv|apply TS_refl].
Qed.

Lemma tsi_close_delete d a m fornp w : TSI d (txdb (close_delete_body cfg d a m fornp w)).
Proof.
  intros Hinv. destruct (close_delete_body_ok cfg d a m fornp w Hinv) as (r & d' & E & Hinv' & _).
  rewrite E. cbn [txdb]. split; [exact Hinv'|].
  unfold close_delete_body in E. cbv zeta in E.
  destruct (existsb mbs_opened (sel_mbs_all d m)); [inversion E; apply TS_refl|].
  destruct (del_nameplates_body cfg d a _ w false []) as [unps d1|] eqn:E1; [|discriminate].
  apply del_nps_form in E1.
  destruct (del_mailbox_body cfg d1 a m fornp _ w false) as [umbs d2|] eqn:E2; [|discriminate].
  apply del_mailbox_form in E2. inversion E; subst.
  eapply TS_trans; [apply TS_fold_rm_np|apply TS_rm_mb].
Qed.

Lemma tsi_release_delete d a npid w : TSI d (txdb (release_delete_body cfg d a npid w)).
Proof.
  intros Hinv. pose proof (release_delete_txp cfg a npid w d Hinv) as T.
  unfold release_delete_body in *. cbv zeta in *.
  destruct (existsb nps_claimed (sel_nps_all d npid)); [split; [exact Hinv|apply TS_refl]|].
  rewrite del_np_rm in *.
  destruct (usage_on cfg); [|split; [apply T|apply TS_rm_np]].
  destruct (summarize_nameplate _ _ _ _ _); (split; [apply T|apply TS_rm_np]).
Qed.

Lemma tsi_prune_body d a w old : TSI d (txdb (prune_body cfg d a w old)).
Proof.
  intros Hinv.
  destruct (prune_body_ok cfg d a w old Hinv) as (mo & u1 & u2 & d' & E & Hinv' & _).
  rewrite E. cbn [txdb]. split; [exact Hinv'|].
  unfold prune_body in E. cbv zeta in E.
  destruct (del_nameplates_body cfg d a _ w true []) as [unps d1|] eqn:E1; [|discriminate].
  apply del_nps_form in E1.
  destruct (del_mailboxes_body cfg d1 a _ w []) as [umbs d2|] eqn:E2; [|discriminate].
  apply del_mbs_form in E2. inversion E; subst.
  eapply TS_trans; [apply TS_fold_rm_np|apply TS_fold_rm_mb].
Qed.

Lemma tsi_touch_all d ms w : TSI d (touch_all d ms w).
Proof.
  intros Hinv. split; [apply (touch_all_ok d ms w Hinv)|].
  destruct (touch_all_tables ms w d) as (A1 & _ & _ & A4).
  apply TS_same; [exact A4|]. unfold mbv. rewrite A1. reflexivity.
Qed.

Local Hint Resolve PreO_TSI PreO_TS : cxdb.

Lemma CxM_open_mailbox_TSI a m side w : CxM TSI (open_mailbox a m side w).
Proof. unfold open_mailbox. cx. apply tsi_open_body. Qed.

Lemma CxM_release_nameplate_TSI a n side w : CxM TSI (release_nameplate cfg a n side w).
Proof.
  unfold release_nameplate, write_usage. cx; [apply tsi_release_mark|apply tsi_release_delete].
Qed.

Lemma CxM_mailbox_close_TSI a m side mood w : CxM TSI (mailbox_close cfg a m side mood w).
Proof.
  unfold mailbox_close, write_usage. cx; [apply tsi_close_mark|apply tsi_close_delete].
Qed.

Lemma CxM_prune_app_TSI a w old : CxM TSI (prune_app cfg a w old).
Proof.
  unfold prune_app, write_usage. cx; [cbn [txdb]; apply tsi_touch_all|apply tsi_prune_body].
Qed.

Lemma CxM_prune_apps_TSI w old apps : CxM TSI (prune_apps cfg apps w old).
Proof.
  induction apps as [|a apps IH]; cbn [prune_apps]; [apply CxM_ret; cx_side|].
  apply CxM_bind; [cx_side|apply CxM_prune_app_TSI|intros _; exact IH].
Qed.

Lemma CxM_expire_TSI fault : CxM TSI (expire cfg fault).
Proof. unfold expire, prune_all_apps. cx. apply CxM_prune_apps_TSI. Qed.

Local Hint Resolve CxM_open_mailbox_TSI CxM_release_nameplate_TSI CxM_mailbox_close_TSI : cxdb.

Lemma CxM_handle_ping_TSI c msg : CxM TSI (handle_ping c msg).
Proof. unfold handle_ping, err. cx. Qed.
Lemma CxM_handle_bind_TSI c msg : CxM TSI (handle_bind cfg c msg).
Proof. unfold handle_bind, err. cx. Qed.
Lemma CxM_handle_list_TSI c a : CxM TSI (handle_list cfg c a).
Proof. unfold handle_list. cx. Qed.
Lemma CxM_handle_release_TSI c a side msg : CxM TSI (handle_release cfg c a side msg).
Proof. unfold handle_release, err. cx. Qed.
Lemma CxM_handle_open_TSI c a side msg : CxM TSI (handle_open c a side msg).
Proof. unfold handle_open, err, catch_crowded, get_messages. cx. Qed.
Lemma CxM_handle_close_TSI c a side msg : CxM TSI (handle_close cfg c a side msg).
Proof. unfold handle_close, err, catch_crowded. cx. Qed.

(** an `add` touches no side row and no mailbox id (well-formedness is not needed, nor kept
    track of: it is known at event boundaries anyway) *)
Lemma CxM_handle_add_TS c a side msg : CxM TS (handle_add c a side msg).
Proof.
  unfold handle_add, err, add_message. cx. cbn [txdb]. apply TS_same; [rewrite upd_touch_ids; reflexivity|reflexivity].
Qed.

(** from the calculus to the final state *)
Lemma cxm_tsi {A} (m : M A) s :
  CxM TSI m -> DbInv (chan_w s) ->
  wp m (fun _ s' => TS (chan_w s) (chan_w s')) (fun _ s' => TS (chan_w s) (chan_w s')) s.
Proof.
  intros Hm Hinv. eapply wp_conseq; [apply (Hm s)| |]; intros x s' [H _]; exact (proj2 (H Hinv)).
Qed.

Lemma cxm_ts {A} (m : M A) s :
  CxM TS m ->
  wp m (fun _ s' => TS (chan_w s) (chan_w s')) (fun _ s' => TS (chan_w s) (chan_w s')) s.
Proof. intros Hm. eapply wp_conseq; [apply (Hm s)| |]; intros x s' [H _]; exact H. Qed.

(** *** claim and allocate: the two transactions together *)
Lemma claim_nameplate_ts a n side w draw s :
  DbInv (chan_w s) ->
  wp (claim_nameplate a n side w draw)
     (fun _ s' => TS (chan_w s) (chan_w s')) (fun _ s' => TS (chan_w s) (chan_w s')) s.
Proof.
  intros Hinv. pose proof (claim_body_ok (chan_w s) a n side w draw Hinv) as Hok.
  destruct (claim_body (chan_w s) a n side w draw) as [[npid mbox] d1|e d1] eqn:Ecb.
  - destruct Hok as (Hinv1 & _ & Hmb1 & _).
    pose proof (open_body_ok d1 a mbox side w Hinv1) as Hob.
    destruct (open_body d1 a mbox side w) as [[] d2|e2 d2'] eqn:Eob;
      [|exfalso; destruct Hob as (_ & _ & _ & Hno); exact (Hno Hmb1)].
    pose proof (claim_open_TS _ _ _ _ _ _ _ _ _ _ Ecb Eob) as T.
    eapply wp_conseq; [exact (claim_nameplate_ok_wp a n side w draw s npid mbox d1 d2 Ecb Eob)| |];
      intros x s' [_ ->]; exact T.
  - destruct Hok as (-> & _).
    eapply wp_conseq; [exact (claim_nameplate_fail_wp a n side w draw s e Ecb)| |].
    + intros x s' [].
    + intros e' s' [_ ->]. apply TS_refl.
Qed.

Lemma handle_claim_ts c a side msg o s :
  DbInv (chan_w s) ->
  wp (handle_claim c a side msg o)
     (fun _ s' => TS (chan_w s) (chan_w s')) (fun _ s' => TS (chan_w s) (chan_w s')) s.
Proof.
  intros Hinv. unfold handle_claim.
  destruct (m_nameplate msg) as [n|]; [|apply wp_raise, TS_refl].
  apply wp_bind, wp_get_conn.
  destruct (c_did_claim _); [apply wp_raise, TS_refl|].
  apply wp_bind, wp_set_conn. apply wp_bind, wp_get. apply wp_bind.
  unfold catch_crowded_reclaimed. apply wp_try_catch.
  match goal with |- wp _ _ _ ?s1 => set (s1' := s1) end.
  eapply wp_conseq; [apply (claim_nameplate_ts a n side (now s1') (o_draw o) s1' Hinv)| |].
  - intros m s' T. apply wp_send. exact T.
  - intros e s' T. destruct e; apply wp_raise; exact T.
Qed.

Lemma handle_allocate_ts c a side o s :
  DbInv (chan_w s) ->
  wp (handle_allocate c a side o)
     (fun _ s' => TS (chan_w s) (chan_w s')) (fun _ s' => TS (chan_w s) (chan_w s')) s.
Proof.
  intros Hinv. unfold handle_allocate. apply wp_bind, wp_get_conn.
  destruct (c_did_allocate _); [apply wp_raise, TS_refl|].
  apply wp_bind, wp_get. apply wp_bind. unfold allocate_nameplate.
  apply wp_bind, wp_q. destruct (find_available (sel_names (chan_w s) a) (o_alloc o)) as [n| |];
    [|apply wp_raise, TS_refl|apply wp_raise, TS_refl].
  apply wp_bind.
  eapply wp_conseq; [apply (claim_nameplate_ts a n side (now s) (o_draw o) s Hinv)| |].
  - intros m s' T. apply wp_ret. apply wp_bind, wp_get_conn. apply wp_bind, wp_set_conn.
    apply wp_send. exact T.
  - intros e s' T. exact T.
Qed.

(** *** a command, a base event, an event that is not a crash *)
Lemma on_message_ts c msg o s :
  DbInv (chan_w s) ->
  wp (on_message cfg c msg o)
     (fun _ s' => TS (chan_w s) (chan_w s')) (fun _ s' => TS (chan_w s) (chan_w s')) s.
Proof.
  intros Hinv. unfold on_message. apply wp_try_catch.
  assert (Hh : forall e s', TS (chan_w s) (chan_w s') ->
            wp (match e with XErr k => send c (FError k msg) | _ => raise e end)
               (fun _ s'' => TS (chan_w s) (chan_w s'')) (fun _ s'' => TS (chan_w s) (chan_w s'')) s').
  { intros e s' T. destruct e; try (apply wp_raise; exact T). apply wp_send. exact T. }
  destruct (m_type msg) as [t|].
  2:{ apply wp_raise. exact (Hh (XErr ErrOther) s (TS_refl _)). }
  apply wp_bind, wp_send.
  set (s0 := set_log s (LFrame c (FAck (m_id msg)) (is_clean s) (now s) :: log s)).
  assert (W : wp (dispatch cfg c t msg o) (fun _ s' => TS (chan_w s0) (chan_w s'))
                 (fun _ s' => TS (chan_w s0) (chan_w s')) s0).
  { change (DbInv (chan_w s0)) in Hinv.
    destruct t; unfold dispatch; cbv iota;
      try exact (cxm_tsi _ s0 (CxM_handle_ping_TSI c msg) Hinv);
      try exact (cxm_tsi _ s0 (CxM_handle_bind_TSI c msg) Hinv);
      apply wp_bind, wp_get_conn;
      (destruct (c_bound _) as [[a side]|]; [|apply wp_raise, TS_refl]).
    - exact (cxm_tsi _ s0 (CxM_handle_list_TSI c a) Hinv).
    - apply handle_allocate_ts. exact Hinv.
    - apply handle_claim_ts. exact Hinv.
    - exact (cxm_tsi _ s0 (CxM_handle_release_TSI c a side msg) Hinv).
    - exact (cxm_tsi _ s0 (CxM_handle_open_TSI c a side msg) Hinv).
    - exact (cxm_ts _ s0 (CxM_handle_add_TS c a side msg)).
    - exact (cxm_tsi _ s0 (CxM_handle_close_TSI c a side msg) Hinv).
    - apply wp_raise, TS_refl. }
  eapply wp_conseq; [exact W| |].
  - intros u s' T. exact T.
  - intros e s' T. exact (Hh e s' T).
Qed.

Lemma step_b_ts s b : SInv s -> TS (chan_w s) (chan_w (fst (fst (step_b cfg s b)))).
Proof.
  intros HS. pose proof (si_db s HS) as Hinv.
  destruct b as [c|c msg o|c|fault|dt fault]; unfold step_b.
  - destruct (has_conn c s); [apply TS_refl|]. unfold run_m, on_open, send. cbn [fst]. apply TS_refl.
  - destruct (has_conn c s); [|apply TS_refl].
    pose proof (on_message_ts c msg o s Hinv) as W. unfold wp in W.
    destruct (on_message cfg c msg o s) as [u s'|e s']; cbn [fst]; [exact W|].
    destruct (MbFactsA.drop_conn_frame c s') as [Dw _]. rewrite Dw. exact W.
  - destruct (has_conn c s); cbn [fst]; [|apply TS_refl].
    destruct (MbFactsA.drop_conn_frame c s) as [Dw _]. rewrite Dw. apply TS_refl.
  - pose proof (cxm_tsi _ s (CxM_expire_TSI fault) Hinv) as W. unfold wp in W. unfold run_m.
    destruct (expire cfg fault s) as [u s'|e s']; cbn [fst]; exact W.
  - destruct (dt <? 0); [apply TS_refl|]. cbv zeta.
    set (s1 := set_now s (now s + dt)).
    destruct (next_due s1 <=? now s1); [|apply TS_refl].
    pose proof (cxm_tsi _ s1 (CxM_expire_TSI fault) Hinv) as W. unfold wp in W. unfold run_m.
    destruct (expire cfg fault s1) as [u s'|e s']; cbn [fst]; exact W.
Qed.

Lemma boot_ts c u t : DbInv c -> TS c (chan_w (fst (fst (boot_on cfg c u t)))).
Proof.
  intros Hinv. rewrite (boot_on_eq cfg c u t).
  set (S0 := mkState c c u u [] [] t t t (t + period cfg) []).
  pose proof (cxm_tsi _ S0 (CxM_expire_TSI false) Hinv) as W. unfold wp in W.
  destruct (expire cfg false S0) as [x s'|e s']; cbn [fst chan_w set_log]; exact W.
Qed.

Lemma step_ts s e :
  SInv s -> log s = [] -> LifeFacts.not_crash e -> TS (chan_w s) (chan_w (fst (step cfg s e))).
Proof.
  intros HS Hlog Hnc. destruct e as [b|k b|]; [|destruct Hnc|].
  - pose proof (step_b_ts s b HS) as H. unfold step. rewrite (MbFactsA.set_log_nil s Hlog).
    destruct (step_b cfg s b) as [[s1 valid] x]. cbn [fst chan_w set_log] in *. exact H.
  - unfold step. cbv zeta.
    assert (Hc : DbInv (chan_c (set_log s []))).
    { cbn [chan_c set_log]. destruct (si_clean _ HS) as [K _]. rewrite <- K. apply (si_db _ HS). }
    pose proof (boot_ts (chan_c (set_log s [])) (usage_c (set_log s [])) (now (set_log s [])) Hc) as B.
    destruct (boot_on cfg (chan_c (set_log s [])) (usage_c (set_log s [])) (now (set_log s [])))
      as [[s1 bl] x]. cbn [fst chan_c set_log] in *.
    destruct (si_clean _ HS) as [K _]. rewrite K. exact B.
Qed.

End SidedBodies.

Section SidedRun.
Variable cfg : config.
Hypothesis Hexp : 0 < exp cfg.

Lemma run_all_sided h : forall s,
  SInv s -> log s = [] -> all_sided (chan_w s) -> Forall LifeFacts.not_crash h ->
  all_sided (chan_w (fst (run cfg s h))).
Proof.
  induction h as [|e h IH]; intros s HS Hl Ha Hh; [exact Ha|].
  inversion Hh as [|? ? He Hh']; subst. rewrite QuiesceFacts.run_cons_fst.
  destruct (QuiesceFacts.step_SInv cfg Hexp s e HS) as [HS1 Hl1].
  apply IH; [exact HS1|exact Hl1| |exact Hh'].
  exact (TS_all_sided _ _ (step_ts cfg s e HS Hl He) Ha).
Qed.

Lemma init_all_sided t0 h :
  Forall LifeFacts.not_crash h -> all_sided (chan_w (fst (run cfg (init cfg t0) h))).
Proof.
  intros Hh. destruct (init_spec cfg Hexp t0) as [H0 L0].
  assert (A0 : all_sided (chan_w (init cfg t0))).
  { unfold init. apply (TS_all_sided empty_chan); [apply boot_ts, DbInv_empty|]. intros m []. }
  exact (run_all_sided h _ H0 L0 A0 Hh).
Qed.

(** in every state reached from the initial one by a history without crash events (restarts,
    sweeps, failing sweeps, internal failures of handlers included) every mailbox row has at
    least one side row *)
Theorem crash_free_mailboxes_sided t0 h r :
  Forall LifeFacts.not_crash h ->
  In r (mailboxes (chan_w (fst (run cfg (init cfg t0) h)))) ->
  exists x, In x (mb_sides (chan_w (fst (run cfg (init cfg t0) h)))) /\ mbs_mbox x = mb_id r.
Proof.
  intros Hh Hr.
  destruct (init_all_sided t0 h Hh (mb_id r) (in_map _ _ _ Hr)) as (v & Hv & Ev).
  unfold mbv in Hv. apply in_map_iff in Hv. destruct Hv as (x & <- & Hx). exists x. split; assumption.
Qed.

Lemma all_sided_open_db d a m side w : all_sided d -> all_sided (open_db d a m side w).
Proof.
  intros H m' Hm'. rewrite mbv_open_db.
  assert (Hs : sidedv (mbv d ++ match sel_mbs d m side with Some _ => [] | None => [(m, side, w)] end) m).
  { destruct (sel_mbs d m side) as [r|] eqn:Es.
    - apply sel_mbs_some in Es. destruct Es as (Hr & Em & _).
      exists (mbs_view r). split; [apply in_or_app; left; apply in_map; exact Hr|exact Em].
    - exists (m, side, w). split; [apply in_or_app; right; left; reflexivity|reflexivity]. }
  unfold mb_ids, open_db in Hm'. cbn [mailboxes] in Hm'. rewrite map_map in Hm'.
  rewrite (map_ext _ mb_id) in Hm' by (intros r; apply touch_row_id).
  destruct (sel_mb d a m).
  - destruct (H m' Hm') as (x & Hx & Ex). exists x. split; [apply in_or_app; left; exact Hx|exact Ex].
  - rewrite map_app in Hm'. apply in_app_or in Hm'. destruct Hm' as [Hm'|[<-|[]]]; [|exact Hs].
    destruct (H m' Hm') as (x & Hx & Ex). exists x. split; [apply in_or_app; left; exact Hx|exact Ex].
Qed.

Lemma all_sided_ev_pre s e : all_sided (chan_w s) -> all_sided (ev_pre s e).
Proof.
  intros H. unfold ev_pre. destruct (ev_close s e) as [[[[[a m] side] mood] fresh]|]; [|exact H].
  destruct fresh; [apply all_sided_open_db; exact H|exact H].
Qed.

End SidedRun.
Print Assumptions step_ts.
Print Assumptions crash_free_mailboxes_sided.

Section Records.
Variable cfg : config.
Hypothesis Hexp : 0 < exp cfg.
Hypothesis Husage : usage_on cfg = true.
Variable B : Z.
Hypothesis Hblur : blur cfg = Some B.
Hypothesis HB : 0 < B.
Variable t0 : Z.

Local Notation st h := (fst (run cfg (init cfg t0) h)).

(** somewhere in [h] side [side] arrived at the nameplate with id [npid] / at mailbox [m], at clock [t] *)
Definition np_arrived (h : list event) (npid : Z) (side : string) (t : Z) : Prop :=
  exists h1 e h2, h = h1 ++ e :: h2 /\ np_arrival cfg t0 h1 e npid side t.
Definition mb_arrived (h : list event) (m side : string) (t : Z) : Prop :=
  exists h1 e h2, h = h1 ++ e :: h2 /\ mb_arrival cfg t0 h1 e m side t.

Lemma np_arrived_app h h' npid side t : np_arrived h npid side t -> np_arrived (h ++ h') npid side t.
Proof.
  intros (h1 & e & h2 & -> & Ha). exists h1, e, (h2 ++ h'). split; [|exact Ha].
  rewrite <- app_assoc. reflexivity.
Qed.
Lemma mb_arrived_app h h' m side t : mb_arrived h m side t -> mb_arrived (h ++ h') m side t.
Proof.
  intros (h1 & e & h2 & -> & Ha). exists h1, e, (h2 ++ h'). split; [|exact Ha].
  rewrite <- app_assoc. reflexivity.
Qed.

(** every nameplate usage record written by a crash-free history: [started] is a multiple of
    the blur interval, not after, and less than one interval before, the TRUE time [t_first] at
    which the nameplate's first side arrived: the clock of the state in which that side's
    `claim` / `allocate` command arrived (item 1) *)
Theorem record_within_interval_np h u :
  Forall LifeFacts.not_crash h ->
  In u (u_nameplates (usage_w (st h))) ->
  exists npid side t_first,
    np_arrived h npid side t_first /\
    unp_started u = blur_round (blur cfg) t_first /\
    (B | unp_started u) /\ unp_started u <= t_first < unp_started u + B.
Proof.
  intros Hnc Hu.
  destruct (usage_run cfg Hexp Husage t0 h Hnc) as (Pn & _ & _). cbv zeta in Pn.
  assert (Hin : In (Some u) (np_records_run cfg (init cfg t0) h)).
  { eapply Permutation_in; [exact Pn|]. apply in_map. exact Hu. }
  destruct (in_np_records_run cfg h _ _ Hin) as (h1 & e & h2 & Eh & Hr).
  unfold np_records in Hr. apply in_map_iff in Hr. destruct Hr as (np & Erec & _).
  unfold np_record in Erec.
  destruct (nameplate_times_spec _ _ _ _ _ _ Erec) as (t1 & Ht1 & _ & Est & _).
  apply in_map_iff in Ht1. destruct Ht1 as (r & Er & Hr).
  unfold sel_nps_all in Hr. apply filter_In in Hr. destruct Hr as [Hr _].
  rewrite ev_pre_np_sides in Hr.
  destruct (np_side_added_is_arrival cfg Hexp t0 h1 r Hr) as (h1' & e' & h2' & Eh1 & Harr & _).
  exists (nps_npid r), (nps_side r), t1. rewrite Er in Harr.
  split; [|split; [exact Est|]].
  - rewrite Eh. apply np_arrived_app. exists h1', e', h2'. split; assumption.
  - rewrite Est, Hblur. destruct (blur_round_spec B t1 HB) as (D & L1 & L2). cbv zeta in *.
    split; [exact D|]. split; assumption.
Qed.

(** every mailbox usage record: the same, [t_first] being the arrival of the mailbox's first
    side (by `open`, `claim`, `allocate`, or the implicit open of a `close` on a connection that
    does not hold the mailbox -- possibly the very command that retires it).  A retired mailbox
    always has a side row: [crash_free_mailboxes_sided]. *)
Theorem record_within_interval_mb h u :
  Forall LifeFacts.not_crash h ->
  In u (u_mailboxes (usage_w (st h))) ->
  exists m side t_first,
    mb_arrived h m side t_first /\
    umb_started u = blur_round (blur cfg) t_first /\
    (B | umb_started u) /\ umb_started u <= t_first < umb_started u + B.
Proof.
  intros Hnc Hu.
  destruct (usage_run cfg Hexp Husage t0 h Hnc) as (_ & Pm & _). cbv zeta in Pm.
  assert (Hin : In u (mb_records_run cfg (init cfg t0) h)).
  { eapply Permutation_in; [exact Pm|exact Hu]. }
  destruct (in_mb_records_run cfg h _ _ Hin) as (h1 & e & h2 & Eh & Hr).
  unfold mb_records in Hr. apply in_map_iff in Hr. destruct Hr as (mb & Erec & Hret).
  unfold mb_record in Erec.
  assert (Hb : forall t1, umb_started u = blur_round (blur cfg) t1 ->
                (B | umb_started u) /\ umb_started u <= t1 < umb_started u + B).
  { intros t1 Est. rewrite Est, Hblur. destruct (blur_round_spec B t1 HB) as (D & L1 & L2).
    cbv zeta in *. split; [exact D|]. split; assumption. }
  pose proof (mailbox_times_spec (blur cfg) (mb_app mb) (mb_fornp mb)
                (sel_mbs_all (ev_mbdb (st h1) e) (mb_id mb)) (ev_when (st h1) e) (ev_pruned e)) as T.
  cbv zeta in T. rewrite Erec in T. destruct T as (_ & _ & T).
  destruct (sel_mbs_all (ev_mbdb (st h1) e) (mb_id mb)) as [|x0 rows] eqn:Erows.
  - (* no side row: impossible in a crash-free history *)
    exfalso.
    assert (Hnc1 : Forall LifeFacts.not_crash h1).
    { rewrite Eh in Hnc. apply Forall_app in Hnc. apply Hnc. }
    pose proof (all_sided_ev_pre (st h1) e (init_all_sided cfg Hexp t0 h1 Hnc1)) as Hs.
    apply (proj1 (retired_present cfg (st h1) e)) in Hret.
    destruct (Hs (mb_id mb) (in_map _ _ _ Hret)) as (v & Hv & Ev).
    rewrite <- ev_mbdb_views in Hv. unfold mbv in Hv. apply in_map_iff in Hv.
    destruct Hv as (x & <- & Hx).
    assert (Hx' : In x (sel_mbs_all (ev_mbdb (st h1) e) (mb_id mb)))
      by (apply sel_mbs_all_In; split; [exact Hx|exact Ev]).
    rewrite Erows in Hx'. destruct Hx'.
  - destruct T as (t1 & Ht1 & _ & Est & _).
    apply in_map_iff in Ht1. destruct Ht1 as (r & Er & Hr). rewrite <- Erows in Hr.
    unfold sel_mbs_all in Hr. apply filter_In in Hr. destruct Hr as [Hr _].
    assert (Hv : In (mbs_view r) (mbv (ev_pre (st h1) e))).
    { rewrite <- ev_mbdb_views. apply in_map. exact Hr. }
    exists (mbs_mbox r), (mbs_side r), t1.
    split; [|split; [exact Est|exact (Hb _ Est)]].
    assert (Hold : In (mbs_view r) (mbv (chan_w (st h1))) -> mb_arrived h (mbs_mbox r) (mbs_side r) t1).
    { intros Hv0. rewrite Eh. apply mb_arrived_app.
      destruct (mb_view_arrival cfg Hexp t0 h1 _ Hv0) as (h1' & e' & h2' & Eh1 & Harr & _).
      cbn [mbs_view fst snd] in Harr. rewrite Er in Harr. exists h1', e', h2'. split; assumption. }
    unfold ev_pre in Hv.
    destruct (ev_close (st h1) e) as [[[[[a m] side] mood] fresh]|] eqn:Hc; [|exact (Hold Hv)].
    destruct fresh; [|exact (Hold Hv)].
    rewrite mbv_open_db in Hv. apply in_app_or in Hv. destruct Hv as [Hv|Hv]; [exact (Hold Hv)|].
    destruct (sel_mbs (chan_w (st h1)) m side) eqn:Es; [destruct Hv|].
    destruct Hv as [Hv|[]]. unfold mbs_view in Hv. inversion Hv as [[E1 E2 E3]].
    apply ev_close_inv in Hc.
    destruct Hc as (c & cs & msg & o & -> & Hl & Hbd & Ht & _ & Hm & _ & Hf).
    destruct (c_mailbox cs) eqn:Em; [discriminate|]. unfold closed_mbox in Hm. rewrite Em in Hm.
    exists h1, (EB (ECmd c msg o)), h2. split; [exact Eh|]. rewrite <- E1, <- E2.
    exists c, msg, o, a. split; [left; reflexivity|]. split; [congruence|]. split.
    + exists cs. split; [exact Hl|]. split; [exact Hbd|]. unfold targets_mb. rewrite Ht.
      split; [exact Em|exact Hm].
    + intros r0 Hr0 [F1 F2]. unfold sel_mbs in Es. pose proof (find_none _ _ Es r0 Hr0) as Hf0.
      cbv beta in Hf0. rewrite F1, F2, !seqb_refl in Hf0. discriminate.
Qed.

(** both tables at once *)
Theorem record_within_interval h :
  Forall LifeFacts.not_crash h ->
  (forall u, In u (u_nameplates (usage_w (st h))) ->
     exists npid side t_first,
       np_arrived h npid side t_first /\ unp_started u = blur_round (blur cfg) t_first /\
       (B | unp_started u) /\ unp_started u <= t_first < unp_started u + B) /\
  (forall u, In u (u_mailboxes (usage_w (st h))) ->
     exists m side t_first,
       mb_arrived h m side t_first /\ umb_started u = blur_round (blur cfg) t_first /\
       (B | umb_started u) /\ umb_started u <= t_first < umb_started u + B).
Proof.
  intros Hnc. split; intros u Hu;
    [exact (record_within_interval_np h u Hnc Hu)|exact (record_within_interval_mb h u Hnc Hu)].
Qed.

End Records.
Print Assumptions record_within_interval_np.
Print Assumptions record_within_interval_mb.
Print Assumptions record_within_interval.


(* ====================================================================== *)
(** * PART 3 -- C12: the away-time and subscriber theorems for the two EVENTS that run a sweep *)
(* ====================================================================== *)

(** ActivityFacts.v states [away_time], [away_time_subscribed] and [subscriber_survives] for
    [expire cfg false s = Ok tt s'] with [s] a run-end state.  The periodic timer, firing inside
    [EAdvance dt], runs [expire] on [set_now s (now s + dt)]; an explicit sweep event runs it on
    [s].  Here are the event forms (as [recently_active_survives_timer] / [_sweep] there). *)
Section TimerForms.
Variable cfg : config.
Hypothesis Hexp : 0 < exp cfg.
Hypothesis Hperiod : 0 < period cfg.

(** a mailbox stamped at [t] is kept by the timer's sweep firing at [now s + dt], as long as
    that is at most [t + (exp - period)] *)
Theorem away_time_timer s0 h a m t dt r :
  SInv s0 -> log s0 = [] -> time_ok s0 ->
  stamped (chan_w s0) a m t ->
  let s := fst (run cfg s0 h) in
  0 <= dt -> next_due s <= now s + dt ->           (* the timer fires *)
  now s + dt <= t + (exp cfg - period cfg) ->
  In r (mailboxes (chan_w s)) -> mb_id r = m ->
  kept (now s + dt) (chan_w s) (chan_w (fst (step cfg s (EB (EAdvance dt false))))) r.
Proof.
  intros HS0 Hl0 Ht0 Hst s Hdt Hdue Hle Hr Ei.
  apply (recently_active_survives_timer cfg Hexp s0 h a m t dt r HS0 Hl0 Ht0 Hst); fold s; auto. lia.
Qed.

Theorem away_time_sweep s0 h a m t r :
  SInv s0 -> log s0 = [] -> time_ok s0 ->
  stamped (chan_w s0) a m t ->
  let s := fst (run cfg s0 h) in
  now s <= t + (exp cfg - period cfg) ->
  In r (mailboxes (chan_w s)) -> mb_id r = m ->
  kept (now s) (chan_w s) (chan_w (fst (step cfg s (EB (ESweep false))))) r.
Proof.
  intros HS0 Hl0 Ht0 Hst s Hle Hr Ei.
  apply (recently_active_survives_sweep cfg Hexp s0 h a m t r HS0 Hl0 Ht0 Hst); fold s; auto. lia.
Qed.

(** a client subscribed to (a, m) at [td = now s0] (reached without failing timer sweeps) may
    leave and stay away: whatever happens next, the timer's sweep firing at any time up to
    [td + (exp - period)] keeps the mailbox with its messages, side rows and nameplate *)
Theorem away_time_subscribed_timer t0 h0 h a m c dt r :
  Forall timer_fault_free h0 ->
  let s0 := fst (run cfg (init cfg t0) h0) in
  In (a, m, c) (subs s0) ->
  let s := fst (run cfg s0 h) in
  0 <= dt -> next_due s <= now s + dt ->           (* the timer fires *)
  now s + dt <= now s0 + (exp cfg - period cfg) ->
  In r (mailboxes (chan_w s)) -> mb_id r = m ->
  kept (now s + dt) (chan_w s) (chan_w (fst (step cfg s (EB (EAdvance dt false))))) r.
Proof.
  intros Hff s0 Hp s Hdt Hdue Hle Hr Ei.
  assert (Hrs : reachable cfg s0) by (exists t0, h0; reflexivity).
  destruct (reachable_SInv cfg Hexp s0 Hrs) as [HS0 Hl0].
  destruct (reachable_timer_time cfg Hexp Hperiod s0 Hrs) as [_ Ht0].
  destruct (si_subs s0 HS0 _ Hp) as [(r0 & Hr0 & Ea0 & Ei0) _].
  pose proof (subscribed_fresh cfg Hexp Hperiod t0 h0 a m c r0 Hff Hp Hr0 Ei0) as Hfr. fold s0 in Hfr.
  apply (recently_active_survives_timer cfg Hexp s0 h a m (mb_updated r0) dt r HS0 Hl0 Ht0);
    fold s; auto; [|lia].
  exists r0. auto.
Qed.

Theorem away_time_subscribed_sweep t0 h0 h a m c r :
  Forall timer_fault_free h0 ->
  let s0 := fst (run cfg (init cfg t0) h0) in
  In (a, m, c) (subs s0) ->
  let s := fst (run cfg s0 h) in
  now s <= now s0 + (exp cfg - period cfg) ->
  In r (mailboxes (chan_w s)) -> mb_id r = m ->
  kept (now s) (chan_w s) (chan_w (fst (step cfg s (EB (ESweep false))))) r.
Proof.
  intros Hff s0 Hp s Hle Hr Ei.
  assert (Hrs : reachable cfg s0) by (exists t0, h0; reflexivity).
  destruct (reachable_SInv cfg Hexp s0 Hrs) as [HS0 Hl0].
  destruct (reachable_timer_time cfg Hexp Hperiod s0 Hrs) as [_ Ht0].
  destruct (si_subs s0 HS0 _ Hp) as [(r0 & Hr0 & Ea0 & Ei0) _].
  pose proof (subscribed_fresh cfg Hexp Hperiod t0 h0 a m c r0 Hff Hp Hr0 Ei0) as Hfr. fold s0 in Hfr.
  apply (recently_active_survives_sweep cfg Hexp s0 h a m (mb_updated r0) r HS0 Hl0 Ht0);
    fold s; auto; [|lia].
  exists r0. auto.
Qed.

(** a mailbox some connection is subscribed to when the timer fires is kept, whatever its
    stamp, and re-stamped with the firing time [now s + dt] *)
Theorem subscriber_survives_timer s dt r :
  SInv s -> log s = [] ->
  0 <= dt -> next_due s <= now s + dt ->           (* the timer fires *)
  In r (mailboxes (chan_w s)) -> listened s (mb_app r) (mb_id r) ->
  let s' := fst (step cfg s (EB (EAdvance dt false))) in
  kept (now s + dt) (chan_w s) (chan_w s') r /\
  exists r', In r' (mailboxes (chan_w s')) /\ mb_id r' = mb_id r /\ mb_updated r' = now s + dt.
Proof.
  intros HS Hl Hdt Hdue Hr HL. cbv zeta.
  destruct (due_sweep_runs_aux cfg Hexp s dt false HS Hl Hdt Hdue) as (s1 & E1 & _ & E2).
  rewrite E2. cbn [chan_w set_log set_next_due].
  exact (subscriber_survives cfg Hexp (set_now s (now s + dt)) s1 r
           (SInv_set_now s _ HS) Hl E1 Hr HL).
Qed.

Theorem subscriber_survives_sweep s r :
  SInv s -> log s = [] ->
  In r (mailboxes (chan_w s)) -> listened s (mb_app r) (mb_id r) ->
  let s' := fst (step cfg s (EB (ESweep false))) in
  kept (now s) (chan_w s) (chan_w s') r /\
  exists r', In r' (mailboxes (chan_w s')) /\ mb_id r' = mb_id r /\ mb_updated r' = now s.
Proof.
  intros HS Hl Hr HL. cbv zeta.
  destruct (sweep_event_runs cfg Hexp s HS Hl) as (s1 & E1 & E2). rewrite E2. cbn [chan_w set_log].
  exact (subscriber_survives cfg Hexp s s1 r HS Hl E1 Hr HL).
Qed.

(** hence: as long as a client stays subscribed, every firing of the timer keeps its mailbox,
    after any history (crashes empty the subscription table, so [listened] is about the
    subscriptions that exist when the timer fires) *)
Corollary subscriber_survives_timer_run t0 h dt r :
  let s := fst (run cfg (init cfg t0) h) in
  0 <= dt -> next_due s <= now s + dt ->
  In r (mailboxes (chan_w s)) -> listened s (mb_app r) (mb_id r) ->
  kept (now s + dt) (chan_w s) (chan_w (fst (step cfg s (EB (EAdvance dt false))))) r.
Proof.
  intros s Hdt Hdue Hr HL.
  assert (Hrs : reachable cfg s) by (exists t0, h; reflexivity).
  destruct (reachable_SInv cfg Hexp s Hrs) as [HS Hl].
  exact (proj1 (subscriber_survives_timer s dt r HS Hl Hdt Hdue Hr HL)).
Qed.

End TimerForms.
Print Assumptions away_time_timer.
Print Assumptions away_time_sweep.
Print Assumptions away_time_subscribed_timer.
Print Assumptions away_time_subscribed_sweep.
Print Assumptions subscriber_survives_timer.
Print Assumptions subscriber_survives_sweep.
Print Assumptions subscriber_survives_timer_run.


(* ====================================================================== *)
(** * PART 4 -- C18, C06: the send stamps are part of what clients observe, and they agree *)
(* ====================================================================== *)

Lemma event_clock_now_eq s1 s2 e : now s1 = now s2 -> event_clock s1 e = event_clock s2 e.
Proof.
  intros E. unfold event_clock. destruct e as [b|k b|]; cbn [base_of]; try exact E;
    destruct b; cbn [bclock]; rewrite ?E; reflexivity.
Qed.

Lemma map_const_length {A B C} (c : C) (l1 : list A) (l2 : list B) :
  List.length l1 = List.length l2 -> map (fun _ => c) l1 = map (fun _ => c) l2.
Proof.
  revert l2. induction l1 as [|x l1 IH]; intros [|y l2] E; cbn [List.length map] in *; try discriminate; [reflexivity|].
  f_equal. apply IH. lia.
Qed.

Lemma boot_stamps_of_event cfg s e :
  stamps_of (o_boot_log (snd (step cfg s e))) =
  map (fun _ => event_clock s e) (frames_of (o_boot_log (snd (step cfg s e)))).
Proof.
  apply stamps_of_all. intros c f b tx Hin.
  apply (every_frame_stamped cfg s e c f b tx). apply in_or_app. right. exact Hin.
Qed.

(** two runs of the same history from states with the same clock, possibly under different
    configurations: if every event emits as many frames in the one as in the other, the frames carry
    the same stamps *)
Lemma run_stamps_agree cfg1 cfg2 h : forall s1 s2,
  now s1 = now s2 ->
  map (fun o => List.length (frames_of (o_log o))) (snd (run cfg1 s1 h)) =
  map (fun o => List.length (frames_of (o_log o))) (snd (run cfg2 s2 h)) ->
  map (fun o => stamps_of (o_log o)) (snd (run cfg1 s1 h)) =
  map (fun o => stamps_of (o_log o)) (snd (run cfg2 s2 h)).
Proof.
  induction h as [|e h IH]; intros s1 s2 En El; [reflexivity|].
  cbn [run] in *.
  pose proof (stamps_of_event cfg1 s1 e) as S1. pose proof (stamps_of_event cfg2 s2 e) as S2.
  pose proof (event_clock_now cfg1 s1 e) as N1. pose proof (event_clock_now cfg2 s2 e) as N2.
  rewrite (event_clock_now_eq s1 s2 e En) in S1, N1.
  destruct (step cfg1 s1 e) as [s1' o1]. destruct (step cfg2 s2 e) as [s2' o2]. cbn [fst snd] in *.
  specialize (IH s1' s2' (eq_trans N1 (eq_sym N2))).
  destruct (run cfg1 s1' h) as [u1 os1]. destruct (run cfg2 s2' h) as [u2 os2].
  cbn [fst snd map] in *. inversion El as [[L1 L2]].
  rewrite S1, S2, (IH L2). f_equal. apply map_const_length. exact L1.
Qed.

Lemma run_boot_stamps_agree cfg1 cfg2 h : forall s1 s2,
  now s1 = now s2 ->
  map (fun o => List.length (frames_of (o_boot_log o))) (snd (run cfg1 s1 h)) =
  map (fun o => List.length (frames_of (o_boot_log o))) (snd (run cfg2 s2 h)) ->
  map (fun o => stamps_of (o_boot_log o)) (snd (run cfg1 s1 h)) =
  map (fun o => stamps_of (o_boot_log o)) (snd (run cfg2 s2 h)).
Proof.
  induction h as [|e h IH]; intros s1 s2 En El; [reflexivity|].
  cbn [run] in *.
  pose proof (boot_stamps_of_event cfg1 s1 e) as S1. pose proof (boot_stamps_of_event cfg2 s2 e) as S2.
  pose proof (event_clock_now cfg1 s1 e) as N1. pose proof (event_clock_now cfg2 s2 e) as N2.
  rewrite (event_clock_now_eq s1 s2 e En) in S1, N1.
  destruct (step cfg1 s1 e) as [s1' o1]. destruct (step cfg2 s2 e) as [s2' o2]. cbn [fst snd] in *.
  specialize (IH s1' s2' (eq_trans N1 (eq_sym N2))).
  destruct (run cfg1 s1' h) as [u1 os1]. destruct (run cfg2 s2' h) as [u2 os2].
  cbn [fst snd map] in *. inversion El as [[L1 L2]].
  rewrite S1, S2, (IH L2). f_equal. apply map_const_length. exact L1.
Qed.

Lemma masked_lengths (os1 os2 : list obs) (g : obs -> list log_entry) :
  map (fun o => map mask_frame (frames_of (g o))) os1 =
  map (fun o => map mask_frame (frames_of (g o))) os2 ->
  map (fun o => List.length (frames_of (g o))) os1 = map (fun o => List.length (frames_of (g o))) os2.
Proof.
  intros E. apply (f_equal (map (@List.length _))) in E. rewrite !map_map in E.
  assert (F : forall os : list obs,
            map (fun o => List.length (map mask_frame (frames_of (g o)))) os =
            map (fun o => List.length (frames_of (g o))) os)
    by (intros os; apply map_ext; intros o; apply map_length).
  rewrite !F in E. exact E.
Qed.

(** C18, the stamps: under the hypotheses of [config_erasure_from_init_full] (same history, same
    initial clock; listing, usage database and blur interval arbitrary on both sides), the send
    stamps of the frames of every event -- in its own log and in the start-up log of a restart or
    crash -- are the same in the two runs *)
Theorem config_erasure_stamps cfg1 cfg2 t0 h :
  exp cfg1 = exp cfg2 -> period cfg1 = period cfg2 -> welcome cfg1 = welcome cfg2 ->
  0 < exp cfg1 ->
  Forall early_crash h ->
  let os1 := snd (run cfg1 (init cfg1 t0) h) in
  let os2 := snd (run cfg2 (init cfg2 t0) h) in
  map (fun o => stamps_of (o_log o)) os1 = map (fun o => stamps_of (o_log o)) os2 /\
  map (fun o => stamps_of (o_boot_log o)) os1 = map (fun o => stamps_of (o_boot_log o)) os2.
Proof.
  intros Hexp Hper Hwel Hpos Hh. cbv zeta.
  pose proof (config_erasure_from_init_full cfg1 cfg2 t0 h Hexp Hper Hwel Hpos Hh) as K.
  destruct (init_view cfg1 cfg2 t0 Hexp Hper) as (_ & En & _).
  pose proof (run_stamps_agree cfg1 cfg2 h _ _ En) as A.
  pose proof (run_boot_stamps_agree cfg1 cfg2 h _ _ En) as Bt.
  destruct (run cfg1 (init cfg1 t0) h) as [u1 os1]. destruct (run cfg2 (init cfg2 t0) h) as [u2 os2].
  cbn [snd] in *. destruct K as (_ & _ & _ & K1 & _ & _ & _ & K2).
  split; [apply A; apply (masked_lengths os1 os2 o_log); exact K1|].
  apply Bt. apply (masked_lengths os1 os2 o_boot_log). exact K2.
Qed.
Print Assumptions run_stamps_agree.
Print Assumptions config_erasure_stamps.

(** ** C06: the frames B's side sees, WITH their send stamps *)

(** the frames of an (oldest-first) log with their stamps, in emission order *)
Fixpoint sframes_of (l : list log_entry) : list (nat * frame * Z) :=
  match l with
  | [] => []
  | LFrame c f _ tx :: l' => (c, f, tx) :: sframes_of l'
  | _ :: l' => sframes_of l'
  end.

Lemma sframes_frames l : map fst (sframes_of l) = frames_of l.
Proof. induction l as [|[d|u|c f b tx] l IH]; cbn [sframes_of frames_of map fst]; congruence. Qed.

Lemma sframes_stamps l : map snd (sframes_of l) = stamps_of l.
Proof. induction l as [|[d|u|c f b tx] l IH]; cbn [sframes_of stamps_of map snd]; congruence. Qed.

Lemma sframes_of_all n l :
  (forall c f b tx, In (LFrame c f b tx) l -> tx = n) ->
  sframes_of l = map (fun p => (p, n)) (frames_of l).
Proof.
  induction l as [|e l IH]; intros H; [reflexivity|].
  assert (IH' : sframes_of l = map (fun p => (p, n)) (frames_of l)).
  { apply IH. intros c f b tx Hin. apply (H c f b tx). right. exact Hin. }
  destruct e as [d|u|c f b tx]; cbn [sframes_of frames_of map]; try exact IH'.
  rewrite IH', (H c f b tx (or_introl eq_refl)). reflexivity.
Qed.

Lemma sframes_of_event cfg s e :
  sframes_of (o_log (snd (step cfg s e))) =
  map (fun p => (p, event_clock s e)) (frames_of (o_log (snd (step cfg s e)))).
Proof.
  apply sframes_of_all. intros c f b tx Hin.
  apply (every_frame_stamped cfg s e c f b tx). apply in_or_app. left. exact Hin.
Qed.

(** stamped frames as seen by B's side: those addressed to connections not bound to another app *)
Definition sframesB (B : string) (s : state) (l : list log_entry) : list (nat * frame * Z) :=
  filter (fun q => match lookup_conn (fst (fst q)) (conns s) with
                   | Some cs => negb (other_app B cs)
                   | None => true
                   end) (sframes_of l).

Lemma filter_map_comm {A C} (p : C -> bool) (g : A -> C) l :
  filter p (map g l) = map g (filter (fun x => p (g x)) l).
Proof.
  induction l as [|x l IH]; cbn [map filter]; [reflexivity|].
  destruct (p (g x)); cbn [map]; rewrite IH; reflexivity.
Qed.

Lemma sframesB_event cfg B sc s e :
  sframesB B sc (o_log (snd (step cfg s e))) =
  map (fun p => (p, event_clock s e)) (framesB B sc (o_log (snd (step cfg s e)))).
Proof.
  unfold sframesB, framesB. rewrite (sframes_of_event cfg s e), filter_map_comm. reflexivity.
Qed.

Section StampedNI.
Variable cfg : config.
Hypothesis Hexp : 0 < exp cfg.

(** stamped frames seen by B's side over a whole run (as [framesX_run]) *)
Fixpoint sframesX_run (B : string) (s : state) (h : list event) : list (nat * frame * Z) :=
  match h with
  | [] => []
  | e :: h' =>
      let '(s', o) := step cfg s e in
      sframesB B (cstate cfg s e) (o_log o) ++ sframesX_run B s' h'
  end.

(** forgetting the stamps gives [framesX_run] *)
Lemma sframesX_run_frames B h : forall s,
  map fst (sframesX_run B s h) = framesX_run cfg B s h.
Proof.
  induction h as [|e h IH]; intros s; [reflexivity|]. cbn [sframesX_run framesX_run].
  destruct (step cfg s e) as [s' o]. rewrite map_app, IH. f_equal.
  unfold sframesB, framesB. rewrite <- sframes_frames.
  generalize (sframes_of (o_log o)). intros l. induction l as [|q l IHl]; [reflexivity|].
  cbn [filter map]. destruct (lookup_conn (fst (fst q)) (conns (cstate cfg s e))) as [cs|];
    [destruct (negb (other_app B cs))|]; cbn [map]; rewrite IHl; reflexivity.
Qed.

Lemma ni_gen_x_stamped B h : forall s1 s2,
  SInv s1 -> SInv s2 -> log s1 = [] -> log s2 = [] -> relB B s1 s2 -> fresh_unbound s1 ->
  no_failure_run_x cfg s1 h ->
  sframesX_run B s1 h =
  flat_map (fun o => sframes_of (o_log o)) (snd (run cfg s2 (filterX cfg B s1 h))).
Proof.
  induction h as [|e h IH]; intros s1 s2 H1 H2 L1 L2 Hr Hf Hn; [reflexivity|].
  cbn [no_failure_run_x] in Hn. destruct Hn as (Hp & Hnf & Hn').
  pose proof (step_spec cfg Hexp s1 e H1) as S1.
  pose proof (sframesB_event cfg B (cstate cfg s1 e) s1 e) as SF1.
  pose proof (rb_now _ _ _ Hr) as Enow.
  destruct (dropX B s1 e) eqn:Ed.
  - destruct e as [b|k b|]; [| |discriminate]; cbn [dropX] in Ed.
    + (* a command of another app: invisible *)
      cbn [filterX sframesX_run run]. rewrite Ed.
      pose proof (step_fresh cfg Hexp B s1 (EB b) H1 L1 Hf I Hnf) as F1.
      pose proof (dropped_event_invisible cfg Hexp B s1 s2 (EB b) H1 L1 Hf Hr I Ed Hnf) as D.
      unfold cstate in *. destruct (step cfg s1 (EB b)) as [s1' o1]. cbn [fst snd] in *.
      destruct S1 as (I1 & M1 & _). destruct D as [Hr' Hfr].
      rewrite SF1, Hfr. cbn [map app].
      exact (IH s1' s2 I1 H2 M1 L2 Hr' F1 Hn').
    + (* the process dies inside a command of another app: a restart in run 2 *)
      destruct b as [c0|c msg o|c0|fault|dt fault]; try discriminate.
      cbn [no_failure_c] in Hnf.
      cbn [filterX sframesX_run run]. rewrite Ed. cbn [run].
      pose proof (dropped_cmd_crash cfg Hexp B s1 s2 k c msg o H1 H2 L1 L2 Hr Hf Ed Hnf) as K.
      pose proof (step_spec cfg Hexp s2 ERestart H2) as S2.
      pose proof (sframes_of_event cfg s2 ERestart) as SF2.
      unfold cstate in *. destruct (step cfg s1 (ECrash k (ECmd c msg o))) as [s1' o1].
      destruct (step cfg s2 ERestart) as [s2' o2]. cbn [fst snd] in *.
      destruct S1 as (I1 & M1 & _). destruct S2 as (I2 & M2 & _).
      destruct K as (Hr' & Hfr & Hx & _ & _ & _ & _ & _ & _ & _ & F1).
      specialize (IH s1' s2' I1 I2 M1 M2 Hr' F1 Hn').
      destruct (run cfg s2' (filterX cfg B s1' h)) as [u2 os2].
      cbn [fst snd flat_map] in *. rewrite SF1, SF2, Hfr, IH. f_equal.
      apply map_ext. intros p. f_equal. unfold event_clock. cbn [base_of bclock]. symmetry. exact Enow.
  - pose proof (kept_event_congruent_x cfg Hexp B s1 s2 e H1 H2 L1 L2 Hr Hf Hp Ed Hnf) as K.
    pose proof (step_spec cfg Hexp s2 e H2) as S2.
    pose proof (sframes_of_event cfg s2 e) as SF2.
    assert (Ef : filterX cfg B s1 (e :: h) = e :: filterX cfg B (fst (step cfg s1 e)) h).
    { cbn [filterX]. destruct e as [b|k b|]; cbn [dropX] in Ed; rewrite Ed; reflexivity. }
    rewrite Ef. cbn [sframesX_run run].
    destruct (step cfg s1 e) as [s1' o1]. cbn [fst snd] in *.
    destruct (step cfg s2 e) as [s2' o2]. cbn [fst snd] in *.
    destruct S1 as (I1 & M1 & _). destruct S2 as (I2 & M2 & _). destruct K as (Hr' & Hfr & Hx & F1).
    specialize (IH s1' s2' I1 I2 M1 M2 Hr' F1 Hn').
    destruct (run cfg s2' (filterX cfg B s1' h)) as [u2 os2].
    cbn [fst snd flat_map] in *. rewrite SF1, SF2, Hfr, IH. f_equal.
    apply map_ext. intros p. f_equal. apply event_clock_now_eq. symmetry. exact Enow.
Qed.

(** C06 with the stamps: what B's side has seen during H -- every frame WITH its send stamp --
    is what it sees in H without the other apps' commands (a crash inside one of them staying as a
    bare restart); in particular the stamps of B's frames agree *)
Theorem noninterference_x_stamped B t0 h :
  no_failure_run_x cfg (init cfg t0) h ->
  sframesX_run B (init cfg t0) h =
  flat_map (fun o => sframes_of (o_log o))
           (snd (run cfg (init cfg t0) (filterX cfg B (init cfg t0) h))).
Proof.
  intros Hn. destruct (init_spec cfg Hexp t0) as [HS HL].
  destruct (relB_init cfg Hexp B t0) as [Hr Hf].
  exact (ni_gen_x_stamped B h _ _ HS HS HL HL Hr Hf Hn).
Qed.

Corollary noninterference_x_stamps B t0 h :
  no_failure_run_x cfg (init cfg t0) h ->
  map snd (sframesX_run B (init cfg t0) h) =
  flat_map (fun o => stamps_of (o_log o))
           (snd (run cfg (init cfg t0) (filterX cfg B (init cfg t0) h))).
Proof.
  intros Hn. rewrite (noninterference_x_stamped B t0 h Hn).
  generalize (snd (run cfg (init cfg t0) (filterX cfg B (init cfg t0) h))). intros os.
  induction os as [|o os IH]; [reflexivity|]. cbn [flat_map]. rewrite map_app, IH, sframes_stamps.
  reflexivity.
Qed.

End StampedNI.
Print Assumptions sframesX_run_frames.
Print Assumptions noninterference_x_stamped.
Print Assumptions noninterference_x_stamps.


(* ====================================================================== *)
(** * Non-vacuity (and what is NOT true) *)
(* ====================================================================== *)

(** ** PART 1.  Side s1 claims nameplate "7" at clock 3 (a nameplate side row and a side row of the
    nameplate's mailbox, both [added] = 3) and opens "mm" at clock 7; the process dies right after the
    FIRST commit of side s2's claim at clock 9 (its nameplate side row is committed, its mailbox side
    row is not); side s3 closes "mm" at clock 10 on a connection that never opened it (the implicit
    open creates its side row, which stays because s1 still has the mailbox open). *)
Definition af_hist : list event :=
  [EB (EConnect 1); EB (ECmd 1 (ur_bind "s1") ur_o0); EB (EAdvance 3 false);
   EB (ECmd 1 ur_claim ur_o1); EB (EAdvance 4 false); EB (ECmd 1 (ur_open "mm") ur_o0);
   EB (EConnect 2); EB (ECmd 2 (ur_bind "s2") ur_o0); EB (EAdvance 2 false);
   ECrash 1 (ECmd 2 ur_claim ur_o0);
   EB (EConnect 3); EB (ECmd 3 (ur_bind "s3") ur_o0); EB (EAdvance 1 false);
   EB (ECmd 3 (ur_close (Some "mm") "happy") ur_o0)].

Example side_added_is_arrival_nonvacuous :
  let st h := fst (run ur_cfg (init ur_cfg 0) h) in
  (* the side rows at the end, as (key, added) *)
  mbv (chan_w (st af_hist)) = [("ifaucqkbifauc", "s1", 3); ("mm", "s1", 7); ("mm", "s3", 10)] /\
  npv (chan_w (st af_hist)) = [(1, "s1", 3); (1, "s2", 9)] /\
  (* their arrival events and the clocks of the states these arrive in *)
  nth 3 af_hist ERestart = EB (ECmd 1 ur_claim ur_o1) /\ now (st (firstn 3 af_hist)) = 3 /\
  nth 5 af_hist ERestart = EB (ECmd 1 (ur_open "mm") ur_o0) /\ now (st (firstn 5 af_hist)) = 7 /\
  nth 9 af_hist ERestart = ECrash 1 (ECmd 2 ur_claim ur_o0) /\ now (st (firstn 9 af_hist)) = 9 /\
  nth 13 af_hist ERestart = EB (ECmd 3 (ur_close (Some "mm") "happy") ur_o0) /\
  now (st (firstn 13 af_hist)) = 10 /\
  (* no row before, the row right after *)
  mbv (chan_w (st (firstn 3 af_hist))) = [] /\
  mbv (chan_w (st (firstn 4 af_hist))) = [("ifaucqkbifauc", "s1", 3)] /\
  mbv (chan_w (st (firstn 6 af_hist))) = [("ifaucqkbifauc", "s1", 3); ("mm", "s1", 7)] /\
  mbv (chan_w (st (firstn 13 af_hist))) = [("ifaucqkbifauc", "s1", 3); ("mm", "s1", 7)].
Proof. vm_compute. repeat split; reflexivity. Qed.
Print Assumptions side_added_is_arrival_nonvacuous.

(** the predicate of the theorem, exhibited for the row ("mm", "s1", 7) *)
Example mb_arrival_nonvacuous :
  mb_arrival ur_cfg 0 (firstn 5 af_hist) (nth 5 af_hist ERestart) "mm" "s1" 7.
Proof.
  exists 1%nat, (ur_open "mm"), ur_o0, "a". split; [left; reflexivity|].
  split; [vm_compute; reflexivity|]. split.
  - eexists. split; [vm_compute; reflexivity|]. split; [vm_compute; reflexivity|].
    vm_compute. reflexivity.
  - assert (E : mb_sides (chan_w (fst (run ur_cfg (init ur_cfg 0) (firstn 5 af_hist)))) =
               [mkMbs "ifaucqkbifauc" true "s1" 3 None]) by (vm_compute; reflexivity).
    rewrite E. intros r0 [<-|[]] [E1 _]. discriminate.
Qed.
Print Assumptions mb_arrival_nonvacuous.

(** ... and for the nameplate side row (1, "s2", 9), whose arrival event is a CRASH event: the
    nameplate "7" exists (id 1, mailbox "ifaucqkbifauc") in the state the claim arrives in *)
Example np_arrival_nonvacuous :
  np_arrival ur_cfg 0 (firstn 9 af_hist) (nth 9 af_hist ERestart) 1 "s2" 9.
Proof.
  exists 2%nat, ur_claim, ur_o0, "a". split; [right; exists 1%nat; reflexivity|].
  split; [vm_compute; reflexivity|]. split.
  - eexists. split; [vm_compute; reflexivity|]. split; [vm_compute; reflexivity|].
    unfold targets_np. cbn [m_type ur_claim]. exists "7", "ifaucqkbifauc".
    split; [reflexivity|]. vm_compute. split; reflexivity.
  - assert (E : np_sides (chan_w (fst (run ur_cfg (init ur_cfg 0) (firstn 9 af_hist)))) =
               [mkNps 1 true "s1" 3]) by (vm_compute; reflexivity).
    rewrite E. intros r0 [<-|[]] [_ E2]. discriminate.
Qed.
Print Assumptions np_arrival_nonvacuous.

(** NOT true: "the arrival event is a (completed) command [EB (ECmd ..)]".  The row (1, "s2", 9)
    above is not there before event 9, is there after it, and event 9 is [ECrash 1 (ECmd ..)]: the
    process died after the claim's first commit.  (Hence [cmd_event] in [mb_arrival] / [np_arrival].)
    Likewise NOT true: "a nameplate side row and the side row of its mailbox arrive together" -- the
    same crash leaves the nameplate side row of s2 without a mailbox side row. *)
Example side_arrival_plain_command_refuted :
  let st h := fst (run ur_cfg (init ur_cfg 0) h) in
  In (1, "s2", 9) (npv (chan_w (st af_hist))) /\
  ~ In (1, "s2", 9) (npv (chan_w (st (firstn 9 af_hist)))) /\
  In (1, "s2", 9) (npv (chan_w (st (firstn 10 af_hist)))) /\
  (forall c msg o, nth 9 af_hist ERestart <> EB (ECmd c msg o)) /\
  ~ In "s2" (map (fun x => snd (fst x)) (mbv (chan_w (st af_hist)))).
Proof.
  vm_compute. split; [right; left; reflexivity|]. split.
  - intros [H|[]]. discriminate.
  - split; [right; left; reflexivity|]. split; [intros c msg o; discriminate|].
    intros [H|[H|[H|[]]]]; discriminate.
Qed.
Print Assumptions side_arrival_plain_command_refuted.

(** NOT true either: "side rows are created by claim / allocate / open only" -- the row
    ("mm", "s3", 10) is created by a `close` (on a connection that does not hold the mailbox) *)
Example side_arrival_by_close :
  let st h := fst (run ur_cfg (init ur_cfg 0) h) in
  m_type (ur_close (Some "mm") "happy") = Some TClose /\
  ~ In ("mm", "s3", 10) (mbv (chan_w (st (firstn 13 af_hist)))) /\
  In ("mm", "s3", 10) (mbv (chan_w (st (firstn 14 af_hist)))).
Proof.
  vm_compute. split; [reflexivity|]. split.
  - intros [H|[H|[]]]; discriminate.
  - right. right. left. reflexivity.
Qed.
Print Assumptions side_arrival_by_close.

(** ** PART 2, on UsageRun's history (blur interval 10): the second incarnation of nameplate "7"
    is claimed at clock 162 and recorded as started at 160; the mailbox "zz" is created and retired by
    one `close` arriving at clock 12 and recorded as started at 10 *)
Example record_within_interval_nonvacuous :
  let st h := fst (run ur_cfg (init ur_cfg 0) h) in
  usage_on ur_cfg = true /\ blur ur_cfg = Some 10 /\ 0 < 10 /\ Forall LifeFacts.not_crash ur_hist /\
  In (mkUNp "a" 160 None 120 "pruney") (u_nameplates (usage_w (st ur_hist))) /\
  nth 14 ur_hist ERestart = EB (ECmd 2 ur_claim ur_o2) /\ now (st (firstn 14 ur_hist)) = 162 /\
  160 <= 162 < 160 + 10 /\
  In (mkUMb "a" false 10 0 None "scary") (u_mailboxes (usage_w (st ur_hist))) /\
  nth 10 ur_hist ERestart = EB (ECmd 3 (ur_close (Some "zz") "scary") ur_o0) /\
  now (st (firstn 10 ur_hist)) = 12 /\ 10 <= 12 < 10 + 10.
Proof.
  cbv zeta. split; [reflexivity|]. split; [reflexivity|]. split; [reflexivity|].
  split; [repeat constructor|]. vm_compute.
  split; [right; left; reflexivity|]. split; [reflexivity|]. split; [reflexivity|].
  split; [split; [discriminate|reflexivity]|].
  split; [right; left; reflexivity|]. split; [reflexivity|]. split; [reflexivity|].
  split; [discriminate|reflexivity].
Qed.
Print Assumptions record_within_interval_nonvacuous.

(** the theorem applied to that history *)
Example record_within_interval_np_applied :
  forall u, In u (u_nameplates (usage_w (fst (run ur_cfg (init ur_cfg 0) ur_hist)))) ->
  exists npid side t_first,
    np_arrived ur_cfg 0 ur_hist npid side t_first /\
    unp_started u = blur_round (blur ur_cfg) t_first /\
    (10 | unp_started u) /\ unp_started u <= t_first < unp_started u + 10.
Proof.
  intros u Hu.
  apply (record_within_interval_np ur_cfg ur_exp eq_refl 10 eq_refl eq_refl 0 ur_hist u); [|exact Hu].
  repeat constructor.
Qed.
Print Assumptions record_within_interval_np_applied.

Example record_within_interval_mb_applied :
  forall u, In u (u_mailboxes (usage_w (fst (run ur_cfg (init ur_cfg 0) ur_hist)))) ->
  exists m side t_first,
    mb_arrived ur_cfg 0 ur_hist m side t_first /\
    umb_started u = blur_round (blur ur_cfg) t_first /\
    (10 | umb_started u) /\ umb_started u <= t_first < umb_started u + 10.
Proof.
  intros u Hu.
  apply (record_within_interval_mb ur_cfg ur_exp eq_refl 10 eq_refl eq_refl 0 ur_hist u); [|exact Hu].
  repeat constructor.
Qed.
Print Assumptions record_within_interval_mb_applied.

(** [crash_free_mailboxes_sided] on that history: five mailboxes come and go, each with a side row
    while it lives; and NOT true without "crash-free": the process dying right after the first
    commit of a claim that creates its nameplate leaves the new mailbox without any side row (so
    [Forall not_crash] cannot be dropped, and a crash-tolerant [record_within_interval_mb] would
    need the retirement instant as a second case: C10 / ResumeMore.v deal with those mailboxes) *)
Example mailboxes_sided_nonvacuous :
  let st h := fst (run ur_cfg (init ur_cfg 0) h) in
  map mb_id (mailboxes (chan_w (st (firstn 6 ur_hist)))) = ["ifaucqkbifauc"; "mm"] /\
  map (fun x => fst (fst x)) (mbv (chan_w (st (firstn 6 ur_hist)))) = ["ifaucqkbifauc"; "mm"].
Proof. vm_compute. split; reflexivity. Qed.
Print Assumptions mailboxes_sided_nonvacuous.

Example mailboxes_sided_after_crash_refuted :
  let h := [EB (EConnect 1); EB (ECmd 1 (ur_bind "s1") ur_o0); ECrash 1 (ECmd 1 ur_claim ur_o1)] in
  let d := chan_w (fst (run ur_cfg (init ur_cfg 0) h)) in
  map mb_id (mailboxes d) = ["ifaucqkbifauc"] /\ mb_sides d = [] /\
  ~ (forall r, In r (mailboxes d) -> exists x, In x (mb_sides d) /\ mbs_mbox x = mb_id r).
Proof.
  vm_compute. split; [reflexivity|]. split; [reflexivity|].
  intros H. destruct (H _ (or_introl eq_refl)) as (x & [] & _).
Qed.
Print Assumptions mailboxes_sided_after_crash_refuted.

(** ** PART 3 (expiration 100, period 50).  A subscribed mailbox stamped at 0: the timer, due at 50,
    fires when the clock advances to 60 and re-stamps it; after the subscriber has gone, the firing at
    50 = 0 + (exp - period) keeps it, the firing at 100 removes it *)
Definition af_h3 : list event :=
  [EB (EConnect 1); EB (ECmd 1 (ur_bind "s1") ur_o0); EB (ECmd 1 (ur_open "mm") ur_o0)].

Example timer_forms_nonvacuous :
  let st h := fst (run ur_cfg (init ur_cfg 0) h) in
  let s := st af_h3 in
  let s' := st (af_h3 ++ [EB (EDisconnect 1)]) in
  0 < exp ur_cfg /\ 0 < period ur_cfg /\
  (* hypotheses of [subscriber_survives_timer] *)
  In (mkMb "a" "mm" 0 false) (mailboxes (chan_w s)) /\ listened s "a" "mm" /\
  next_due s <= now s + 60 /\
  mailboxes (chan_w (fst (step ur_cfg s (EB (EAdvance 60 false))))) = [mkMb "a" "mm" 60 false] /\
  (* hypotheses of [away_time_timer] with [s0 := s'], [h := []], [t := 0], [dt := 50] *)
  stamped (chan_w s') "a" "mm" 0 /\ subs s' = [] /\
  next_due s' <= now s' + 50 /\ now s' + 50 <= 0 + (exp ur_cfg - period ur_cfg) /\
  mailboxes (chan_w (fst (step ur_cfg s' (EB (EAdvance 50 false))))) = [mkMb "a" "mm" 0 false] /\
  mailboxes (chan_w (fst (step ur_cfg s' (EB (EAdvance 100 false))))) = [].
Proof.
  vm_compute. split; [reflexivity|]. split; [reflexivity|]. split; [left; reflexivity|].
  split; [exists 1%nat; left; reflexivity|]. split; [discriminate|]. split; [reflexivity|].
  split; [eexists; split; [left; reflexivity|repeat split; reflexivity]|].
  split; [reflexivity|]. split; [discriminate|]. split; [discriminate|]. split; reflexivity.
Qed.
Print Assumptions timer_forms_nonvacuous.

Example subscriber_survives_timer_applied :
  let s := fst (run ur_cfg (init ur_cfg 0) af_h3) in
  kept 60 (chan_w s) (chan_w (fst (step ur_cfg s (EB (EAdvance 60 false))))) (mkMb "a" "mm" 0 false).
Proof.
  cbv zeta.
  apply (subscriber_survives_timer_run ur_cfg ur_exp 0 af_h3 60 (mkMb "a" "mm" 0 false)).
  - discriminate.
  - vm_compute. discriminate.
  - vm_compute. left. reflexivity.
  - exists 1%nat. vm_compute. left. reflexivity.
Qed.
Print Assumptions subscriber_survives_timer_applied.

(** ** PART 4.  C18: listing allowed, usage database, blur 10 against listing disallowed, no
    usage database, no blur; a crash before an event and a restart included; the `list` answers
    differ, the stamps do not *)
Definition af_cfg2 : config := mkCfg false false None 100 50 (mkWelcome None None None).
Definition af_list : command := mkCmd (Some TList) None None None None None None None None None None.
Definition af_hc : list event :=
  [EB (EConnect 1); EB (ECmd 1 (ur_bind "s1") ur_o0); EB (EAdvance 3 false); EB (ECmd 1 ur_claim ur_o1);
   EB (ECmd 1 af_list ur_o0); ECrash 0 (ECmd 1 af_list ur_o0); EB (EConnect 2); EB (EAdvance 60 false);
   EB (ECmd 2 (ur_bind "s2") ur_o0); EB (ECmd 2 af_list ur_o0); ERestart].

Example config_erasure_stamps_nonvacuous :
  let r1 := run ur_cfg (init ur_cfg 0) af_hc in
  let r2 := run af_cfg2 (init af_cfg2 0) af_hc in
  exp ur_cfg = exp af_cfg2 /\ period ur_cfg = period af_cfg2 /\ welcome ur_cfg = welcome af_cfg2 /\
  Forall early_crash af_hc /\
  map (fun o => stamps_of (o_log o)) (snd r1) =
    [[0]; [0]; []; [3; 3]; [3; 3]; []; [3]; []; [63]; [63; 63]; []] /\
  map (fun o => stamps_of (o_log o)) (snd r2) =
    [[0]; [0]; []; [3; 3]; [3; 3]; []; [3]; []; [63]; [63; 63]; []] /\
  nth 4 (map (fun o => map snd (frames_of (o_log o))) (snd r1)) [] = [FAck None; FNameplates ["7"]] /\
  nth 4 (map (fun o => map snd (frames_of (o_log o))) (snd r2)) [] = [FAck None; FNameplates []].
Proof.
  cbv zeta. split; [reflexivity|]. split; [reflexivity|]. split; [reflexivity|].
  split; [repeat constructor|]. vm_compute. repeat split; reflexivity.
Qed.
Print Assumptions config_erasure_stamps_nonvacuous.

(** C06: app b opens a mailbox at clock 3 and adds a message at clock 5; app a opens and claims
    in between and the process dies inside a's claim; after the restart b's second client gets the
    message at clock 9.  B's side sees ten frames, with stamps 0 0 0 3 5 5 9 9 9 9, in the full run
    and in the run without app a *)
Definition af_bindb (side : string) : command :=
  mkCmd (Some TBind) None (Some "b") (Some side) None None None None None None None.
Definition af_add : command :=
  mkCmd (Some TAdd) None None None None None (Some "ph") (Some "body") None None None.
Definition af_hb : list event :=
  [EB (EConnect 1); EB (ECmd 1 (ur_bind "s1") ur_o0); EB (EConnect 2); EB (ECmd 2 (af_bindb "t1") ur_o0);
   EB (EAdvance 3 false); EB (ECmd 2 (ur_open "mb") ur_o0); EB (ECmd 1 (ur_open "ma") ur_o0);
   EB (EAdvance 2 false); EB (ECmd 2 af_add ur_o0); ECrash 1 (ECmd 1 ur_claim ur_o1);
   EB (EAdvance 4 false);
   EB (EConnect 3); EB (ECmd 3 (af_bindb "t2") ur_o0); EB (ECmd 3 (ur_open "mb") ur_o0)].

Example noninterference_x_stamped_nonvacuous :
  let s0 := init ur_cfg 0 in
  no_failure_run_x ur_cfg s0 af_hb /\
  List.length (filterX ur_cfg "b" s0 af_hb) = 12%nat /\
  nth 7 (filterX ur_cfg "b" s0 af_hb) (EB (EConnect 0)) = ERestart /\
  map snd (sframesX_run ur_cfg "b" s0 af_hb) = [0; 0; 0; 3; 5; 5; 9; 9; 9; 9] /\
  sframesX_run ur_cfg "b" s0 af_hb =
    flat_map (fun o => sframes_of (o_log o)) (snd (run ur_cfg s0 (filterX ur_cfg "b" s0 af_hb))) /\
  nth 5 (sframesX_run ur_cfg "b" s0 af_hb) (0%nat, FReleased, 0) =
    (2%nat, FMessage "t1" "ph" "body" 5 None, 5) /\
  nth 9 (sframesX_run ur_cfg "b" s0 af_hb) (0%nat, FReleased, 0) =
    (3%nat, FMessage "t1" "ph" "body" 5 None, 9).
Proof. vm_compute. repeat split; reflexivity. Qed.
Print Assumptions noninterference_x_stamped_nonvacuous.
