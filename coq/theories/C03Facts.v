(** C03Facts.v -- C03 over whole histories: the mailbox ids handed out for
    nameplate incarnations are a function of the incarnation (stable) and an
    injective one (unshared), provided the random draws are pairwise distinct
    8-byte strings. *)
From MW Require Import Base Store Monad Usage Server Websocket Service Findings
     Inv StoreFacts Hoare DbFactsA DbFactsB OpFacts ProtoFacts Obs StepFacts SweepFacts
     NpFactsA MbFactsA MbFactsB NpFactsB GenidFacts Corollaries.
Local Open Scope list_scope.

(** the random bytes recorded for an event (os.urandom was called while handling it) *)
Definition event_draw (e : event) : list string :=
  match e with
  | EB (ECmd _ _ o) | ECrash _ (ECmd _ _ o) =>
      match o_draw o with Some b => [b] | None => [] end
  | _ => []
  end.
Definition draws_of (h : list event) : list string := flat_map event_draw h.

(** * Auxiliary: small list facts *)

Lemma NoDup_app_disjoint {A} (l1 l2 : list A) x :
  NoDup (l1 ++ l2) -> In x l1 -> In x l2 -> False.
Proof.
  induction l1 as [|y l1 IH]; intros Hnd H1 H2; [destruct H1|].
  cbn [app] in Hnd. inversion Hnd as [|y' l' Hny Hnd']; subst.
  destruct H1 as [->|H1].
  - apply Hny. apply in_or_app. right. exact H2.
  - exact (IH Hnd' H1 H2).
Qed.

Lemma in_seen_step {A} (seen cur extra rest : list A) r :
  incl cur seen ->
  In r (seen ++ cur ++ rest) -> In r ((seen ++ extra) ++ rest).
Proof.
  intros Hinc H. apply in_app_iff in H. destruct H as [H|H].
  - apply in_or_app. left. apply in_or_app. left. exact H.
  - apply in_app_iff in H. destruct H as [H|H].
    + apply in_or_app. left. apply in_or_app. left. apply Hinc. exact H.
    + apply in_or_app. right. exact H.
Qed.

(** * Auxiliary: the rows an event adds to [nameplates]

    Instance of NpFactsB's traversal: relative to the database [d0] the event
    finds, every later work copy, committed copy and committed snapshot holds
    only rows of [d0] plus at most one new row, whose mailbox id is
    [genid b] for a draw [b] recorded for the event. *)

Definition new_ok (draws : list string) (new : list np_row) : Prop :=
  new = [] \/ exists id a n b, In b draws /\ new = [mkNp id a n (genid b)].

Definition np_fresh1 (d0 : chan_db) (draws : list string) (d' : chan_db) : Prop :=
  exists new, new_ok draws new /\ incl (nameplates d') (nameplates d0 ++ new).

(** entry condition of the one body that adds a row: nothing has touched the
    table yet, and the draw it is given is one recorded for the event *)
Definition at_entry (d0 : chan_db) (draws : list string)
           (draw : option string) (d : chan_db) : Prop :=
  nameplates d = nameplates d0 /\ forall b, draw = Some b -> In b draws.

Lemma np_fresh1_shrink d0 draws d d' :
  np_shrink d d' -> np_fresh1 d0 draws d -> np_fresh1 d0 draws d'.
Proof.
  intros [_ [p E]] (new & Hnew & Hinc). exists new. split; [exact Hnew|].
  intros r Hr. rewrite E in Hr. apply filter_In in Hr. apply Hinc. apply Hr.
Qed.

Lemma np_fresh1_claim d0 draws d a name side w draw :
  np_fresh1 d0 draws d -> at_entry d0 draws draw d ->
  match claim_body d a name side w draw with
  | TxOk _ d' => np_fresh1 d0 draws d'
  | TxFail _ d' => np_fresh1 d0 draws d'
  end.
Proof.
  intros (new & Hnew & Hinc) [E0 Hdr].
  pose proof (claim_body_np d a name side w draw) as K.
  destruct (claim_body d a name side w draw);
    (destruct K as [[N _]|(_ & bytes & Ed & N & _)];
     [exists new; split; [exact Hnew|]; rewrite N; exact Hinc
     |exists [mkNp (np_seq d + 1) a name (genid bytes)]; split;
      [right; exists (np_seq d + 1), a, name, bytes; split; [exact (Hdr bytes Ed)|reflexivity]
      |rewrite N, E0; apply incl_refl]]).
Qed.

(** the initial state has no nameplates *)
Definition np_none (d : chan_db) : Prop := nameplates d = [].

Lemma np_none_shrink d d' : np_shrink d d' -> np_none d -> np_none d'.
Proof. intros [_ [p E]] H. unfold np_none in *. rewrite E, H. reflexivity. Qed.

Section WithConfig.
Variable cfg : config.
Hypothesis Hexp : 0 < exp cfg.

(** every nameplate row that exists in some state along a run *)
Fixpoint rows_seen (s : state) (h : list event) : list np_row :=
  nameplates (chan_w s) ++
  match h with
  | [] => []
  | e :: h' => rows_seen (fst (step cfg s e)) h'
  end.

Lemma init_no_nameplates t0 : nameplates (chan_w (init cfg t0)) = [].
Proof.
  unfold init.
  pose proof (boot_on_TS cfg np_none np_none_shrink
                empty_chan empty_usage t0 eq_refl) as H.
  destruct H as (H & _). exact H.
Qed.

(** one event: rows of the old state, plus at most one new row made from the
    event's recorded draw *)
Lemma step_new_rows s e :
  SInv s ->
  exists new, new_ok (event_draw e) new /\
    incl (nameplates (chan_w (fst (step cfg s e)))) (nameplates (chan_w s) ++ new).
Proof.
  intros HS.
  assert (Hc : chan_c s = chan_w s) by (symmetry; apply (si_clean s HS)).
  assert (H0 : np_fresh1 (chan_w s) (event_draw e) (chan_w s)).
  { exists []. split; [left; reflexivity|]. apply incl_appl, incl_refl. }
  pose proof (step_TS cfg (np_fresh1 (chan_w s) (event_draw e))
                (at_entry (chan_w s) (event_draw e))
                (np_fresh1_shrink (chan_w s) (event_draw e))
                (np_fresh1_claim (chan_w s) (event_draw e)) s e) as H.
  destruct H as (H & _).
  - exact H0.
  - rewrite Hc. exact H0.
  - intros k c m o He. split; [reflexivity|]. intros b Hb.
    destruct He as [->| ->]; cbn [event_draw]; rewrite Hb; left; reflexivity.
  - exact H.
Qed.

(** ** stable *)
Lemma rows_functional_gen : forall h s seen,
  SInv s -> log s = [] ->
  incl (nameplates (chan_w s)) seen ->
  (forall r, In r seen -> np_id r <= np_seq (chan_w s)) ->
  (forall r1 r2, In r1 seen -> In r2 seen -> np_id r1 = np_id r2 -> r1 = r2) ->
  forall r1 r2, In r1 (seen ++ rows_seen s h) -> In r2 (seen ++ rows_seen s h) ->
                np_id r1 = np_id r2 -> r1 = r2.
Proof.
  induction h as [|e h IH]; intros s seen HS Hl Hinc Hle Hfun r1 r2 H1 H2 Eid.
  - cbn [rows_seen] in H1, H2. rewrite app_nil_r in H1, H2.
    assert (K : forall r, In r (seen ++ nameplates (chan_w s)) -> In r seen).
    { intros r Hr. apply in_app_iff in Hr. destruct Hr as [Hr|Hr]; [exact Hr|exact (Hinc r Hr)]. }
    exact (Hfun r1 r2 (K r1 H1) (K r2 H2) Eid).
  - cbn [rows_seen] in H1, H2.
    pose proof (step_spec cfg Hexp s e HS) as W.
    pose proof (np_rows_immutable cfg Hexp s e HS Hl) as R. cbv zeta in R.
    destruct (step cfg s e) as [s' o]. cbn [fst] in *.
    destruct W as (HS' & Hl' & _). destruct R as [Rseq Rrow].
    pose proof (si_db s' HS') as Hdb'.
    apply (IH s' (seen ++ nameplates (chan_w s')) HS' Hl'); [| | | | |exact Eid].
    + apply incl_appr, incl_refl.
    + intros r Hr. apply in_app_iff in Hr. destruct Hr as [Hr|Hr].
      * specialize (Hle r Hr). lia.
      * exact (inv_np_seq _ Hdb' r Hr).
    + intros x y Hx Hy Exy.
      assert (Kmix : forall u v, In u seen -> In v (nameplates (chan_w s')) ->
                                 np_id u = np_id v -> u = v).
      { intros u v Hu Hv Euv. destruct (Rrow v Hv) as [Hv0|Hlt].
        - exact (Hfun u v Hu (Hinc v Hv0) Euv).
        - specialize (Hle u Hu). lia. }
      apply in_app_iff in Hx. apply in_app_iff in Hy.
      destruct Hx as [Hx|Hx]; destruct Hy as [Hy|Hy].
      * exact (Hfun x y Hx Hy Exy).
      * exact (Kmix x y Hx Hy Exy).
      * symmetry. apply (Kmix y x Hy Hx). symmetry. exact Exy.
      * apply (NoDup_map_inj np_id (nameplates (chan_w s')));
          [apply inv_np_id; exact Hdb'|exact Hx|exact Hy|exact Exy].
    + apply (in_seen_step seen (nameplates (chan_w s))); assumption.
    + apply (in_seen_step seen (nameplates (chan_w s))); assumption.
Qed.

(** ** unshared *)
Definition len8 (b : string) : Prop := String.length b = 8%nat.

Lemma rows_mbox_gen : forall h s seen U,
  SInv s -> log s = [] ->
  incl (nameplates (chan_w s)) seen ->
  (forall r, In r seen -> exists b, In b U /\ np_mbox r = genid b) ->
  (forall r1 r2, In r1 seen -> In r2 seen -> np_mbox r1 = np_mbox r2 -> r1 = r2) ->
  NoDup (U ++ draws_of h) -> Forall len8 (U ++ draws_of h) ->
  forall r1 r2, In r1 (seen ++ rows_seen s h) -> In r2 (seen ++ rows_seen s h) ->
                np_mbox r1 = np_mbox r2 -> r1 = r2.
Proof.
  induction h as [|e h IH]; intros s seen U HS Hl Hinc Hgen Hfun Hnd H8 r1 r2 H1 H2 Em.
  - cbn [rows_seen] in H1, H2. rewrite app_nil_r in H1, H2.
    assert (K : forall r, In r (seen ++ nameplates (chan_w s)) -> In r seen).
    { intros r Hr. apply in_app_iff in Hr. destruct Hr as [Hr|Hr]; [exact Hr|exact (Hinc r Hr)]. }
    exact (Hfun r1 r2 (K r1 H1) (K r2 H2) Em).
  - cbn [rows_seen] in H1, H2.
    change (draws_of (e :: h)) with (event_draw e ++ draws_of h) in Hnd, H8.
    rewrite app_assoc in Hnd, H8.
    pose proof (step_spec cfg Hexp s e HS) as W.
    destruct (step_new_rows s e HS) as (new & Hnew & Hincl).
    destruct (step cfg s e) as [s' o]. cbn [fst] in *.
    destruct W as (HS' & Hl' & _).
    assert (Hnd1 : NoDup (U ++ event_draw e)).
    { clear - Hnd. revert Hnd. generalize (U ++ event_draw e) as l. intros l.
      induction l as [|x l IHl]; intros Hnd; [constructor|].
      cbn [app] in Hnd. inversion Hnd as [|x' l' Hx Hnd']; subst. constructor.
      - intros Hin. apply Hx. apply in_or_app. left. exact Hin.
      - exact (IHl Hnd'). }
    assert (H81 : forall b, In b (U ++ event_draw e) -> len8 b).
    { intros b Hb. rewrite Forall_forall in H8. apply H8. apply in_or_app. left. exact Hb. }
    apply (IH s' (seen ++ new) (U ++ event_draw e) HS' Hl'); [| | |exact Hnd|exact H8| | |exact Em].
    + intros r Hr. apply Hincl in Hr. apply in_app_iff in Hr. apply in_or_app.
      destruct Hr as [Hr|Hr]; [left; exact (Hinc r Hr)|right; exact Hr].
    + intros r Hr. apply in_app_iff in Hr. destruct Hr as [Hr|Hr].
      * destruct (Hgen r Hr) as (b & Hb & Eb). exists b. split; [|exact Eb].
        apply in_or_app. left. exact Hb.
      * destruct Hnew as [->|(id & a & n & b & Hb & ->)]; [destruct Hr|].
        destruct Hr as [<-|[]]. exists b. split; [|reflexivity].
        apply in_or_app. right. exact Hb.
    + assert (Kmix : forall u v, In u seen -> In v new -> np_mbox u = np_mbox v -> u = v).
      { intros u v Hu Hv Euv. exfalso.
        destruct Hnew as [->|(id & a & n & b & Hb & ->)]; [destruct Hv|].
        destruct Hv as [<-|[]]. cbn [np_mbox] in Euv.
        destruct (Hgen u Hu) as (bu & Hbu & Ebu). rewrite Ebu in Euv.
        assert (bu = b).
        { apply genid_inj; [apply H81|apply H81|exact Euv]; apply in_or_app;
            [left; exact Hbu|right; exact Hb]. }
        subst bu. exact (NoDup_app_disjoint U (event_draw e) b Hnd1 Hbu Hb). }
      intros x y Hx Hy Exy.
      apply in_app_iff in Hx. apply in_app_iff in Hy.
      destruct Hx as [Hx|Hx]; destruct Hy as [Hy|Hy].
      * exact (Hfun x y Hx Hy Exy).
      * exact (Kmix x y Hx Hy Exy).
      * symmetry. apply (Kmix y x Hy Hx). symmetry. exact Exy.
      * destruct Hnew as [->|(id & a & n & b & Hb & ->)]; [destruct Hx|].
        destruct Hx as [<-|[]]. destruct Hy as [<-|[]]. reflexivity.
    + apply (in_seen_step seen (nameplates (chan_w s))); assumption.
    + apply (in_seen_step seen (nameplates (chan_w s))); assumption.
Qed.

(** a `claimed` answer is the mailbox id stored in a nameplate row of the
    caller's app with the claimed name, present after the command *)
Theorem claimed_is_row s c cs a side msg o n mbox :
  SInv s -> log s = [] ->
  lookup_conn c (conns s) = Some cs -> c_bound cs = Some (a, side) ->
  m_type msg = Some TClaim -> erroneous cs msg = false -> m_nameplate msg = Some n ->
  let '(s', ob) := step cfg s (EB (ECmd c msg o)) in
  In (c, FClaimed mbox) (frames_of (o_log ob)) ->
  exists np, In np (nameplates (chan_w s')) /\ np_app np = a /\ np_name np = n /\ np_mbox np = mbox /\
             (forall np', In np' (nameplates (chan_w s')) -> np_app np' = a -> np_name np' = n -> np' = np).
Proof.
  intros HS Hl Hlk Hb Ht Herr Hn.
  pose proof (claim_outcome cfg s c cs a side msg o n HS Hl Hlk Hb Ht Herr Hn) as Hco.
  pose proof (step_spec cfg Hexp s (EB (ECmd c msg o)) HS) as W.
  destruct (step cfg s (EB (ECmd c msg o))) as [s' ob].
  destruct W as (HS' & _). cbv zeta in Hco. destruct Hco as (_ & Hco).
  intros Hin.
  destruct Hco as [(Hfr & _)|[(Hfr & _)|(_ & _ & _ & _ & np & Hsel & _ & _ & Hfr)]].
  - exfalso. rewrite Hfr in Hin.
    destruct Hin as [E|[E|[]]]; discriminate E.
  - exfalso. rewrite Hfr in Hin. destruct Hin as [E|[]]; discriminate E.
  - destruct Hfr as [Hfr|Hfr]; rewrite Hfr in Hin.
    + destruct Hin as [E|[E|[]]]; [discriminate E|]. inversion E as [Em].
      destruct (sel_np_some _ _ _ _ Hsel) as (Hnp & Ha & Hnm).
      exists np. split; [exact Hnp|]. split; [exact Ha|]. split; [exact Hnm|].
      split; [reflexivity|].
      intros np' Hnp' Ha' Hn'.
      apply (NoDup_map_inj np_key (nameplates (chan_w s')));
        [apply inv_np_key; apply (si_db s' HS')|exact Hnp'|exact Hnp|].
      unfold np_key. congruence.
    + exfalso. destruct Hin as [E|[E|[]]]; discriminate E.
Qed.

(** stable: along any history from the initial state, a nameplates.id denotes
    one row -- one app, one name, one mailbox id -- for as long as it exists *)
Theorem rows_seen_functional t0 h r1 r2 :
  In r1 (rows_seen (init cfg t0) h) -> In r2 (rows_seen (init cfg t0) h) ->
  np_id r1 = np_id r2 -> r1 = r2.
Proof.
  destruct (init_spec cfg Hexp t0) as [HS Hl].
  apply (rows_functional_gen h (init cfg t0) [] HS Hl).
  - rewrite init_no_nameplates. apply incl_refl.
  - intros r [].
  - intros x y [].
Qed.

(** unshared: two rows seen anywhere along the history -- different names,
    different apps, or a later incarnation of the same name -- never carry the
    same mailbox id, when the draws are pairwise distinct 8-byte strings *)
Theorem incarnations_distinct t0 h r1 r2 :
  NoDup (draws_of h) -> Forall (fun b => String.length b = 8%nat) (draws_of h) ->
  In r1 (rows_seen (init cfg t0) h) -> In r2 (rows_seen (init cfg t0) h) ->
  np_mbox r1 = np_mbox r2 -> r1 = r2.
Proof.
  intros Hnd H8.
  destruct (init_spec cfg Hexp t0) as [HS Hl].
  apply (rows_mbox_gen h (init cfg t0) [] [] HS Hl).
  - rewrite init_no_nameplates. apply incl_refl.
  - intros r [].
  - intros x y [].
  - exact Hnd.
  - exact H8.
Qed.

End WithConfig.
