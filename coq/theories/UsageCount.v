(** UsageCount.v -- C15, history part: with a usage database, every
    retirement of a nameplate or mailbox writes exactly one record, computed
    from its side rows at the moment of retirement; nothing else writes
    nameplate or mailbox records; every sweep rewrites the single status row. *)
From MW Require Import Base Store Monad Usage Server Websocket Service Findings
     Inv StoreFacts Hoare DbFactsA DbFactsB OpFacts ProtoFacts Obs SweepFacts
     NpFactsA MbFactsA MbFactsB.
From Coq Require Import Sorting.Permutation.
Local Open Scope list_scope.

(** rows of [l] that are no longer in [l'] *)
Definition gone {A} (eqb : A -> A -> bool) (l l' : list A) : list A :=
  filter (fun x => negb (existsb (eqb x) l')) l.

Definition np_same (x y : np_row) : bool := np_id x =? np_id y.
Definition mb_same (x y : mb_row) : bool := seqb (mb_id x) (mb_id y).

(** * Auxiliary: computations that never touch the usage database *)

Definition usame (s s' : state) : Prop :=
  usage_w s' = usage_w s /\ usage_c s' = usage_c s.

Definition upres {A} (m : M A) : Prop :=
  forall s, match m s with
            | Ok _ s' => usame s s'
            | Exn _ s' => usame s s'
            end.

Lemma usame_refl s : usame s s.
Proof. split; reflexivity. Qed.

Lemma usame_trans s1 s2 s3 : usame s1 s2 -> usame s2 s3 -> usame s1 s3.
Proof. intros [A1 A2] [B1 B2]. split; congruence. Qed.

Lemma upres_ret {A} (a : A) : upres (ret a).
Proof. intros s. apply usame_refl. Qed.

Lemma upres_raise {A} e : upres (@raise A e).
Proof. intros s. apply usame_refl. Qed.

Lemma upres_err {A} : upres (@err A).
Proof. intros s. apply usame_refl. Qed.

Lemma upres_bind {A B} (m : M A) (k : A -> M B) :
  upres m -> (forall a, upres (k a)) -> upres (bind m k).
Proof.
  intros Hm Hk s. unfold bind. specialize (Hm s).
  destruct (m s) as [a s1|e s1]; [|exact Hm].
  specialize (Hk a s1). destruct (k a s1); eapply usame_trans; eassumption.
Qed.

Lemma upres_try_catch {A} (m : M A) (h : exn -> M A) :
  upres m -> (forall e, upres (h e)) -> upres (try_catch m h).
Proof.
  intros Hm Hh s. unfold try_catch. specialize (Hm s).
  destruct (m s) as [a s1|e s1]; [exact Hm|].
  specialize (Hh e s1). destruct (h e s1); eapply usame_trans; eassumption.
Qed.

Lemma upres_get : upres get.
Proof. intros s. apply usame_refl. Qed.

Lemma upres_q {A} (f : chan_db -> A) : upres (q f).
Proof. intros s. apply usame_refl. Qed.

Lemma upres_tx {A} (f : chan_db -> txres A) : upres (tx f).
Proof. intros s. unfold tx. destruct (f (chan_w s)); split; reflexivity. Qed.

Lemma upres_commit_chan : upres commit_chan.
Proof. intros s. split; reflexivity. Qed.

Lemma upres_send c f : upres (send c f).
Proof. intros s. split; reflexivity. Qed.

Lemma upres_get_conn c : upres (get_conn c).
Proof. intros s. apply usame_refl. Qed.

Lemma upres_set_conn c cs : upres (set_conn c cs).
Proof. intros s. split; reflexivity. Qed.

Lemma upres_add_sub a m c : upres (add_sub a m c).
Proof. intros s. unfold add_sub. destruct (existsb _ _); split; reflexivity. Qed.

Lemma upres_remove_sub a m c : upres (remove_sub a m c).
Proof. intros s. split; reflexivity. Qed.

Lemma upres_send_all cs f : upres (send_all cs f).
Proof.
  induction cs as [|c rest IH]; cbn [send_all]; [apply upres_ret|].
  apply upres_bind; [apply upres_send|intros _; exact IH].
Qed.

Lemma upres_send_each c l : upres (send_each c l).
Proof.
  induction l as [|r rest IH]; cbn [send_each]; [apply upres_ret|].
  apply upres_bind; [apply upres_send|intros _; exact IH].
Qed.

Ltac upres_step :=
  first
    [ apply upres_ret | apply upres_raise | apply upres_err | apply upres_get
    | apply upres_q | apply upres_tx | apply upres_commit_chan | apply upres_send
    | apply upres_get_conn | apply upres_set_conn | apply upres_add_sub
    | apply upres_remove_sub | apply upres_send_all | apply upres_send_each
    | apply upres_bind; [|intros ?]
    | match goal with
      | |- upres (match ?x with _ => _ end) => destruct x
      end ].

Lemma upres_open_mailbox a m side w : upres (open_mailbox a m side w).
Proof. unfold open_mailbox. repeat upres_step. Qed.

Lemma upres_catch_crowded {A} (m : M A) : upres m -> upres (catch_crowded m).
Proof.
  intros H. unfold catch_crowded. apply upres_try_catch; [exact H|].
  intros e. destruct e; apply upres_raise.
Qed.

Lemma upres_catch_crowded_reclaimed {A} (m : M A) : upres m -> upres (catch_crowded_reclaimed m).
Proof.
  intros H. unfold catch_crowded_reclaimed. apply upres_try_catch; [exact H|].
  intros e. destruct e; apply upres_raise.
Qed.

Lemma upres_claim_nameplate a n side w draw : upres (claim_nameplate a n side w draw).
Proof.
  unfold claim_nameplate. apply upres_bind; [apply upres_tx|]. intros [npid mbox].
  apply upres_bind; [apply upres_commit_chan|]. intros _.
  apply upres_bind; [apply upres_open_mailbox|]. intros _.
  repeat upres_step.
Qed.

Lemma upres_allocate_nameplate a side w o draw : upres (allocate_nameplate a side w o draw).
Proof.
  unfold allocate_nameplate. apply upres_bind; [apply upres_q|]. intros claimed.
  destruct (find_available claimed o); try apply upres_raise.
  apply upres_bind; [apply upres_claim_nameplate|]. intros _. apply upres_ret.
Qed.

Lemma upres_handle_ping c msg : upres (handle_ping c msg).
Proof. unfold handle_ping. repeat upres_step. Qed.

Lemma upres_handle_list cfg c a : upres (handle_list cfg c a).
Proof. unfold handle_list. repeat upres_step. Qed.

Lemma upres_handle_allocate c a side o : upres (handle_allocate c a side o).
Proof.
  unfold handle_allocate. apply upres_bind; [apply upres_get_conn|]. intros cs.
  destruct (c_did_allocate cs); [apply upres_err|].
  apply upres_bind; [apply upres_get|]. intros st.
  apply upres_bind; [apply upres_allocate_nameplate|]. intros n.
  repeat upres_step.
Qed.

Lemma upres_handle_claim c a side msg o : upres (handle_claim c a side msg o).
Proof.
  unfold handle_claim. destruct (m_nameplate msg) as [n|]; [|apply upres_err].
  apply upres_bind; [apply upres_get_conn|]. intros cs.
  destruct (c_did_claim cs); [apply upres_err|].
  apply upres_bind; [apply upres_set_conn|]. intros _.
  apply upres_bind; [apply upres_get|]. intros st.
  apply upres_bind; [apply upres_catch_crowded_reclaimed, upres_claim_nameplate|]. intros m.
  apply upres_send.
Qed.

Lemma upres_handle_open c a side msg : upres (handle_open c a side msg).
Proof.
  unfold handle_open. apply upres_bind; [apply upres_get_conn|]. intros cs.
  destruct (c_mailbox cs); [apply upres_err|].
  destruct (m_mailbox msg) as [m|]; [|apply upres_err].
  apply upres_bind; [apply upres_set_conn|]. intros _.
  apply upres_bind; [apply upres_get|]. intros st.
  apply upres_bind; [apply upres_catch_crowded, upres_open_mailbox|]. intros _.
  unfold get_messages. repeat upres_step.
Qed.

Lemma upres_handle_add c a side msg : upres (handle_add c a side msg).
Proof.
  unfold handle_add. apply upres_bind; [apply upres_get_conn|]. intros cs.
  destruct (c_mailbox cs) as [m|]; [|apply upres_err].
  destruct (m_phase msg); [|apply upres_err]. destruct (m_body msg); [|apply upres_err].
  apply upres_bind; [apply upres_get|]. intros st.
  unfold add_message. repeat upres_step.
Qed.

Lemma upres_on_close c : upres (on_close c).
Proof. unfold on_close. repeat upres_step. Qed.

Lemma upres_dispatch cfg c t msg o :
  t <> TBind -> t <> TRelease -> t <> TClose -> upres (dispatch cfg c t msg o).
Proof.
  intros Hb Hr Hc. unfold dispatch.
  destruct t; try congruence; try apply upres_handle_ping;
    (apply upres_bind; [apply upres_get_conn|]; intros cs;
     destruct (c_bound cs) as [[a side]|]; [|apply upres_err]).
  - apply upres_handle_list.
  - apply upres_handle_allocate.
  - apply upres_handle_claim.
  - apply upres_handle_open.
  - apply upres_handle_add.
  - apply upres_err.
Qed.

Lemma upres_on_message cfg c msg o :
  m_type msg <> Some TBind -> m_type msg <> Some TRelease -> m_type msg <> Some TClose ->
  upres (on_message cfg c msg o).
Proof.
  intros Hb Hr Hc. unfold on_message. apply upres_try_catch.
  - destruct (m_type msg) as [t|]; [|apply upres_err].
    apply upres_bind; [apply upres_send|]. intros _.
    apply upres_dispatch; congruence.
  - intros e. destruct e; try apply upres_raise. apply upres_send.
Qed.

Lemma drop_conn_usage c s : usame s (drop_conn c s).
Proof.
  unfold drop_conn. pose proof (upres_on_close c s) as H.
  destruct (on_close c s); exact H.
Qed.

(** * Auxiliary: lists *)

Lemma gone_same {A} (eqb : A -> A -> bool) l :
  (forall x, eqb x x = true) -> gone eqb l l = [].
Proof.
  intros Hr. unfold gone.
  assert (H : forall l0, (forall x, In x l0 -> In x l) ->
                         filter (fun x => negb (existsb (eqb x) l)) l0 = []).
  { induction l0 as [|x l0 IH]; intros Hin; cbn [filter]; [reflexivity|].
    assert (E : existsb (eqb x) l = true).
    { apply existsb_exists. exists x. split; [apply Hin; left; reflexivity|apply Hr]. }
    rewrite E. cbn [negb]. apply IH. intros y Hy. apply Hin. right. exact Hy. }
  apply H. auto.
Qed.

Lemma fold_uins u unps umbs :
  fold_left uins_mb umbs (fold_left uins_np unps u) =
  mkUsage (u_nameplates u ++ unps) (u_mailboxes u ++ umbs) (u_versions u) (u_current u).
Proof.
  assert (H1 : forall l v, fold_left uins_np l v =
             mkUsage (u_nameplates v ++ l) (u_mailboxes v) (u_versions v) (u_current v)).
  { induction l as [|x l IH]; intros v; cbn [fold_left].
    - rewrite app_nil_r. destruct v; reflexivity.
    - rewrite IH. unfold uins_np. cbn. rewrite <- app_assoc. reflexivity. }
  assert (H2 : forall l v, fold_left uins_mb l v =
             mkUsage (u_nameplates v) (u_mailboxes v ++ l) (u_versions v) (u_current v)).
  { induction l as [|x l IH]; intros v; cbn [fold_left].
    - rewrite app_nil_r. destruct v; reflexivity.
    - rewrite IH. unfold uins_mb. cbn. rewrite <- app_assoc. reflexivity. }
  rewrite H2, H1. reflexivity.
Qed.

Lemma summarize_nameplate_added b a rows rows' w p :
  map nps_added rows = map nps_added rows' ->
  summarize_nameplate b a rows w p = summarize_nameplate b a rows' w p.
Proof. intros H. unfold summarize_nameplate. rewrite H. reflexivity. Qed.

Lemma sel_nps_all_rm_other d i j : j <> i -> sel_nps_all (rm_np d i) j = sel_nps_all d j.
Proof.
  intros Hne. unfold sel_nps_all, rm_np. cbn [np_sides]. rewrite filter_filter.
  apply filter_ext. intros x. destruct (nps_npid x =? j) eqn:E.
  - apply Z.eqb_eq in E. rewrite E.
    assert (E2 : j =? i = false) by (apply Z.eqb_neq; exact Hne). rewrite E2. reflexivity.
  - apply andb_false_r.
Qed.

Lemma sel_mbs_all_rm_other d m m' : m' <> m -> sel_mbs_all (rm_mb d m) m' = sel_mbs_all d m'.
Proof.
  intros Hne. unfold sel_mbs_all, rm_mb. cbn [mb_sides]. rewrite filter_filter.
  apply filter_ext. intros x. destruct (seqb (mbs_mbox x) m') eqn:E.
  - apply seqb_eq in E. rewrite E.
    assert (E2 : seqb m' m = false) by (apply seqb_neq; exact Hne). rewrite E2. reflexivity.
  - apply andb_false_r.
Qed.

Lemma NoDup_app_l {A} (X Y : list A) : NoDup (X ++ Y) -> NoDup X.
Proof.
  induction X as [|x X IH]; intros H; [constructor|].
  inversion H as [|? ? Hnin Hnd]; subst. constructor.
  - intros Hin. apply Hnin. apply in_or_app. left. exact Hin.
  - apply IH. exact Hnd.
Qed.

Lemma NoDup_map_app_disj {A B} (h : A -> B) (X Y : list A) a b :
  NoDup (map h (X ++ Y)) -> In a X -> In b Y -> h a <> h b.
Proof.
  induction X as [|x X IH]; intros Hnd Ha Hb; [contradiction|].
  cbn [app map] in Hnd. inversion Hnd as [|? ? Hnin Hnd']; subst.
  destruct Ha as [->|Ha].
  - intros E. apply Hnin. rewrite E. apply in_map. apply in_or_app. right. exact Hb.
  - apply IH; assumption.
Qed.

Lemma filter_partition_perm {A} (p : A -> bool) l :
  Permutation l (filter p l ++ filter (fun x => negb (p x)) l).
Proof.
  induction l as [|x l IH]; cbn [filter]; [constructor|].
  destruct (p x); cbn [negb app].
  - constructor. exact IH.
  - apply Permutation_cons_app. exact IH.
Qed.

Lemma existsb_key_filter {A K} (eqb : K -> K -> bool) (key : A -> K) (p : A -> bool) l r :
  (forall x y, eqb x y = true <-> x = y) -> NoDup (map key l) -> In r l ->
  existsb (eqb (key r)) (map key (filter p l)) = p r.
Proof.
  intros Heq Hnd Hr. destruct (p r) eqn:E.
  - apply existsb_exists. exists (key r). split; [|apply Heq; reflexivity].
    apply in_map. apply filter_In. split; assumption.
  - apply existsb_false_iff. intros k Hk. apply in_map_iff in Hk. destruct Hk as [x [Ex Hx]].
    apply filter_In in Hx. destruct Hx as [Hx Hp].
    destruct (eqb (key r) k) eqn:E2; [|reflexivity]. apply Heq in E2.
    assert (x = r).
    { apply (NoDup_map_inj key l); [exact Hnd|exact Hx|exact Hr|congruence]. }
    subst x. congruence.
Qed.

Lemma smem_existsb x l : smem x l = existsb (seqb x) l.
Proof. induction l as [|y l IH]; cbn [smem existsb]; [reflexivity|]. rewrite IH. reflexivity. Qed.

(** the rows that disappeared, up to a key, from a partition of the keys *)
Lemma gone_perm {A B I} (f : A -> B) (h : B -> I) (eqb : A -> A -> bool) l l' K :
  (forall x y, eqb x y = true <-> h (f x) = h (f y)) ->
  NoDup (map h (map f l)) -> Permutation (map f l) (K ++ map f l') ->
  Permutation (map f (gone eqb l l')) K.
Proof.
  intros Heq Hnd Hperm.
  assert (Hndf : NoDup (map f l)) by (eapply NoDup_map_inv; exact Hnd).
  assert (HndK : NoDup (map h (K ++ map f l'))).
  { eapply Permutation_NoDup; [apply Permutation_map; exact Hperm|exact Hnd]. }
  apply NoDup_Permutation.
  - unfold gone. apply NoDup_map_filter. exact Hndf.
  - apply (NoDup_app_l K (map f l')). eapply Permutation_NoDup; [exact Hperm|exact Hndf].
  - intros k. split.
    + intros Hk. apply in_map_iff in Hk. destruct Hk as [x [Ex Hx]].
      unfold gone in Hx. apply filter_In in Hx. destruct Hx as [Hx Hg].
      apply negb_true_iff in Hg.
      assert (Hin : In (f x) (K ++ map f l')).
      { eapply Permutation_in; [exact Hperm|]. apply in_map. exact Hx. }
      apply in_app_or in Hin. destruct Hin as [Hin|Hin]; [rewrite <- Ex; exact Hin|].
      exfalso. apply in_map_iff in Hin. destruct Hin as [y [Ey Hy]].
      pose proof (proj1 (existsb_false_iff _ _) Hg y Hy) as Hf.
      assert (Ht : eqb x y = true) by (apply Heq; rewrite Ey; reflexivity).
      congruence.
    + intros Hk.
      assert (Hin : In k (map f l)).
      { eapply Permutation_in; [apply Permutation_sym; exact Hperm|].
        apply in_or_app. left. exact Hk. }
      apply in_map_iff in Hin. destruct Hin as [x [Ex Hx]].
      apply in_map_iff. exists x. split; [exact Ex|].
      unfold gone. apply filter_In. split; [exact Hx|]. apply negb_true_iff.
      apply existsb_false_iff. intros y Hy.
      destruct (eqb x y) eqn:E; [|reflexivity]. exfalso.
      apply Heq in E.
      apply (NoDup_map_app_disj h K (map f l') k (f y) HndK Hk); [apply in_map; exact Hy|].
      rewrite <- Ex. exact E.
Qed.

(** iterated mailbox deletion in closed form *)
Lemma fold_rm_mb ms : forall d,
  fold_left rm_mb ms d =
  mkChan (nameplates d) (np_sides d)
         (filter (fun r => negb (smem (mb_id r) ms)) (mailboxes d))
         (filter (fun x => negb (smem (mbs_mbox x) ms)) (mb_sides d))
         (filter (fun x => negb (smem (msg_mbox x) ms)) (messages d)) (np_seq d).
Proof.
  induction ms as [|m rest IH]; intros d; cbn [fold_left].
  - cbn [smem negb]. rewrite !filter_all_true by reflexivity. destruct d; reflexivity.
  - rewrite IH. unfold rm_mb. cbn [nameplates np_sides mailboxes mb_sides messages np_seq].
    rewrite !filter_filter. f_equal; apply filter_ext; intros r; cbn [smem];
      rewrite negb_orb; reflexivity.
Qed.

(** what a sequence of deletions has removed so far ([Ln]: nameplate rows,
    [Km]: mailbox keys), and that the side rows of what remains are intact *)
Definition mkey (r : mb_row) : string * string * bool := (mb_app r, mb_id r, mb_fornp r).

Definition Track (d0 d : chan_db) (Ln : list np_row) (Km : list (string * string * bool)) : Prop :=
  Permutation (nameplates d0) (Ln ++ nameplates d) /\
  Permutation (map mkey (mailboxes d0)) (Km ++ map mkey (mailboxes d)) /\
  (forall n, In n (nameplates d) -> sel_nps_all d (np_id n) = sel_nps_all d0 (np_id n)) /\
  (forall r, In r (mailboxes d) -> sel_mbs_all d (mb_id r) = sel_mbs_all d0 (mb_id r)).

Lemma Track_refl d : Track d d [] [].
Proof. unfold Track. cbn [app]. repeat split; auto. Qed.

Lemma Track_np_in d0 d Ln Km n : Track d0 d Ln Km -> In n Ln -> In n (nameplates d0).
Proof.
  intros (P1 & _) Hn. eapply Permutation_in; [apply Permutation_sym; exact P1|].
  apply in_or_app. left. exact Hn.
Qed.

Lemma Track_mb_in d0 d Ln Km k :
  Track d0 d Ln Km -> In k (Km ++ map mkey (mailboxes d)) ->
  exists r, In r (mailboxes d0) /\ mkey r = k.
Proof.
  intros (_ & P2 & _) Hk.
  assert (H : In k (map mkey (mailboxes d0))).
  { eapply Permutation_in; [apply Permutation_sym; exact P2|exact Hk]. }
  apply in_map_iff in H. destruct H as [r [E Hr]]. exists r. auto.
Qed.

Lemma Track_trans d0 d1 d2 L1 K1 L2 K2 :
  Track d0 d1 L1 K1 -> Track d1 d2 L2 K2 -> Track d0 d2 (L1 ++ L2) (K1 ++ K2).
Proof.
  intros T1 T2.
  pose proof T1 as (A1 & A2 & A3 & A4). pose proof T2 as (B1 & B2 & B3 & B4).
  unfold Track. split; [|split; [|split]].
  - rewrite <- app_assoc. eapply Permutation_trans; [exact A1|].
    apply Permutation_app_head. exact B1.
  - rewrite <- app_assoc. eapply Permutation_trans; [exact A2|].
    apply Permutation_app_head. exact B2.
  - intros n Hn. rewrite (B3 n Hn). apply A3.
    eapply Permutation_in; [apply Permutation_sym; exact B1|]. apply in_or_app. right. exact Hn.
  - intros r Hr. rewrite (B4 r Hr).
    destruct (Track_mb_in d1 d2 L2 K2 (mkey r) T2) as [r1 [Hr1 E1]].
    { apply in_or_app. right. apply in_map. exact Hr. }
    assert (Ei : mb_id r1 = mb_id r) by (unfold mkey in E1; congruence).
    rewrite <- Ei. apply A4. exact Hr1.
Qed.

Lemma Track_eq d0 d L K L' K' : Track d0 d L K -> L = L' -> K = K' -> Track d0 d L' K'.
Proof. intros H <- <-. exact H. Qed.

Lemma Track_touch d ms w : Track d (touch_all d ms w) [] [].
Proof.
  rewrite touch_all_exact. unfold Track.
  cbn [set_mailboxes nameplates mailboxes app]. split; [apply Permutation_refl|]. split.
  - rewrite map_map. erewrite map_ext; [apply Permutation_refl|].
    intros r. cbv beta. destruct (smem (mb_id r) ms); reflexivity.
  - split; intros; reflexivity.
Qed.

Lemma Track_rm_nps d (Q : np_row -> bool) :
  NoDup (map np_id (nameplates d)) ->
  Track d (fold_left rm_np (map np_id (filter Q (nameplates d))) d) (filter Q (nameplates d)) [].
Proof.
  intros Hnd. rewrite fold_rm_np. unfold Track.
  cbn [nameplates mailboxes np_sides mb_sides app].
  assert (Hex : forall r, In r (nameplates d) ->
            existsb (Z.eqb (np_id r)) (map np_id (filter Q (nameplates d))) = Q r).
  { intros r Hr. apply existsb_key_filter; [apply Z.eqb_eq|exact Hnd|exact Hr]. }
  split; [|split; [apply Permutation_refl|split]].
  - rewrite (filter_ext_in
               (fun r => negb (existsb (Z.eqb (np_id r)) (map np_id (filter Q (nameplates d)))))
               (fun r => negb (Q r)) (nameplates d)); [apply filter_partition_perm|].
    intros r Hr. cbv beta. rewrite (Hex r Hr). reflexivity.
  - intros n Hn. apply filter_In in Hn. destruct Hn as [Hn Hq]. apply negb_true_iff in Hq.
    unfold sel_nps_all. cbn [np_sides]. rewrite filter_filter. apply filter_ext. intros x.
    destruct (nps_npid x =? np_id n) eqn:E; [|apply andb_false_r].
    apply Z.eqb_eq in E. rewrite E, Hq. reflexivity.
  - intros r Hr. reflexivity.
Qed.

Lemma Track_rm_mbs d (Q : mb_row -> bool) :
  NoDup (map mb_id (mailboxes d)) ->
  Track d (fold_left rm_mb (map mb_id (filter Q (mailboxes d))) d) []
        (map mkey (filter Q (mailboxes d))).
Proof.
  intros Hnd. rewrite fold_rm_mb. unfold Track.
  cbn [nameplates mailboxes np_sides mb_sides app].
  assert (Hex : forall r, In r (mailboxes d) ->
            smem (mb_id r) (map mb_id (filter Q (mailboxes d))) = Q r).
  { intros r Hr. rewrite smem_existsb.
    apply existsb_key_filter; [apply seqb_eq|exact Hnd|exact Hr]. }
  split; [apply Permutation_refl|]. split; [|split].
  - rewrite <- map_app. apply Permutation_map.
    rewrite (filter_ext_in
               (fun r => negb (smem (mb_id r) (map mb_id (filter Q (mailboxes d)))))
               (fun r => negb (Q r)) (mailboxes d)); [apply filter_partition_perm|].
    intros r Hr. cbv beta. rewrite (Hex r Hr). reflexivity.
  - intros n Hn. reflexivity.
  - intros r Hr. apply filter_In in Hr. destruct Hr as [Hr Hq]. apply negb_true_iff in Hq.
    unfold sel_mbs_all. cbn [mb_sides]. rewrite filter_filter. apply filter_ext. intros x.
    destruct (seqb (mbs_mbox x) (mb_id r)) eqn:E; [|apply andb_false_r].
    apply seqb_eq in E. rewrite E, Hq. reflexivity.
Qed.

Lemma touch_all_sides d ms w :
  np_sides (touch_all d ms w) = np_sides d /\ mb_sides (touch_all d ms w) = mb_sides d.
Proof. rewrite touch_all_exact. split; reflexivity. Qed.

Section WithConfig.
Variable cfg : config.
Hypothesis Hexp : 0 < exp cfg.
Hypothesis Husage : usage_on cfg = true.

(** the record of a retired nameplate / mailbox, from its side rows *)
Definition np_record (d : chan_db) (when : Z) (pruned : bool) (np : np_row) : option u_np_row :=
  summarize_nameplate (blur cfg) (np_app np) (sel_nps_all d (np_id np)) when pruned.
Definition mb_record (d : chan_db) (when : Z) (pruned : bool) (r : mb_row) : u_mb_row :=
  summarize_mailbox (blur cfg) (mb_app r) (mb_fornp r) (sel_mbs_all d (mb_id r)) when pruned.

(** the step of a command on an existing connection *)
Lemma step_ecmd_eq s c msg o :
  has_conn c s = true ->
  step cfg s (EB (ECmd c msg o)) =
  match on_message cfg c msg o (set_log s []) with
  | Ok _ s' => (set_log s' [], mkObs true (rev (log s')) None [])
  | Exn e s' => (set_log (drop_conn c s') [], mkObs true (rev (log (drop_conn c s'))) (Some e) [])
  end.
Proof.
  intros H. unfold step, step_b.
  change (has_conn c (set_log s [])) with (has_conn c s). rewrite H.
  destruct (on_message cfg c msg o (set_log s [])); reflexivity.
Qed.

(** * deleting nameplates: the records, exactly *)
Lemma del_nps_usage a when pruned : forall ids d acc,
  DbInv d -> NoDup ids -> (forall i, In i ids -> np_exists d i = true) ->
  exists us,
    del_nameplates_body cfg d a ids when pruned acc = TxOk (acc ++ us) (fold_left rm_np ids d) /\
    map Some us = map (fun i => summarize_nameplate (blur cfg) a (sel_nps_all d i) when pruned) ids.
Proof.
  induction ids as [|i rest IH]; intros d acc Hinv Hnd Hex.
  - exists []. rewrite app_nil_r. split; reflexivity.
  - inversion Hnd as [|? ? Hnin Hnd']; subst.
    cbn [del_nameplates_body fold_left]. rewrite del_np_rm, Husage.
    destruct (summarize_nameplate (blur cfg) a (sel_nps_all d i) when pruned) as [u|] eqn:Es.
    + destruct (IH (rm_np d i) (acc ++ [u]) (rm_np_inv d i Hinv) Hnd') as [us [E Hm]].
      { intros j Hj. apply np_exists_rm_np; [apply Hex; now right|].
        intros Eq. subst j. contradiction. }
      exists (u :: us). split.
      * rewrite E, <- app_assoc. reflexivity.
      * cbn [map]. rewrite Es, Hm. f_equal. apply map_ext_in. intros j Hj.
        rewrite sel_nps_all_rm_other; [reflexivity|]. intros Eq. subst j. contradiction.
    + exfalso. apply UsageFacts.nameplate_summary_none in Es.
      apply (np_sided_rows d i Hinv); [apply Hex; now left|exact Es].
Qed.

(** * release *)
Lemma added_after_release d i sd :
  map nps_added (sel_nps_all (upd_nps_release d i sd) i) = map nps_added (sel_nps_all d i).
Proof.
  unfold sel_nps_all, upd_nps_release. cbn [np_sides set_np_sides].
  induction (np_sides d) as [|r l IH]; [reflexivity|]. cbn [map filter].
  destruct (nps_npid r =? i) eqn:E1; destruct (seqb (nps_side r) sd) eqn:E2;
    cbn [andb nps_npid]; rewrite E1; cbn [map nps_added]; rewrite IH; reflexivity.
Qed.

Lemma release_delete_usage d a npid when :
  DbInv d -> np_exists d npid = true ->
  existsb nps_claimed (sel_nps_all d npid) = false ->
  exists u, summarize_nameplate (blur cfg) a (sel_nps_all d npid) when false = Some u /\
            release_delete_body cfg d a npid when = TxOk (Some [u]) (rm_np d npid).
Proof.
  intros Hinv Hex Hc. unfold release_delete_body. cbv zeta. rewrite Hc, del_np_rm, Husage.
  destruct (summarize_nameplate (blur cfg) a (sel_nps_all d npid) when false) as [u|] eqn:Es.
  - exists u. split; reflexivity.
  - exfalso. apply UsageFacts.nameplate_summary_none in Es.
    apply (np_sided_rows d npid Hinv Hex Es).
Qed.

Lemma release_nameplate_usage a n side when s :
  DbInv (chan_w s) ->
  wp (release_nameplate cfg a n side when)
     (fun _ s' =>
        (usage_c s = usage_w s -> usage_c s' = usage_w s') /\
        match sel_np (chan_w s) a n with
        | None => usage_w s' = usage_w s
        | Some np =>
            match sel_nps (chan_w s) (np_id np) side with
            | None => usage_w s' = usage_w s
            | Some _ =>
                if existsb (fun r => nps_claimed r && negb (seqb (nps_side r) side))
                           (sel_nps_all (chan_w s) (np_id np))
                then usage_w s' = usage_w s
                else exists u,
                    summarize_nameplate (blur cfg) a (sel_nps_all (chan_w s) (np_id np)) when false
                      = Some u /\
                    usage_w s' = uins_np (usage_w s) u
            end
        end)
     (fun _ _ => False) s.
Proof.
  intros Hdb. unfold release_nameplate. wp_step. wp_step.
  destruct (release_mark_body (chan_w s) a n side) as [[npid d1]|] eqn:Erm.
  - destruct (release_mark_body_ok _ _ _ _ _ _ Hdb Erm) as (Hdb1 & _ & Hex1).
    unfold release_mark_body in Erm.
    destruct (sel_np (chan_w s) a n) as [np|] eqn:Enp; [|discriminate].
    destruct (sel_nps (chan_w s) (np_id np) side) as [x|] eqn:Enps; [|discriminate].
    inversion Erm; subst npid d1. clear Erm.
    cbv beta iota. wp_step. wp_step. wp_step. wp_step. cbn [chan_w set_chan_w].
    assert (Ecl : existsb nps_claimed (sel_nps_all (upd_nps_release (chan_w s) (np_id np) side) (np_id np)) =
                  existsb (fun r => nps_claimed r && negb (seqb (nps_side r) side))
                          (sel_nps_all (chan_w s) (np_id np))).
    { unfold sel_nps_all, upd_nps_release. cbn [np_sides set_np_sides].
      apply claimed_after_release. }
    destruct (existsb (fun r => nps_claimed r && negb (seqb (nps_side r) side))
                      (sel_nps_all (chan_w s) (np_id np))) eqn:Eo.
    + unfold release_delete_body. cbv zeta. rewrite Ecl. wp_step. cbn. auto.
    + destruct (release_delete_usage _ a (np_id np) when Hdb1 Hex1 Ecl) as [u [Es Er]].
      rewrite Er. cbv beta iota. wp_step. rewrite Husage.
      unfold write_usage. wp_step. wp_step. wp_step. wp_step. cbn.
      split; [reflexivity|]. exists u. split; [|reflexivity].
      rewrite <- Es. apply summarize_nameplate_added. symmetry. apply added_after_release.
  - cbv beta iota. wp_step. rewrite set_chan_w_same. split; [auto|].
    unfold release_mark_body in Erm.
    destruct (sel_np (chan_w s) a n) as [np|]; [|reflexivity].
    destruct (sel_nps (chan_w s) (np_id np) side); [discriminate|reflexivity].
Qed.

Lemma handle_release_usage c a side msg n s cs :
  DbInv (chan_w s) ->
  lookup_conn c (conns s) = Some cs ->
  c_did_release cs = false -> name_mismatch (m_nameplate msg) (c_nameplate_id cs) = false ->
  cmd_nameplate cs msg = Some n ->
  wp (handle_release cfg c a side msg)
     (fun _ s' =>
        (usage_c s = usage_w s -> usage_c s' = usage_w s') /\
        match sel_np (chan_w s) a n with
        | None => usage_w s' = usage_w s
        | Some np =>
            match sel_nps (chan_w s) (np_id np) side with
            | None => usage_w s' = usage_w s
            | Some _ =>
                if existsb (fun r => nps_claimed r && negb (seqb (nps_side r) side))
                           (sel_nps_all (chan_w s) (np_id np))
                then usage_w s' = usage_w s
                else exists u,
                    summarize_nameplate (blur cfg) a (sel_nps_all (chan_w s) (np_id np)) (now s) false
                      = Some u /\
                    usage_w s' = uins_np (usage_w s) u
            end
        end)
     (fun _ _ => False) s.
Proof.
  intros Hdb Hlk Hrel Hmm Hn. unfold handle_release.
  wp_step. wp_step. rewrite Hlk. rewrite Hrel. wp_step.
  assert (Hres : forall (Q : string -> state -> Prop) (E : exn -> state -> Prop) s0, Q n s0 ->
            wp (match m_nameplate msg, c_nameplate_id cs with
                | Some n, Some n' => if seqb n n' then ret n else err
                | Some n, None => ret n
                | None, Some n' => ret n'
                | None, None => err
                end) Q E s0).
  { intros Q E s0 HQ. unfold cmd_nameplate, name_mismatch in *.
    destruct (m_nameplate msg) as [x|]; destruct (c_nameplate_id cs) as [y|];
      try discriminate; try (inversion Hn; subst; wp_step; exact HQ).
    apply negb_false_iff in Hmm. rewrite Hmm. inversion Hn; subst. wp_step. exact HQ. }
  apply Hres. clear Hres.
  wp_step. wp_step. wp_step. wp_step. wp_step.
  match goal with |- wp _ _ _ ?st => set (s2 := st) end.
  eapply wp_conseq; [exact (release_nameplate_usage a n side (now s2) s2 Hdb)| |].
  - intros [] s3 [Hc Hm]. wp_step. cbn [usage_w usage_c chan_w set_log].
    split; [exact Hc|exact Hm].
  - intros e s3 [].
Qed.

(** * release: one record when -- and only when -- the release deletes the nameplate *)
Theorem release_usage s c cs a side msg o n :
  SInv s -> log s = [] ->
  lookup_conn c (conns s) = Some cs -> c_bound cs = Some (a, side) ->
  m_type msg = Some TRelease -> erroneous cs msg = false -> cmd_nameplate cs msg = Some n ->
  let '(s', ob) := step cfg s (EB (ECmd c msg o)) in
  let d := chan_w s in
  usage_c s' = usage_w s' /\
  match sel_np d a n with
  | None => usage_w s' = usage_w s
  | Some np =>
      match sel_nps d (np_id np) side with
      | None => usage_w s' = usage_w s
      | Some _ =>
          if existsb (fun r => nps_claimed r && negb (seqb (nps_side r) side))
                     (sel_nps_all d (np_id np))
          then usage_w s' = usage_w s
          else exists u, np_record d (now s) false np = Some u /\
                         usage_w s' = uins_np (usage_w s) u
      end
  end.
Proof using Hexp Husage.
  intros HS Hlog Hlk Hb Ht Herr Hn.
  destruct HS as [Hdb [Hcw Hcu] _ _ _ _].
  unfold erroneous in Herr. rewrite Ht, Hb in Herr. apply orb_false_elim in Herr.
  destruct Herr as [Hrel Hmm].
  rewrite (step_cmd cfg s c msg o TRelease cs Hlk Ht).
  set (s1 := set_log s [LFrame c (FAck (m_id msg)) (is_clean s) (now s)]).
  assert (Hco : conn_of s1 c = cs) by (unfold conn_of; cbn; rewrite Hlk; reflexivity).
  rewrite (dispatch_bound cfg c TRelease msg o s1 a side); try discriminate;
    [|rewrite Hco; exact Hb].
  pose proof (handle_release_usage c a side msg n s1 cs Hdb Hlk Hrel Hmm Hn) as W.
  apply wp_elim in W. destruct W as [([] & s' & E & Hc & Hm)|(e & s' & _ & [])].
  rewrite E. cbv zeta. cbn [usage_w usage_c set_log].
  change (chan_w s1) with (chan_w s) in Hm. change (usage_w s1) with (usage_w s) in *.
  change (usage_c s1) with (usage_c s) in Hc. change (now s1) with (now s) in Hm.
  split; [apply Hc; symmetry; exact Hcu|].
  destruct (sel_np (chan_w s) a n) as [np|] eqn:Enp; [|exact Hm].
  destruct (sel_nps (chan_w s) (np_id np) side); [|exact Hm].
  destruct (existsb _ _); [exact Hm|].
  destruct Hm as [u [Es Hu]]. exists u. split; [|exact Hu].
  unfold np_record. apply sel_np_some in Enp. destruct Enp as (_ & Ea & _). rewrite Ea. exact Es.
Qed.

(** * close *)
Lemma np_app_of_mbox d a h mbrow np :
  DbInv d -> sel_mb d a h = Some mbrow -> In np (sel_np_by_mbox d h) -> np_app np = a.
Proof.
  intros Hinv Hmb Hnp. apply sel_np_by_mbox_In in Hnp. destruct Hnp as [Hnp Hm].
  apply sel_mb_some in Hmb. destruct Hmb as (Hr & Ea & Ei).
  destruct (inv_fk_np d Hinv np Hnp) as (r & Hr' & Ea' & Ei').
  assert (r = mbrow).
  { apply (NoDup_map_inj mb_id (mailboxes d)); [apply inv_mb_id; exact Hinv|exact Hr'|exact Hr|].
    congruence. }
  subst r. congruence.
Qed.

Lemma close_delete_usage d a h mbrow when :
  DbInv d -> sel_mb d a h = Some mbrow ->
  existsb mbs_opened (sel_mbs_all d h) = false ->
  exists unps d',
    map Some unps = map (np_record d when false) (sel_np_by_mbox d h) /\
    close_delete_body cfg d a h (mb_fornp mbrow) when =
      TxOk (Some (unps, [mb_record d when false mbrow])) d'.
Proof.
  intros Hinv Hmb Ho. unfold close_delete_body. cbv zeta. rewrite Ho.
  destruct (del_nps_usage a when false (map np_id (sel_np_by_mbox d h)) d [] Hinv)
    as [unps [E1 Hm]].
  { unfold sel_np_by_mbox. apply NoDup_map_filter. apply inv_np_id. exact Hinv. }
  { intros i Hi. apply in_map_iff in Hi. destruct Hi as [n [En Hn]].
    apply sel_np_by_mbox_In in Hn. apply np_exists_iff. exists n. tauto. }
  rewrite E1. cbn [app].
  rewrite del_mailbox_body_rm.
  - rewrite Husage. exists unps. eexists. split.
    + rewrite Hm, map_map. apply map_ext_in. intros np Hnp. unfold np_record.
      rewrite (np_app_of_mbox d a h mbrow np Hinv Hmb Hnp). reflexivity.
    + unfold mb_record. apply sel_mb_some in Hmb. destruct Hmb as (_ & Ea & Ei).
      rewrite Ea, Ei. reflexivity.
  - intros n Hn Em. apply rm_nps_nameplates in Hn. destruct Hn as [Hn Hnot].
    apply Hnot. apply in_map. apply sel_np_by_mbox_In. split; assumption.
Qed.

Definition close_usage_post (d : chan_db) (a h side : string) (mood : option string) (when : Z)
           (s s' : state) : Prop :=
  (usage_c s = usage_w s -> usage_c s' = usage_w s') /\
  if close_deletes d a h side mood
  then exists mbrow unps,
         sel_mb d a h = Some mbrow /\
         map Some unps = map (np_record d when false) (sel_np_by_mbox d h) /\
         usage_w s' = uins_mb (fold_left uins_np unps (usage_w s))
                              (mb_record (upd_mbs_close d h side mood) when false mbrow)
  else usage_w s' = usage_w s.

Lemma mailbox_close_usage a h side mood when s :
  DbInv (chan_w s) ->
  wp (mailbox_close cfg a h side mood when)
     (fun _ s' => close_usage_post (chan_w s) a h side mood when s s')
     (fun _ _ => False) s.
Proof.
  intros Hdb. unfold close_usage_post. rewrite close_deletes_unfold.
  unfold mailbox_close. wp_step. wp_step.
  destruct (close_mark_body (chan_w s) a h side mood) as [[fornp d2]|] eqn:Ecm.
  - destruct (close_mark_body_ok _ _ _ _ _ _ _ Hdb Ecm) as (Hdb2 & _ & _).
    unfold close_mark_body in Ecm.
    destruct (sel_mb (chan_w s) a h) as [row|] eqn:Emb; [|discriminate].
    destruct (sel_mbs (chan_w s) h side) as [x|] eqn:Embs; [|discriminate].
    inversion Ecm; subst fornp d2. clear Ecm.
    cbv beta iota. wp_step. wp_step. wp_step. wp_step. cbn [chan_w set_chan_w].
    destruct (existsb mbs_opened (sel_mbs_all (upd_mbs_close (chan_w s) h side mood) h)) eqn:Eo.
    + unfold close_delete_body. cbv zeta. rewrite Eo. wp_step. cbn. auto.
    + destruct (close_delete_usage (upd_mbs_close (chan_w s) h side mood) a h row when Hdb2)
        as (unps & d' & Hm & Er); [exact Emb|exact Eo|].
      rewrite Er. cbv beta iota. wp_step. rewrite Husage.
      unfold write_usage. wp_step. wp_step. wp_step. wp_step. wp_step.
      apply wp_stop_listeners. cbn.
      split; [reflexivity|]. exists row, unps. split; [reflexivity|]. split; [exact Hm|reflexivity].
  - cbv beta iota. wp_step. rewrite set_chan_w_same. split; auto.
Qed.

Lemma close_rest_usage c a side mood held when s :
  DbInv (chan_w s) ->
  wp (close_rest cfg c a side mood held when)
     (fun _ s' => close_usage_post (chan_w s) a held side mood when s s')
     (fun _ _ => False) s.
Proof.
  intros Hdb. unfold close_rest. wp_step. wp_step. wp_step. wp_step. wp_step.
  match goal with |- wp _ _ _ ?st => set (s2 := st) end.
  eapply wp_conseq; [exact (mailbox_close_usage a held side mood when s2 Hdb)| |].
  - intros [] s3 H. wp_step. wp_step. wp_step. wp_step. wp_step. exact H.
  - intros e s3 [].
Qed.

(** * close (on the holding connection): when it deletes the mailbox, one
    record per nameplate that pointed at it and one for the mailbox, computed
    after the closing side's mood has been recorded; otherwise nothing *)
Theorem close_usage s c cs a side msg o h :
  SInv s -> log s = [] ->
  lookup_conn c (conns s) = Some cs -> c_bound cs = Some (a, side) -> c_mailbox cs = Some h ->
  m_type msg = Some TClose -> erroneous cs msg = false ->
  let '(s', ob) := step cfg s (EB (ECmd c msg o)) in
  let d := chan_w s in
  let d2 := upd_mbs_close d h side (m_mood msg) in
  usage_c s' = usage_w s' /\
  if close_deletes d a h side (m_mood msg)
  then exists mbrow unps,
         sel_mb d a h = Some mbrow /\
         map Some unps = map (np_record d (now s) false) (sel_np_by_mbox d h) /\
         usage_w s' = uins_mb (fold_left uins_np unps (usage_w s))
                              (mb_record d2 (now s) false mbrow)
  else usage_w s' = usage_w s.
Proof using Hexp Husage.
  intros Hinv Hlog Hl Hb Hmb Ht Herr.
  pose proof (si_conns s Hinv c cs Hl) as Hok. unfold conn_ok in Hok. rewrite Hmb in Hok.
  destruct Hok as (a0 & sd0 & Hb0 & Hlis & Hin). rewrite Hb in Hb0. inversion Hb0; subst a0 sd0.
  destruct (si_clean s Hinv) as [Hcl Hcu].
  assert (Hdc : c_did_close cs = false /\ name_mismatch (m_mailbox msg) (c_mailbox_id cs) = false).
  { unfold erroneous in Herr. rewrite Ht, Hb in Herr. apply orb_false_iff in Herr. exact Herr. }
  destruct Hdc as [Hdc Hnm].
  unfold step. rewrite (cl_set_log_nil s Hlog). unfold step_b.
  assert (Hhas : has_conn c s = true) by (unfold has_conn; rewrite Hl; reflexivity).
  rewrite Hhas.
  rewrite (on_message_eval cfg c msg o s TClose Ht).
  set (s0 := set_log s (LFrame c (FAck (m_id msg)) (is_clean s) (now s) :: log s)).
  assert (Hc0 : conn_of s0 c = cs).
  { unfold conn_of, s0. cbn [conns set_log]. rewrite Hl. reflexivity. }
  rewrite (dispatch_bound cfg c TClose msg o s0 a side)
    by (try discriminate; rewrite Hc0; exact Hb).
  rewrite (handle_close_held cfg c a side msg s0 cs h Hl Hdc Hnm Hmb Hlis).
  set (s1 := set_conns (set_subs s0 (filter (fun p => negb (sub_is a h c p)) (subs s0)))
                       (update_conn c (set_listening cs false) (conns s0))).
  pose proof (close_rest_usage c a side (m_mood msg) h (now s0) s1 (si_db s Hinv)) as W.
  apply wp_elim in W. destruct W as [([] & s' & E & Hc & Hm)|(e & s' & _ & [])].
  rewrite E. cbv beta iota zeta. cbn [usage_w usage_c set_log].
  change (chan_w s1) with (chan_w s) in Hm. change (usage_w s1) with (usage_w s) in *.
  change (usage_c s1) with (usage_c s) in Hc. change (now s0) with (now s) in Hm.
  split; [apply Hc; symmetry; exact Hcu|exact Hm].
Qed.

(** * the other commands write no nameplate, mailbox or status record
    (bind adds one client-version row: ProtoFacts.bind_effect) *)
Theorem other_cmd_usage s c msg o :
  SInv s -> log s = [] -> has_conn c s = true ->
  m_type msg <> Some TRelease -> m_type msg <> Some TClose ->
  let '(s', ob) := step cfg s (EB (ECmd c msg o)) in
  usage_c s' = usage_w s' /\
  u_nameplates (usage_w s') = u_nameplates (usage_w s) /\
  u_mailboxes (usage_w s') = u_mailboxes (usage_w s) /\
  u_current (usage_w s') = u_current (usage_w s) /\
  (m_type msg <> Some TBind -> usage_w s' = usage_w s).
Proof using Hexp Husage.
  intros HS Hlog Hc Hr Hcl.
  destruct (si_clean s HS) as [_ Hu].
  rewrite (step_ecmd_eq s c msg o Hc).
  set (s0 := set_log s []).
  assert (Hdec : m_type msg = Some TBind \/ m_type msg <> Some TBind).
  { destruct (m_type msg) as [[]|]; (left; reflexivity) || (right; discriminate). }
  destruct Hdec as [Hb|Hb].
  - (* bind *)
    destruct (erroneous (conn_of s0 c) msg) eqn:Eerr.
    + rewrite (erroneous_harmless cfg c msg o s0 Eerr). cbn. auto 10.
    + unfold erroneous in Eerr. rewrite Hb in Eerr.
      destruct (c_bound (conn_of s0 c)) eqn:Eb; [discriminate|].
      destruct (m_appid msg) as [a|] eqn:Ea; [|discriminate].
      destruct (m_side msg) as [side|] eqn:Es; [|discriminate].
      destruct (bind_effect cfg c msg o s0 a side Hb Eb Ea Es)
        as (s' & E & _ & _ & _ & _ & Hw & Hcu).
      rewrite E. cbn [usage_w usage_c set_log].
      change (usage_w s0) with (usage_w s) in Hw. change (usage_c s0) with (usage_c s) in Hcu.
      rewrite Husage in Hw, Hcu. rewrite Hcu, Hw. cbn.
      split; [reflexivity|]. split; [reflexivity|]. split; [reflexivity|].
      split; [reflexivity|]. intros H. contradiction.
  - pose proof (upres_on_message cfg c msg o Hb Hr Hcl s0) as H.
    destruct (on_message cfg c msg o s0) as [[] s'|e s'].
    + destruct H as [Hw Hcc]. cbn [usage_w usage_c set_log].
      change (usage_w s0) with (usage_w s) in Hw. change (usage_c s0) with (usage_c s) in Hcc.
      rewrite Hw, Hcc. auto 10.
    + destruct (drop_conn_usage c s') as [Dw Dc]. destruct H as [Hw Hcc].
      cbn [usage_w usage_c set_log].
      change (usage_w s0) with (usage_w s) in Hw. change (usage_c s0) with (usage_c s) in Hcc.
      rewrite Dw, Dc, Hw, Hcc. auto 10.
Qed.

(** * sweep *)

(** the record of a pruned mailbox, from its key *)
Definition mrec (d : chan_db) (when : Z) (k : string * string * bool) : u_mb_row :=
  summarize_mailbox (blur cfg) (fst (fst k)) (snd k) (sel_mbs_all d (snd (fst k))) when true.

Lemma mrec_mkey d w r : mrec d w (mkey r) = mb_record d w true r.
Proof. reflexivity. Qed.

Lemma mrec_same_sides d d' w k : mb_sides d' = mb_sides d -> mrec d' w k = mrec d w k.
Proof. intros H. unfold mrec, sel_mbs_all. rewrite H. reflexivity. Qed.

Lemma np_record_same_sides d d' w p n :
  np_sides d' = np_sides d -> np_record d' w p n = np_record d w p n.
Proof. intros H. unfold np_record, sel_nps_all. rewrite H. reflexivity. Qed.

Lemma del_mbs_usage a when : forall rows d acc,
  (forall x n, In x rows -> In n (nameplates d) -> np_mbox n <> mb_id x) ->
  NoDup (map mb_id rows) -> (forall x, In x rows -> mb_app x = a) ->
  del_mailboxes_body cfg d a rows when acc =
  TxOk (acc ++ map (mrec d when) (map mkey rows)) (fold_left rm_mb (map mb_id rows) d).
Proof.
  induction rows as [|r rest IH]; intros d acc Hnp Hnd Happ.
  - cbn. rewrite app_nil_r. reflexivity.
  - assert (Hr : forall n, In n (nameplates d) -> np_mbox n <> mb_id r).
    { intros n Hn. apply Hnp; [now left|exact Hn]. }
    cbn [map] in Hnd. inversion Hnd as [|? ? Hnin Hnd']; subst.
    cbn [del_mailboxes_body map fold_left].
    rewrite (del_mailbox_body_rm _ _ _ _ _ _ _ _ Hr), Husage.
    rewrite IH; [|intros x n Hx Hn; apply Hnp; [now right|exact Hn]|exact Hnd'|
                  intros x Hx; apply Happ; now right].
    rewrite <- app_assoc. cbn [app]. f_equal. f_equal. f_equal.
    + unfold mrec, mkey. cbn [fst snd]. rewrite (Happ r (or_introl eq_refl)). reflexivity.
    + apply map_ext_in. intros k Hk. apply in_map_iff in Hk. destruct Hk as [x [Ex Hx]].
      subst k. unfold mrec, mkey. cbn [fst snd]. rewrite sel_mbs_all_rm_other; [reflexivity|].
      intros E. apply Hnin. rewrite <- E. apply in_map. exact Hx.
Qed.

(** one app's prune transaction: the records it returns *)
Lemma prune_body_usage d a when old :
  DbInv d ->
  exists mo unps,
    prune_body cfg d a when old =
      TxOk (mo, unps, map (mrec d when) (map mkey (old_mailboxes d a old)))
           (fold_left rm_mb (map mb_id (old_mailboxes d a old))
              (fold_left rm_np (map np_id (old_nameplates d a old)) d)) /\
    map Some unps = map (np_record d when true) (old_nameplates d a old).
Proof.
  intros Hinv. unfold prune_body. cbv zeta.
  set (oldm := old_mailboxes d a old). set (oldn := old_nameplates d a old).
  assert (Hold : forall x, In x oldm -> In x (mailboxes d) /\ mb_app x = a).
  { intros x Hx. unfold oldm, old_mailboxes in Hx. apply filter_In in Hx. destruct Hx as [Hx _].
    apply sel_mbs_of_app_In in Hx. exact Hx. }
  assert (Holdn : forall n, In n oldn -> In n (nameplates d) /\ np_app n = a).
  { intros n Hn. unfold oldn, old_nameplates in Hn. apply filter_In in Hn. destruct Hn as [Hn _].
    apply sel_nps_of_app_In in Hn. exact Hn. }
  destruct (del_nps_usage a when true (map np_id oldn) d [] Hinv) as [unps [E1 Hm]].
  { unfold oldn, old_nameplates, sel_nps_of_app. do 2 apply NoDup_map_filter.
    apply inv_np_id. exact Hinv. }
  { intros i Hi. apply in_map_iff in Hi. destruct Hi as [n [En Hn]].
    apply np_exists_iff. exists n. split; [apply Holdn; exact Hn|exact En]. }
  rewrite E1. cbn [app].
  destruct (rm_nps_frame (map np_id oldn) d) as (F1 & F2 & _ & _).
  rewrite (del_mbs_usage a when oldm (fold_left rm_np (map np_id oldn) d) []).
  - cbn [app]. do 2 eexists. split.
    + f_equal. f_equal. apply map_ext. intros k. apply mrec_same_sides. exact F2.
    + rewrite Hm, map_map. apply map_ext_in. intros n Hn. unfold np_record.
      rewrite (proj2 (Holdn n Hn)). reflexivity.
  - intros x n Hx Hn Em. apply rm_nps_nameplates in Hn. destruct Hn as [Hn Hnot].
    apply Hnot. apply in_map. unfold oldn, old_nameplates. apply filter_In.
    destruct (Hold x Hx) as [Hxin Hxa].
    destruct (inv_fk_np d Hinv n Hn) as [r [Hr [Ea Ei]]].
    assert (Erx : r = x).
    { apply (NoDup_map_inj mb_id (mailboxes d)); [apply inv_mb_id; exact Hinv|exact Hr|exact Hxin|].
      congruence. }
    subst r. split.
    + apply sel_nps_of_app_In. split; [exact Hn|]. congruence.
    + apply smem_In. rewrite Em. apply in_map. exact Hx.
  - unfold oldm, old_mailboxes, sel_mbs_of_app. do 2 apply NoDup_map_filter.
    apply inv_mb_id. exact Hinv.
  - intros x Hx. apply Hold. exact Hx.
Qed.

Lemma Track_prune d a old :
  DbInv d ->
  Track d (fold_left rm_mb (map mb_id (old_mailboxes d a old))
             (fold_left rm_np (map np_id (old_nameplates d a old)) d))
        (old_nameplates d a old) (map mkey (old_mailboxes d a old)).
Proof.
  intros Hinv.
  set (Qm := fun r => seqb (mb_app r) a && negb (old <? mb_updated r)).
  set (Qn := fun r => seqb (np_app r) a && smem (np_mbox r) (map mb_id (old_mailboxes d a old))).
  assert (En : filter Qn (nameplates d) = old_nameplates d a old).
  { unfold old_nameplates, sel_nps_of_app. symmetry. apply filter_filter. }
  assert (Em : filter Qm (mailboxes d) = old_mailboxes d a old).
  { unfold old_mailboxes, sel_mbs_of_app. symmetry. apply filter_filter. }
  pose proof (Track_rm_nps d Qn (inv_np_id d Hinv)) as T1. rewrite En in T1.
  destruct (rm_nps_frame (map np_id (old_nameplates d a old)) d) as (F1 & _).
  set (d1 := fold_left rm_np (map np_id (old_nameplates d a old)) d) in *.
  pose proof (Track_rm_mbs d1 Qm) as T2. rewrite F1, Em in T2.
  specialize (T2 (inv_mb_id d Hinv)).
  exact (Track_eq _ _ _ _ _ _ (Track_trans _ _ _ _ _ _ _ T1 T2) (app_nil_r _) eq_refl).
Qed.

(** what one app's prune does to the usage database, and what it removes *)
Definition prune_usage_post (when : Z) (s s' : state) : Prop :=
  exists Ln Km unps,
    Track (chan_w s) (chan_w s') Ln Km /\
    map Some unps = map (np_record (chan_w s) when true) Ln /\
    usage_w s' = mkUsage (u_nameplates (usage_w s) ++ unps)
                         (u_mailboxes (usage_w s) ++ map (mrec (chan_w s) when) Km)
                         (u_versions (usage_w s)) (u_current (usage_w s)).

Lemma prune_app_usage a when old s :
  DbInv (chan_w s) ->
  wp (prune_app cfg a when old) (fun _ s' => prune_usage_post when s s') (fun _ _ => False) s.
Proof.
  intros Hdb. unfold prune_app.
  destruct (touch_all_ok (chan_w s) (listened_mailboxes a (subs s)) when Hdb) as (Hdb1 & _).
  wp_step. wp_step. wp_step. wp_step. cbv beta iota.
  wp_step. wp_step. wp_step. wp_step. cbn [chan_w set_chan_w].
  set (ms := listened_mailboxes a (subs s)).
  set (d1 := touch_all (chan_w s) ms when) in *.
  destruct (prune_body_usage d1 a when old Hdb1) as (mo & unps & E & Hm).
  rewrite E. cbv beta iota. rewrite Husage.
  assert (P : prune_usage_post when s
                (set_usage_w
                   (set_chan_w s (fold_left rm_mb (map mb_id (old_mailboxes d1 a old))
                                    (fold_left rm_np (map np_id (old_nameplates d1 a old)) d1)))
                   (fold_left uins_mb (map (mrec d1 when) (map mkey (old_mailboxes d1 a old)))
                      (fold_left uins_np unps (usage_w s))))).
  { destruct (touch_all_sides (chan_w s) ms when) as [S1 S2]. fold d1 in S1, S2.
    exists (old_nameplates d1 a old), (map mkey (old_mailboxes d1 a old)), unps.
    cbn [chan_w usage_w set_usage_w set_chan_w]. split; [|split].
    - exact (Track_trans _ _ _ _ _ _ _ (Track_touch (chan_w s) ms when)
               (Track_prune d1 a old Hdb1)).
    - rewrite Hm. apply map_ext. intros n. apply np_record_same_sides. exact S1.
    - rewrite fold_uins. f_equal. f_equal. apply map_ext. intros k.
      apply mrec_same_sides. exact S2. }
  unfold write_usage. wp_step. wp_step. destruct mo.
  - wp_step. wp_step. wp_step.
    destruct P as (Ln & Km & u & T & M & U). exists Ln, Km, u. auto.
  - wp_step. exact P.
Qed.

Lemma prune_apps_usage apps when old :
  old < when -> forall s, RInv s -> clean s ->
  wp (prune_apps cfg apps when old)
     (fun _ s' => good s s' /\ prune_usage_post when s s') (fun _ _ => False) s.
Proof.
  intros Hlt. induction apps as [|a rest IH]; intros s HR HC; cbn [prune_apps].
  - wp_step. split; [apply good_refl; assumption|]. exists [], [], [].
    split; [apply Track_refl|]. split; [reflexivity|].
    cbn [map]. rewrite !app_nil_r. destruct (usage_w s); reflexivity.
  - wp_step.
    eapply wp_conseq;
      [exact (wp_and _ _ _ _ _ _ (prune_app_spec cfg a when old s HR HC Hlt)
                (prune_app_usage a when old s (proj1 HR)))| |].
    + intros [] s1 [[G1 _] (L1 & K1 & u1 & T1 & M1 & U1)].
      eapply wp_conseq; [exact (IH s1 (proj1 G1) (proj1 (proj2 G1)))| |].
      * intros [] s2 (G2 & L2 & K2 & u2 & T2 & M2 & U2).
        split; [eapply good_trans; eauto|].
        exists (L1 ++ L2), (K1 ++ K2), (u1 ++ u2).
        split; [eapply Track_trans; eassumption|].
        pose proof T1 as (_ & _ & A3 & A4).
        assert (R1 : map (np_record (chan_w s1) when true) L2 =
                     map (np_record (chan_w s) when true) L2).
        { apply map_ext_in. intros n Hn. unfold np_record.
          rewrite (A3 n (Track_np_in _ _ _ _ n T2 Hn)). reflexivity. }
        assert (R2 : map (mrec (chan_w s1) when) K2 = map (mrec (chan_w s) when) K2).
        { apply map_ext_in. intros k Hk.
          destruct (Track_mb_in _ _ _ _ k T2) as [r [Hr Ek]];
            [apply in_or_app; left; exact Hk|].
          subst k. unfold mrec, mkey. cbn [fst snd]. rewrite (A4 r Hr). reflexivity. }
        split.
        -- rewrite !map_app, M1, M2, R1. reflexivity.
        -- rewrite U2, U1. cbn [u_nameplates u_mailboxes u_versions u_current].
           rewrite map_app, R2, <- !app_assoc. reflexivity.
      * intros e s' [].
    + intros e s' [[] _].
Qed.

(** * a sweep: one record ([pruned] = true) per deleted nameplate and mailbox,
    from the side rows before the sweep, and the status row *)
Theorem sweep_usage s fault :
  SInv s -> log s = [] ->
  exists s', expire cfg fault s = Ok tt s' /\
    let d := chan_w s in
    let d' := chan_w s' in
    usage_c s' = usage_w s' /\
    u_versions (usage_w s') = u_versions (usage_w s) /\
    u_current (usage_w s') = [mkUCur (boot s) (now s) (blur cfg) (zlen (subs s))] /\
    exists unps umbs,
      u_nameplates (usage_w s') = u_nameplates (usage_w s) ++ unps /\
      u_mailboxes (usage_w s') = u_mailboxes (usage_w s) ++ umbs /\
      Permutation (map Some unps) (map (np_record d (now s) true) (gone np_same (nameplates d) (nameplates d'))) /\
      Permutation umbs (map (mb_record d (now s) true) (gone mb_same (mailboxes d) (mailboxes d'))).
Proof using Hexp Husage.
  intros HS Hlog.
  assert (HR : RInv s). { split; [apply (si_db s HS)|rewrite Hlog; constructor]. }
  pose proof (si_clean s HS) as HC.
  destruct fault.
  - eexists. split.
    + unfold expire, dump_stats. rewrite Husage. reflexivity.
    + cbv zeta. cbn [chan_w usage_w usage_c u_versions u_current u_nameplates u_mailboxes uset_current].
      split; [reflexivity|]. split; [reflexivity|]. split; [reflexivity|].
      exists [], []. rewrite !app_nil_r.
      rewrite (gone_same np_same) by (intros x; apply Z.eqb_refl).
      rewrite (gone_same mb_same) by (intros x; apply seqb_refl).
      repeat split; constructor.
  - assert (Hlt : now s - exp cfg < now s) by lia.
    pose proof (prune_apps_usage (ssort (sel_all_apps (chan_w s))) (now s) (now s - exp cfg)
                  Hlt s HR HC) as W.
    apply wp_elim in W.
    destruct W as [([] & s1 & E1 & G1 & L & K & unps & T & M & U)|(e & s' & _ & [])].
    assert (Et : try_catch (prune_all_apps cfg (now s) (now s - exp cfg)) (fun _ => ret tt) s
                 = Ok tt s1).
    { unfold try_catch.
      change (prune_all_apps cfg (now s) (now s - exp cfg) s)
        with (prune_apps cfg (ssort (sel_all_apps (chan_w s))) (now s) (now s - exp cfg) s).
      rewrite E1. reflexivity. }
    assert (Es : subs s1 = subs s) by (destruct G1 as (_ & _ & (Es & _)); exact Es).
    eexists. split.
    + unfold expire. rewrite bind_get. rewrite (bind_ok _ _ s tt s1 Et).
      unfold dump_stats. rewrite Husage. reflexivity.
    + cbv zeta. cbn [chan_w usage_w usage_c u_versions u_current u_nameplates u_mailboxes uset_current set_usage_w].
      rewrite U, Es. cbn [u_versions u_nameplates u_mailboxes].
      split; [reflexivity|]. split; [reflexivity|]. split; [reflexivity|].
      exists unps, (map (mrec (chan_w s) (now s)) K).
      split; [reflexivity|]. split; [reflexivity|].
      pose proof T as (P1 & P2 & _ & _). split.
      * rewrite M. apply Permutation_map. apply Permutation_sym.
        rewrite <- (map_id (gone np_same (nameplates (chan_w s)) (nameplates (chan_w s1)))).
        apply (gone_perm (fun x => x) np_id).
        -- intros x y. unfold np_same. apply Z.eqb_eq.
        -- rewrite map_id. apply inv_np_id. apply (si_db s HS).
        -- rewrite !map_id. exact P1.
      * match goal with
        | |- Permutation _ (map _ ?G) =>
            replace (map (mb_record (chan_w s) (now s) true) G)
              with (map (mrec (chan_w s) (now s)) (map mkey G))
              by (rewrite map_map; reflexivity)
        end.
        apply Permutation_map. apply Permutation_sym.
        apply (gone_perm mkey (fun k => snd (fst k))).
        -- intros x y. unfold mb_same. cbn [mkey fst snd]. apply seqb_eq.
        -- rewrite map_map. exact (inv_mb_id _ (si_db s HS)).
        -- exact P2.
Qed.

(** * connect / disconnect write nothing *)
Theorem conn_events_usage s e :
  SInv s -> log s = [] ->
  (exists c, e = EB (EConnect c) \/ e = EB (EDisconnect c)) ->
  usage_w (fst (step cfg s e)) = usage_w s /\ usage_c (fst (step cfg s e)) = usage_c s.
Proof using Hexp Husage.
  intros HS Hlog [c [->| ->]]; unfold step, step_b;
    change (has_conn c (set_log s [])) with (has_conn c s);
    destruct (has_conn c s).
  - split; reflexivity.
  - split; reflexivity.
  - cbn [fst usage_w usage_c set_log].
    destruct (drop_conn_usage c (set_log s [])) as [Dw Dc]. split; assumption.
  - split; reflexivity.
Qed.

End WithConfig.
