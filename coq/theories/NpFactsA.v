(** NpFactsA.v -- C07 / C03 / C18: the complete effect of `release`, the
    outcome of `claim`, and what `list` shows. *)
From MW Require Import Base Store Monad Usage Server Websocket Service Findings
     Inv StoreFacts Hoare DbFactsA DbFactsB OpFacts ProtoFacts Obs.
Local Open Scope list_scope.

(** * what `list` reads: the distinct names that have a row in the app *)
Lemma sel_names_spec d a n :
  In n (sel_names d a) <-> exists np, In np (nameplates d) /\ np_app np = a /\ np_name np = n.
Proof.
  unfold sel_names. rewrite sdedup_In, in_map_iff. split.
  - intros [np [Hn Hin]]. apply sel_nps_of_app_In in Hin. destruct Hin as [Hin Ha].
    exists np. auto.
  - intros [np [Hin [Ha Hn]]]. exists np. split; [exact Hn|].
    apply sel_nps_of_app_In. auto.
Qed.

Lemma sdedup_NoDup l : NoDup (sdedup l).
Proof.
  induction l as [|y l IH]; cbn [sdedup]; [constructor|].
  destruct (smem y l) eqn:E; [exact IH|].
  constructor; [|exact IH]. rewrite sdedup_In. intros H.
  apply smem_In in H. congruence.
Qed.

Lemma sel_names_NoDup d a : NoDup (sel_names d a).
Proof. apply sdedup_NoDup. Qed.

Lemma sel_np_names d a n : sel_np d a n = None <-> smem n (sel_names d a) = false.
Proof.
  split.
  - intros Hnone. destruct (smem n (sel_names d a)) eqn:E; [|reflexivity].
    apply smem_In in E. apply sel_names_spec in E. destruct E as [np [Hin [Ha Hn]]].
    exfalso. exact (proj1 (sel_np_none d a n) Hnone np Hin (conj Ha Hn)).
  - intros Hs. apply sel_np_none. intros r Hr [Ha Hn].
    assert (Hin : In n (sel_names d a)) by (apply sel_names_spec; exists r; auto).
    apply smem_In in Hin. congruence.
Qed.

(** [ssort] (Python's sorted()) is a sorted permutation *)
Lemma sinsert_In x y l : In x (sinsert y l) <-> x = y \/ In x l.
Proof.
  induction l as [|z l IH]; cbn [sinsert].
  - cbn. intuition.
  - destruct (String.leb y z); cbn [In].
    + intuition.
    + rewrite IH. intuition.
Qed.

Lemma ssort_In x l : In x (ssort l) <-> In x l.
Proof.
  induction l as [|y l IH]; cbn [ssort fold_right]; [tauto|].
  fold (ssort l). rewrite sinsert_In, IH. cbn [In]. intuition.
Qed.

Lemma sinsert_NoDup y l : NoDup l -> ~ In y l -> NoDup (sinsert y l).
Proof.
  induction l as [|z l IH]; intros Hnd Hni; cbn [sinsert].
  - constructor; [intros []|constructor].
  - destruct (String.leb y z).
    + constructor; assumption.
    + inversion Hnd as [|? ? Hz Hl]; subst. constructor.
      * rewrite sinsert_In. intros [->|H]; [apply Hni; left; reflexivity|contradiction].
      * apply IH; [exact Hl|]. intros H. apply Hni. right. exact H.
Qed.

Lemma ssort_NoDup l : NoDup l -> NoDup (ssort l).
Proof.
  induction l as [|y l IH]; intros Hnd; cbn [ssort fold_right]; [constructor|].
  fold (ssort l). inversion Hnd as [|? ? Hy Hl]; subst.
  apply sinsert_NoDup; [apply IH; exact Hl|]. rewrite ssort_In. exact Hy.
Qed.

(** transitivity of the bytewise order *)
Lemma sleb_trans : forall a b c,
  String.leb a b = true -> String.leb b c = true -> String.leb a c = true.
Proof.
  induction a as [|x a IH]; intros b c; destruct b as [|y b], c as [|z c];
    unfold String.leb; cbn [String.compare]; try (intros; reflexivity); try (intros; discriminate).
  unfold Ascii.compare.
  destruct (N.compare_spec (N_of_ascii x) (N_of_ascii y)) as [Exy|Lxy|Gxy];
    destruct (N.compare_spec (N_of_ascii y) (N_of_ascii z)) as [Eyz|Lyz|Gyz];
    destruct (N.compare_spec (N_of_ascii x) (N_of_ascii z)) as [Exz|Lxz|Gxz];
    intros H1 H2; try reflexivity; try discriminate; try (exfalso; lia).
  exact (IH b c H1 H2).
Qed.

Lemma sleb_refl a : String.leb a a = true.
Proof. destruct (String.leb_total a a); assumption. Qed.

Fixpoint ssorted (l : list string) : Prop :=
  match l with
  | [] => True
  | x :: l' => (forall y, In y l' -> String.leb x y = true) /\ ssorted l'
  end.

Lemma sinsert_sorted x l : ssorted l -> ssorted (sinsert x l).
Proof.
  induction l as [|z l IH]; intros Hs; cbn [sinsert].
  - cbn. split; [intros y []|exact I].
  - destruct Hs as [Hz Hl]. destruct (String.leb x z) eqn:E.
    + cbn [ssorted]. split; [|split; assumption].
      intros y [<-|Hy]; [exact E|]. eapply sleb_trans; [exact E|]. apply Hz. exact Hy.
    + cbn [ssorted]. split; [|apply IH; exact Hl].
      intros y Hy. apply sinsert_In in Hy. destruct Hy as [->|Hy]; [|apply Hz; exact Hy].
      destruct (String.leb_total x z) as [H|H]; [congruence|exact H].
Qed.

Lemma ssort_ssorted l : ssorted (ssort l).
Proof.
  induction l as [|y l IH]; cbn [ssort fold_right]; [exact I|].
  fold (ssort l). apply sinsert_sorted. exact IH.
Qed.

Lemma ssorted_nth : forall l i j x y,
  ssorted l -> nth_error l i = Some x -> nth_error l j = Some y -> (i <= j)%nat ->
  String.leb x y = true.
Proof.
  induction l as [|z l IH]; intros i j x y Hs Hi Hj Hle.
  - destruct i; discriminate.
  - destruct Hs as [Hz Hl]. destruct i as [|i], j as [|j]; cbn in Hi, Hj.
    + inversion Hi; inversion Hj; subst. apply sleb_refl.
    + inversion Hi; subst. apply Hz. eapply nth_error_In. exact Hj.
    + lia.
    + apply (IH i j x y Hl Hi Hj). lia.
Qed.

Lemma ssort_sorted l i j x y :
  nth_error (ssort l) i = Some x -> nth_error (ssort l) j = Some y -> (i <= j)%nat ->
  String.leb x y = true.
Proof. apply ssorted_nth. apply ssort_ssorted. Qed.

(** * auxiliary: frames of a reversed log *)
Lemma frames_of_app l1 l2 : frames_of (l1 ++ l2) = frames_of l1 ++ frames_of l2.
Proof.
  induction l1 as [|e l1 IH]; [reflexivity|].
  destruct e; cbn [app frames_of]; rewrite IH; reflexivity.
Qed.

(** [s'] extends the log of [s] by entries that are not frames *)
Definition nofr (s s' : state) : Prop :=
  exists l, log s' = l ++ log s /\ frames_of (rev l) = [].

Lemma nofr_refl s : nofr s s.
Proof. exists []. split; reflexivity. Qed.

Lemma nofr_trans s1 s2 s3 : nofr s1 s2 -> nofr s2 s3 -> nofr s1 s3.
Proof.
  intros [l1 [E1 F1]] [l2 [E2 F2]]. exists (l2 ++ l1). split.
  - rewrite E2, E1. apply app_assoc.
  - rewrite rev_app_distr, frames_of_app, F1, F2. reflexivity.
Qed.

(** * auxiliary: [grows] *)
Lemma grows_refl d : grows d d.
Proof.
  unfold grows. repeat split; try apply incl_refl.
  intros r Hr. exists r. auto.
Qed.

Lemma grows_trans d1 d2 d3 : grows d1 d2 -> grows d2 d3 -> grows d1 d3.
Proof.
  intros (A1 & B1 & C1 & D1 & E1) (A2 & B2 & C2 & D2 & E2).
  unfold grows. repeat split; try (eapply incl_tran; eassumption).
  intros r Hr. destruct (E1 r Hr) as (r1 & Hr1 & Ha1 & Hi1 & Hf1).
  destruct (E2 r1 Hr1) as (r2 & Hr2 & Ha2 & Hi2 & Hf2).
  exists r2. repeat split; congruence.
Qed.

Lemma grows_upd_touch d m w : grows d (upd_touch d m w).
Proof.
  unfold grows. cbn [upd_touch set_mailboxes nameplates np_sides mb_sides messages mailboxes].
  repeat split; try apply incl_refl.
  intros r Hr.
  exists (if seqb (mb_id r) m then mkMb (mb_app r) (mb_id r) w (mb_fornp r) else r).
  split.
  - apply in_map_iff. exists r. split; [reflexivity|exact Hr].
  - destruct (seqb (mb_id r) m); cbn; auto.
Qed.

(** [d'] grows from [d] and has the same nameplates and nameplate sides *)
Definition gsame (d d' : chan_db) : Prop :=
  grows d d' /\ nameplates d' = nameplates d /\ np_sides d' = np_sides d.

Lemma gsame_refl d : gsame d d.
Proof. split; [apply grows_refl|split; reflexivity]. Qed.

Lemma gsame_trans d1 d2 d3 : gsame d1 d2 -> gsame d2 d3 -> gsame d1 d3.
Proof.
  intros (G1 & N1 & S1) (G2 & N2 & S2). split; [eapply grows_trans; eassumption|].
  split; congruence.
Qed.

Lemma gsame_upd_touch d m w : gsame d (upd_touch d m w).
Proof. split; [apply grows_upd_touch|split; reflexivity]. Qed.

Lemma gsame_ins_mb d r : gsame d (set_mailboxes d (mailboxes d ++ [r])).
Proof.
  split; [|split; reflexivity]. unfold grows. cbn.
  repeat split; try apply incl_refl.
  intros r0 Hr0. exists r0. split; [apply in_or_app; left; exact Hr0|auto].
Qed.

Lemma gsame_ins_mbs d r : gsame d (set_mb_sides d (mb_sides d ++ [r])).
Proof.
  split; [|split; reflexivity]. unfold grows. cbn.
  repeat split; try apply incl_refl.
  - apply incl_appl, incl_refl.
  - intros r0 Hr0. exists r0. auto.
Qed.

Lemma add_mailbox_gsame d a m f w d1 : add_mailbox d a m f w = Some d1 -> gsame d d1.
Proof.
  unfold add_mailbox. destruct (sel_mb d a m).
  - intros H; inversion H; subst. apply gsame_refl.
  - intros H. apply ins_mb_spec in H. destruct H as [_ ->]. apply gsame_ins_mb.
Qed.

Lemma mailbox_open_body_gsame d m side w d' :
  mailbox_open_body d m side w = Some d' -> gsame d d'.
Proof.
  unfold mailbox_open_body. destruct (sel_mbs d m side).
  - intros H; inversion H; subst. apply gsame_upd_touch.
  - destruct (ins_mbs d (mkMbs m true side w None)) as [d1|] eqn:E; [|discriminate].
    intros H; inversion H; subst. apply ins_mbs_spec in E. destruct E as [_ ->].
    eapply gsame_trans; [apply gsame_ins_mbs|apply gsame_upd_touch].
Qed.

Lemma open_body_gsame d a m side w d' :
  open_body d a m side w = TxOk tt d' -> gsame d d'.
Proof.
  unfold open_body. destruct (add_mailbox d a m false w) as [d1|] eqn:E1; [|discriminate].
  destruct (mailbox_open_body d1 m side w) as [d2|] eqn:E2; [|discriminate].
  intros H; inversion H; subst.
  eapply gsame_trans; [eapply add_mailbox_gsame; exact E1|eapply mailbox_open_body_gsame; exact E2].
Qed.

(** * auxiliary: the rows of a nameplate after one side's release *)
Lemma claimed_after_release npid side l :
  existsb nps_claimed
    (filter (fun r => nps_npid r =? npid)
       (map (fun r => if (nps_npid r =? npid) && seqb (nps_side r) side
                      then mkNps (nps_npid r) false (nps_side r) (nps_added r) else r) l)) =
  existsb (fun r => nps_claimed r && negb (seqb (nps_side r) side))
    (filter (fun r => nps_npid r =? npid) l).
Proof.
  induction l as [|r l IH]; [reflexivity|]. cbn [map filter].
  destruct (nps_npid r =? npid) eqn:E1; destruct (seqb (nps_side r) side) eqn:E2;
    cbn [andb nps_npid]; rewrite E1; cbn [existsb nps_claimed]; rewrite ?E2, IH;
    cbn [negb orb andb]; rewrite ?andb_true_r, ?andb_false_r; reflexivity.
Qed.

Lemma others_after_release npid side l :
  filter (fun r => negb (nps_npid r =? npid))
    (map (fun r => if (nps_npid r =? npid) && seqb (nps_side r) side
                   then mkNps (nps_npid r) false (nps_side r) (nps_added r) else r) l) =
  filter (fun r => negb (nps_npid r =? npid)) l.
Proof.
  induction l as [|r l IH]; [reflexivity|]. cbn [map filter].
  destruct (nps_npid r =? npid) eqn:E1; destruct (seqb (nps_side r) side) eqn:E2;
    cbn [andb nps_npid]; rewrite E1; cbn [negb]; rewrite IH; reflexivity.
Qed.

(** the database effect of [release_nameplate] *)
Definition release_db (a n side : string) (d d' : chan_db) : Prop :=
  mailboxes d' = mailboxes d /\ mb_sides d' = mb_sides d /\ messages d' = messages d /\
  np_seq d' = np_seq d /\
  match sel_np d a n with
  | None => d' = d
  | Some np =>
      match sel_nps d (np_id np) side with
      | None => d' = d
      | Some _ =>
          if existsb (fun r => nps_claimed r && negb (seqb (nps_side r) side))
                     (sel_nps_all d (np_id np))
          then d' = upd_nps_release d (np_id np) side
          else nameplates d' = filter (fun r => negb (np_id r =? np_id np)) (nameplates d) /\
               np_sides d' = filter (fun r => negb (nps_npid r =? np_id np)) (np_sides d)
      end
  end.

Lemma release_db_none a n side d :
  release_mark_body d a n side = None -> release_db a n side d d.
Proof.
  unfold release_mark_body, release_db. intros H.
  repeat split.
  destruct (sel_np d a n) as [np|]; [|reflexivity].
  destruct (sel_nps d (np_id np) side); [discriminate|reflexivity].
Qed.

Lemma release_db_some a n side d npid d1 d' :
  release_mark_body d a n side = Some (npid, d1) ->
  (existsb nps_claimed (sel_nps_all d1 npid) = true /\ d' = d1) \/
  (existsb nps_claimed (sel_nps_all d1 npid) = false /\ d' = rm_np d1 npid) ->
  release_db a n side d d'.
Proof.
  unfold release_mark_body, release_db. intros H Hc.
  destruct (sel_np d a n) as [np|]; [|discriminate].
  destruct (sel_nps d (np_id np) side); [|discriminate].
  inversion H; subst npid d1. clear H.
  unfold sel_nps_all in *. cbn [np_sides upd_nps_release set_np_sides] in Hc.
  rewrite claimed_after_release in Hc.
  destruct Hc as [[Hex ->]|[Hex ->]]; rewrite Hex; cbn; repeat split.
  apply others_after_release.
Qed.

Section WithConfig.
Variable cfg : config.

Lemma release_delete_body_res d a npid when r d' :
  release_delete_body cfg d a npid when = TxOk r d' ->
  (existsb nps_claimed (sel_nps_all d npid) = true /\ r = None /\ d' = d) \/
  (existsb nps_claimed (sel_nps_all d npid) = false /\ r <> None /\ d' = rm_np d npid).
Proof.
  unfold release_delete_body. cbv zeta. rewrite del_np_rm.
  destruct (existsb nps_claimed (sel_nps_all d npid)).
  - intros H; inversion H; subst. left. auto.
  - intros H. right. split; [reflexivity|].
    destruct (usage_on cfg).
    + destruct (summarize_nameplate _ _ _ _ _); inversion H; subst. split; [discriminate|reflexivity].
    + inversion H; subst. split; [discriminate|reflexivity].
Qed.

Lemma release_nameplate_wp a n side when s :
  DbInv (chan_w s) -> chan_c s = chan_w s ->
  wp (release_nameplate cfg a n side when)
     (fun _ s' => subs s' = subs s /\ chan_c s' = chan_w s' /\ nofr s s' /\
                  release_db a n side (chan_w s) (chan_w s'))
     (fun _ _ => False) s.
Proof.
  intros Hdb Hc. unfold release_nameplate. wp_step. wp_step.
  destruct (release_mark_body (chan_w s) a n side) as [[npid d1]|] eqn:Erm.
  - destruct (release_mark_body_ok _ _ _ _ _ _ Hdb Erm) as (Hdb1 & _ & Hex1).
    cbv beta iota. wp_step. wp_step. wp_step. wp_step. cbn [chan_w set_chan_w].
    destruct (release_delete_body_ok cfg d1 a npid when Hdb1 Hex1) as (r & d' & E & _).
    rewrite E. apply release_delete_body_res in E.
    assert (Hrd : release_db a n side (chan_w s) d').
    { eapply release_db_some; [exact Erm|]. destruct E as [(E1 & _ & E2)|(E1 & _ & E2)]; auto. }
    destruct r as [unps|]; cbv beta iota.
    + wp_step. destruct (usage_on cfg).
      * unfold write_usage. wp_step. wp_step. wp_step. wp_step. cbn.
        split; [reflexivity|]. split; [reflexivity|]. split; [|exact Hrd].
        eexists [_; _; _]. split; reflexivity.
      * wp_step. wp_step. cbn.
        split; [reflexivity|]. split; [reflexivity|]. split; [|exact Hrd].
        eexists [_; _]. split; reflexivity.
    + destruct E as [(_ & _ & ->)|(_ & Hne & _)]; [|congruence].
      wp_step. cbn.
      split; [reflexivity|]. split; [reflexivity|]. split; [|exact Hrd].
      eexists [_]. split; reflexivity.
  - cbv beta iota. wp_step. rewrite set_chan_w_same.
    split; [reflexivity|]. split; [exact Hc|]. split; [apply nofr_refl|].
    apply release_db_none. exact Erm.
Qed.

(** * the step of a command, reduced to [dispatch] *)
Lemma step_cmd s c msg o t cs :
  lookup_conn c (conns s) = Some cs -> m_type msg = Some t ->
  step cfg s (EB (ECmd c msg o)) =
    match dispatch cfg c t msg o
            (set_log s [LFrame c (FAck (m_id msg)) (is_clean s) (now s)]) with
    | Ok _ s' => (set_log s' [], mkObs true (rev (log s')) None [])
    | Exn (XErr k) s' =>
        (set_log s' [], mkObs true (rev (LFrame c (FError k msg) (is_clean s') (now s') :: log s')) None [])
    | Exn e s' => (set_log (drop_conn c s') [], mkObs true (rev (log (drop_conn c s'))) (Some e) [])
    end.
Proof.
  intros Hlk Ht. unfold step, step_b, has_conn. cbn [conns set_log]. rewrite Hlk.
  unfold on_message, try_catch, bind, send. rewrite Ht.
  change (is_clean (set_log s [])) with (is_clean s).
  change (now (set_log s [])) with (now s).
  change (set_log (set_log s []) (LFrame c (FAck (m_id msg)) (is_clean s) (now s) :: log (set_log s [])))
    with (set_log s [LFrame c (FAck (m_id msg)) (is_clean s) (now s)]).
  destruct (dispatch cfg c t msg o (set_log s [LFrame c (FAck (m_id msg)) (is_clean s) (now s)]))
    as [[] s'|e s']; [reflexivity|].
  destruct e; reflexivity.
Qed.

Lemma drop_conn_frame c s :
  chan_w (drop_conn c s) = chan_w s /\ chan_c (drop_conn c s) = chan_c s /\
  log (drop_conn c s) = log s.
Proof.
  unfold drop_conn, on_close, bind, get_conn, remove_sub, ret.
  destruct (lookup_conn c (conns s)) as [cs|]; cbn.
  - destruct (c_mailbox cs); [|cbn; auto].
    destruct (c_bound cs) as [[a side]|]; [|cbn; auto].
    destruct (c_listening cs); cbn; auto.
  - auto.
Qed.

(** * release *)
Lemma handle_release_wp c a side msg n s cs :
  DbInv (chan_w s) -> chan_c s = chan_w s ->
  lookup_conn c (conns s) = Some cs ->
  c_did_release cs = false -> name_mismatch (m_nameplate msg) (c_nameplate_id cs) = false ->
  cmd_nameplate cs msg = Some n ->
  wp (handle_release cfg c a side msg)
     (fun _ s' => subs s' = subs s /\ chan_c s' = chan_w s' /\
                  (exists b tx l, log s' = LFrame c FReleased b tx :: l ++ log s /\
                               frames_of (rev l) = []) /\
                  release_db a n side (chan_w s) (chan_w s'))
     (fun _ _ => False) s.
Proof.
  intros Hdb Hc Hlk Hrel Hmm Hn. unfold handle_release.
  wp_step. wp_step. rewrite Hlk. rewrite Hrel. wp_step.
  assert (Hres : forall (Q : string -> state -> Prop) (E : exn -> state -> Prop) s0, Q n s0 ->
            wp (match m_nameplate msg, c_nameplate_id cs with
                | Some n, Some n' => if seqb n n' then ret n else err
                | Some n, None => ret n
                | None, Some n' => ret n'
                | None, None => err
                end) Q E s0).
  { intros Q E s0 HQ. unfold cmd_nameplate, name_mismatch in *.
    destruct (m_nameplate msg) as [x|]; destruct (c_nameplate_id cs) as [y|];
      try discriminate; try (inversion Hn; subst; wp_step; exact HQ).
    apply negb_false_iff in Hmm. rewrite Hmm. inversion Hn; subst. wp_step. exact HQ. }
  apply Hres. clear Hres.
  wp_step. wp_step. wp_step. wp_step. wp_step.
  match goal with |- wp _ _ _ ?st => set (s2 := st) end.
  eapply wp_conseq; [exact (release_nameplate_wp a n side (now s2) s2 Hdb Hc)| |].
  - intros [] s3 (Hs & Hcc & [l [Hl Hf]] & Hrd). wp_step. cbn.
    split; [exact Hs|]. split; [exact Hcc|]. split; [|exact Hrd].
    exists (is_clean s3), (now s3), l. split; [rewrite Hl; reflexivity|exact Hf].
  - intros e s3 [].
Qed.

Theorem release_effect s c cs a side msg o n :
  SInv s -> log s = [] ->
  lookup_conn c (conns s) = Some cs -> c_bound cs = Some (a, side) ->
  m_type msg = Some TRelease -> erroneous cs msg = false -> cmd_nameplate cs msg = Some n ->
  let '(s', ob) := step cfg s (EB (ECmd c msg o)) in
  let d := chan_w s in
  let d' := chan_w s' in
  o_exc ob = None /\
  frames_of (o_log ob) = [(c, FAck (m_id msg)); (c, FReleased)] /\
  subs s' = subs s /\ chan_c s' = d' /\
  mailboxes d' = mailboxes d /\ mb_sides d' = mb_sides d /\ messages d' = messages d /\
  np_seq d' = np_seq d /\
  match sel_np d a n with
  | None => d' = d
  | Some np =>
      match sel_nps d (np_id np) side with
      | None => d' = d                       (* a side that holds no claim: nothing changes *)
      | Some _ =>
          if existsb (fun r => nps_claimed r && negb (seqb (nps_side r) side))
                     (sel_nps_all d (np_id np))
          then d' = upd_nps_release d (np_id np) side        (* somebody else still holds it *)
          else nameplates d' = filter (fun r => negb (np_id r =? np_id np)) (nameplates d) /\
               np_sides d' = filter (fun r => negb (nps_npid r =? np_id np)) (np_sides d)
      end
  end.
Proof.
  intros HS Hlog Hlk Hb Ht Herr Hn.
  destruct HS as [Hdb [Hcw Hcu] _ _ _ _].
  unfold erroneous in Herr. rewrite Ht, Hb in Herr. apply orb_false_elim in Herr.
  destruct Herr as [Hrel Hmm].
  rewrite (step_cmd s c msg o TRelease cs Hlk Ht).
  set (s1 := set_log s [LFrame c (FAck (m_id msg)) (is_clean s) (now s)]).
  assert (Hco : conn_of s1 c = cs) by (unfold conn_of; cbn; rewrite Hlk; reflexivity).
  rewrite (dispatch_bound cfg c TRelease msg o s1 a side); try discriminate;
    [|rewrite Hco; exact Hb].
  pose proof (handle_release_wp c a side msg n s1 cs Hdb (eq_sym Hcw) Hlk Hrel Hmm Hn) as W.
  apply wp_elim in W. destruct W as [([] & s' & E & Hs & Hcc & (b & tx & l & Hl & Hf) & Hrd)|(e & s' & _ & [])].
  rewrite E. cbn [o_exc o_log chan_w chan_c subs set_log].
  destruct Hrd as (R1 & R2 & R3 & R4 & R5).
  split; [reflexivity|]. split.
  { rewrite Hl. cbn [rev log s1 set_log app].
    rewrite rev_app_distr, !frames_of_app, Hf. reflexivity. }
  split; [exact Hs|]. split; [exact Hcc|].
  repeat (split; [assumption|]). exact R5.
Qed.

(** * claim *)
Definition claim_post (a n side : string) (d d' : chan_db) (mbox : string) : Prop :=
  grows d d' /\
  (forall np r, sel_np d a n = Some np -> sel_nps d (np_id np) side = Some r ->
                nps_claimed r = true) /\
  exists np, sel_np d' a n = Some np /\ np_mbox np = mbox /\
             (forall np0, sel_np d a n = Some np0 -> np = np0) /\
             holder d' a n side.

Lemma claim_post_gsame a n side d d1 d2 mbox :
  claim_post a n side d d1 mbox -> gsame d1 d2 -> claim_post a n side d d2 mbox.
Proof.
  intros (G & Hcl & np & Hnp & Hmb & Hun & Hh) (G2 & N2 & S2).
  split; [eapply grows_trans; eassumption|]. split; [exact Hcl|].
  assert (Hsel : sel_np d2 a n = sel_np d1 a n) by (unfold sel_np; rewrite N2; reflexivity).
  exists np. split; [rewrite Hsel; exact Hnp|]. split; [exact Hmb|]. split; [exact Hun|].
  destruct Hh as (np' & r & H1 & H2 & H3). exists np', r.
  split; [rewrite Hsel; exact H1|]. split; [rewrite S2; exact H2|exact H3].
Qed.

Lemma claim_body_extras d a n side when draw :
  DbInv d ->
  match claim_body d a n side when draw with
  | TxOk (npid, mbox) d' => claim_post a n side d d' mbox
  | TxFail e d' =>
      (e = XReclaimed /\
       exists np r, sel_np d a n = Some np /\ sel_nps d (np_id np) side = Some r /\
                    nps_claimed r = false) \/
      ((e = XIntegrity \/ e = XOracle) /\ sel_np d a n = None)
  end.
Proof.
  intros Hdb. unfold claim_body. destruct (sel_np d a n) as [row|] eqn:Enp.
  - destruct (sel_np_some _ _ _ _ Enp) as (Hrow & Ha & Hn).
    unfold claim_side_body. destruct (sel_nps d (np_id row) side) as [r|] eqn:Enps.
    + destruct (nps_claimed r) eqn:Ecl.
      * split; [apply grows_refl|]. split.
        { intros np r0 H1 H2. assert (np = row) by congruence. subst np.
          assert (r0 = r) by congruence. subst r0. exact Ecl. }
        exists row. split; [exact Enp|]. split; [reflexivity|].
        split; [intros np0 H; congruence|].
        destruct (sel_nps_some _ _ _ _ Enps) as (Hr & Hid & Hsd).
        exists row, r. auto.
      * left. split; [reflexivity|]. exists row, r. auto.
    + unfold ins_nps. cbn [nps_npid].
      assert (Hex : np_exists d (np_id row) = true) by (apply np_exists_iff; exists row; auto).
      rewrite Hex.
      split.
      { unfold grows. cbn. repeat split; try apply incl_refl.
        - apply incl_appl, incl_refl.
        - intros r0 Hr0. exists r0. auto. }
      split.
      { intros np r0 H1 H2. assert (np = row) by congruence. subst np. congruence. }
      exists row. split; [exact Enp|]. split; [reflexivity|].
      split; [intros np0 H; congruence|].
      exists row, (mkNps (np_id row) true side when).
      split; [exact Enp|]. split; [cbn; apply in_or_app; right; left; reflexivity|].
      cbn. auto.
  - destruct draw as [bytes|]; [|right; auto].
    cbv zeta. destruct (add_mailbox d a (genid bytes) true when) as [d1|] eqn:Eam; [|right; auto].
    pose proof (add_mailbox_ok d a (genid bytes) true when Hdb) as Hok. rewrite Eam in Hok.
    destruct Hok as (Hdb1 & Hmb1 & _).
    destruct (add_mailbox_gsame _ _ _ _ _ _ Eam) as (G1 & N1 & S1).
    rewrite (claim_fresh_eval d1 a n (genid bytes) side when Hdb1 Hmb1).
    assert (Hnone1 : sel_np d1 a n = None) by (unfold sel_np; rewrite N1; exact Enp).
    split.
    { eapply grows_trans; [exact G1|]. unfold grows. cbn. repeat split; try apply incl_refl.
      - apply incl_appl, incl_refl.
      - apply incl_appl, incl_refl.
      - intros r0 Hr0. exists r0. auto. }
    split; [intros np r H; congruence|].
    exists (mkNp (np_seq d1 + 1) a n (genid bytes)).
    assert (Hsel : sel_np (mkChan (nameplates d1 ++ [mkNp (np_seq d1 + 1) a n (genid bytes)])
                                  (np_sides d1 ++ [mkNps (np_seq d1 + 1) true side when])
                                  (mailboxes d1) (mb_sides d1) (messages d1) (np_seq d1 + 1)) a n =
                   Some (mkNp (np_seq d1 + 1) a n (genid bytes))).
    { unfold sel_np. cbn [nameplates]. apply find_snoc; [exact Hnone1|].
      cbn. rewrite !seqb_refl. reflexivity. }
    split; [exact Hsel|]. split; [reflexivity|]. split; [intros np0 H; congruence|].
    exists (mkNp (np_seq d1 + 1) a n (genid bytes)), (mkNps (np_seq d1 + 1) true side when).
    split; [exact Hsel|]. split; [cbn; apply in_or_app; right; left; reflexivity|].
    cbn. auto.
Qed.

(** the state after a claim whose two transactions ended in [d1] then [d2] *)
Definition claimed_state (s : state) (d1 d2 : chan_db) : state :=
  mkState d2 d2 (usage_w s) (usage_c s) (subs s) (conns s) (now s) (boot s)
          (timer_start s) (next_due s)
          (LCommitChan d2 :: LCommitChan d2 :: LCommitChan d1 :: log s).

Lemma claim_nameplate_ok_wp a n side when draw s npid mbox d1 d2 :
  claim_body (chan_w s) a n side when draw = TxOk (npid, mbox) d1 ->
  open_body d1 a mbox side when = TxOk tt d2 ->
  wp (claim_nameplate a n side when draw)
     (fun m s' => m = mbox /\ s' = claimed_state s d1 d2)
     (fun e s' => e = XCrowded /\ s' = claimed_state s d1 d2) s.
Proof.
  intros H1 H2. unfold claim_nameplate. wp_step. wp_step. rewrite H1. cbv beta iota.
  wp_step. wp_step. wp_step. unfold open_mailbox.
  wp_step. wp_step. cbn [chan_w set_chan_w]. rewrite H2.
  wp_step. wp_step. wp_step. wp_step. wp_step. wp_step. cbn [chan_w].
  match goal with |- context [if ?b then _ else _] => destruct b end.
  - wp_step. split; reflexivity.
  - wp_step. wp_step. wp_step. cbn [chan_w].
    match goal with |- context [if ?b then _ else _] => destruct b end.
    + wp_step. split; reflexivity.
    + wp_step. split; reflexivity.
Qed.

Lemma claim_nameplate_fail_wp a n side when draw s e :
  claim_body (chan_w s) a n side when draw = TxFail e (chan_w s) ->
  wp (claim_nameplate a n side when draw)
     (fun _ _ => False) (fun e' s' => e' = e /\ s' = s) s.
Proof.
  intros H1. unfold claim_nameplate. wp_step. wp_step. rewrite H1.
  rewrite set_chan_w_same. split; reflexivity.
Qed.

Definition claim_conn (s : state) (c : nat) (cs : conn_state) (n : string) : state :=
  set_conns s (update_conn c (set_nameplate_id (set_did_claim cs true) (Some n)) (conns s)).

Lemma handle_claim_ok_wp c a side msg o n s cs npid mbox d1 d2 :
  lookup_conn c (conns s) = Some cs -> m_nameplate msg = Some n -> c_did_claim cs = false ->
  claim_body (chan_w s) a n side (now s) (o_draw o) = TxOk (npid, mbox) d1 ->
  open_body d1 a mbox side (now s) = TxOk tt d2 ->
  wp (handle_claim c a side msg o)
     (fun _ s' => exists b tx, s' = set_log (claimed_state (claim_conn s c cs n) d1 d2)
                                 (LFrame c (FClaimed mbox) b tx ::
                                  log (claimed_state (claim_conn s c cs n) d1 d2)))
     (fun e s' => e = XErr ErrCrowded /\ s' = claimed_state (claim_conn s c cs n) d1 d2) s.
Proof.
  intros Hlk Hn Hdc H1 H2. unfold handle_claim. rewrite Hn.
  wp_step. wp_step. rewrite Hlk, Hdc. wp_step. wp_step. wp_step. wp_step. wp_step.
  unfold catch_crowded_reclaimed. wp_step.
  fold (claim_conn s c cs n).
  eapply wp_conseq;
    [exact (claim_nameplate_ok_wp a n side (now (claim_conn s c cs n)) (o_draw o)
              (claim_conn s c cs n) npid mbox d1 d2 H1 H2)| |].
  - intros m s' [-> ->]. wp_step. eexists. eexists. reflexivity.
  - intros e s' [-> ->]. wp_step. split; reflexivity.
Qed.

Lemma handle_claim_fail_wp c a side msg o n s cs e :
  lookup_conn c (conns s) = Some cs -> m_nameplate msg = Some n -> c_did_claim cs = false ->
  claim_body (chan_w s) a n side (now s) (o_draw o) = TxFail e (chan_w s) ->
  wp (handle_claim c a side msg o)
     (fun _ _ => False)
     (fun e' s' => s' = claim_conn s c cs n /\
                   e' = match e with
                        | XCrowded => XErr ErrCrowded
                        | XReclaimed => XErr ErrReclaimed
                        | _ => e
                        end) s.
Proof.
  intros Hlk Hn Hdc H1. unfold handle_claim. rewrite Hn.
  wp_step. wp_step. rewrite Hlk, Hdc. wp_step. wp_step. wp_step. wp_step. wp_step.
  unfold catch_crowded_reclaimed. wp_step.
  fold (claim_conn s c cs n).
  eapply wp_conseq;
    [exact (claim_nameplate_fail_wp a n side (now (claim_conn s c cs n)) (o_draw o)
              (claim_conn s c cs n) e H1)| |].
  - intros m s' [].
  - intros e' s' [-> ->]. destruct e; wp_step; split; reflexivity.
Qed.

Theorem claim_outcome s c cs a side msg o n :
  SInv s -> log s = [] ->
  lookup_conn c (conns s) = Some cs -> c_bound cs = Some (a, side) ->
  m_type msg = Some TClaim -> erroneous cs msg = false -> m_nameplate msg = Some n ->
  let '(s', ob) := step cfg s (EB (ECmd c msg o)) in
  let d := chan_w s in
  let d' := chan_w s' in
  chan_c s' = d' /\
  ( (frames_of (o_log ob) = [(c, FAck (m_id msg)); (c, FError ErrReclaimed msg)] /\
     o_exc ob = None /\ d' = d /\ subs s' = subs s /\
     exists np r, sel_np d a n = Some np /\ sel_nps d (np_id np) side = Some r /\
                  nps_claimed r = false)
    \/
    (frames_of (o_log ob) = [(c, FAck (m_id msg))] /\
     (o_exc ob = Some XIntegrity \/ o_exc ob = Some XOracle) /\ d' = d /\ sel_np d a n = None)
    \/
    (o_exc ob = None /\ grows d d' /\ subs s' = subs s /\
     (forall np r, sel_np d a n = Some np -> sel_nps d (np_id np) side = Some r ->
                   nps_claimed r = true) /\
     exists np, sel_np d' a n = Some np /\
                (forall np0, sel_np d a n = Some np0 -> np = np0) /\
                holder d' a n side /\
                (frames_of (o_log ob) = [(c, FAck (m_id msg)); (c, FClaimed (np_mbox np))] \/
                 frames_of (o_log ob) = [(c, FAck (m_id msg)); (c, FError ErrCrowded msg)])) ).
Proof.
  intros HS Hlog Hlk Hb Ht Herr Hn.
  destruct HS as [Hdb [Hcw Hcu] _ _ _ _].
  unfold erroneous in Herr. rewrite Ht, Hb, Hn in Herr.
  rewrite (step_cmd s c msg o TClaim cs Hlk Ht).
  set (s1 := set_log s [LFrame c (FAck (m_id msg)) (is_clean s) (now s)]).
  assert (Hco : conn_of s1 c = cs) by (unfold conn_of; cbn; rewrite Hlk; reflexivity).
  rewrite (dispatch_bound cfg c TClaim msg o s1 a side); try discriminate;
    [|rewrite Hco; exact Hb].
  pose proof (claim_body_ok (chan_w s) a n side (now s) (o_draw o) Hdb) as Hok.
  pose proof (claim_body_extras (chan_w s) a n side (now s) (o_draw o) Hdb) as Hex.
  destruct (claim_body (chan_w s) a n side (now s) (o_draw o)) as [[npid mbox] d1|e d1] eqn:Ecb.
  - destruct Hok as (Hdb1 & _ & Hmb1 & _).
    pose proof (open_body_ok d1 a mbox side (now s) Hdb1) as Hob.
    destruct (open_body d1 a mbox side (now s)) as [[] d2|e2 d2'] eqn:Eob;
      [|exfalso; destruct Hob as (_ & -> & _ & Hno); exact (Hno Hmb1)].
    pose proof (claim_post_gsame _ _ _ _ _ _ _ Hex (open_body_gsame _ _ _ _ _ _ Eob)) as Hpost.
    destruct Hpost as (G & Hcl & np & Hnp & Hmbx & Hun & Hh).
    pose proof (handle_claim_ok_wp c a side msg o n s1 cs npid mbox d1 d2 Hlk Hn Herr Ecb Eob) as W.
    apply wp_elim in W.
    destruct W as [([] & s' & E & b & tx & ->)|(e & s' & E & -> & ->)]; rewrite E;
      cbn [o_exc o_log chan_w chan_c subs set_log claimed_state claim_conn set_conns log];
      (split; [reflexivity|]); right; right;
      (split; [reflexivity|]); (split; [exact G|]); (split; [reflexivity|]);
      (split; [exact Hcl|]); exists np; (split; [exact Hnp|]); (split; [exact Hun|]);
      (split; [exact Hh|]).
    + left. rewrite Hmbx. reflexivity.
    + right. reflexivity.
  - destruct Hok as (-> & _).
    pose proof (handle_claim_fail_wp c a side msg o n s1 cs e Hlk Hn Herr Ecb) as W.
    apply wp_elim in W. destruct W as [(x & s' & _ & [])|(e' & s' & E & -> & ->)].
    rewrite E.
    destruct Hex as [(-> & np & r & H1 & H2 & H3)|([->| ->] & Hnone)].
    + cbn [o_exc o_log chan_w chan_c subs set_log claim_conn set_conns log].
      split; [symmetry; exact Hcw|]. left.
      split; [reflexivity|]. split; [reflexivity|]. split; [reflexivity|].
      split; [reflexivity|]. exists np, r. auto.
    + destruct (drop_conn_frame c (claim_conn s1 c cs n)) as (D1 & D2 & D3).
      cbn [o_exc o_log chan_w chan_c subs set_log].
      rewrite D1, D2, D3. cbn [chan_w chan_c claim_conn set_conns log s1 set_log].
      split; [symmetry; exact Hcw|]. right. left.
      split; [reflexivity|]. split; [left; reflexivity|]. split; [reflexivity|exact Hnone].
    + destruct (drop_conn_frame c (claim_conn s1 c cs n)) as (D1 & D2 & D3).
      cbn [o_exc o_log chan_w chan_c subs set_log].
      rewrite D1, D2, D3. cbn [chan_w chan_c claim_conn set_conns log s1 set_log].
      split; [symmetry; exact Hcw|]. right. left.
      split; [reflexivity|]. split; [right; reflexivity|]. split; [reflexivity|exact Hnone].
Qed.

End WithConfig.
