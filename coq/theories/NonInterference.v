(** NonInterference.v -- C06 at history level: what the clients of app B
    observe, and what is stored for B, is the same whether or not clients of
    other apps are active -- in histories in which no handler fails internally
    (which by C17 happens only through known finding KF1: a mailbox id that exists
    under another app, a colliding generated id -- or KF3).
    Nameplate row ids (AUTOINCREMENT, global, never visible to clients) are
    abstracted away. *)
From MW Require Import Base Store Monad Usage Server Websocket Service Findings
     Inv StoreFacts Hoare DbFactsA DbFactsB OpFacts ProtoFacts Obs StepFacts SweepFacts
     NpFactsA MbFactsA MbFactsB IsoFacts Corollaries.
From MW Require Import UsageFacts.
From MW Require ViewFacts.
Local Open Scope list_scope.


(** what is stored for app B, without nameplate row ids: each nameplate with
    its side rows, the mailboxes, their side rows, the messages (rowid order) *)
Definition absB (B : string) (d : chan_db) :=
  (map (fun n => (np_name n, np_mbox n,
                  map (fun x => (nps_claimed x, nps_side x, nps_added x)) (sel_nps_all d (np_id n))))
       (app_nps d B),
   app_mbs d B, app_mb_sides d B, app_msgs d B).

(** a connection record as the B-only run sees it: connections bound to another
    app never bound there (their bind was removed) *)
Definition other_app (B : string) (cs : conn_state) : bool :=
  match c_bound cs with Some (a, _) => negb (seqb a B) | None => false end.
Definition eraseA (B : string) (cs : conn_state) : conn_state :=
  if other_app B cs then new_conn else cs.

(** the relation between the full run (s1) and the run without the other apps (s2) *)
Record relB (B : string) (s1 s2 : state) : Prop := mkRelB
  { rb_w : absB B (chan_w s2) = absB B (chan_w s1);
    rb_c : absB B (chan_c s2) = absB B (chan_c s1);
    rb_uw : app_usage (usage_w s2) B = app_usage (usage_w s1) B;
    rb_uc : app_usage (usage_c s2) B = app_usage (usage_c s1) B;
    rb_subs : subs s2 = filter (fun p => seqb (fst (fst p)) B) (subs s1);
    rb_conns : conns s2 = map (fun p => (fst p, eraseA B (snd p))) (conns s1);
    rb_now : now s2 = now s1;
    rb_due : next_due s2 = next_due s1;
    rb_start : timer_start s2 = timer_start s1;
    rb_only : forall r, In r (mailboxes (chan_w s2)) -> mb_app r = B }.

(** an event that belongs to another app: a command on a connection bound to
    another app, or a (well-formed, hence successful) bind to another app *)
Definition dropB (B : string) (s : state) (e : event) : bool :=
  match e with
  | EB (ECmd c msg _) =>
      match lookup_conn c (conns s) with
      | Some cs =>
          other_app B cs ||
          (match c_bound cs, m_type msg, m_appid msg, m_side msg with
           | None, Some TBind, Some a, Some _ => negb (seqb a B)
           | _, _, _, _ => false
           end)
      | None => false
      end
  | _ => false
  end.

(** frames as seen by B's side: those addressed to connections not bound to another app *)
Definition framesB (B : string) (s : state) (l : list log_entry) : list (nat * frame) :=
  filter (fun p => match lookup_conn (fst p) (conns s) with
                   | Some cs => negb (other_app B cs)
                   | None => true
                   end) (frames_of l).

(** the event does not fail internally in the full run (by Prop_C17 a handler
    fails internally only through the known findings KF1 / id collision / KF3) *)
Definition no_failure (cfg : config) (s : state) (e : event) : Prop :=
  o_exc (snd (step cfg s e)) = None.

(** an unbound connection has done nothing yet (true in every reachable state:
    before bind every command except ping is refused without touching the record) *)
Definition fresh_unbound (s : state) : Prop :=
  forall c cs, lookup_conn c (conns s) = Some cs -> c_bound cs = None -> cs = new_conn.

Definition plain_event (e : event) : Prop := match e with EB _ => True | _ => False end.

(** * Generic list lemmas *)

Lemma find_filter {X} (p q : X -> bool) l :
  find p (filter q l) = find (fun x => q x && p x) l.
Proof.
  induction l as [|y l IH]; cbn [filter find]; [reflexivity|].
  destruct (q y); cbn [find andb]; [rewrite IH; reflexivity|exact IH].
Qed.

Lemma find_filter_keep {X} (p q : X -> bool) l :
  (forall x, In x l -> p x = true -> q x = true) -> find p (filter q l) = find p l.
Proof.
  induction l as [|y l IH]; intros H; cbn [filter find]; [reflexivity|].
  assert (IH' : find p (filter q l) = find p l).
  { apply IH. intros x Hx. apply H. right. exact Hx. }
  destruct (q y) eqn:Eq.
  - cbn [find]. rewrite IH'. reflexivity.
  - destruct (p y) eqn:Ep; [|exact IH'].
    rewrite (H y (or_introl eq_refl) Ep) in Eq. discriminate.
Qed.

Lemma find_map {X Y} (p : Y -> bool) (f : X -> Y) l :
  find p (map f l) = option_map f (find (fun x => p (f x)) l).
Proof.
  induction l as [|y l IH]; cbn [map find]; [reflexivity|].
  destruct (p (f y)); [reflexivity|exact IH].
Qed.

Lemma filter_map_comm {X} (p : X -> bool) (g : X -> X) l :
  (forall x, p (g x) = p x) -> filter p (map g l) = map g (filter p l).
Proof.
  intros H. induction l as [|y l IH]; cbn [filter map]; [reflexivity|].
  rewrite H. destruct (p y); cbn [map]; rewrite IH; reflexivity.
Qed.

Lemma filter_filter_swap {X} (p p' q : X -> bool) l :
  (forall x, In x l -> q x = true -> p' x = p x) ->
  filter p' (filter q l) = filter q (filter p l).
Proof.
  induction l as [|y l IH]; intros H; cbn [filter]; [reflexivity|].
  assert (IH' : filter p' (filter q l) = filter q (filter p l)).
  { apply IH. intros x Hx. apply H. right. exact Hx. }
  destruct (q y) eqn:Eq.
  - cbn [filter]. rewrite (H y (or_introl eq_refl) Eq).
    destruct (p y); cbn [filter]; rewrite ?Eq, IH'; reflexivity.
  - destruct (p y); cbn [filter]; rewrite ?Eq; exact IH'.
Qed.

Lemma filter_ext_In {X} (p q : X -> bool) l :
  (forall x, In x l -> p x = q x) -> filter p l = filter q l.
Proof.
  induction l as [|y l IH]; intros H; cbn [filter]; [reflexivity|].
  rewrite (H y (or_introl eq_refl)), IH; [reflexivity|].
  intros x Hx. apply H. right. exact Hx.
Qed.

Lemma existsb_map {X Y} (p : Y -> bool) (f : X -> Y) l :
  existsb p (map f l) = existsb (fun x => p (f x)) l.
Proof. induction l as [|y l IH]; cbn [map existsb]; [reflexivity|]. rewrite IH. reflexivity. Qed.

Lemma filter_map_pre {X Y} (p : Y -> bool) (f : X -> Y) l :
  filter p (map f l) = map f (filter (fun x => p (f x)) l).
Proof.
  induction l as [|y l IH]; cbn [map filter]; [reflexivity|].
  destruct (p (f y)); cbn [map]; rewrite IH; reflexivity.
Qed.

(** ** two lists in positional correspondence *)
Section Comb.
Context {X Y : Type}.

Lemma comb_len {Z'} (f : X -> Z') (g : Y -> Z') l1 l2 :
  map f l1 = map g l2 -> List.length l1 = List.length l2.
Proof. intros H. apply (f_equal (@List.length Z')) in H. rewrite !map_length in H. exact H. Qed.

Lemma comb_map_eq {Z'} (f : X -> Z') (g : Y -> Z') l1 : forall l2,
  map f l1 = map g l2 -> forall x y, In (x, y) (combine l1 l2) -> f x = g y.
Proof.
  induction l1 as [|a l1 IH]; intros [|b l2] H x y Hin; cbn [combine] in Hin; try contradiction.
  cbn [map] in H. inversion H as [[H1 H2]]. destruct Hin as [E|Hin].
  - inversion E; subst. exact H1.
  - exact (IH l2 H2 x y Hin).
Qed.

Lemma comb_map_ext {Z'} (f : X -> Z') (g : Y -> Z') l1 : forall l2,
  List.length l1 = List.length l2 ->
  (forall x y, In (x, y) (combine l1 l2) -> f x = g y) -> map f l1 = map g l2.
Proof.
  induction l1 as [|a l1 IH]; intros [|b l2] Hl H; cbn [List.length] in Hl; try discriminate;
    [reflexivity|].
  cbn [map]. f_equal.
  - apply H. left. reflexivity.
  - apply IH; [lia|]. intros x y Hin. apply H. right. exact Hin.
Qed.

Lemma comb_filter (p : X -> bool) (q : Y -> bool) l1 : forall l2,
  List.length l1 = List.length l2 ->
  (forall x y, In (x, y) (combine l1 l2) -> p x = q y) ->
  List.length (filter p l1) = List.length (filter q l2) /\
  forall x y, In (x, y) (combine (filter p l1) (filter q l2)) <->
              In (x, y) (combine l1 l2) /\ p x = true.
Proof.
  induction l1 as [|a l1 IH]; intros [|b l2] Hl H; cbn [List.length] in Hl; try discriminate.
  - split; [reflexivity|]. intros x y. cbn. tauto.
  - assert (Hab : p a = q b) by (apply H; left; reflexivity).
    destruct (IH l2) as [IH1 IH2]; [lia|intros x y Hin; apply H; right; exact Hin|].
    cbn [filter]. rewrite <- Hab. destruct (p a) eqn:Ea.
    + split; [cbn [List.length]; lia|]. intros x y. cbn [combine In]. rewrite IH2. split.
      * intros [E|[K1 K2]]; [inversion E; subst; auto|auto].
      * intros [[E|K1] K2]; [left; exact E|right; auto].
    + split; [exact IH1|]. intros x y. rewrite IH2. cbn [combine In]. split.
      * intros [K1 K2]. auto.
      * intros [[E|K1] K2]; [inversion E; subst; congruence|auto].
Qed.

Lemma comb_find (p : X -> bool) (q : Y -> bool) l1 : forall l2,
  List.length l1 = List.length l2 ->
  (forall x y, In (x, y) (combine l1 l2) -> p x = q y) ->
  match find p l1, find q l2 with
  | Some x, Some y => In (x, y) (combine l1 l2)
  | None, None => True
  | _, _ => False
  end.
Proof.
  induction l1 as [|a l1 IH]; intros [|b l2] Hl H; cbn [List.length] in Hl; try discriminate.
  - exact I.
  - assert (Hab : p a = q b) by (apply H; left; reflexivity).
    cbn [find]. rewrite <- Hab. destruct (p a).
    + left. reflexivity.
    + assert (Hl' : List.length l1 = List.length l2) by lia.
      pose proof (IH l2 Hl' (fun x y Hin => H x y (or_intror Hin))) as IH'.
      destruct (find p l1), (find q l2); try exact IH'. right. exact IH'.
Qed.

Lemma comb_inj {K1 K2} (f : X -> K1) (g : Y -> K2) l1 : forall l2 x y x' y',
  NoDup (map f l1) -> NoDup (map g l2) ->
  In (x, y) (combine l1 l2) -> In (x', y') (combine l1 l2) -> (f x = f x' <-> g y = g y').
Proof.
  induction l1 as [|a l1 IH]; intros [|b l2] x y x' y' N1 N2 H H'; cbn [combine] in H, H';
    try contradiction.
  cbn [map] in N1, N2. inversion N1 as [|? ? Na N1']; inversion N2 as [|? ? Nb N2']; subst.
  destruct H as [E|H], H' as [E'|H'].
  - inversion E; inversion E'; subst. tauto.
  - inversion E; subst. split; intros K; exfalso.
    + apply Na. rewrite K. apply in_map. exact (in_combine_l _ _ _ _ H').
    + apply Nb. rewrite K. apply in_map. exact (in_combine_r _ _ _ _ H').
  - inversion E'; subst. split; intros K; exfalso.
    + apply Na. rewrite <- K. apply in_map. exact (in_combine_l _ _ _ _ H).
    + apply Nb. rewrite <- K. apply in_map. exact (in_combine_r _ _ _ _ H).
  - exact (IH l2 x y x' y' N1' N2' H H').
Qed.

Lemma comb_app (l1 : list X) : forall (l2 : list Y) l1' l2',
  List.length l1 = List.length l2 ->
  combine (l1 ++ l1') (l2 ++ l2') = combine l1 l2 ++ combine l1' l2'.
Proof.
  induction l1 as [|a l1 IH]; intros [|b l2] l1' l2' Hl; cbn [List.length] in Hl; try discriminate;
    [reflexivity|].
  cbn [app combine]. rewrite IH; [reflexivity|lia].
Qed.

Lemma comb_Forall2 (P : X -> Y -> Prop) l1 : forall l2,
  List.length l1 = List.length l2 ->
  (forall x y, In (x, y) (combine l1 l2) -> P x y) -> Forall2 P l1 l2.
Proof.
  induction l1 as [|a l1 IH]; intros [|b l2] Hl H; cbn [List.length] in Hl; try discriminate;
    constructor.
  - apply H. left. reflexivity.
  - apply IH; [lia|]. intros x y Hin. apply H. right. exact Hin.
Qed.

Lemma comb_in_map {X' Y'} (f : X -> X') (g : Y -> Y') l1 : forall l2 x y,
  In (x, y) (combine l1 l2) -> In (f x, g y) (combine (map f l1) (map g l2)).
Proof.
  induction l1 as [|a l1 IH]; intros [|b l2] x y H; cbn [combine] in H; try contradiction.
  cbn [map combine]. destruct H as [E|H]; [inversion E; subst; left; reflexivity|right; auto].
Qed.

End Comb.

(** * B's part of a channel database *)

Lemma bool_iff (a b : bool) : (a = true <-> b = true) -> a = b.
Proof.
  destruct a, b; intros [H1 H2]; try reflexivity;
    [symmetry; apply H1; reflexivity|apply H2; reflexivity].
Qed.

Section View.
Variable B : string.

Definition trip (x : nps_row) : bool * string * Z := (nps_claimed x, nps_side x, nps_added x).
Definition sidesof (d : chan_db) (n : np_row) := map trip (sel_nps_all d (np_id n)).
Definition npabs (d : chan_db) (n : np_row) := (np_name n, np_mbox n, sidesof d n).
Definition NP (d : chan_db) := map (npabs d) (app_nps d B).

Definition VR (d1 d2 : chan_db) : Prop :=
  NP d2 = NP d1 /\ app_mbs d2 B = app_mbs d1 B /\ app_mb_sides d2 B = app_mb_sides d1 B /\
  app_msgs d2 B = app_msgs d1 B.

Lemma absB_VR d1 d2 : absB B d2 = absB B d1 <-> VR d1 d2.
Proof.
  unfold VR.
  change (absB B d2) with (NP d2, app_mbs d2 B, app_mb_sides d2 B, app_msgs d2 B).
  change (absB B d1) with (NP d1, app_mbs d1 B, app_mb_sides d1 B, app_msgs d1 B).
  split.
  - intros H. inversion H. auto.
  - intros (H1 & H2 & H3 & H4). rewrite H1, H2, H3, H4. reflexivity.
Qed.

Lemma VR_refl d : VR d d.
Proof. repeat split. Qed.

Definition onlyB (d : chan_db) : Prop := forall r, In r (mailboxes d) -> mb_app r = B.

Definition DR (d1 d2 : chan_db) : Prop := DbInv d1 /\ DbInv d2 /\ VR d1 d2 /\ onlyB d2.

(** pairs of corresponding nameplate rows / ids *)
Definition PR (d1 d2 : chan_db) (n1 n2 : np_row) : Prop :=
  In (n1, n2) (combine (app_nps d1 B) (app_nps d2 B)).
Definition cor (d1 d2 : chan_db) (i1 i2 : Z) : Prop :=
  exists n1 n2, PR d1 d2 n1 n2 /\ np_id n1 = i1 /\ np_id n2 = i2.

Lemma VR_len d1 d2 : VR d1 d2 -> List.length (app_nps d1 B) = List.length (app_nps d2 B).
Proof. intros (H & _). symmetry. exact (comb_len _ _ _ _ H). Qed.

Lemma PR_abs d1 d2 n1 n2 : VR d1 d2 -> PR d1 d2 n1 n2 -> npabs d1 n1 = npabs d2 n2.
Proof. intros (H & _) Hp. symmetry in H. exact (comb_map_eq _ _ _ _ H n1 n2 Hp). Qed.

Lemma NP_intro d1 d2 :
  List.length (app_nps d1 B) = List.length (app_nps d2 B) ->
  (forall n1 n2, PR d1 d2 n1 n2 -> npabs d1 n1 = npabs d2 n2) -> NP d2 = NP d1.
Proof. intros Hl H. symmetry. apply comb_map_ext; assumption. Qed.

Lemma app_nps_In d n : In n (app_nps d B) <-> In n (nameplates d) /\ np_app n = B.
Proof. unfold app_nps. rewrite filter_In, seqb_eq. tauto. Qed.

Lemma PR_in1 d1 d2 n1 n2 : PR d1 d2 n1 n2 -> In n1 (nameplates d1) /\ np_app n1 = B.
Proof. intros H. apply app_nps_In. exact (in_combine_l _ _ _ _ H). Qed.
Lemma PR_in2 d1 d2 n1 n2 : PR d1 d2 n1 n2 -> In n2 (nameplates d2) /\ np_app n2 = B.
Proof. intros H. apply app_nps_In. exact (in_combine_r _ _ _ _ H). Qed.

Lemma ids_nodup d : DbInv d -> NoDup (map np_id (app_nps d B)).
Proof. intros H. unfold app_nps. apply NoDup_map_filter. exact (inv_np_id d H). Qed.

Lemma PR_inj d1 d2 n1 n2 n1' n2' :
  DbInv d1 -> DbInv d2 -> PR d1 d2 n1 n2 -> PR d1 d2 n1' n2' ->
  (np_id n1 = np_id n1' <-> np_id n2 = np_id n2').
Proof.
  intros H1 H2 P P'.
  exact (comb_inj np_id np_id _ _ _ _ _ _ (ids_nodup d1 H1) (ids_nodup d2 H2) P P').
Qed.

Lemma PR_ext d1 d2 d1' d2' :
  nameplates d1' = nameplates d1 -> nameplates d2' = nameplates d2 ->
  forall n1 n2, PR d1' d2' n1 n2 <-> PR d1 d2 n1 n2.
Proof. unfold PR, app_nps. intros -> -> n1 n2. tauto. Qed.

Lemma cor_ext d1 d2 d1' d2' i1 i2 :
  nameplates d1' = nameplates d1 -> nameplates d2' = nameplates d2 ->
  cor d1 d2 i1 i2 -> cor d1' d2' i1 i2.
Proof.
  intros E1 E2 (n1 & n2 & P & K). exists n1, n2. split; [|exact K].
  apply (PR_ext d1 d2 d1' d2' E1 E2). exact P.
Qed.

Lemma cor_exists d1 d2 i1 i2 : cor d1 d2 i1 i2 -> np_exists d1 i1 = true /\ np_exists d2 i2 = true.
Proof.
  intros (n1 & n2 & P & <- & <-). split; apply np_exists_iff.
  - exists n1. split; [apply (PR_in1 _ _ _ _ P)|reflexivity].
  - exists n2. split; [apply (PR_in2 _ _ _ _ P)|reflexivity].
Qed.

Lemma NP_same d d' : nameplates d' = nameplates d -> np_sides d' = np_sides d -> NP d' = NP d.
Proof.
  unfold NP, app_nps, npabs, sidesof, sel_nps_all. intros -> ->. reflexivity.
Qed.

Lemma sidesof_ext d d' n : np_sides d' = np_sides d -> sidesof d' n = sidesof d n.
Proof. unfold sidesof, sel_nps_all. intros ->. reflexivity. Qed.

(** ** nameplate side rows *)

Lemma sidesof_snoc d r n :
  sidesof (set_np_sides d (np_sides d ++ [r])) n =
  sidesof d n ++ (if nps_npid r =? np_id n then [trip r] else []).
Proof.
  unfold sidesof, sel_nps_all. cbn [np_sides set_np_sides]. rewrite filter_app, map_app.
  cbn [filter]. destruct (nps_npid r =? np_id n); reflexivity.
Qed.

Definition rel (side : string) (t : bool * string * Z) : bool * string * Z :=
  if seqb (snd (fst t)) side then (false, snd (fst t), snd t) else t.

Lemma sidesof_release d i side n :
  sidesof (upd_nps_release d i side) n =
  if np_id n =? i then map (rel side) (sidesof d n) else sidesof d n.
Proof.
  unfold sidesof, sel_nps_all, upd_nps_release. cbn [np_sides set_np_sides].
  rewrite filter_map_comm.
  2:{ intros x. destruct ((nps_npid x =? i) && seqb (nps_side x) side); reflexivity. }
  rewrite map_map. destruct (np_id n =? i) eqn:E.
  - rewrite map_map. apply map_ext_in. intros x Hx. apply filter_In in Hx. destruct Hx as [_ Hx].
    apply Z.eqb_eq in Hx. apply Z.eqb_eq in E. rewrite Hx, E, Z.eqb_refl. cbn [andb].
    unfold rel, trip. cbn [fst snd]. destruct (seqb (nps_side x) side); reflexivity.
  - apply map_ext_in. intros x Hx. apply filter_In in Hx. destruct Hx as [_ Hx].
    apply Z.eqb_eq in Hx. rewrite Hx, E. reflexivity.
Qed.

Lemma app_nps_rm_np d i :
  app_nps (rm_np d i) B = filter (fun n => negb (np_id n =? i)) (app_nps d B).
Proof.
  unfold app_nps, rm_np. cbn [nameplates]. rewrite !filter_filter. apply filter_ext.
  intros n. apply andb_comm.
Qed.

Lemma sidesof_rm_np d i n : np_id n <> i -> sidesof (rm_np d i) n = sidesof d n.
Proof.
  intros Hn. unfold sidesof, sel_nps_all, rm_np. cbn [np_sides]. f_equal.
  apply filter_filter_keep. intros x _ Hx. apply Z.eqb_eq in Hx. rewrite Hx.
  apply negb_true_iff, Z.eqb_neq. exact Hn.
Qed.

Lemma no_sides_fresh d i : DbInv d -> np_seq d < i -> sel_nps_all d i = [].
Proof.
  intros Hinv Hi. unfold sel_nps_all.
  destruct (filter (fun r => nps_npid r =? i) (np_sides d)) as [|x l] eqn:E; [reflexivity|exfalso].
  assert (Hx : In x (filter (fun r => nps_npid r =? i) (np_sides d))) by (rewrite E; left; reflexivity).
  apply filter_In in Hx. destruct Hx as [Hx Hi']. apply Z.eqb_eq in Hi'.
  destruct (inv_fk_nps d Hinv x Hx) as [n [Hn En]].
  pose proof (inv_np_seq d Hinv n Hn). lia.
Qed.

(** ** mailboxes, mailbox side rows, messages *)

Definition mbBb (d : chan_db) (x : mbs_row) : bool :=
  existsb (fun r => seqb (mb_id r) (mbs_mbox x) && seqb (mb_app r) B) (mailboxes d).

Lemma mbBb_iff d x : mbBb d x = true <-> has_mb d B (mbs_mbox x).
Proof.
  unfold mbBb, has_mb. rewrite existsb_exists. split.
  - intros [r [Hr H]]. apply andb_true_iff in H. destruct H as [H1 H2].
    apply seqb_eq in H1. apply seqb_eq in H2. eauto.
  - intros [r [Hr [Ha Hi]]]. exists r. split; [exact Hr|].
    apply andb_true_iff. split; apply seqb_eq; assumption.
Qed.

Lemma app_mb_sides_eq d : app_mb_sides d B = filter (mbBb d) (mb_sides d).
Proof. reflexivity. Qed.

Lemma app_mb_sides_ext d d' :
  mb_sides d' = mb_sides d ->
  (forall x, In x (mb_sides d) -> (has_mb d' B (mbs_mbox x) <-> has_mb d B (mbs_mbox x))) ->
  app_mb_sides d' B = app_mb_sides d B.
Proof.
  intros E H. rewrite !app_mb_sides_eq, E. apply filter_ext_In. intros x Hx.
  apply bool_iff. rewrite !mbBb_iff. apply H. exact Hx.
Qed.

Lemma has_mb_app_mbs d m : has_mb d B m <-> exists r, In r (app_mbs d B) /\ mb_id r = m.
Proof.
  unfold has_mb, app_mbs. split.
  - intros [r [Hr [Ha Hi]]]. exists r. split; [|exact Hi]. apply filter_In. split; [exact Hr|].
    apply seqb_eq. exact Ha.
  - intros [r [Hr Hi]]. apply filter_In in Hr. destruct Hr as [Hr Ha]. apply seqb_eq in Ha. eauto.
Qed.

Lemma has_mb_VR d1 d2 m : VR d1 d2 -> (has_mb d2 B m <-> has_mb d1 B m).
Proof. intros (_ & H & _). rewrite !has_mb_app_mbs, H. tauto. Qed.

(* mailboxes rewritten row by row, keeping app and id *)
Lemma app_mbs_map d g :
  (forall r, mb_app (g r) = mb_app r) ->
  app_mbs (set_mailboxes d (map g (mailboxes d))) B = map g (app_mbs d B).
Proof.
  intros H. unfold app_mbs. cbn [mailboxes set_mailboxes]. apply filter_map_comm.
  intros r. rewrite H. reflexivity.
Qed.

Lemma has_mb_map d g a m :
  (forall r, mb_app (g r) = mb_app r) -> (forall r, mb_id (g r) = mb_id r) ->
  has_mb (set_mailboxes d (map g (mailboxes d))) a m <-> has_mb d a m.
Proof.
  intros Ha Hi. unfold has_mb. cbn [mailboxes set_mailboxes]. split.
  - intros [r [Hr [K1 K2]]]. apply in_map_iff in Hr. destruct Hr as [r0 [<- Hr0]].
    exists r0. rewrite Ha in K1. rewrite Hi in K2. auto.
  - intros [r [Hr [K1 K2]]]. exists (g r). split; [apply in_map; exact Hr|].
    rewrite Ha, Hi. auto.
Qed.

Lemma app_mb_sides_map d g :
  (forall r, mb_app (g r) = mb_app r) -> (forall r, mb_id (g r) = mb_id r) ->
  app_mb_sides (set_mailboxes d (map g (mailboxes d))) B = app_mb_sides d B.
Proof.
  intros Ha Hi. apply app_mb_sides_ext; [reflexivity|]. intros x _. apply has_mb_map; assumption.
Qed.

Definition tch (m : string) (w : Z) (r : mb_row) : mb_row :=
  if seqb (mb_id r) m then mkMb (mb_app r) (mb_id r) w (mb_fornp r) else r.

Lemma tch_app m w r : mb_app (tch m w r) = mb_app r.
Proof. unfold tch. destruct (seqb (mb_id r) m); reflexivity. Qed.
Lemma tch_id m w r : mb_id (tch m w r) = mb_id r.
Proof. unfold tch. destruct (seqb (mb_id r) m); reflexivity. Qed.

Lemma upd_touch_form d m w : upd_touch d m w = set_mailboxes d (map (tch m w) (mailboxes d)).
Proof. reflexivity. Qed.

Definition tchs (ms : list string) (w : Z) (r : mb_row) : mb_row :=
  if smem (mb_id r) ms then SweepFacts.touch_row w r else r.

Lemma tchs_app ms w r : mb_app (tchs ms w r) = mb_app r.
Proof. unfold tchs. destruct (smem (mb_id r) ms); reflexivity. Qed.
Lemma tchs_id ms w r : mb_id (tchs ms w r) = mb_id r.
Proof. unfold tchs. destruct (smem (mb_id r) ms); reflexivity. Qed.

Lemma touch_all_form d ms w : touch_all d ms w = set_mailboxes d (map (tchs ms w) (mailboxes d)).
Proof. apply SweepFacts.touch_all_exact. Qed.

Lemma app_mbs_snoc d r :
  mb_app r = B -> app_mbs (set_mailboxes d (mailboxes d ++ [r])) B = app_mbs d B ++ [r].
Proof.
  intros Ha. unfold app_mbs. cbn [mailboxes set_mailboxes]. rewrite filter_app. cbn [filter].
  rewrite Ha, seqb_refl. reflexivity.
Qed.

Lemma app_mb_sides_ins_mb d r :
  DbInv d -> mb_exists d (mb_id r) = false ->
  app_mb_sides (set_mailboxes d (mailboxes d ++ [r])) B = app_mb_sides d B.
Proof.
  intros Hinv Hex. apply app_mb_sides_ext; [reflexivity|]. intros x Hx. unfold has_mb.
  cbn [mailboxes set_mailboxes]. split.
  - intros [r0 [Hr0 [K1 K2]]]. apply in_app_or in Hr0. destruct Hr0 as [Hr0|[<-|[]]]; [eauto|].
    exfalso. destruct (inv_fk_mbs d Hinv x Hx) as [m0 [Hm0 Em0]].
    rewrite mb_exists_false in Hex. apply (Hex m0 Hm0). congruence.
  - intros [r0 [Hr0 K]]. exists r0. split; [apply in_or_app; left; exact Hr0|exact K].
Qed.

Lemma app_mb_sides_snoc d r :
  has_mb d B (mbs_mbox r) ->
  app_mb_sides (set_mb_sides d (mb_sides d ++ [r])) B = app_mb_sides d B ++ [r].
Proof.
  intros Hm. rewrite !app_mb_sides_eq. cbn [mb_sides set_mb_sides]. rewrite filter_app. cbn [filter].
  assert (E : mbBb (set_mb_sides d (mb_sides d ++ [r])) r = true) by (apply mbBb_iff; exact Hm).
  rewrite E. reflexivity.
Qed.

Definition cls (m side : string) (mood : option string) (r : mbs_row) : mbs_row :=
  if seqb (mbs_mbox r) m && seqb (mbs_side r) side
  then mkMbs (mbs_mbox r) false (mbs_side r) (mbs_added r) mood else r.

Lemma app_mb_sides_close d m side mood :
  app_mb_sides (upd_mbs_close d m side mood) B = map (cls m side mood) (app_mb_sides d B).
Proof.
  rewrite !app_mb_sides_eq. unfold upd_mbs_close. cbn [mb_sides set_mb_sides].
  apply filter_map_comm. intros x. unfold mbBb, cls. cbn [mailboxes set_mb_sides].
  destruct (seqb (mbs_mbox x) m && seqb (mbs_side x) side); reflexivity.
Qed.

Lemma app_msgs_snoc d r : msg_app r = B -> app_msgs (ins_msg d r) B = app_msgs d B ++ [r].
Proof.
  intros Ha. unfold app_msgs, ins_msg. cbn [messages set_messages]. rewrite filter_app. cbn [filter].
  rewrite Ha, seqb_refl. reflexivity.
Qed.

Lemma app_mbs_rm_mb d m :
  app_mbs (rm_mb d m) B = filter (fun r => negb (seqb (mb_id r) m)) (app_mbs d B).
Proof.
  unfold app_mbs, rm_mb. cbn [mailboxes]. rewrite !filter_filter. apply filter_ext.
  intros r. apply andb_comm.
Qed.

Lemma app_msgs_rm_mb d m :
  app_msgs (rm_mb d m) B = filter (fun r => negb (seqb (msg_mbox r) m)) (app_msgs d B).
Proof.
  unfold app_msgs, rm_mb. cbn [messages]. rewrite !filter_filter. apply filter_ext.
  intros r. apply andb_comm.
Qed.

Lemma app_mb_sides_rm_mb d m :
  app_mb_sides (rm_mb d m) B = filter (fun r => negb (seqb (mbs_mbox r) m)) (app_mb_sides d B).
Proof.
  rewrite !app_mb_sides_eq. unfold rm_mb at 2. cbn [mb_sides].
  apply filter_filter_swap. intros x _ Hx. apply negb_true_iff, seqb_neq in Hx.
  apply bool_iff. rewrite !mbBb_iff. unfold has_mb, rm_mb. cbn [mailboxes]. split.
  - intros [r [Hr K]]. apply filter_In in Hr. destruct Hr as [Hr _]. eauto.
  - intros [r [Hr [K1 K2]]]. exists r. split; [|auto]. apply filter_In. split; [exact Hr|].
    apply negb_true_iff, seqb_neq. congruence.
Qed.

(** ** queries *)

Lemma sel_np_view d name :
  sel_np d B name = find (fun n => seqb (np_name n) name) (app_nps d B).
Proof. unfold sel_np, app_nps. rewrite find_filter. reflexivity. Qed.

Lemma sel_nps_view d i side :
  sel_nps d i side = find (fun r => seqb (nps_side r) side) (sel_nps_all d i).
Proof. unfold sel_nps, sel_nps_all. rewrite find_filter. reflexivity. Qed.

Lemma sel_mb_view d m : sel_mb d B m = find (fun r => seqb (mb_id r) m) (app_mbs d B).
Proof. unfold sel_mb, app_mbs. rewrite find_filter. reflexivity. Qed.

Lemma sel_mbs_view d m side :
  has_mb d B m ->
  sel_mbs d m side = find (fun r => seqb (mbs_mbox r) m && seqb (mbs_side r) side) (app_mb_sides d B).
Proof.
  intros Hm. unfold sel_mbs. rewrite app_mb_sides_eq. symmetry. apply find_filter_keep.
  intros x _ Hx. apply andb_true_iff in Hx. destruct Hx as [Hx _]. apply seqb_eq in Hx.
  apply mbBb_iff. rewrite Hx. exact Hm.
Qed.

Lemma sel_mbs_all_view d m :
  has_mb d B m -> sel_mbs_all d m = filter (fun r => seqb (mbs_mbox r) m) (app_mb_sides d B).
Proof.
  intros Hm. unfold sel_mbs_all. rewrite app_mb_sides_eq. symmetry. apply filter_filter_keep.
  intros x _ Hx. apply seqb_eq in Hx. apply mbBb_iff. rewrite Hx. exact Hm.
Qed.

Lemma sel_msgs_view d m :
  sel_msgs d B m = filter (fun r => seqb (msg_mbox r) m) (app_msgs d B).
Proof. unfold sel_msgs, app_msgs. rewrite filter_filter. reflexivity. Qed.

Lemma sel_np_by_mbox_view d m :
  DbInv d -> has_mb d B m ->
  sel_np_by_mbox d m = filter (fun n => seqb (np_mbox n) m) (app_nps d B).
Proof.
  intros Hinv Hm. unfold sel_np_by_mbox, app_nps. symmetry. apply filter_filter_keep.
  intros n Hn Hx. apply seqb_eq in Hx. apply seqb_eq.
  apply (has_mb_app_unique d B (np_app n) m Hinv Hm). rewrite <- Hx.
  exact (inv_fk_np d Hinv n Hn).
Qed.

Lemma onlyB_has d m : onlyB d -> mb_exists d m = true -> has_mb d B m.
Proof.
  intros Ho H. apply mb_exists_iff in H. destruct H as [r [Hr Hi]]. exists r. auto.
Qed.

Lemma mb_exists_2 d1 d2 m : VR d1 d2 -> onlyB d2 -> mb_exists d1 m = false -> mb_exists d2 m = false.
Proof.
  intros Hv Ho H. destruct (mb_exists d2 m) eqn:E; [|reflexivity]. exfalso.
  apply (onlyB_has d2 m Ho) in E. apply (has_mb_VR d1 d2 m Hv) in E.
  apply has_mb_exists in E. congruence.
Qed.

(** in a database with only B's mailboxes every row is B's *)
Lemma onlyB_nps d : DbInv d -> onlyB d -> app_nps d B = nameplates d.
Proof.
  intros Hinv Ho. unfold app_nps. apply filter_all_true. intros n Hn. apply seqb_eq.
  destruct (inv_fk_np d Hinv n Hn) as [r [Hr [Ha _]]]. rewrite <- Ha. apply Ho. exact Hr.
Qed.
Lemma onlyB_msgs d : DbInv d -> onlyB d -> app_msgs d B = messages d.
Proof.
  intros Hinv Ho. unfold app_msgs. apply filter_all_true. intros x Hx. apply seqb_eq.
  destruct (inv_msg d Hinv x Hx) as [r [Hr [Ha _]]]. rewrite <- Ha. apply Ho. exact Hr.
Qed.
Lemma onlyB_mbs d : onlyB d -> app_mbs d B = mailboxes d.
Proof.
  intros Ho. unfold app_mbs. apply filter_all_true. intros r Hr. apply seqb_eq. apply Ho. exact Hr.
Qed.

End View.

(** * Transaction bodies of app B, two runs *)

Definition fatal (e : exn) : Prop :=
  match e with XErr _ | XCrowded | XReclaimed => False | _ => True end.

Lemma Forall2_impl_In {X Y} (P Q : X -> Y -> Prop) l1 l2 :
  Forall2 P l1 l2 -> (forall x y, In x l1 -> P x y -> Q x y) -> Forall2 Q l1 l2.
Proof.
  induction 1 as [|x y l1 l2 Hxy H IH]; intros HPQ; constructor.
  - apply HPQ; [left; reflexivity|exact Hxy].
  - apply IH. intros a b Ha. apply HPQ. right. exact Ha.
Qed.

Lemma existsb_claimed l : existsb nps_claimed l = existsb (fun t => fst (fst t)) (map trip l).
Proof. rewrite existsb_map. reflexivity. Qed.

Lemma summ_trip b a l1 l2 w p :
  map trip l1 = map trip l2 -> summarize_nameplate b a l1 w p = summarize_nameplate b a l2 w p.
Proof.
  intros H. unfold summarize_nameplate.
  assert (E : map nps_added l1 = map nps_added l2).
  { change nps_added with (fun x => snd (trip x)).
    rewrite <- (map_map trip snd l1), <- (map_map trip snd l2), H. reflexivity. }
  rewrite E. reflexivity.
Qed.

Section Bodies.
Variable B : string.

Local Notation DR := (DR B).
Local Notation VR := (VR B).
Local Notation PR := (PR B).
Local Notation cor := (cor B).
Local Notation onlyB := (onlyB B).

Lemma sel_np_2 d1 d2 name :
  VR d1 d2 ->
  match sel_np d1 B name, sel_np d2 B name with
  | Some n1, Some n2 => PR d1 d2 n1 n2
  | None, None => True
  | _, _ => False
  end.
Proof.
  intros V. rewrite !sel_np_view. apply comb_find; [exact (VR_len B d1 d2 V)|].
  intros n1 n2 P. pose proof (PR_abs B d1 d2 n1 n2 V P) as E. unfold npabs in E.
  inversion E as [[E1 E2 E3]]. rewrite E1. reflexivity.
Qed.

Lemma sel_nps_2 d1 d2 n1 n2 side :
  VR d1 d2 -> PR d1 d2 n1 n2 ->
  match sel_nps d1 (np_id n1) side, sel_nps d2 (np_id n2) side with
  | Some r1, Some r2 => nps_claimed r1 = nps_claimed r2
  | None, None => True
  | _, _ => False
  end.
Proof.
  intros V P. rewrite !sel_nps_view.
  pose proof (PR_abs B d1 d2 n1 n2 V P) as E. unfold npabs in E.
  inversion E as [[E1 E2 E3]]. unfold sidesof in E3.
  assert (Hpt : forall x y, In (x, y) (combine (sel_nps_all d1 (np_id n1)) (sel_nps_all d2 (np_id n2))) ->
                trip x = trip y) by (apply comb_map_eq; exact E3).
  pose proof (comb_find (fun r => seqb (nps_side r) side) (fun r => seqb (nps_side r) side)
                _ _ (comb_len _ _ _ _ E3)) as F.
  match type of F with ?A -> _ => assert (HA : A) end.
  { intros x y Hxy. specialize (Hpt x y Hxy). unfold trip in Hpt. inversion Hpt. congruence. }
  specialize (F HA).
  destruct (find _ (sel_nps_all d1 (np_id n1))) as [r1|], (find _ (sel_nps_all d2 (np_id n2))) as [r2|];
    try exact F.
  specialize (Hpt r1 r2 F). unfold trip in Hpt. inversion Hpt. reflexivity.
Qed.

Lemma sides_2 d1 d2 n1 n2 : VR d1 d2 -> PR d1 d2 n1 n2 ->
  map trip (sel_nps_all d1 (np_id n1)) = map trip (sel_nps_all d2 (np_id n2)) /\
  np_name n1 = np_name n2 /\ np_mbox n1 = np_mbox n2.
Proof.
  intros V P. pose proof (PR_abs B d1 d2 n1 n2 V P) as E. unfold npabs, sidesof in E.
  inversion E. auto.
Qed.

(** ** rows that only concern mailboxes *)

Lemma onlyB_map d g : (forall r, mb_app (g r) = mb_app r) -> onlyB d ->
  onlyB (set_mailboxes d (map g (mailboxes d))).
Proof.
  intros Hg Ho r Hr. cbn [mailboxes set_mailboxes] in Hr. apply in_map_iff in Hr.
  destruct Hr as [r0 [<- Hr0]]. rewrite Hg. apply Ho. exact Hr0.
Qed.

Lemma VR_map d1 d2 g :
  (forall r, mb_app (g r) = mb_app r) -> (forall r, mb_id (g r) = mb_id r) ->
  VR d1 d2 -> VR (set_mailboxes d1 (map g (mailboxes d1))) (set_mailboxes d2 (map g (mailboxes d2))).
Proof.
  intros Ha Hi (V1 & V2 & V3 & V4). split; [|split; [|split]].
  - rewrite (NP_same B d1 (set_mailboxes d1 _)), (NP_same B d2 (set_mailboxes d2 _)) by reflexivity.
    exact V1.
  - rewrite !app_mbs_map by exact Ha. rewrite V2. reflexivity.
  - rewrite !app_mb_sides_map by assumption. exact V3.
  - exact V4.
Qed.

Lemma DR_touch d1 d2 m w : DR d1 d2 -> DR (upd_touch d1 m w) (upd_touch d2 m w).
Proof.
  intros (I1 & I2 & V & O). split; [apply DbInv_upd_touch; exact I1|].
  split; [apply DbInv_upd_touch; exact I2|]. rewrite !upd_touch_form. split.
  - apply VR_map; [apply tch_app|apply tch_id|exact V].
  - apply onlyB_map; [apply tch_app|exact O].
Qed.

Lemma DR_touch_all d1 d2 ms w : DR d1 d2 -> DR (touch_all d1 ms w) (touch_all d2 ms w).
Proof.
  intros (I1 & I2 & V & O). split; [apply (touch_all_ok d1 ms w I1)|].
  split; [apply (touch_all_ok d2 ms w I2)|]. rewrite !touch_all_form. split.
  - apply VR_map; [apply tchs_app|apply tchs_id|exact V].
  - apply onlyB_map; [apply tchs_app|exact O].
Qed.

Lemma add_mailbox_2 d1 d2 m f w :
  DR d1 d2 ->
  match add_mailbox d1 B m f w with
  | Some d1' =>
      exists d2', add_mailbox d2 B m f w = Some d2' /\ DR d1' d2' /\ has_mb d1' B m /\
                  nameplates d1' = nameplates d1 /\ np_sides d1' = np_sides d1 /\
                  nameplates d2' = nameplates d2 /\ np_sides d2' = np_sides d2
  | None => True
  end.
Proof.
  intros (I1 & I2 & V & O). unfold add_mailbox. rewrite !sel_mb_view.
  pose proof V as (V1 & V2 & V3 & V4). rewrite V2.
  destruct (find (fun r => seqb (mb_id r) m) (app_mbs d1 B)) as [r|] eqn:E.
  - exists d2. split; [reflexivity|]. split; [exact (conj I1 (conj I2 (conj V O)))|].
    split; [|repeat split; reflexivity].
    apply find_some in E. destruct E as [Hr Hi]. apply seqb_eq in Hi.
    apply has_mb_app_mbs. eauto.
  - unfold ins_mb. cbn [mb_id]. destruct (mb_exists d1 m) eqn:E1; [exact I|].
    rewrite (mb_exists_2 B d1 d2 m V O E1). eexists. split; [reflexivity|].
    assert (E2 : mb_exists d2 m = false) by exact (mb_exists_2 B d1 d2 m V O E1).
    split; [|split; [|repeat split; reflexivity]].
    + split; [apply DbInv_ins_mb; assumption|]. split; [apply DbInv_ins_mb; assumption|]. split.
      * split; [|split; [|split]].
        -- rewrite (NP_same B d1 (set_mailboxes d1 _)), (NP_same B d2 (set_mailboxes d2 _))
             by reflexivity. exact V1.
        -- rewrite !app_mbs_snoc by reflexivity. rewrite V2. reflexivity.
        -- rewrite !app_mb_sides_ins_mb by assumption. exact V3.
        -- exact V4.
      * intros r Hr. cbn [mailboxes set_mailboxes] in Hr. apply in_app_or in Hr.
        destruct Hr as [Hr|[<-|[]]]; [apply O; exact Hr|reflexivity].
    + exists (mkMb B m w f). split; [|split; reflexivity].
      cbn [mailboxes set_mailboxes]. apply in_or_app. right. left. reflexivity.
Qed.

Lemma DR_ins_mbs d1 d2 r :
  DR d1 d2 -> has_mb d1 B (mbs_mbox r) -> sel_mbs d1 (mbs_mbox r) (mbs_side r) = None ->
  sel_mbs d2 (mbs_mbox r) (mbs_side r) = None /\
  DR (set_mb_sides d1 (mb_sides d1 ++ [r])) (set_mb_sides d2 (mb_sides d2 ++ [r])).
Proof.
  intros (I1 & I2 & V & O) H1 Hs.
  assert (H2 : has_mb d2 B (mbs_mbox r)) by (apply (has_mb_VR B d1 d2 _ V); exact H1).
  pose proof V as (V1 & V2 & V3 & V4).
  assert (Hs2 : sel_mbs d2 (mbs_mbox r) (mbs_side r) = None).
  { rewrite (sel_mbs_view B d2 _ _ H2), V3, <- (sel_mbs_view B d1 _ _ H1). exact Hs. }
  split; [exact Hs2|].
  split; [apply DbInv_ins_mbs; [exact I1|apply (has_mb_exists d1 B); exact H1|exact Hs]|].
  split; [apply DbInv_ins_mbs; [exact I2|apply (has_mb_exists d2 B); exact H2|exact Hs2]|].
  split; [|exact O]. split; [|split; [|split]].
  - rewrite (NP_same B d1 (set_mb_sides d1 _)), (NP_same B d2 (set_mb_sides d2 _)) by reflexivity.
    exact V1.
  - exact V2.
  - rewrite !app_mb_sides_snoc by assumption. rewrite V3. reflexivity.
  - exact V4.
Qed.

Lemma mailbox_open_body_2 d1 d2 m side w :
  DR d1 d2 -> has_mb d1 B m ->
  exists d1' d2',
    mailbox_open_body d1 m side w = Some d1' /\ mailbox_open_body d2 m side w = Some d2' /\
    DR d1' d2' /\ has_mb d1' B m /\
    nameplates d1' = nameplates d1 /\ np_sides d1' = np_sides d1 /\
    nameplates d2' = nameplates d2 /\ np_sides d2' = np_sides d2.
Proof.
  intros HD H1. pose proof HD as (I1 & I2 & V & O).
  assert (H2 : has_mb d2 B m) by (apply (has_mb_VR B d1 d2 _ V); exact H1).
  pose proof V as (V1 & V2 & V3 & V4).
  unfold mailbox_open_body.
  assert (Es : sel_mbs d2 m side = sel_mbs d1 m side).
  { rewrite (sel_mbs_view B d2 _ _ H2), V3, <- (sel_mbs_view B d1 _ _ H1). reflexivity. }
  rewrite Es. destruct (sel_mbs d1 m side) as [x|] eqn:E.
  - do 2 eexists. split; [reflexivity|]. split; [reflexivity|].
    split; [apply DR_touch; exact HD|]. split; [apply has_mb_upd_touch; exact H1|].
    repeat split; reflexivity.
  - unfold ins_mbs. cbn [mbs_mbox].
    rewrite (has_mb_exists d1 B m H1), (has_mb_exists d2 B m H2).
    destruct (DR_ins_mbs d1 d2 (mkMbs m true side w None) HD H1 E) as [_ HD'].
    do 2 eexists. split; [reflexivity|]. split; [reflexivity|].
    split; [apply DR_touch; exact HD'|]. split; [apply has_mb_upd_touch; exact H1|].
    repeat split; reflexivity.
Qed.

Lemma open_body_2 d1 d2 m side w :
  DR d1 d2 ->
  match open_body d1 B m side w with
  | TxOk _ d1' =>
      exists d2', open_body d2 B m side w = TxOk tt d2' /\ DR d1' d2' /\ has_mb d1' B m /\
                  nameplates d1' = nameplates d1 /\ np_sides d1' = np_sides d1 /\
                  nameplates d2' = nameplates d2 /\ np_sides d2' = np_sides d2
  | TxFail e _ => fatal e
  end.
Proof.
  intros HD. unfold open_body. pose proof (add_mailbox_2 d1 d2 m false w HD) as HA.
  destruct (add_mailbox d1 B m false w) as [d1a|]; [|exact I].
  destruct HA as (d2a & -> & HDa & Hma & F1 & F2 & F3 & F4).
  destruct (mailbox_open_body_2 d1a d2a m side w HDa Hma)
    as (d1b & d2b & -> & -> & HDb & Hmb & G1 & G2 & G3 & G4).
  exists d2b. split; [reflexivity|]. split; [exact HDb|]. split; [exact Hmb|].
  repeat split; congruence.
Qed.

(** ** nameplate side rows *)

Lemma VR_nps_only d1 d2 d1' d2' :
  VR d1 d2 ->
  mailboxes d1' = mailboxes d1 -> mb_sides d1' = mb_sides d1 -> messages d1' = messages d1 ->
  mailboxes d2' = mailboxes d2 -> mb_sides d2' = mb_sides d2 -> messages d2' = messages d2 ->
  NP B d2' = NP B d1' -> VR d1' d2'.
Proof.
  intros (V1 & V2 & V3 & V4) A1 A2 A3 B1 B2 B3 HN. split; [exact HN|].
  unfold app_mbs, app_mb_sides, app_msgs in *. rewrite A1, A2, A3, B1, B2, B3. auto.
Qed.

Lemma claim_side_2 d1 d2 i1 i2 mbox side w :
  DR d1 d2 -> cor d1 d2 i1 i2 ->
  match claim_side_body d1 i1 mbox side w with
  | TxOk p d1' =>
      p = (i1, mbox) /\
      exists d2', claim_side_body d2 i2 mbox side w = TxOk (i2, mbox) d2' /\
                  DR d1' d2' /\ cor d1' d2' i1 i2
  | TxFail e d1' =>
      e = XReclaimed /\ d1' = d1 /\ claim_side_body d2 i2 mbox side w = TxFail XReclaimed d2
  end.
Proof.
  intros HD (n1 & n2 & P & <- & <-). pose proof HD as (I1 & I2 & V & O).
  unfold claim_side_body. pose proof (sel_nps_2 d1 d2 n1 n2 side V P) as S.
  destruct (sel_nps d1 (np_id n1) side) as [r1|] eqn:E1,
           (sel_nps d2 (np_id n2) side) as [r2|] eqn:E2; try contradiction.
  - rewrite <- S. destruct (nps_claimed r1).
    + split; [reflexivity|]. exists d2. split; [reflexivity|]. split; [exact HD|].
      exists n1, n2. auto.
    + auto.
  - destruct (cor_exists B d1 d2 (np_id n1) (np_id n2)) as [X1 X2]; [exists n1, n2; auto|].
    unfold ins_nps. cbn [nps_npid]. rewrite X1, X2. split; [reflexivity|].
    eexists. split; [reflexivity|]. split.
    + split; [apply DbInv_ins_nps; assumption|]. split; [apply DbInv_ins_nps; assumption|].
      split; [|exact O].
      apply (VR_nps_only d1 d2); try reflexivity; [exact V|].
      apply NP_intro.
      * unfold app_nps. cbn [nameplates set_np_sides]. exact (VR_len B d1 d2 V).
      * intros m1 m2 Pm. apply (PR_ext B d1 d2 _ _ eq_refl eq_refl) in Pm.
        destruct (sides_2 d1 d2 m1 m2 V Pm) as (Sa & Sb & Sc).
        unfold npabs. rewrite !sidesof_snoc. cbn [nps_npid]. unfold sidesof. rewrite Sa, Sb, Sc.
        assert (Eb : (np_id n1 =? np_id m1) = (np_id n2 =? np_id m2)).
        { apply bool_iff. rewrite !Z.eqb_eq. exact (PR_inj B d1 d2 n1 n2 m1 m2 I1 I2 P Pm). }
        rewrite Eb. reflexivity.
    + exists n1, n2. split; [|auto]. apply (PR_ext B d1 d2 _ _ eq_refl eq_refl). exact P.
Qed.

Definition fresh_db (d : chan_db) (name m side : string) (w : Z) : chan_db :=
  mkChan (nameplates d ++ [mkNp (np_seq d + 1) B name m])
         (np_sides d ++ [mkNps (np_seq d + 1) true side w])
         (mailboxes d) (mb_sides d) (messages d) (np_seq d + 1).

Lemma app_nps_fresh d name m side w :
  app_nps (fresh_db d name m side w) B = app_nps d B ++ [mkNp (np_seq d + 1) B name m].
Proof.
  unfold app_nps, fresh_db. cbn [nameplates]. rewrite filter_app. cbn [filter np_app].
  rewrite seqb_refl. reflexivity.
Qed.

Lemma NP_fresh d name m side w :
  DbInv d -> NP B (fresh_db d name m side w) = NP B d ++ [(name, m, [(true, side, w)])].
Proof.
  intros Hinv. unfold NP. rewrite app_nps_fresh, map_app. f_equal.
  - apply map_ext_in. intros n Hn. apply app_nps_In in Hn. destruct Hn as [Hn _].
    unfold npabs. f_equal. unfold sidesof, sel_nps_all, fresh_db. cbn [np_sides].
    rewrite filter_app. cbn [filter nps_npid].
    pose proof (inv_np_seq d Hinv n Hn) as Hle.
    assert (E : (np_seq d + 1 =? np_id n) = false) by (apply Z.eqb_neq; lia).
    rewrite E, app_nil_r. reflexivity.
  - cbn [map]. unfold npabs. cbn [np_name np_mbox np_id]. f_equal. f_equal.
    unfold sidesof, sel_nps_all, fresh_db. cbn [np_sides np_id]. rewrite filter_app.
    cbn [filter nps_npid]. rewrite Z.eqb_refl.
    pose proof (no_sides_fresh d (np_seq d + 1) Hinv) as K. unfold sel_nps_all in K.
    rewrite K by lia. reflexivity.
Qed.

Lemma claim_fresh_2 d1 d2 name m side w :
  DR d1 d2 -> has_mb d1 B m -> sel_np d1 B name = None ->
  DR (fresh_db d1 name m side w) (fresh_db d2 name m side w) /\
  cor (fresh_db d1 name m side w) (fresh_db d2 name m side w) (np_seq d1 + 1) (np_seq d2 + 1).
Proof.
  intros (I1 & I2 & V & O) H1 S1.
  assert (H2 : has_mb d2 B m) by (apply (has_mb_VR B d1 d2 _ V); exact H1).
  assert (S2 : sel_np d2 B name = None).
  { pose proof (sel_np_2 d1 d2 name V) as K. rewrite S1 in K.
    destruct (sel_np d2 B name); [contradiction|reflexivity]. }
  split.
  - split; [apply DbInv_fresh_np; assumption|]. split; [apply DbInv_fresh_np; assumption|].
    split; [|exact O].
    apply (VR_nps_only d1 d2); try reflexivity; [exact V|].
    rewrite !NP_fresh by assumption. destruct V as (V1 & _). rewrite V1. reflexivity.
  - exists (mkNp (np_seq d1 + 1) B name m), (mkNp (np_seq d2 + 1) B name m).
    split; [|split; reflexivity]. unfold PR. rewrite !app_nps_fresh.
    rewrite comb_app by exact (VR_len B d1 d2 V). apply in_or_app. right. left. reflexivity.
Qed.

Lemma sel_np_frame d d' a name : nameplates d' = nameplates d -> sel_np d' a name = sel_np d a name.
Proof. unfold sel_np. intros ->. reflexivity. Qed.

Lemma claim_body_2 d1 d2 name side w draw :
  DR d1 d2 ->
  match claim_body d1 B name side w draw with
  | TxOk p1 d1' =>
      exists i2 d2', claim_body d2 B name side w draw = TxOk (i2, snd p1) d2' /\
                     DR d1' d2' /\ cor d1' d2' (fst p1) i2
  | TxFail e d1' =>
      fatal e \/ (e = XReclaimed /\ d1' = d1 /\ claim_body d2 B name side w draw = TxFail XReclaimed d2)
  end.
Proof.
  intros HD. pose proof HD as (I1 & I2 & V & O). unfold claim_body.
  pose proof (sel_np_2 d1 d2 name V) as S.
  destruct (sel_np d1 B name) as [n1|] eqn:E1, (sel_np d2 B name) as [n2|] eqn:E2; try contradiction.
  - destruct (sides_2 d1 d2 n1 n2 V S) as (_ & _ & Em). rewrite <- Em.
    pose proof (claim_side_2 d1 d2 (np_id n1) (np_id n2) (np_mbox n1) side w HD) as K.
    destruct (claim_side_body d1 (np_id n1) (np_mbox n1) side w) as [p d1'|e d1'].
    + destruct K as [-> (d2' & -> & HD' & Hc)]; [exists n1, n2; auto|].
      exists (np_id n2), d2'. auto.
    + right. apply K. exists n1, n2. auto.
  - destruct draw as [bytes|]; [|left; exact I]. cbv zeta.
    pose proof (add_mailbox_2 d1 d2 (genid bytes) true w HD) as HA.
    destruct (add_mailbox d1 B (genid bytes) true w) as [d1a|]; [|left; exact I].
    destruct HA as (d2a & -> & HDa & Hma & F1 & F2 & F3 & F4).
    pose proof HDa as (I1a & I2a & Va & Oa).
    assert (Hma2 : has_mb d2a B (genid bytes)) by (apply (has_mb_VR B d1a d2a _ Va); exact Hma).
    rewrite (claim_fresh_eval d1a B name (genid bytes) side w I1a Hma).
    rewrite (claim_fresh_eval d2a B name (genid bytes) side w I2a Hma2).
    destruct (claim_fresh_2 d1a d2a name (genid bytes) side w HDa Hma) as [K1 K2].
    { rewrite (sel_np_frame d1 d1a B name F1). exact E1. }
    exists (np_seq d2a + 1). eexists. split; [reflexivity|]. split; [exact K1|exact K2].
Qed.

Lemma release_mark_2 d1 d2 name side :
  DR d1 d2 ->
  match release_mark_body d1 B name side with
  | Some (i1, d1') =>
      exists i2 d2', release_mark_body d2 B name side = Some (i2, d2') /\ DR d1' d2' /\
                     cor d1' d2' i1 i2
  | None => release_mark_body d2 B name side = None
  end.
Proof.
  intros HD. pose proof HD as (I1 & I2 & V & O). unfold release_mark_body.
  pose proof (sel_np_2 d1 d2 name V) as S.
  destruct (sel_np d1 B name) as [n1|] eqn:E1, (sel_np d2 B name) as [n2|] eqn:E2; try contradiction;
    [|reflexivity].
  pose proof (sel_nps_2 d1 d2 n1 n2 side V S) as S2.
  destruct (sel_nps d1 (np_id n1) side) as [r1|], (sel_nps d2 (np_id n2) side) as [r2|];
    try contradiction; [|reflexivity].
  exists (np_id n2). eexists. split; [reflexivity|]. split.
  - split; [|split; [|split; [|exact O]]].
    + apply DbInv_map_nps; [|exact I1]. intros r.
      destruct ((nps_npid r =? np_id n1) && seqb (nps_side r) side); reflexivity.
    + apply DbInv_map_nps; [|exact I2]. intros r.
      destruct ((nps_npid r =? np_id n2) && seqb (nps_side r) side); reflexivity.
    + apply (VR_nps_only d1 d2); try reflexivity; [exact V|]. apply NP_intro.
      * exact (VR_len B d1 d2 V).
      * intros m1 m2 Pm. apply (PR_ext B d1 d2 _ _ eq_refl eq_refl) in Pm.
        destruct (sides_2 d1 d2 m1 m2 V Pm) as (Sa & Sb & Sc).
        unfold npabs. rewrite !sidesof_release. unfold sidesof. rewrite Sa, Sb, Sc.
        assert (Eb : (np_id m1 =? np_id n1) = (np_id m2 =? np_id n2)).
        { apply bool_iff. rewrite !Z.eqb_eq. exact (PR_inj B d1 d2 m1 m2 n1 n2 I1 I2 Pm S). }
        rewrite Eb. reflexivity.
  - exists n1, n2. split; [|auto]. apply (PR_ext B d1 d2 _ _ eq_refl eq_refl). exact S.
Qed.

Lemma DR_rm_np d1 d2 n1 n2 :
  DR d1 d2 -> PR d1 d2 n1 n2 ->
  DR (rm_np d1 (np_id n1)) (rm_np d2 (np_id n2)) /\
  forall m1 m2, PR d1 d2 m1 m2 -> np_id m1 <> np_id n1 ->
                PR (rm_np d1 (np_id n1)) (rm_np d2 (np_id n2)) m1 m2.
Proof.
  intros (I1 & I2 & V & O) P.
  assert (Hpt : forall x y, PR d1 d2 x y ->
            negb (np_id x =? np_id n1) = negb (np_id y =? np_id n2)).
  { intros x y Pxy. f_equal. apply bool_iff. rewrite !Z.eqb_eq.
    exact (PR_inj B d1 d2 x y n1 n2 I1 I2 Pxy P). }
  destruct (comb_filter (fun n => negb (np_id n =? np_id n1)) (fun n => negb (np_id n =? np_id n2))
              (app_nps d1 B) (app_nps d2 B) (VR_len B d1 d2 V) Hpt) as [Hlen Hin].
  assert (Hpr : forall m1 m2, PR (rm_np d1 (np_id n1)) (rm_np d2 (np_id n2)) m1 m2 <->
                              PR d1 d2 m1 m2 /\ negb (np_id m1 =? np_id n1) = true).
  { intros m1 m2. unfold PR. rewrite !app_nps_rm_np. apply Hin. }
  split.
  - split; [apply rm_np_inv; exact I1|]. split; [apply rm_np_inv; exact I2|]. split; [|exact O].
    apply (VR_nps_only d1 d2); try reflexivity; [exact V|]. apply NP_intro.
    + rewrite !app_nps_rm_np. exact Hlen.
    + intros m1 m2 Pm. apply Hpr in Pm. destruct Pm as [Pm Hne].
      pose proof (Hpt m1 m2 Pm) as Hne2. rewrite Hne in Hne2. symmetry in Hne2.
      apply negb_true_iff, Z.eqb_neq in Hne. apply negb_true_iff, Z.eqb_neq in Hne2.
      destruct (sides_2 d1 d2 m1 m2 V Pm) as (Sa & Sb & Sc).
      unfold npabs. rewrite !sidesof_rm_np by assumption. unfold sidesof. rewrite Sa, Sb, Sc.
      reflexivity.
  - intros m1 m2 Pm Hne. apply Hpr. split; [exact Pm|]. apply negb_true_iff, Z.eqb_neq. exact Hne.
Qed.

Section WithCfg.
Variable cfg : config.

Lemma release_delete_2 d1 d2 i1 i2 w :
  DR d1 d2 -> cor d1 d2 i1 i2 ->
  exists r d1' d2',
    release_delete_body cfg d1 B i1 w = TxOk r d1' /\
    release_delete_body cfg d2 B i2 w = TxOk r d2' /\ DR d1' d2'.
Proof.
  intros HD (n1 & n2 & P & <- & <-). pose proof HD as (I1 & I2 & V & O).
  destruct (sides_2 d1 d2 n1 n2 V P) as (Sa & _ & _).
  unfold release_delete_body. cbv zeta. rewrite !existsb_claimed, <- Sa.
  destruct (existsb (fun t => fst (fst t)) (map trip (sel_nps_all d1 (np_id n1)))).
  - exists None, d1, d2. auto.
  - rewrite !del_np_rm. destruct (DR_rm_np d1 d2 n1 n2 HD P) as [HD' _].
    rewrite <- (summ_trip (blur cfg) B _ _ w false Sa).
    destruct (usage_on cfg).
    + destruct (summarize_nameplate (blur cfg) B (sel_nps_all d1 (np_id n1)) w false) as [u|] eqn:Es.
      * do 3 eexists. split; [reflexivity|]. split; [reflexivity|exact HD'].
      * exfalso. apply nameplate_summary_none in Es.
        apply (np_sided_rows d1 (np_id n1) I1); [|exact Es].
        apply np_exists_iff. exists n1. split; [apply (PR_in1 B _ _ _ _ P)|reflexivity].
    + do 3 eexists. split; [reflexivity|]. split; [reflexivity|exact HD'].
Qed.

Lemma del_nameplates_2 w pruned : forall rows1 rows2 d1 d2 acc,
  DR d1 d2 -> Forall2 (PR d1 d2) rows1 rows2 -> NoDup (map np_id rows1) ->
  exists us d1' d2',
    del_nameplates_body cfg d1 B (map np_id rows1) w pruned acc = TxOk us d1' /\
    del_nameplates_body cfg d2 B (map np_id rows2) w pruned acc = TxOk us d2' /\ DR d1' d2'.
Proof.
  induction rows1 as [|n1 rows1 IH]; intros rows2 d1 d2 acc HD HF Hnd.
  - inversion HF; subst. exists acc, d1, d2. auto.
  - inversion HF as [|? n2 ? rest2 P HF']; subst. cbn [map] in Hnd.
    inversion Hnd as [|? ? Hnin Hnd']; subst.
    pose proof HD as (I1 & I2 & V & O).
    destruct (sides_2 d1 d2 n1 n2 V P) as (Sa & _ & _).
    destruct (DR_rm_np d1 d2 n1 n2 HD P) as [HD' Hpr].
    assert (HF2 : Forall2 (PR (rm_np d1 (np_id n1)) (rm_np d2 (np_id n2))) rows1 rest2).
    { apply (Forall2_impl_In (PR d1 d2)); [exact HF'|]. intros x y Hx Pxy. apply Hpr; [exact Pxy|].
      intros Eq. apply Hnin. rewrite <- Eq. apply in_map. exact Hx. }
    cbn [map del_nameplates_body]. cbv zeta. rewrite !del_np_rm.
    rewrite <- (summ_trip (blur cfg) B _ _ w pruned Sa).
    destruct (usage_on cfg).
    + destruct (summarize_nameplate (blur cfg) B (sel_nps_all d1 (np_id n1)) w pruned) as [u|] eqn:Es.
      * apply IH; assumption.
      * exfalso. apply nameplate_summary_none in Es.
        apply (np_sided_rows d1 (np_id n1) I1); [|exact Es].
        apply np_exists_iff. exists n1. split; [apply (PR_in1 B _ _ _ _ P)|reflexivity].
    + apply IH; assumption.
Qed.

Lemma DR_rm_mb d1 d2 m :
  DR d1 d2 ->
  (forall n, In n (nameplates d1) -> np_mbox n <> m) ->
  (forall n, In n (nameplates d2) -> np_mbox n <> m) ->
  DR (rm_mb d1 m) (rm_mb d2 m).
Proof.
  intros (I1 & I2 & (V1 & V2 & V3 & V4) & O) N1 N2.
  split; [apply rm_mb_inv; assumption|]. split; [apply rm_mb_inv; assumption|]. split.
  - split; [|split; [|split]].
    + rewrite (NP_same B d1 (rm_mb d1 m)), (NP_same B d2 (rm_mb d2 m)) by reflexivity. exact V1.
    + rewrite !app_mbs_rm_mb, V2. reflexivity.
    + rewrite !app_mb_sides_rm_mb, V3. reflexivity.
    + rewrite !app_msgs_rm_mb, V4. reflexivity.
  - intros r Hr. unfold rm_mb in Hr. cbn [mailboxes] in Hr. apply filter_In in Hr. apply O, Hr.
Qed.

Lemma close_mark_2 d1 d2 m side mood :
  DR d1 d2 ->
  match close_mark_body d1 B m side mood with
  | Some (f, d1') =>
      exists d2', close_mark_body d2 B m side mood = Some (f, d2') /\ DR d1' d2' /\ has_mb d1' B m
  | None => close_mark_body d2 B m side mood = None
  end.
Proof.
  intros HD. pose proof HD as (I1 & I2 & V & O). pose proof V as (V1 & V2 & V3 & V4).
  unfold close_mark_body. rewrite !sel_mb_view, V2.
  destruct (find (fun r => seqb (mb_id r) m) (app_mbs d1 B)) as [row|] eqn:E; [|reflexivity].
  assert (H1 : has_mb d1 B m).
  { apply find_some in E. destruct E as [Hr Hi]. apply seqb_eq in Hi. apply has_mb_app_mbs. eauto. }
  assert (H2 : has_mb d2 B m) by (apply (has_mb_VR B d1 d2 _ V); exact H1).
  rewrite (sel_mbs_view B d2 _ _ H2), V3, <- (sel_mbs_view B d1 _ _ H1).
  destruct (sel_mbs d1 m side); [|reflexivity].
  eexists. split; [reflexivity|]. split; [|exact H1].
  split; [|split; [|split; [|exact O]]].
  - apply DbInv_map_mbs; [|exact I1]. intros r.
    destruct (seqb (mbs_mbox r) m && seqb (mbs_side r) side); reflexivity.
  - apply DbInv_map_mbs; [|exact I2]. intros r.
    destruct (seqb (mbs_mbox r) m && seqb (mbs_side r) side); reflexivity.
  - split; [|split; [|split]].
    + rewrite (NP_same B d1 (upd_mbs_close d1 _ _ _)), (NP_same B d2 (upd_mbs_close d2 _ _ _))
        by reflexivity. exact V1.
    + exact V2.
    + rewrite !app_mb_sides_close, V3. reflexivity.
    + exact V4.
Qed.

Lemma np_gone d ids d' m :
  nameplates d' = filter (fun r => negb (existsb (Z.eqb (np_id r)) ids)) (nameplates d) ->
  (forall n, In n (nameplates d) -> np_mbox n = m -> In (np_id n) ids) ->
  forall n, In n (nameplates d') -> np_mbox n <> m.
Proof.
  intros E H n Hn Em. rewrite E in Hn. apply survivors in Hn. destruct Hn as [Hn Hnot].
  apply Hnot. apply H; assumption.
Qed.

Lemma close_delete_2 d1 d2 m fornp w :
  DR d1 d2 -> has_mb d1 B m ->
  exists r d1' d2',
    close_delete_body cfg d1 B m fornp w = TxOk r d1' /\
    close_delete_body cfg d2 B m fornp w = TxOk r d2' /\ DR d1' d2'.
Proof.
  intros HD H1. pose proof HD as (I1 & I2 & V & O). pose proof V as (V1 & V2 & V3 & V4).
  assert (H2 : has_mb d2 B m) by (apply (has_mb_VR B d1 d2 _ V); exact H1).
  unfold close_delete_body. cbv zeta.
  assert (Es : sel_mbs_all d2 m = sel_mbs_all d1 m).
  { rewrite (sel_mbs_all_view B d2 m H2), (sel_mbs_all_view B d1 m H1), V3. reflexivity. }
  rewrite Es. destruct (existsb mbs_opened (sel_mbs_all d1 m)).
  { exists None, d1, d2. auto. }
  rewrite (sel_np_by_mbox_view B d1 m I1 H1), (sel_np_by_mbox_view B d2 m I2 H2).
  set (L1 := filter (fun n => seqb (np_mbox n) m) (app_nps d1 B)).
  set (L2 := filter (fun n => seqb (np_mbox n) m) (app_nps d2 B)).
  assert (Hpt : forall x y, PR d1 d2 x y -> seqb (np_mbox x) m = seqb (np_mbox y) m).
  { intros x y Pxy. destruct (sides_2 d1 d2 x y V Pxy) as (_ & _ & Em). rewrite Em. reflexivity. }
  destruct (comb_filter _ _ (app_nps d1 B) (app_nps d2 B) (VR_len B d1 d2 V) Hpt) as [Hlen Hin].
  assert (HF : Forall2 (PR d1 d2) L1 L2).
  { apply comb_Forall2; [exact Hlen|]. intros x y Hxy. apply Hin in Hxy. apply Hxy. }
  assert (Hnd1 : NoDup (map np_id L1)) by (apply NoDup_map_filter; apply ids_nodup; exact I1).
  assert (Hnd2 : NoDup (map np_id L2)) by (apply NoDup_map_filter; apply ids_nodup; exact I2).
  destruct (del_nameplates_2 w false L1 L2 d1 d2 [] HD HF Hnd1) as (us & d1a & d2a & E1 & E2 & HDa).
  assert (Hex : forall d L, L = filter (fun n => seqb (np_mbox n) m) (app_nps d B) ->
                forall i, In i (map np_id L) -> np_exists d i = true).
  { intros d L -> i Hi. apply in_map_iff in Hi. destruct Hi as [n [<- Hn]].
    apply filter_In in Hn. destruct Hn as [Hn _]. apply app_nps_In in Hn.
    apply np_exists_iff. exists n. tauto. }
  destruct (del_nameplates_body_ok cfg d1 B (map np_id L1) w false [] I1 Hnd1 (Hex d1 L1 eq_refl))
    as (us1 & x1 & X1 & _ & Xn1 & _).
  destruct (del_nameplates_body_ok cfg d2 B (map np_id L2) w false [] I2 Hnd2 (Hex d2 L2 eq_refl))
    as (us2 & x2 & X2 & _ & Xn2 & _).
  rewrite E1 in X1. inversion X1; subst us1 x1. rewrite E2 in X2. inversion X2; subst us2 x2.
  clear X1 X2. rewrite E1, E2.
  assert (N1 : forall n, In n (nameplates d1a) -> np_mbox n <> m).
  { apply (np_gone d1 (map np_id L1)); [exact Xn1|]. intros n Hn Em. apply in_map. unfold L1.
    rewrite <- (sel_np_by_mbox_view B d1 m I1 H1). apply sel_np_by_mbox_In. auto. }
  assert (N2 : forall n, In n (nameplates d2a) -> np_mbox n <> m).
  { apply (np_gone d2 (map np_id L2)); [exact Xn2|]. intros n Hn Em. apply in_map. unfold L2.
    rewrite <- (sel_np_by_mbox_view B d2 m I2 H2). apply sel_np_by_mbox_In. auto. }
  rewrite (del_mailbox_body_rm cfg d1a B m fornp _ w false N1).
  rewrite (del_mailbox_body_rm cfg d2a B m fornp _ w false N2).
  do 3 eexists. split; [reflexivity|]. split; [reflexivity|]. apply DR_rm_mb; assumption.
Qed.

Lemma del_mailboxes_2 w : forall rows d1 d2 acc,
  DR d1 d2 -> (forall x, In x rows -> In x (app_mbs d1 B)) -> NoDup (map mb_id rows) ->
  (forall x n, In x rows -> In n (nameplates d1) -> np_mbox n <> mb_id x) ->
  (forall x n, In x rows -> In n (nameplates d2) -> np_mbox n <> mb_id x) ->
  exists us d1' d2',
    del_mailboxes_body cfg d1 B rows w acc = TxOk us d1' /\
    del_mailboxes_body cfg d2 B rows w acc = TxOk us d2' /\ DR d1' d2'.
Proof.
  induction rows as [|r rows IH]; intros d1 d2 acc HD Hin Hnd N1 N2.
  - exists acc, d1, d2. auto.
  - pose proof HD as (I1 & I2 & V & O). pose proof V as (V1 & V2 & V3 & V4).
    cbn [map] in Hnd. inversion Hnd as [|? ? Hnin Hnd']; subst.
    assert (H1 : has_mb d1 B (mb_id r)).
    { apply has_mb_app_mbs. exists r. split; [apply Hin; left; reflexivity|reflexivity]. }
    assert (H2 : has_mb d2 B (mb_id r)) by (apply (has_mb_VR B d1 d2 _ V); exact H1).
    cbn [del_mailboxes_body].
    assert (Es : sel_mbs_all d2 (mb_id r) = sel_mbs_all d1 (mb_id r)).
    { rewrite (sel_mbs_all_view B d2 _ H2), (sel_mbs_all_view B d1 _ H1), V3. reflexivity. }
    rewrite Es.
    rewrite (del_mailbox_body_rm cfg d1 B (mb_id r) (mb_fornp r) _ w true
               (fun n Hn => N1 r n (or_introl eq_refl) Hn)).
    rewrite (del_mailbox_body_rm cfg d2 B (mb_id r) (mb_fornp r) _ w true
               (fun n Hn => N2 r n (or_introl eq_refl) Hn)).
    apply IH.
    + apply DR_rm_mb; [exact HD| |].
      * intros n Hn. apply (N1 r n); [left; reflexivity|exact Hn].
      * intros n Hn. apply (N2 r n); [left; reflexivity|exact Hn].
    + intros x Hx. rewrite app_mbs_rm_mb. apply filter_In. split; [apply Hin; right; exact Hx|].
      apply negb_true_iff, seqb_neq. intros Eq. apply Hnin. rewrite <- Eq. apply in_map. exact Hx.
    + exact Hnd'.
    + intros x n Hx Hn. apply (N1 x n); [right; exact Hx|exact Hn].
    + intros x n Hx Hn. apply (N2 x n); [right; exact Hx|exact Hn].
Qed.

(** nameplates pointing at an old mailbox are old nameplates *)
Lemma old_np_gone d old d' :
  DbInv d ->
  nameplates d' = filter (fun r => negb (existsb (Z.eqb (np_id r))
                                           (map np_id (old_nameplates d B old)))) (nameplates d) ->
  forall x n, In x (old_mailboxes d B old) -> In n (nameplates d') -> np_mbox n <> mb_id x.
Proof.
  intros Hinv E x n Hx Hn Em. rewrite E in Hn. apply survivors in Hn. destruct Hn as [Hn Hnot].
  apply Hnot. apply in_map. unfold old_nameplates. apply filter_In.
  assert (Hx' : In x (mailboxes d) /\ mb_app x = B).
  { unfold old_mailboxes in Hx. apply filter_In in Hx. destruct Hx as [Hx _].
    apply sel_mbs_of_app_In in Hx. exact Hx. }
  destruct Hx' as [Hxin Hxa].
  destruct (inv_fk_np d Hinv n Hn) as [r [Hr [Ea Ei]]].
  assert (Erx : r = x).
  { apply (NoDup_map_inj mb_id (mailboxes d)); [apply inv_mb_id; exact Hinv|exact Hr|exact Hxin|].
    congruence. }
  subst r. split.
  - apply sel_nps_of_app_In. split; [exact Hn|]. congruence.
  - apply smem_In. rewrite Em. apply in_map. exact Hx.
Qed.

Lemma prune_body_2 d1 d2 w old :
  DR d1 d2 ->
  exists r d1' d2',
    prune_body cfg d1 B w old = TxOk r d1' /\ prune_body cfg d2 B w old = TxOk r d2' /\ DR d1' d2'.
Proof.
  intros HD. pose proof HD as (I1 & I2 & V & O). pose proof V as (V1 & V2 & V3 & V4).
  unfold prune_body. cbv zeta.
  assert (Em : old_mailboxes d2 B old = old_mailboxes d1 B old).
  { unfold old_mailboxes. change (sel_mbs_of_app d2 B) with (app_mbs d2 B).
    change (sel_mbs_of_app d1 B) with (app_mbs d1 B). rewrite V2. reflexivity. }
  set (L1 := old_nameplates d1 B old). set (L2 := old_nameplates d2 B old).
  assert (Hpt : forall x y, PR d1 d2 x y ->
            smem (np_mbox x) (map mb_id (old_mailboxes d1 B old)) =
            smem (np_mbox y) (map mb_id (old_mailboxes d2 B old))).
  { intros x y Pxy. destruct (sides_2 d1 d2 x y V Pxy) as (_ & _ & E). rewrite E, Em. reflexivity. }
  destruct (comb_filter _ _ (app_nps d1 B) (app_nps d2 B) (VR_len B d1 d2 V) Hpt) as [Hlen Hin].
  assert (HF : Forall2 (PR d1 d2) L1 L2).
  { apply comb_Forall2; [exact Hlen|]. intros x y Hxy. apply Hin in Hxy. apply Hxy. }
  assert (Hnd1 : NoDup (map np_id L1)) by (apply NoDup_map_filter; apply ids_nodup; exact I1).
  assert (Hnd2 : NoDup (map np_id L2)) by (apply NoDup_map_filter; apply ids_nodup; exact I2).
  destruct (del_nameplates_2 w true L1 L2 d1 d2 [] HD HF Hnd1) as (us & d1a & d2a & E1 & E2 & HDa).
  assert (Hex : forall d i, In i (map np_id (old_nameplates d B old)) -> np_exists d i = true).
  { intros d i Hi. apply in_map_iff in Hi. destruct Hi as [n [<- Hn]].
    apply filter_In in Hn. destruct Hn as [Hn _]. apply sel_nps_of_app_In in Hn.
    apply np_exists_iff. exists n. tauto. }
  destruct (del_nameplates_body_ok cfg d1 B (map np_id L1) w true [] I1 Hnd1 (Hex d1))
    as (us1 & x1 & X1 & _ & Xn1 & Xm1 & _).
  destruct (del_nameplates_body_ok cfg d2 B (map np_id L2) w true [] I2 Hnd2 (Hex d2))
    as (us2 & x2 & X2 & _ & Xn2 & Xm2 & _).
  rewrite E1 in X1. inversion X1; subst us1 x1. rewrite E2 in X2. inversion X2; subst us2 x2.
  clear X1 X2. rewrite E1, E2, Em.
  destruct (del_mailboxes_2 w (old_mailboxes d1 B old) d1a d2a [] HDa) as (vs & d1b & d2b & F1 & F2 & HDb).
  { intros x Hx. unfold app_mbs. rewrite Xm1. unfold old_mailboxes in Hx. apply filter_In in Hx.
    apply Hx. }
  { unfold old_mailboxes, sel_mbs_of_app. do 2 apply NoDup_map_filter. exact (inv_mb_id d1 I1). }
  { exact (old_np_gone d1 old d1a I1 Xn1). }
  { rewrite <- Em. exact (old_np_gone d2 old d2a I2 Xn2). }
  rewrite F1, F2. do 3 eexists. split; [reflexivity|]. split; [|exact HDb].
  assert (El : List.length L1 = List.length L2) by exact Hlen.
  destruct L1, L2; cbn [List.length] in El; try discriminate; reflexivity.
Qed.

End WithCfg.

Lemma DR_add_msg d1 d2 m r :
  DR d1 d2 -> has_mb d1 B m -> msg_app r = B -> msg_mbox r = m ->
  DR (upd_touch (ins_msg d1 r) m (msg_rx r)) (upd_touch (ins_msg d2 r) m (msg_rx r)).
Proof.
  intros (I1 & I2 & V & O) H1 Ha Hm.
  assert (H2 : has_mb d2 B m) by (apply (has_mb_VR B d1 d2 _ V); exact H1).
  apply DR_touch. destruct V as (V1 & V2 & V3 & V4).
  split; [apply DbInv_ins_msg; [exact I1|rewrite Ha, Hm; exact H1]|].
  split; [apply DbInv_ins_msg; [exact I2|rewrite Ha, Hm; exact H2]|].
  split; [|exact O]. split; [|split; [|split]].
  - rewrite (NP_same B d1 (ins_msg d1 r)), (NP_same B d2 (ins_msg d2 r)) by reflexivity. exact V1.
  - exact V2.
  - exact V3.
  - rewrite !app_msgs_snoc by exact Ha. rewrite V4. reflexivity.
Qed.

End Bodies.

(** * The two-run relation and its triple *)

Lemma filter_comm {X} (p q : X -> bool) l : filter p (filter q l) = filter q (filter p l).
Proof. rewrite !filter_filter. apply filter_ext. intros x. apply andb_comm. Qed.

Section Rel.
Variable B : string.
Variable c : nat.

Definition isB (p : string * string * nat) : bool := seqb (fst (fst p)) B.
Definition era (p : nat * conn_state) : nat * conn_state := (fst p, eraseA B (snd p)).
Definition visc (l : list (nat * conn_state)) (c' : nat) : Prop :=
  other_app B (match lookup_conn c' l with Some cs => cs | None => new_conn end) = false.

Record sim (s1 s2 : state) : Prop := mkSim
  { sm_db : DR B (chan_w s1) (chan_w s2);
    sm_u : app_usage (usage_w s2) B = app_usage (usage_w s1) B;
    sm_subs : subs s2 = filter isB (subs s1);
    sm_conns : conns s2 = map era (conns s1);
    sm_now : now s2 = now s1;
    sm_due : next_due s2 = next_due s1;
    sm_start : timer_start s2 = timer_start s1;
    sm_fl : frames_of (log s2) = frames_of (log s1);
    sm_vis : forall c' f, In (c', f) (frames_of (log s1)) -> visc (conns s1) c';
    sm_sb : forall m c', In (B, m, c') (subs s1) -> visc (conns s1) c';
    sm_act : visc (conns s1) c }.

Definition R {A} (bad : exn -> Prop) (I : state -> state -> Prop)
           (Q : A -> A -> state -> state -> Prop) (m1 m2 : M A) : Prop :=
  forall s1 s2, sim s1 s2 -> I s1 s2 ->
  match m1 s1 with
  | Ok a1 t1 => exists a2 t2, m2 s2 = Ok a2 t2 /\ sim t1 t2 /\ Q a1 a2 t1 t2
  | Exn e t1 => bad e \/ exists t2, m2 s2 = Exn e t2 /\ sim t1 t2
  end.

Definition dbp (K : chan_db -> chan_db -> Prop) : state -> state -> Prop :=
  fun s1 s2 => K (chan_w s1) (chan_w s2).
Definition TT : chan_db -> chan_db -> Prop := fun _ _ => True.
Definition eqQ {A} (I : state -> state -> Prop) : A -> A -> state -> state -> Prop :=
  fun a1 a2 s1 s2 => a1 = a2 /\ I s1 s2.
Definition logfree (I : state -> state -> Prop) : Prop :=
  forall s1 s2 l1 l2, I s1 s2 -> I (set_log s1 l1) (set_log s2 l2).

Lemma logfree_dbp K : logfree (dbp K).
Proof. intros s1 s2 l1 l2 H. exact H. Qed.

(** ** registry lemmas *)

Lemma lookup_era l c' : lookup_conn c' (map era l) = option_map (eraseA B) (lookup_conn c' l).
Proof.
  induction l as [|[c1 cs1] l IH]; cbn [map lookup_conn era fst snd]; [reflexivity|].
  destruct (Nat.eqb c' c1); [reflexivity|exact IH].
Qed.

Lemma eraseA_vis cs : other_app B cs = false -> eraseA B cs = cs.
Proof. unfold eraseA. intros ->. reflexivity. Qed.

Lemma other_new : other_app B new_conn = false.
Proof. reflexivity. Qed.

Lemma update_era X l :
  other_app B X = false -> update_conn c X (map era l) = map era (update_conn c X l).
Proof.
  intros HX. induction l as [|[c1 cs1] l IH]; cbn [map update_conn era fst snd]; [reflexivity|].
  destruct (Nat.eqb c c1); cbn [map].
  - unfold era at 2. cbn [fst snd]. rewrite (eraseA_vis X HX). reflexivity.
  - rewrite IH. reflexivity.
Qed.

Lemma visc_update X l c' : other_app B X = false -> visc l c' -> visc (update_conn c X l) c'.
Proof.
  intros HX H. unfold visc in *. destruct (Nat.eq_dec c' c) as [->|N].
  - destruct (lookup_conn c l) as [cs0|] eqn:E.
    + rewrite (lookup_update_same c X l cs0 E). exact HX.
    + rewrite (update_absent c X l E), E. reflexivity.
  - rewrite (lookup_update_other c c' X l N). exact H.
Qed.

Lemma other_stop cs : other_app B (stop_listener cs) = other_app B cs.
Proof. reflexivity. Qed.

Lemma era_stop cs : eraseA B (stop_listener cs) = stop_listener (eraseA B cs).
Proof. unfold eraseA. rewrite other_stop. destruct (other_app B cs); reflexivity. Qed.

Lemma visc_stop (g : nat -> bool) l c' :
  visc l c' -> visc (map (fun p => if g (fst p) then (fst p, stop_listener (snd p)) else p) l) c'.
Proof.
  unfold visc. rewrite lookup_map_if. destruct (lookup_conn c' l) as [cs|]; [|auto].
  destruct (g c'); [rewrite other_stop|]; auto.
Qed.

Lemma map_stop_era (g : nat -> bool) l :
  map (fun p => if g (fst p) then (fst p, stop_listener (snd p)) else p) (map era l) =
  map era (map (fun p => if g (fst p) then (fst p, stop_listener (snd p)) else p) l).
Proof.
  rewrite !map_map. apply map_ext. intros [c1 cs1]. unfold era. cbn [fst snd].
  destruct (g c1); cbn [fst snd]; [rewrite era_stop|]; reflexivity.
Qed.

Lemma subs_of_isB m l : subs_of B m (filter isB l) = subs_of B m l.
Proof.
  unfold subs_of. f_equal. apply filter_filter_keep. intros p _ H.
  apply andb_true_iff in H. apply H.
Qed.

Lemma conn_of_sim s1 s2 c' : sim s1 s2 -> conn_of s2 c' = eraseA B (conn_of s1 c').
Proof.
  intros Hs. unfold conn_of. rewrite (sm_conns _ _ Hs), lookup_era.
  destruct (lookup_conn c' (conns s1)); reflexivity.
Qed.

(** ** usage rows *)

Lemma app_usage_np u1 u2 r :
  app_usage u2 B = app_usage u1 B -> app_usage (uins_np u2 r) B = app_usage (uins_np u1 r) B.
Proof.
  unfold app_usage, uins_np. cbn [u_nameplates u_mailboxes u_versions]. intros H.
  inversion H as [[H1 H2 H3]]. rewrite !filter_app, H1. reflexivity.
Qed.
Lemma app_usage_mb u1 u2 r :
  app_usage u2 B = app_usage u1 B -> app_usage (uins_mb u2 r) B = app_usage (uins_mb u1 r) B.
Proof.
  unfold app_usage, uins_mb. cbn [u_nameplates u_mailboxes u_versions]. intros H.
  inversion H as [[H1 H2 H3]]. rewrite !filter_app, H2. reflexivity.
Qed.
Lemma app_usage_cv u1 u2 r :
  app_usage u2 B = app_usage u1 B -> app_usage (uins_cv u2 r) B = app_usage (uins_cv u1 r) B.
Proof.
  unfold app_usage, uins_cv. cbn [u_nameplates u_mailboxes u_versions]. intros H.
  inversion H as [[H1 H2 H3]]. rewrite !filter_app, H3. reflexivity.
Qed.
Lemma app_usage_cur u1 u2 r1 r2 :
  app_usage u2 B = app_usage u1 B -> app_usage (uset_current u2 r2) B = app_usage (uset_current u1 r1) B.
Proof. intros H. exact H. Qed.

Lemma app_usage_fold_np l : forall u1 u2,
  app_usage u2 B = app_usage u1 B ->
  app_usage (fold_left uins_np l u2) B = app_usage (fold_left uins_np l u1) B.
Proof. induction l as [|r l IH]; intros u1 u2 H; cbn [fold_left]; [exact H|]. apply IH, app_usage_np, H. Qed.
Lemma app_usage_fold_mb l : forall u1 u2,
  app_usage u2 B = app_usage u1 B ->
  app_usage (fold_left uins_mb l u2) B = app_usage (fold_left uins_mb l u1) B.
Proof. induction l as [|r l IH]; intros u1 u2 H; cbn [fold_left]; [exact H|]. apply IH, app_usage_mb, H. Qed.

(** ** structural rules *)

Lemma R_conseq {A} (bad bad' : exn -> Prop) (I I' : state -> state -> Prop)
      (Q Q' : A -> A -> state -> state -> Prop) m1 m2 :
  R bad I Q m1 m2 -> (forall e, bad e -> bad' e) ->
  (forall s1 s2, sim s1 s2 -> I' s1 s2 -> I s1 s2) ->
  (forall a1 a2 s1 s2, Q a1 a2 s1 s2 -> Q' a1 a2 s1 s2) -> R bad' I' Q' m1 m2.
Proof.
  intros H Hb HI HQ s1 s2 Hs Hi. specialize (H s1 s2 Hs (HI _ _ Hs Hi)).
  destruct (m1 s1) as [a1 t1|e t1].
  - destruct H as (a2 & t2 & E & Ht & Hq). exists a2, t2. auto.
  - destruct H as [H|H]; [left; auto|right; exact H].
Qed.

Lemma R_pre {A} bad (I I' : state -> state -> Prop) (Q : A -> A -> state -> state -> Prop) m1 m2 :
  (forall s1 s2, sim s1 s2 -> I' s1 s2 -> I s1 s2) -> R bad I Q m1 m2 -> R bad I' Q m1 m2.
Proof. intros HI H. eapply R_conseq; [exact H|auto|exact HI|auto]. Qed.

Lemma R_post {A} bad (I : state -> state -> Prop) (Q Q' : A -> A -> state -> state -> Prop) m1 m2 :
  (forall a1 a2 s1 s2, Q a1 a2 s1 s2 -> Q' a1 a2 s1 s2) -> R bad I Q m1 m2 -> R bad I Q' m1 m2.
Proof. intros HQ H. eapply R_conseq; [exact H|auto|auto|exact HQ]. Qed.

Lemma R_pure {A} bad (P : Prop) (I : state -> state -> Prop) (Q : A -> A -> state -> state -> Prop) m1 m2 :
  (P -> R bad I Q m1 m2) -> R bad (fun s1 s2 => P /\ I s1 s2) Q m1 m2.
Proof. intros H s1 s2 Hs [HP Hi]. exact (H HP s1 s2 Hs Hi). Qed.

Lemma R_ret' {A} bad (I : state -> state -> Prop) (Q : A -> A -> state -> state -> Prop) a :
  (forall s1 s2, I s1 s2 -> Q a a s1 s2) -> R bad I Q (ret a) (ret a).
Proof. intros H s1 s2 Hs Hi. cbn. exists a, s2. auto. Qed.

Lemma R_ret {A} bad (I : state -> state -> Prop) (a : A) : R bad I (eqQ I) (ret a) (ret a).
Proof. apply R_ret'. intros s1 s2 H. split; [reflexivity|exact H]. Qed.

Lemma R_raise {A} bad (I : state -> state -> Prop) (Q : A -> A -> state -> state -> Prop) e :
  R bad I Q (raise e) (raise e).
Proof. intros s1 s2 Hs Hi. cbn. right. exists s2. auto. Qed.

Lemma R_bind {A C} bad (I : state -> state -> Prop) (Q : A -> A -> state -> state -> Prop)
      (W : C -> C -> state -> state -> Prop) m1 m2 k1 k2 :
  R bad I Q m1 m2 -> (forall a1 a2, R bad (Q a1 a2) W (k1 a1) (k2 a2)) ->
  R bad I W (bind m1 k1) (bind m2 k2).
Proof.
  intros Hm Hk s1 s2 Hs Hi. unfold bind. specialize (Hm s1 s2 Hs Hi).
  destruct (m1 s1) as [a1 t1|e t1].
  - destruct Hm as (a2 & t2 & -> & Ht & Hq). exact (Hk a1 a2 t1 t2 Ht Hq).
  - destruct Hm as [Hm|(t2 & -> & Ht)]; [left; exact Hm|right; exists t2; auto].
Qed.

Lemma R_bind_eq {A C} bad (I : state -> state -> Prop) (J : A -> state -> state -> Prop)
      (W : C -> C -> state -> state -> Prop) m1 m2 k1 k2 :
  R bad I (fun a1 a2 s1 s2 => a1 = a2 /\ J a1 s1 s2) m1 m2 ->
  (forall a, R bad (J a) W (k1 a) (k2 a)) -> R bad I W (bind m1 k1) (bind m2 k2).
Proof.
  intros Hm Hk. eapply R_bind; [exact Hm|]. intros a1 a2. cbv beta.
  intros s1 s2 Hs [<- Hj]. exact (Hk a1 s1 s2 Hs Hj).
Qed.

Lemma Rp_bind {A C} bad (I J : state -> state -> Prop) (W : C -> C -> state -> state -> Prop)
      (m1 m2 : M A) k1 k2 :
  R bad I (eqQ J) m1 m2 -> (forall a, R bad J W (k1 a) (k2 a)) -> R bad I W (bind m1 k1) (bind m2 k2).
Proof. intros Hm Hk. apply (R_bind_eq bad I (fun _ => J) W m1 m2 k1 k2 Hm Hk). Qed.

Lemma R_bind_get {C} bad (I : state -> state -> Prop) (W : C -> C -> state -> state -> Prop) k1 k2 :
  (forall x y, sim x y -> R bad I W (k1 x) (k2 y)) -> R bad I W (bind get k1) (bind get k2).
Proof. intros Hk s1 s2 Hs Hi. unfold bind, get. exact (Hk s1 s2 Hs s1 s2 Hs Hi). Qed.

Lemma R_try_catch {A} bad (I : state -> state -> Prop) (Q : A -> A -> state -> state -> Prop) m1 m2 h1 h2 :
  R bad I Q m1 m2 ->
  (forall e, R bad (fun _ _ => True) Q (h1 e) (h2 e)) ->
  (forall e s, bad e -> match h1 e s with Exn e' _ => bad e' | Ok _ _ => False end) ->
  R bad I Q (try_catch m1 h1) (try_catch m2 h2).
Proof.
  intros Hm Hh Hbad s1 s2 Hs Hi. unfold try_catch. specialize (Hm s1 s2 Hs Hi).
  destruct (m1 s1) as [a1 t1|e t1].
  - destruct Hm as (a2 & t2 & -> & Ht & Hq). exists a2, t2. auto.
  - destruct Hm as [Hm|(t2 & -> & Ht)].
    + specialize (Hbad e t1 Hm). destruct (h1 e t1); [contradiction|left; exact Hbad].
    + exact (Hh e t1 t2 Ht Logic.I).
Qed.

(** ** primitives *)

Ltac sim_tac Hs :=
  destruct Hs as [Xdb Xu Xsubs Xconns Xnow Xdue Xstart Xfl Xvis Xsb Xact]; constructor;
  cbn [chan_w chan_c usage_w usage_c subs conns now boot timer_start next_due log
       set_chan_w set_usage_w set_subs set_conns set_log frames_of]; auto.

Lemma R_tx {A} bad (K : chan_db -> chan_db -> Prop) (Q : A -> A -> chan_db -> chan_db -> Prop) f1 f2 :
  (forall d1 d2, DR B d1 d2 -> K d1 d2 ->
     match f1 d1 with
     | TxOk a1 d1' => exists a2 d2', f2 d2 = TxOk a2 d2' /\ DR B d1' d2' /\ Q a1 a2 d1' d2'
     | TxFail e d1' => bad e \/ exists d2', f2 d2 = TxFail e d2' /\ DR B d1' d2'
     end) ->
  R bad (dbp K) (fun a1 a2 => dbp (Q a1 a2)) (tx f1) (tx f2).
Proof.
  intros H s1 s2 Hs Hi. unfold tx. specialize (H _ _ (sm_db _ _ Hs) Hi).
  destruct (f1 (chan_w s1)) as [a1 d1'|e d1'].
  - destruct H as (a2 & d2' & -> & HD & Hq). exists a2. eexists. split; [reflexivity|].
    split; [sim_tac Hs|exact Hq].
  - destruct H as [H|(d2' & -> & HD)]; [left; exact H|right].
    eexists. split; [reflexivity|]. sim_tac Hs.
Qed.

Lemma R_q {A} bad (K : chan_db -> chan_db -> Prop) (V : A -> A -> Prop) (f1 f2 : chan_db -> A) :
  (forall d1 d2, DR B d1 d2 -> K d1 d2 -> V (f1 d1) (f2 d2)) ->
  R bad (dbp K) (fun a1 a2 s1 s2 => V a1 a2 /\ dbp K s1 s2) (q f1) (q f2).
Proof.
  intros H s1 s2 Hs Hi. unfold q. exists (f2 (chan_w s2)), s2. split; [reflexivity|].
  split; [exact Hs|]. split; [exact (H _ _ (sm_db _ _ Hs) Hi)|exact Hi].
Qed.

Lemma Rp_commit bad K : R bad (dbp K) (eqQ (dbp K)) commit_chan commit_chan.
Proof.
  intros s1 s2 Hs Hi. unfold commit_chan. exists tt. eexists. split; [reflexivity|].
  split; [sim_tac Hs|split; [reflexivity|exact Hi]].
Qed.

Lemma Rp_commit_usage bad K : R bad (dbp K) (eqQ (dbp K)) commit_usage commit_usage.
Proof.
  intros s1 s2 Hs Hi. unfold commit_usage. exists tt. eexists. split; [reflexivity|].
  split; [sim_tac Hs|split; [reflexivity|exact Hi]].
Qed.

Lemma Rp_utx bad K f1 f2 :
  (forall u1 u2, app_usage u2 B = app_usage u1 B -> app_usage (f2 u2) B = app_usage (f1 u1) B) ->
  R bad (dbp K) (eqQ (dbp K)) (utx f1) (utx f2).
Proof.
  intros H s1 s2 Hs Hi. unfold utx. exists tt. eexists. split; [reflexivity|].
  split; [sim_tac Hs|split; [reflexivity|exact Hi]].
Qed.

Lemma Rp_write_usage bad K unps umbs :
  R bad (dbp K) (eqQ (dbp K)) (write_usage unps umbs) (write_usage unps umbs).
Proof.
  unfold write_usage. apply Rp_utx. intros u1 u2 H. apply app_usage_fold_mb, app_usage_fold_np, H.
Qed.

Lemma Rp_send bad I f : logfree I -> R bad I (eqQ I) (send c f) (send c f).
Proof.
  intros HI s1 s2 Hs Hi. unfold send. exists tt. eexists. split; [reflexivity|].
  split; [|split; [reflexivity|apply HI; exact Hi]].
  sim_tac Hs.
  - f_equal. exact Xfl.
  - intros c' f' [E|H]; [inversion E; subst; exact Xact|eauto].
Qed.

Lemma R_bind_conn_eq {C} bad (I : state -> state -> Prop) (W : C -> C -> state -> state -> Prop) k1 k2 :
  (forall cs, other_app B cs = false ->
     R bad (fun s1 s2 => I s1 s2 /\ conn_of s1 c = cs) W (k1 cs) (k2 cs)) ->
  R bad I W (bind (get_conn c) k1) (bind (get_conn c) k2).
Proof.
  intros Hk s1 s2 Hs Hi. rewrite !bind_get_conn.
  pose proof (sm_act _ _ Hs) as Ha. unfold visc in Ha. fold (conn_of s1 c) in Ha.
  rewrite (conn_of_sim s1 s2 c Hs), (eraseA_vis _ Ha).
  exact (Hk (conn_of s1 c) Ha s1 s2 Hs (conj Hi eq_refl)).
Qed.

Lemma R_bind_conn {C} bad (I : state -> state -> Prop) (W : C -> C -> state -> state -> Prop) k1 k2 :
  (forall cs, other_app B cs = false -> R bad I W (k1 cs) (k2 cs)) ->
  R bad I W (bind (get_conn c) k1) (bind (get_conn c) k2).
Proof.
  intros Hk. apply R_bind_conn_eq. intros cs Hcs. eapply R_pre; [|exact (Hk cs Hcs)].
  intros s1 s2 _ [H _]. exact H.
Qed.

Lemma Rp_set_conn bad K X :
  other_app B X = false -> R bad (dbp K) (eqQ (dbp K)) (set_conn c X) (set_conn c X).
Proof.
  intros HX s1 s2 Hs Hi. unfold set_conn. exists tt. eexists. split; [reflexivity|].
  split; [|split; [reflexivity|exact Hi]].
  sim_tac Hs.
  - rewrite Xconns. apply update_era. exact HX.
  - intros c' f H. apply visc_update; eauto.
  - intros m c' H. apply visc_update; eauto.
  - apply visc_update; assumption.
Qed.

Lemma Rp_add_sub bad K m : R bad (dbp K) (eqQ (dbp K)) (add_sub B m c) (add_sub B m c).
Proof.
  intros s1 s2 Hs Hi. unfold add_sub. exists tt. eexists. split; [reflexivity|].
  assert (E : existsb (sub_is B m c) (subs s2) = existsb (sub_is B m c) (subs s1)).
  { rewrite (sm_subs _ _ Hs). apply existsb_filter_keep. intros p _ H.
    apply sub_is_true in H. subst p. unfold isB. cbn [fst]. apply seqb_refl. }
  rewrite E. destruct (existsb (sub_is B m c) (subs s1)).
  - split; [exact Hs|split; [reflexivity|exact Hi]].
  - split; [|split; [reflexivity|exact Hi]]. sim_tac Hs.
    + assert (Ei : isB (B, m, c) = true) by (unfold isB; cbn [fst]; apply seqb_refl).
      rewrite Xsubs, filter_app. cbn [filter]. rewrite Ei. reflexivity.
    + intros m' c' H. apply in_app_or in H. destruct H as [H|[H|[]]]; [eauto|].
      inversion H; subst. exact Xact.
Qed.

Lemma Rp_remove_sub bad K a m c' :
  R bad (dbp K) (eqQ (dbp K)) (remove_sub a m c') (remove_sub a m c').
Proof.
  intros s1 s2 Hs Hi. unfold remove_sub. exists tt. eexists. split; [reflexivity|].
  split; [|split; [reflexivity|exact Hi]]. sim_tac Hs.
  - rewrite Xsubs. apply filter_comm.
  - intros m' c1 H. apply filter_In in H. destruct H as [H _]. eauto.
Qed.

Lemma Rp_stop_listeners bad K m :
  R bad (dbp K) (eqQ (dbp K)) (stop_listeners B m) (stop_listeners B m).
Proof.
  intros s1 s2 Hs Hi. unfold stop_listeners. cbv zeta. exists tt. eexists. split; [reflexivity|].
  split; [|split; [reflexivity|exact Hi]].
  rewrite (sm_subs _ _ Hs), subs_of_isB, (sm_conns _ _ Hs).
  sim_tac Hs.
  - apply filter_comm.
  - apply (map_stop_era (fun n => existsb (Nat.eqb n) (subs_of B m (subs s1)))).
  - intros c' f H. apply (visc_stop (fun n => existsb (Nat.eqb n) (subs_of B m (subs s1)))). eauto.
  - intros m' c' H. apply filter_In in H. destruct H as [H _].
    apply (visc_stop (fun n => existsb (Nat.eqb n) (subs_of B m (subs s1)))). eauto.
  - apply (visc_stop (fun n => existsb (Nat.eqb n) (subs_of B m (subs s1)))). exact Xact.
Qed.

Lemma send_all_sim f l : forall s1 s2,
  sim s1 s2 -> (forall c', In c' l -> visc (conns s1) c') ->
  exists t1 t2, send_all l f s1 = Ok tt t1 /\ send_all l f s2 = Ok tt t2 /\ sim t1 t2 /\
                chan_w t1 = chan_w s1 /\ chan_w t2 = chan_w s2.
Proof.
  induction l as [|c1 l IH]; intros s1 s2 Hs Hl; cbn [send_all].
  - exists s1, s2. auto.
  - unfold bind, send.
    match goal with |- context [send_all l f ?x = Ok tt _ /\ send_all l f ?y = _ /\ _] =>
      destruct (IH x y) as (t1 & t2 & E1 & E2 & Ht & W1 & W2) end.
    + sim_tac Hs.
      * f_equal. exact Xfl.
      * intros c' f' [E|H]; [inversion E; subst; apply Hl; left; reflexivity|eauto].
    + intros c' Hc'. apply Hl. right. exact Hc'.
    + exists t1, t2. auto.
Qed.

Lemma R_send_subs bad K m f :
  R bad (dbp K) (eqQ (dbp K))
    (s <- get ;; send_all (subs_of B m (subs s)) f) (s <- get ;; send_all (subs_of B m (subs s)) f).
Proof.
  intros s1 s2 Hs Hi. unfold bind, get.
  rewrite (sm_subs _ _ Hs), subs_of_isB.
  destruct (send_all_sim f (subs_of B m (subs s1)) s1 s2 Hs) as (t1 & t2 & -> & -> & Ht & W1 & W2).
  { intros c' Hc'. apply MbFactsA.In_subs_of in Hc'. exact (sm_sb _ _ Hs m c' Hc'). }
  exists tt, t2. split; [reflexivity|]. split; [exact Ht|]. split; [reflexivity|].
  unfold dbp in *. rewrite W1, W2. exact Hi.
Qed.

End Rel.

(** * Operations and handlers of app B, two runs *)

Notation Rfull := R.

Section Ops.
Variable cfg : config.
Variable B : string.
Variable c : nat.

Local Notation R := (R B c).
Local Notation sim := (sim B c).

Lemma R_absurd {A} bad (Q : A -> A -> state -> state -> Prop) m1 m2 :
  R bad (dbp (fun _ _ => False)) Q m1 m2.
Proof. intros s1 s2 _ []. Qed.

Lemma R_pure_db {A} bad (P : Prop) (K : chan_db -> chan_db -> Prop) (Q : A -> A -> state -> state -> Prop) m1 m2 :
  (P -> R bad (dbp K) Q m1 m2) -> R bad (dbp (fun d1 d2 => P /\ K d1 d2)) Q m1 m2.
Proof. intros H. exact (R_pure B c bad P (dbp K) Q m1 m2 H). Qed.

Lemma R_tx_eq {A} bad (K K' : chan_db -> chan_db -> Prop) (f1 f2 : chan_db -> txres A) :
  (forall d1 d2, DR B d1 d2 -> K d1 d2 ->
     match f1 d1 with
     | TxOk a1 d1' => exists d2', f2 d2 = TxOk a1 d2' /\ DR B d1' d2' /\ K' d1' d2'
     | TxFail e d1' => bad e \/ exists d2', f2 d2 = TxFail e d2' /\ DR B d1' d2'
     end) ->
  R bad (dbp K) (eqQ (dbp K')) (tx f1) (tx f2).
Proof.
  intros H. eapply R_post; [|apply (R_tx B c bad K (fun a1 a2 d1 d2 => a1 = a2 /\ K' d1 d2))].
  - intros a1 a2 s1 s2 K0. exact K0.
  - intros d1 d2 HD Hk. specialize (H d1 d2 HD Hk). destruct (f1 d1) as [a1 d1'|e d1'].
    + destruct H as (d2' & E & HD' & Hk'). exists a1, d2'. auto.
    + exact H.
Qed.

Lemma R_catch_crowded {A} I (Q : A -> A -> state -> state -> Prop) (m1 m2 : M A) :
  R fatal I Q m1 m2 -> R fatal I Q (catch_crowded m1) (catch_crowded m2).
Proof.
  intros H. unfold catch_crowded. apply R_try_catch; [exact H| |].
  - intros e. destruct e; apply R_raise.
  - intros e s Hb. destruct e; cbn in *; try exact Logic.I; contradiction.
Qed.

Lemma R_catch_cr {A} I (Q : A -> A -> state -> state -> Prop) (m1 m2 : M A) :
  R fatal I Q m1 m2 -> R fatal I Q (catch_crowded_reclaimed m1) (catch_crowded_reclaimed m2).
Proof.
  intros H. unfold catch_crowded_reclaimed. apply R_try_catch; [exact H| |].
  - intros e. destruct e; apply R_raise.
  - intros e s Hb. destruct e; cbn in *; try exact Logic.I; contradiction.
Qed.

Ltac rp1 :=
  lazymatch goal with
  | |- Rfull _ _ _ _ _ (bind get _) (bind get _) =>
      apply R_bind_get;
      let x := fresh "x" in let y := fresh "y" in let H := fresh "Hxy" in
      intros x y H; cbv beta; try rewrite (sm_now _ _ _ _ H)
  | |- Rfull _ _ _ _ _ (bind (get_conn _) _) (bind (get_conn _) _) =>
      apply R_bind_conn; let cs := fresh "cs" in let H := fresh "Hcs" in intros cs H
  | |- Rfull _ _ _ _ _ (bind _ _) (bind _ _) => eapply Rp_bind; [|intros ?]
  | |- Rfull _ _ _ _ _ (ret _) (ret _) => apply R_ret
  | |- Rfull _ _ _ _ _ (raise _) (raise _) => apply R_raise
  | |- Rfull _ _ _ _ _ err err => apply R_raise
  | |- Rfull _ _ _ _ _ commit_chan commit_chan => apply Rp_commit
  | |- Rfull _ _ _ _ _ commit_usage commit_usage => apply Rp_commit_usage
  | |- Rfull _ _ _ _ _ (write_usage _ _) (write_usage _ _) => apply Rp_write_usage
  | |- Rfull _ _ _ _ _ (send _ _) (send _ _) => apply Rp_send; apply logfree_dbp
  | |- Rfull _ _ _ _ _ (set_conn _ _) (set_conn _ _) => apply Rp_set_conn; assumption
  | |- Rfull _ _ _ _ _ (add_sub _ _ _) (add_sub _ _ _) => apply Rp_add_sub
  | |- Rfull _ _ _ _ _ (remove_sub _ _ _) (remove_sub _ _ _) => apply Rp_remove_sub
  | |- Rfull _ _ _ _ _ (stop_listeners _ _) (stop_listeners _ _) => apply Rp_stop_listeners
  | |- Rfull _ _ _ _ _ (catch_crowded _) (catch_crowded _) => apply R_catch_crowded
  | |- Rfull _ _ _ _ _ (catch_crowded_reclaimed _) (catch_crowded_reclaimed _) => apply R_catch_cr
  | |- Rfull _ _ _ _ _ (if ?b then _ else _) (if ?b then _ else _) => destruct b
  | |- Rfull _ _ _ _ _ (match ?x with _ => _ end) (match ?x with _ => _ end) => destruct x
  end.

Ltac rlem := fail.
Ltac rp := repeat first [rp1 | rlem].

(** ** queries *)

Lemma sel_mbs_all_2 d1 d2 m : DR B d1 d2 -> has_mb d1 B m -> sel_mbs_all d2 m = sel_mbs_all d1 m.
Proof.
  intros (_ & _ & V & _) H1.
  assert (H2 : has_mb d2 B m) by (apply (has_mb_VR B d1 d2 _ V); exact H1).
  destruct V as (_ & _ & V3 & _).
  rewrite (sel_mbs_all_view B d2 m H2), (sel_mbs_all_view B d1 m H1), V3. reflexivity.
Qed.

Lemma sides_len_2 d1 d2 i1 i2 :
  DR B d1 d2 -> cor B d1 d2 i1 i2 ->
  List.length (sel_nps_all d2 i2) = List.length (sel_nps_all d1 i1).
Proof.
  intros (_ & _ & V & _) (n1 & n2 & P & <- & <-).
  destruct (sides_2 B d1 d2 n1 n2 V P) as (S & _ & _).
  apply (f_equal (@List.length _)) in S. rewrite !map_length in S. symmetry. exact S.
Qed.

Lemma sel_names_2 d1 d2 : DR B d1 d2 -> sel_names d2 B = sel_names d1 B.
Proof.
  intros (_ & _ & (V1 & _) & _). unfold sel_names.
  change (sel_nps_of_app d2 B) with (app_nps d2 B). change (sel_nps_of_app d1 B) with (app_nps d1 B).
  assert (E : forall d, map np_name (app_nps d B) = map (fun t => fst (fst t)) (NP B d)).
  { intros d. unfold NP. rewrite map_map. reflexivity. }
  rewrite !E, V1. reflexivity.
Qed.

Lemma sel_msgs_2 d1 d2 m : DR B d1 d2 -> sel_msgs d2 B m = sel_msgs d1 B m.
Proof. intros (_ & _ & (_ & _ & _ & V4) & _). rewrite !sel_msgs_view, V4. reflexivity. Qed.

(** ** Server.v *)

Definition npframe (K : chan_db -> chan_db -> Prop) : Prop :=
  forall d1 d2 d1' d2',
    nameplates d1' = nameplates d1 -> nameplates d2' = nameplates d2 -> K d1 d2 -> K d1' d2'.

Lemma npframe_TT : npframe TT.
Proof. intros d1 d2 d1' d2' _ _ _. exact Logic.I. Qed.

Lemma npframe_cor i1 i2 : npframe (fun d1 d2 => cor B d1 d2 i1 i2).
Proof. intros d1 d2 d1' d2' E1 E2 H. exact (cor_ext B d1 d2 d1' d2' i1 i2 E1 E2 H). Qed.

Lemma R_open_mailbox (K : chan_db -> chan_db -> Prop) m side w :
  npframe K ->
  R fatal (dbp K) (eqQ (dbp K)) (open_mailbox B m side w) (open_mailbox B m side w).
Proof.
  intros HK. unfold open_mailbox.
  eapply Rp_bind with (J := dbp (fun d1 d2 => K d1 d2 /\ has_mb d1 B m)).
  { apply R_tx_eq. intros d1 d2 HD Hk. pose proof (open_body_2 B d1 d2 m side w HD) as H.
    destruct (open_body d1 B m side w) as [[] d1'|e d1'].
    - destruct H as (d2' & E & HD' & Hm & F1 & F2 & F3 & F4). exists d2'.
      split; [exact E|]. split; [exact HD'|]. split; [exact (HK _ _ _ _ F1 F3 Hk)|exact Hm].
    - left. exact H. }
  intros _. eapply Rp_bind; [apply Rp_commit|]. intros _.
  eapply Rp_bind; [apply Rp_commit|]. intros _.
  eapply R_bind.
  { apply R_q with (V := eq). intros d1 d2 HD [Hk Hm]. symmetry. apply sel_mbs_all_2; assumption. }
  intros rows1 rows2. cbv beta. apply R_pure. intros <-.
  destruct (2 <? List.length rows1)%nat.
  - apply R_raise.
  - apply R_ret'. intros s1 s2 [Hk _]. split; [reflexivity|exact Hk].
Qed.

Lemma R_claim_nameplate name side w draw :
  R fatal (dbp TT) (eqQ (dbp TT)) (claim_nameplate B name side w draw)
    (claim_nameplate B name side w draw).
Proof.
  unfold claim_nameplate. eapply R_bind.
  { apply (R_tx B c fatal TT (fun p1 p2 d1 d2 => snd p1 = snd p2 /\ cor B d1 d2 (fst p1) (fst p2))).
    intros d1 d2 HD _. pose proof (claim_body_2 B d1 d2 name side w draw HD) as H.
    destruct (claim_body d1 B name side w draw) as [p1 d1'|e d1'].
    - destruct H as (i2 & d2' & E & HD' & Hc). exists (i2, snd p1), d2'.
      split; [exact E|]. split; [exact HD'|]. split; [reflexivity|exact Hc].
    - destruct H as [H|(-> & -> & E)]; [left; exact H|right]. exists d2. split; [exact E|exact HD]. }
  intros [i1 mb1] [i2 mb2]. cbn [fst snd]. apply R_pure_db. intros <-.
  eapply Rp_bind; [apply Rp_commit|]. intros _.
  eapply Rp_bind; [apply R_open_mailbox; apply npframe_cor|]. intros _.
  eapply R_bind.
  { apply R_q with (V := fun l1 l2 : list nps_row => List.length l2 = List.length l1).
    intros d1 d2 HD Hc. exact (sides_len_2 d1 d2 i1 i2 HD Hc). }
  intros rows1 rows2. cbv beta. apply R_pure. intros ->.
  destruct (2 <? List.length rows1)%nat.
  - apply R_raise.
  - apply R_ret'. intros s1 s2 _. split; [reflexivity|exact Logic.I].
Qed.

Lemma R_allocate_nameplate side w o draw :
  R fatal (dbp TT) (eqQ (dbp TT)) (allocate_nameplate B side w o draw)
    (allocate_nameplate B side w o draw).
Proof.
  unfold allocate_nameplate. eapply R_bind.
  { apply R_q with (V := eq). intros d1 d2 HD _. symmetry. exact (sel_names_2 d1 d2 HD). }
  intros cl1 cl2. cbv beta. apply R_pure. intros <-.
  destruct (find_available cl1 o); try apply R_raise.
  eapply Rp_bind; [apply R_claim_nameplate|]. intros _. apply R_ret.
Qed.

Lemma R_release_nameplate name side w :
  R fatal (dbp TT) (eqQ (dbp TT)) (release_nameplate cfg B name side w)
    (release_nameplate cfg B name side w).
Proof.
  unfold release_nameplate. eapply R_bind.
  { apply (R_tx B c fatal TT (fun r1 r2 d1 d2 =>
        match r1, r2 with
        | Some i1, Some i2 => cor B d1 d2 i1 i2
        | None, None => True
        | _, _ => False
        end)).
    intros d1 d2 HD _. pose proof (release_mark_2 B d1 d2 name side HD) as H.
    destruct (release_mark_body d1 B name side) as [[i1 d1']|].
    - destruct H as (i2 & d2' & -> & HD' & Hc). exists (Some i2), d2'. auto.
    - rewrite H. exists None, d2. auto. }
  intros [i1|] [i2|]; try apply R_absurd.
  - eapply Rp_bind; [apply Rp_commit|]. intros _.
    eapply Rp_bind with (J := dbp TT).
    { apply R_tx_eq. intros d1 d2 HD Hc.
      destruct (release_delete_2 B cfg d1 d2 i1 i2 w HD Hc) as (r & d1' & d2' & -> & -> & HD').
      exists d2'. split; [reflexivity|]. split; [exact HD'|exact Logic.I]. }
    intros r2. destruct r2 as [unps|]; [|apply R_ret].
    eapply Rp_bind; [|intros _; apply Rp_commit].
    destruct (usage_on cfg); [|apply R_ret].
    eapply Rp_bind; [apply Rp_write_usage|]. intros _. apply Rp_commit_usage.
  - apply R_ret'. intros s1 s2 _. split; [reflexivity|exact Logic.I].
Qed.

Lemma R_add_message m r :
  msg_app r = B -> msg_mbox r = m ->
  R fatal (dbp (fun d1 _ => has_mb d1 B m)) (eqQ (dbp TT)) (add_message B m r) (add_message B m r).
Proof.
  intros Ha Hm. unfold add_message. eapply Rp_bind with (J := dbp TT).
  { apply R_tx_eq. intros d1 d2 HD H1. exists (upd_touch (ins_msg d2 r) m (msg_rx r)).
    split; [reflexivity|]. split; [apply DR_add_msg; assumption|exact Logic.I]. }
  intros _. eapply Rp_bind; [apply Rp_commit|]. intros _. apply R_send_subs.
Qed.

Lemma R_mailbox_close h side mood w :
  R fatal (dbp TT) (eqQ (dbp TT)) (mailbox_close cfg B h side mood w)
    (mailbox_close cfg B h side mood w).
Proof.
  unfold mailbox_close.
  eapply R_bind_eq with (J := fun r => dbp (fun d1 _ => r <> None -> has_mb d1 B h)).
  { eapply R_post; [|apply (R_tx B c fatal TT (fun (r1 r2 : option bool) d1 d2 =>
                               r1 = r2 /\ (r1 <> None -> has_mb d1 B h)))].
    - intros a1 a2 s1 s2 K0. exact K0.
    - intros d1 d2 HD _. pose proof (close_mark_2 B d1 d2 h side mood HD) as H.
      destruct (close_mark_body d1 B h side mood) as [[f d1']|].
      + destruct H as (d2' & -> & HD' & Hm). exists (Some f), d2'. auto.
      + rewrite H. exists None, d2. split; [reflexivity|]. split; [exact HD|].
        split; [reflexivity|]. intros K0. exfalso. apply K0. reflexivity. }
  intros r. destruct r as [fornp|].
  2:{ apply R_ret'. intros s1 s2 _. split; [reflexivity|exact Logic.I]. }
  eapply Rp_bind; [apply Rp_commit|]. intros _.
  eapply Rp_bind with (J := dbp TT).
  { apply R_tx_eq. intros d1 d2 HD Hm.
    destruct (close_delete_2 B cfg d1 d2 h fornp w HD) as (r & d1' & d2' & -> & -> & HD').
    { apply Hm. discriminate. }
    exists d2'. split; [reflexivity|]. split; [exact HD'|exact Logic.I]. }
  intros r2. destruct r2 as [[unps umbs]|]; [|apply R_ret].
  eapply Rp_bind.
  { destruct (usage_on cfg); [|apply R_ret].
    eapply Rp_bind; [apply Rp_write_usage|]. intros _. apply Rp_commit_usage. }
  intros _. eapply Rp_bind; [apply Rp_commit|]. intros _. apply Rp_stop_listeners.
Qed.

Lemma R_log_client_version side w cv :
  R fatal (dbp TT) (eqQ (dbp TT)) (log_client_version cfg B side w cv)
    (log_client_version cfg B side w cv).
Proof.
  unfold log_client_version. destruct (usage_on cfg); [|apply R_ret].
  eapply Rp_bind; [|intros _; apply Rp_commit_usage].
  apply Rp_utx. intros u1 u2 H. apply app_usage_cv. exact H.
Qed.

Lemma R_send_each l : R fatal (dbp TT) (eqQ (dbp TT)) (send_each c l) (send_each c l).
Proof. induction l as [|r l IH]; cbn [send_each]; rp. exact IH. Qed.

Lemma R_get_messages m :
  R fatal (dbp TT) (eqQ (dbp TT)) (get_messages B m) (get_messages B m).
Proof.
  unfold get_messages. eapply R_post; [|apply R_q with (V := eq)].
  - intros a1 a2 s1 s2 K0. exact K0.
  - intros d1 d2 HD _. rewrite (sel_msgs_2 d1 d2 m HD). reflexivity.
Qed.

Ltac rlem ::=
  first [ apply R_send_each | apply R_open_mailbox; apply npframe_TT | apply R_claim_nameplate
        | apply R_allocate_nameplate | apply R_release_nameplate | apply R_mailbox_close
        | apply R_log_client_version | apply R_get_messages ].

(** ** Websocket.v *)

Lemma R_handle_ping msg :
  R fatal (dbp TT) (eqQ (dbp TT)) (handle_ping c msg) (handle_ping c msg).
Proof. unfold handle_ping. rp. Qed.

Definition BindOK (msg : command) (s1 s2 : state) : Prop :=
  c_bound (conn_of s1 c) = None ->
  forall a sd, m_appid msg = Some a -> m_side msg = Some sd -> a = B.

Lemma R_handle_bind msg :
  R fatal (BindOK msg) (eqQ (dbp TT)) (handle_bind cfg c msg) (handle_bind cfg c msg).
Proof.
  unfold handle_bind. apply R_bind_conn_eq. intros cs Hcs.
  destruct (c_bound cs) eqn:Eb; [apply R_raise|].
  destruct (m_appid msg) as [a|] eqn:Ea; [|apply R_raise].
  destruct (m_side msg) as [sd|] eqn:Es; [|apply R_raise].
  assert (HR : R fatal (dbp TT) (eqQ (dbp TT))
                 (set_conn c (set_bound cs (Some (B, sd))) ;;;
                  s <- get ;;
                  log_client_version cfg B sd (now s)
                    (match m_client_version msg with Some cv => cv | None => (None, None) end))
                 (set_conn c (set_bound cs (Some (B, sd))) ;;;
                  s <- get ;;
                  log_client_version cfg B sd (now s)
                    (match m_client_version msg with Some cv => cv | None => (None, None) end))).
  { eapply Rp_bind.
    { apply Rp_set_conn. unfold other_app. cbn [c_bound set_bound]. rewrite seqb_refl. reflexivity. }
    intros _. rp. }
  intros s1 s2 Hs [Hb Ec]. unfold BindOK in Hb. rewrite Ec in Hb.
  pose proof (Hb Eb a sd Ea Es) as Eab. rewrite Eab.
  exact (HR s1 s2 Hs Logic.I).
Qed.

Lemma R_handle_list :
  R fatal (dbp TT) (eqQ (dbp TT)) (handle_list cfg c B) (handle_list cfg c B).
Proof.
  unfold handle_list. eapply R_bind.
  { apply R_q with (V := eq). intros d1 d2 HD _. rewrite (sel_names_2 d1 d2 HD). reflexivity. }
  intros n1 n2. cbv beta. apply R_pure. intros <-. rp.
Qed.

Lemma R_handle_allocate side o :
  R fatal (dbp TT) (eqQ (dbp TT)) (handle_allocate c B side o) (handle_allocate c B side o).
Proof. unfold handle_allocate. rp. Qed.

Lemma R_handle_claim side msg o :
  R fatal (dbp TT) (eqQ (dbp TT)) (handle_claim c B side msg o) (handle_claim c B side msg o).
Proof. unfold handle_claim. rp. Qed.

Lemma R_handle_release side msg :
  R fatal (dbp TT) (eqQ (dbp TT)) (handle_release cfg c B side msg) (handle_release cfg c B side msg).
Proof. unfold handle_release. rp. Qed.

Lemma R_handle_open side msg :
  R fatal (dbp TT) (eqQ (dbp TT)) (handle_open c B side msg) (handle_open c B side msg).
Proof.
  unfold handle_open. rp.
Qed.

Lemma R_handle_close side msg :
  R fatal (dbp TT) (eqQ (dbp TT)) (handle_close cfg c B side msg) (handle_close cfg c B side msg).
Proof. unfold handle_close. rp. Qed.

(** the mailbox the acting connection holds exists under B *)
Definition Held (s1 s2 : state) : Prop :=
  forall m, c_mailbox (conn_of s1 c) = Some m -> has_mb (chan_w s1) B m.

Lemma logfree_Held : logfree Held.
Proof. intros s1 s2 l1 l2 H. exact H. Qed.

Lemma R_handle_add side msg :
  R fatal Held (eqQ (dbp TT)) (handle_add c B side msg) (handle_add c B side msg).
Proof.
  unfold handle_add. apply R_bind_conn_eq. intros cs Hcs.
  destruct (c_mailbox cs) as [m|] eqn:Em; [|apply R_raise].
  destruct (m_phase msg) as [phase|]; [|apply R_raise].
  destruct (m_body msg) as [body|]; [|apply R_raise].
  apply R_bind_get. intros x y Hxy. cbv beta. rewrite (sm_now _ _ _ _ Hxy).
  eapply R_pre; [|apply R_add_message; reflexivity].
  intros s1 s2 _ [Hh Hc]. unfold dbp. apply Hh. rewrite Hc. exact Em.
Qed.

Definition AnyQ : unit -> unit -> state -> state -> Prop := fun _ _ _ _ => True.

Lemma R_weak I (m1 m2 : M unit) :
  R fatal (dbp TT) (eqQ (dbp TT)) m1 m2 -> R fatal I AnyQ m1 m2.
Proof.
  intros H. eapply R_conseq; [exact H|auto| |].
  - intros s1 s2 _ _. exact Logic.I.
  - intros a1 a2 s1 s2 _. exact Logic.I.
Qed.

Definition Pre0 (msg : command) (s1 s2 : state) : Prop :=
  Held s1 s2 /\ (m_type msg = Some TBind -> BindOK msg s1 s2).

Lemma logfree_Pre0 msg : logfree (Pre0 msg).
Proof. intros s1 s2 l1 l2 H. exact H. Qed.

Lemma R_dispatch t msg o :
  m_type msg = Some t ->
  R fatal (Pre0 msg) AnyQ (dispatch cfg c t msg o) (dispatch cfg c t msg o).
Proof.
  intros Et. unfold dispatch.
  destruct t; try (apply R_weak; apply R_handle_ping);
    try (eapply R_conseq; [apply (R_handle_bind msg)|auto|intros s1 s2 _ [_ H]; exact (H Et)|
                           intros a1 a2 s1 s2 _; exact Logic.I]);
    apply R_bind_conn; intros cs Hcs;
    (destruct (c_bound cs) as [[a side]|] eqn:Eb; [|apply R_raise]);
    (assert (Ea : a = B) by
       (unfold other_app in Hcs; rewrite Eb in Hcs; apply negb_false_iff in Hcs;
        apply seqb_eq; exact Hcs)); subst a.
  - apply R_weak. apply R_handle_list.
  - apply R_weak. apply R_handle_allocate.
  - apply R_weak. apply R_handle_claim.
  - apply R_weak. apply R_handle_release.
  - apply R_weak. apply R_handle_open.
  - eapply R_conseq; [apply R_handle_add|auto|intros s1 s2 _ [H _]; exact H|
                      intros a1 a2 s1 s2 _; exact Logic.I].
  - apply R_weak. apply R_handle_close.
  - apply R_raise.
Qed.

Lemma R_on_message msg o :
  R fatal (Pre0 msg) AnyQ (on_message cfg c msg o) (on_message cfg c msg o).
Proof.
  unfold on_message. apply R_try_catch.
  - destruct (m_type msg) as [t|] eqn:Et; [|apply R_raise].
    eapply Rp_bind; [apply Rp_send; apply logfree_Pre0|]. intros _. apply R_dispatch. exact Et.
  - intros e. destruct e; try apply R_raise.
    eapply R_post; [|apply Rp_send]. { intros a1 a2 s1 s2 _. exact Logic.I. }
    intros s1 s2 l1 l2 _. exact Logic.I.
  - intros e s Hbad. destruct e; cbn in *; try exact Logic.I; contradiction.
Qed.

End Ops.

(** * Another app's rows: what an operation of app A leaves of B's part *)

Section ViewOf.
Variable B : string.

Lemma sidesof_view d n :
  In n (app_nps d B) ->
  sidesof d n = map trip (filter (fun x => nps_npid x =? np_id n) (app_np_sides d B)).
Proof.
  intros Hn. unfold sidesof, sel_nps_all, app_np_sides. f_equal. symmetry.
  apply filter_filter_keep. intros x _ Hx. apply existsb_exists. exists n.
  apply app_nps_In in Hn. destruct Hn as [Hn Ha]. split; [exact Hn|].
  apply Z.eqb_eq in Hx. rewrite Hx, Z.eqb_refl, Ha, seqb_refl. reflexivity.
Qed.

Lemma VR_of_view d d' : app_view d' B = app_view d B -> VR B d d'.
Proof.
  unfold app_view. intros H. inversion H as [[H1 H2 H3 H4 H5]].
  split; [|auto]. unfold NP. rewrite H1. apply map_ext_in. intros n Hn.
  unfold npabs. f_equal. rewrite (sidesof_view d n Hn).
  rewrite <- H1 in Hn. rewrite (sidesof_view d' n Hn), H2. reflexivity.
Qed.

Lemma VR_trans d1 d2 d3 : VR B d1 d2 -> VR B d2 d3 -> VR B d1 d3.
Proof.
  intros (A1 & A2 & A3 & A4) (B1 & B2 & B3 & B4). unfold VR.
  rewrite B1, B2, B3, B4. auto.
Qed.

Lemma VR_sym d1 d2 : VR B d1 d2 -> VR B d2 d1.
Proof. intros (A1 & A2 & A3 & A4). unfold VR. auto. Qed.

Lemma DR_left d1 d1' d2 :
  DR B d1 d2 -> DbInv d1' -> app_view d1' B = app_view d1 B -> DR B d1' d2.
Proof.
  intros (I1 & I2 & V & O) I1' Hv. split; [exact I1'|]. split; [exact I2|]. split; [|exact O].
  apply (VR_trans d1' d1 d2); [|exact V]. apply VR_sym. apply VR_of_view. exact Hv.
Qed.

(** ** deleting another app's rows *)

Definition mfree2 (d : chan_db) (m : string) : Prop :=
  mfree B d m /\ forall x, In x (messages d) -> msg_app x = B -> msg_mbox x <> m.

Lemma iso_rm_mb d m : mfree2 d m -> iso B d (rm_mb d m).
Proof.
  intros [Hf Hg]. unfold rm_mb.
  apply iso_intro; cbn [nameplates np_sides mailboxes mb_sides messages]; try reflexivity.
  - apply filter_filter_keep. intros r Hr Hb. apply seqb_eq in Hb.
    apply negb_true_iff, seqb_neq. exact (Hf r Hr Hb).
  - intros x. apply existsb_filter_keep. intros r Hr Hb.
    apply andb_true_iff in Hb. destruct Hb as [_ Hb]. apply seqb_eq in Hb.
    apply negb_true_iff, seqb_neq. exact (Hf r Hr Hb).
  - apply filter_filter_keep. intros x _ Hb.
    apply negb_true_iff, seqb_neq. exact (mbB_ne B d m x Hf Hb).
  - apply filter_filter_keep. intros x Hx Hb. apply seqb_eq in Hb.
    apply negb_true_iff, seqb_neq. exact (Hg x Hx Hb).
Qed.

Lemma nfree_rm_np d i j : nfree B d j -> nfree B (rm_np d i) j.
Proof.
  intros H n Hn. unfold rm_np in Hn. cbn [nameplates] in Hn. apply filter_In in Hn.
  apply H. apply Hn.
Qed.

Lemma iso_rm_nps ids : forall d,
  (forall i, In i ids -> nfree B d i) -> iso B d (ViewFacts.rm_nps d ids).
Proof.
  induction ids as [|i ids IH]; intros d H; cbn [ViewFacts.rm_nps]; [apply iso_refl|].
  apply (iso_trans B d (rm_np d i)).
  - apply iso_rm_np. apply H. left. reflexivity.
  - apply IH. intros j Hj. apply nfree_rm_np. apply H. right. exact Hj.
Qed.

Lemma mfree2_rm_mb d m m' : mfree2 d m' -> mfree2 (rm_mb d m) m'.
Proof.
  intros [Hf Hg]. split.
  - intros r Hr. unfold rm_mb in Hr. cbn [mailboxes] in Hr. apply filter_In in Hr.
    apply Hf. apply Hr.
  - intros x Hx. unfold rm_mb in Hx. cbn [messages] in Hx. apply filter_In in Hx.
    apply Hg. apply Hx.
Qed.

Lemma iso_rm_mbs rows : forall d,
  (forall r, In r rows -> mfree2 d (mb_id r)) -> iso B d (ViewFacts.rm_mbs d rows).
Proof.
  induction rows as [|r rows IH]; intros d H; cbn [ViewFacts.rm_mbs]; [apply iso_refl|].
  apply (iso_trans B d (rm_mb d (mb_id r))).
  - apply iso_rm_mb. apply H. left. reflexivity.
  - apply IH. intros x Hx. apply mfree2_rm_mb. apply H. right. exact Hx.
Qed.

Lemma mfree2_rm_nps ids : forall d m, mfree2 d m -> mfree2 (ViewFacts.rm_nps d ids) m.
Proof.
  induction ids as [|i ids IH]; intros d m H; cbn [ViewFacts.rm_nps]; [exact H|].
  apply IH. exact H.
Qed.

Lemma mfree2_of d A m : B <> A -> DbInv d -> has_mb d A m -> mfree2 d m.
Proof.
  intros HAB Hinv Hm. split; [exact (mfree_of A B HAB d m Hinv Hm)|].
  intros x Hx Ha Em. apply HAB. apply (has_mb_app_unique d A B m Hinv Hm).
  rewrite <- Ha, <- Em. exact (inv_msg d Hinv x Hx).
Qed.

Lemma iso_prune_db d A old :
  B <> A -> DbInv d -> iso B d (ViewFacts.prune_db d A old).
Proof.
  intros HAB Hinv. unfold ViewFacts.prune_db.
  apply (iso_trans B d (ViewFacts.rm_nps d (map np_id (old_nameplates d A old)))).
  - apply iso_rm_nps. intros i Hi. apply in_map_iff in Hi. destruct Hi as [n [<- Hn]].
    unfold old_nameplates in Hn. apply filter_In in Hn. destruct Hn as [Hn _].
    apply sel_nps_of_app_In in Hn. destruct Hn as [Hn Ha].
    exact (nfree_of A B HAB d n (inv_np_id d Hinv) Hn Ha).
  - apply iso_rm_mbs. intros r Hr. apply mfree2_rm_nps.
    unfold old_mailboxes in Hr. apply filter_In in Hr. destruct Hr as [Hr _].
    apply sel_mbs_of_app_In in Hr. destruct Hr as [Hr Ha].
    apply (mfree2_of d A (mb_id r) HAB Hinv). exists r. auto.
Qed.

Lemma mfree_touch d m w m' : mfree B d m' -> mfree B (upd_touch d m w) m'.
Proof.
  intros H r Hr Ha. apply In_upd_touch_mb in Hr. destruct Hr as [r0 [Hr0 ->]].
  destruct (seqb (mb_id r0) m); cbn [mb_id mb_app] in *; apply (H r0 Hr0); exact Ha.
Qed.

Lemma iso_touch_all ms w : forall d,
  (forall m, In m ms -> mfree B d m) -> iso B d (touch_all d ms w).
Proof.
  induction ms as [|m ms IH]; intros d H; cbn [touch_all]; [apply iso_refl|].
  apply (iso_trans B d (upd_touch d m w)).
  - apply iso_upd_touch. apply H. left. reflexivity.
  - apply IH. intros m' Hm'. apply mfree_touch. apply H. right. exact Hm'.
Qed.

End ViewOf.

(** usage rows written by a sweep of app A *)
Lemma del_mailboxes_app cfg A w rows : forall d acc, Pmb A acc ->
  match del_mailboxes_body cfg d A rows w acc with
  | TxOk r _ => Pmb A r
  | TxFail _ _ => True
  end.
Proof.
  induction rows as [|r rest IH]; intros d acc Hacc; cbn [del_mailboxes_body].
  - exact Hacc.
  - unfold del_mailbox_body. cbv zeta.
    destruct (del_mb (del_mbs_of (del_msgs_of d (mb_id r)) (mb_id r)) (mb_id r)); [|exact I].
    apply IH. apply Forall_app. split; [exact Hacc|].
    destruct (usage_on cfg); [|constructor]. constructor; [reflexivity|constructor].
Qed.

Lemma prune_body_app cfg d A w old :
  match prune_body cfg d A w old with
  | TxOk r _ => Pnp A (snd (fst r)) /\ Pmb A (snd r)
  | TxFail _ _ => True
  end.
Proof.
  unfold prune_body. cbv zeta.
  pose proof (del_nameplates_app A cfg w true (map np_id (old_nameplates d A old)) d []
                (Forall_nil _)) as H1.
  destruct (del_nameplates_body cfg d A (map np_id (old_nameplates d A old)) w true [])
    as [unps d1|]; [|exact I].
  pose proof (del_mailboxes_app cfg A w (old_mailboxes d A old) d1 [] (Forall_nil _)) as H2.
  destruct (del_mailboxes_body cfg d1 A (old_mailboxes d A old) w []) as [umbs d2|]; [|exact I].
  cbn [fst snd]. auto.
Qed.

(** * Sweeps, two runs *)

Definition none : exn -> Prop := fun _ => False.

(** what the single-run sweep lemmas need of the full run's state *)
Definition SI (s1 s2 : state) : Prop := RInv s1 /\ clean s1 /\ SweepFacts.subs_live s1.

Section Sweep.
Variable cfg : config.
Hypothesis Hexp : 0 < exp cfg.
Variable B : string.
Variable c : nat.

Local Notation R := (R B c).
Local Notation sim := (sim B c).

Lemma sim_left s1 s2 t :
  sim s1 s2 -> DR B (chan_w t) (chan_w s2) -> app_usage (usage_w t) B = app_usage (usage_w s1) B ->
  frames_of (log t) = frames_of (log s1) -> subs t = subs s1 -> conns t = conns s1 ->
  now t = now s1 -> timer_start t = timer_start s1 -> next_due t = next_due s1 ->
  sim t s2.
Proof.
  intros Hs HD Hu Hl E1 E2 E3 E4 E5.
  destruct Hs as [Xdb Xu Xsubs Xconns Xnow Xdue Xstart Xfl Xvis Xsb Xact]. constructor;
    rewrite ?E1, ?E2, ?E3, ?E4, ?E5, ?Hl; auto. congruence.
Qed.

Lemma prune_app_left A w old s1 s2 :
  B <> A -> old < w -> sim s1 s2 -> SI s1 s2 ->
  exists t1, prune_app cfg A w old s1 = Ok tt t1 /\ sim t1 s2 /\ SI t1 s2.
Proof.
  intros HAB Hlt Hs (HR & HC & HL).
  pose proof (prune_app_char cfg Hexp A w old s1 HR HC Hlt HL) as W. unfold wp in W.
  pose proof (sm_db _ _ _ _ Hs) as HD. pose proof HD as (I1 & I2 & V & O).
  set (d0 := touch_all (chan_w s1) (listened_mailboxes A (subs s1)) w) in *.
  assert (I0 : DbInv d0) by (apply (touch_all_ok (chan_w s1) _ w I1)).
  destruct (ViewFacts.prune_char cfg d0 A w old I0) as (unps & umbs & Ep & Ip).
  pose proof (prune_body_app cfg d0 A w old) as Happ. rewrite Ep in Happ. cbn [fst snd] in Happ.
  destruct Happ as [Hnp Hmb].
  assert (Hiso : app_view (ViewFacts.prune_db d0 A old) B = app_view (chan_w s1) B).
  { apply (iso_trans B (chan_w s1) d0).
    - apply iso_touch_all. intros m Hm. apply SweepFacts.listened_mailboxes_In in Hm.
      apply (mfree_of A B HAB (chan_w s1) m I1). apply HL. exact Hm.
    - apply iso_prune_db; assumption. }
  assert (HD' : DR B (ViewFacts.prune_db d0 A old) (chan_w s2)) by (apply (DR_left B (chan_w s1)); assumption).
  assert (Hu : app_usage (fold_left uins_mb umbs (fold_left uins_np unps (usage_w s1))) B =
               app_usage (usage_w s1) B).
  { rewrite (fold_mb_usage A B HAB) by exact Hmb. apply (fold_np_usage A B HAB). exact Hnp. }
  revert W. unfold prune_app, bind, get, tx, commit_chan. cbn [chan_w set_chan_w]. fold d0.
  cbn [chan_w]. rewrite Ep.
  destruct (usage_on cfg); destruct (ViewFacts.prune_flag d0 A old);
    unfold write_usage, utx, commit_usage, commit_chan, ret;
    cbn [chan_w chan_c usage_w usage_c subs conns now boot timer_start next_due log set_usage_w];
    intros (G & L' & _); (eexists; split; [reflexivity|]);
    (split; [apply (sim_left s1 s2 _ Hs); [exact HD'|first [exact Hu|reflexivity]|reflexivity..]|]);
    (split; [apply G|split; [apply G|exact L']]).
Qed.


Lemma R_q_gen {A} bad (I : state -> state -> Prop) (V : A -> A -> Prop) (f1 f2 : chan_db -> A) :
  (forall s1 s2, sim s1 s2 -> I s1 s2 -> V (f1 (chan_w s1)) (f2 (chan_w s2))) ->
  R bad I (fun a1 a2 s1 s2 => V a1 a2 /\ I s1 s2) (q f1) (q f2).
Proof.
  intros H s1 s2 Hs Hi. unfold q. exists (f2 (chan_w s2)), s2. split; [reflexivity|].
  split; [exact Hs|]. split; [exact (H s1 s2 Hs Hi)|exact Hi].
Qed.

Lemma R_and_wp {A} bad (I : state -> state -> Prop) (Q : A -> A -> state -> state -> Prop) (P : state -> Prop) (m1 m2 : M A) :
  R bad I Q m1 m2 ->
  (forall s1 s2, sim s1 s2 -> I s1 s2 -> wp m1 (fun _ t1 => P t1) (fun _ _ => True) s1) ->
  R bad I (fun a1 a2 t1 t2 => Q a1 a2 t1 t2 /\ P t1) m1 m2.
Proof.
  intros H HP s1 s2 Hs Hi. specialize (H s1 s2 Hs Hi). specialize (HP s1 s2 Hs Hi).
  unfold wp in HP. destruct (m1 s1) as [a1 t1|e t1]; [|exact H].
  destruct H as (a2 & t2 & E & Ht & Hq). exists a2, t2. auto.
Qed.

Lemma listened_isB l : listened_mailboxes B (filter (isB B) l) = listened_mailboxes B l.
Proof.
  unfold listened_mailboxes. do 2 f_equal. apply filter_filter_keep. intros p _ H. exact H.
Qed.

Lemma R_prune_app_B bad w old :
  R bad (dbp TT) (eqQ (dbp TT)) (prune_app cfg B w old) (prune_app cfg B w old).
Proof.
  unfold prune_app. apply R_bind_get. intros x y Hxy. cbv beta.
  rewrite (sm_subs _ _ _ _ Hxy), listened_isB.
  eapply Rp_bind with (J := dbp TT).
  { apply R_tx_eq. intros d1 d2 HD _. eexists. split; [reflexivity|].
    split; [apply DR_touch_all; exact HD|exact I]. }
  intros _. eapply Rp_bind; [apply Rp_commit|]. intros _.
  eapply Rp_bind with (J := dbp TT).
  { apply R_tx_eq. intros d1 d2 HD _.
    destruct (prune_body_2 B cfg d1 d2 w old HD) as (r & d1' & d2' & -> & -> & HD').
    exists d2'. split; [reflexivity|]. split; [exact HD'|exact I]. }
  intros [[mo unps] umbs].
  eapply Rp_bind. { destruct (usage_on cfg); [apply Rp_write_usage|apply R_ret]. }
  intros _. destruct mo; [|apply R_ret].
  eapply Rp_bind; [apply Rp_commit|]. intros _.
  destruct (usage_on cfg); [apply Rp_commit_usage|apply R_ret].
Qed.

Lemma R_prune_app_B_SI w old :
  old < w ->
  R none SI (fun _ _ => SI) (prune_app cfg B w old) (prune_app cfg B w old).
Proof.
  intros Hlt.
  eapply R_conseq;
    [apply (R_and_wp none SI (eqQ (dbp TT))
              (fun t1 => RInv t1 /\ clean t1 /\ SweepFacts.subs_live t1))| | |].
  - eapply R_pre; [|apply R_prune_app_B]. intros s1 s2 _ _. exact I.
  - intros s1 s2 Hs (HR & HC & HL).
    eapply wp_conseq; [exact (prune_app_char cfg Hexp B w old s1 HR HC Hlt HL)| |].
    + intros [] t1 (G & L' & _). split; [apply G|split; [apply G|exact L']].
    + intros e t1 [].
  - auto.
  - intros s1 s2 _ H. exact H.
  - intros a1 a2 t1 t2 [_ H]. exact H.
Qed.

Lemma R_prune_apps w old :
  old < w -> forall apps,
  R none SI (fun _ _ => SI) (prune_apps cfg apps w old) (prune_apps cfg (filter (seqb B) apps) w old).
Proof.
  intros Hlt. induction apps as [|a apps IH]; cbn [prune_apps filter].
  - apply R_ret'. auto.
  - destruct (seqb B a) eqn:E.
    + apply seqb_eq in E. destruct E. cbn [prune_apps].
      eapply R_bind; [apply R_prune_app_B_SI; exact Hlt|]. intros ? ?. exact IH.
    + apply seqb_neq in E. intros s1 s2 Hs Hi. unfold bind.
      destruct (prune_app_left a w old s1 s2 E Hlt Hs Hi) as (t1 & -> & Ht & Hi').
      exact (IH t1 s2 Ht Hi').
Qed.

Lemma in_map_filter {X} (f : X -> string) b l :
  In b (map f l) <-> filter (fun x => seqb (f x) b) l <> [].
Proof.
  induction l as [|y l IH]; cbn [map filter In].
  - split; [intros []|intros H; apply H; reflexivity].
  - destruct (seqb (f y) b) eqn:E.
    + apply seqb_eq in E. split; [intros _; discriminate|intros _; left; exact E].
    + apply seqb_neq in E. rewrite <- IH. split; [intros [K|K]; [contradiction|exact K]|auto].
Qed.

Lemma in_apps_B d :
  In B (sel_all_apps d) <-> app_nps d B <> [] \/ app_mbs d B <> [] \/ app_msgs d B <> [].
Proof.
  unfold sel_all_apps. rewrite sdedup_In, !in_app_iff, !in_map_filter. reflexivity.
Qed.

Lemma single_eq (l l' : list string) :
  NoDup l -> NoDup l' -> (forall x, In x l -> x = B) -> (forall x, In x l' -> x = B) ->
  (In B l <-> In B l') -> l = l'.
Proof.
  assert (Hs : forall l : list string, NoDup l -> (forall x, In x l -> x = B) -> l = [] \/ l = [B]).
  { intros k Hn Ha. destruct k as [|x k]; [left; reflexivity|right].
    assert (x = B) by (apply Ha; left; reflexivity). subst x.
    destruct k as [|y k]; [reflexivity|exfalso].
    assert (y = B) by (apply Ha; right; left; reflexivity). subst y.
    inversion Hn as [|? ? Hnin _]. apply Hnin. left. reflexivity. }
  intros N N' A A' Hiff.
  destruct (Hs l N A) as [E|E]; destruct (Hs l' N' A') as [E'|E']; subst l l'; try reflexivity; exfalso.
  - destruct Hiff as [_ K]. destruct K. left. reflexivity.
  - destruct Hiff as [K _]. destruct K. left. reflexivity.
Qed.

Lemma apps_2 d1 d2 :
  DR B d1 d2 -> ssort (sel_all_apps d2) = filter (seqb B) (ssort (sel_all_apps d1)).
Proof.
  intros (I1 & I2 & V & O). apply single_eq.
  - apply NpFactsA.ssort_NoDup. apply NpFactsA.sdedup_NoDup.
  - apply NoDup_filter. apply NpFactsA.ssort_NoDup. apply NpFactsA.sdedup_NoDup.
  - intros x Hx. apply (proj1 (SweepFacts.ssort_In _ _)) in Hx. unfold sel_all_apps in Hx.
    rewrite sdedup_In, !in_app_iff, !in_map_iff in Hx.
    destruct Hx as [[n [<- Hn]]|[[r [<- Hr]]|[m [<- Hm]]]].
    + rewrite <- (onlyB_nps B d2 I2 O) in Hn. apply app_nps_In in Hn. apply Hn.
    + apply O. exact Hr.
    + rewrite <- (onlyB_msgs B d2 I2 O) in Hm. unfold app_msgs in Hm. apply filter_In in Hm.
      apply seqb_eq. apply Hm.
  - intros x Hx. apply filter_In in Hx. destruct Hx as [_ Hx]. apply seqb_eq in Hx. auto.
  - rewrite filter_In, seqb_refl, !SweepFacts.ssort_In, !in_apps_B.
    pose proof (VR_len B d1 d2 V) as Hl. destruct V as (_ & V2 & _ & V4). rewrite V2, V4.
    assert (En : app_nps d2 B <> [] <-> app_nps d1 B <> []).
    { destruct (app_nps d1 B), (app_nps d2 B); cbn [List.length] in Hl; try discriminate;
        split; intros K; try exact K; try discriminate; exfalso; apply K; reflexivity. }
    rewrite En. tauto.
Qed.

Lemma R_dump_stats bad w b1 b2 :
  R bad (dbp TT) AnyQ (dump_stats cfg w b1) (dump_stats cfg w b2).
Proof.
  unfold dump_stats. destruct (usage_on cfg).
  - apply R_bind_get. intros x y Hxy. cbv beta.
    eapply Rp_bind; [apply Rp_utx; intros u1 u2 H; exact H|]. intros _.
    eapply R_post; [|apply Rp_commit_usage]. intros a1 a2 s1 s2 _. exact I.
  - apply R_ret'. intros s1 s2 _. exact I.
Qed.

Lemma R_expire fault : R none SI AnyQ (expire cfg fault) (expire cfg fault).
Proof.
  unfold expire. apply R_bind_get. intros x y Hxy. cbv beta. rewrite (sm_now _ _ _ _ Hxy).
  eapply R_bind with (Q := fun _ _ => dbp TT).
  - destruct fault.
    + apply R_ret'. intros s1 s2 _. exact I.
    + apply R_try_catch.
      * unfold prune_all_apps. eapply R_bind.
        { apply R_q_gen with (V := fun l1 l2 : list string => l2 = filter (seqb B) l1).
          intros s1 s2 Hs _. apply apps_2. exact (sm_db _ _ _ _ Hs). }
        intros l1 l2. cbv beta. apply R_pure. intros ->.
        eapply R_post; [|apply R_prune_apps; lia]. intros a1 a2 s1 s2 _. exact I.
      * intros e. apply R_ret'. intros s1 s2 _. exact I.
      * intros e s [].
  - intros ? ?. apply R_dump_stats.
Qed.

End Sweep.

(** * One run: what a command of a bound connection leaves alone
    (clock, timer, connection ids, every binding, every fresh record) *)

Section KFrame.
Variable cfg : config.
Variable c : nat.
Variable b : string * string.

Definition krel (s s' : state) : Prop :=
  now s' = now s /\ next_due s' = next_due s /\ timer_start s' = timer_start s /\
  map fst (conns s') = map fst (conns s) /\
  forall c', c_bound (conn_of s' c') = c_bound (conn_of s c') /\
             (conn_of s c' = new_conn -> conn_of s' c' = new_conn).

Definition KP {A} (m : M A) : Prop :=
  forall s, c_bound (conn_of s c) = Some b ->
  match m s with Ok _ s' => krel s s' | Exn _ s' => krel s s' end.

Lemma krel_refl s : krel s s.
Proof. repeat split; auto. Qed.

Lemma krel_trans s1 s2 s3 : krel s1 s2 -> krel s2 s3 -> krel s1 s3.
Proof.
  intros (A1 & A2 & A3 & A4 & A5) (B1 & B2 & B3 & B4 & B5).
  split; [congruence|]. split; [congruence|]. split; [congruence|]. split; [congruence|].
  intros c'. destruct (A5 c') as [X1 X2], (B5 c') as [Y1 Y2]. split; [congruence|auto].
Qed.

Lemma krel_same s s' :
  now s' = now s -> next_due s' = next_due s -> timer_start s' = timer_start s ->
  conns s' = conns s -> krel s s'.
Proof.
  intros E1 E2 E3 E4. unfold krel, conn_of. rewrite E1, E2, E3, E4. repeat split; auto.
Qed.

Lemma krel_bound s s' : krel s s' -> c_bound (conn_of s c) = Some b -> c_bound (conn_of s' c) = Some b.
Proof. intros (_ & _ & _ & _ & H) Hb. destruct (H c) as [E _]. congruence. Qed.

Lemma KP_bind {A C} (m : M A) (k : A -> M C) : KP m -> (forall a, KP (k a)) -> KP (bind m k).
Proof.
  intros Hm Hk s Hb. unfold bind. specialize (Hm s Hb). destruct (m s) as [a s1|e s1]; [|exact Hm].
  specialize (Hk a s1 (krel_bound s s1 Hm Hb)).
  destruct (k a s1) as [a2 s2|e s2]; exact (krel_trans _ _ _ Hm Hk).
Qed.

Lemma KP_try_catch {A} (m : M A) (h : exn -> M A) : KP m -> (forall e, KP (h e)) -> KP (try_catch m h).
Proof.
  intros Hm Hh s Hb. unfold try_catch. specialize (Hm s Hb). destruct (m s) as [a s1|e s1]; [exact Hm|].
  specialize (Hh e s1 (krel_bound s s1 Hm Hb)).
  destruct (h e s1) as [a2 s2|e2 s2]; exact (krel_trans _ _ _ Hm Hh).
Qed.

Lemma KP_ret {A} (a : A) : KP (ret a).
Proof. intros s _. apply krel_refl. Qed.
Lemma KP_raise {A} e : KP (@raise A e).
Proof. intros s _. apply krel_refl. Qed.
Lemma KP_get : KP get.
Proof. intros s _. apply krel_refl. Qed.
Lemma KP_q {A} (f : chan_db -> A) : KP (q f).
Proof. intros s _. apply krel_refl. Qed.
Lemma KP_tx {A} (f : chan_db -> txres A) : KP (tx f).
Proof. intros s _. unfold tx. destruct (f (chan_w s)); apply krel_same; reflexivity. Qed.
Lemma KP_utx f : KP (utx f).
Proof. intros s _. apply krel_same; reflexivity. Qed.
Lemma KP_commit_chan : KP commit_chan.
Proof. intros s _. apply krel_same; reflexivity. Qed.
Lemma KP_commit_usage : KP commit_usage.
Proof. intros s _. apply krel_same; reflexivity. Qed.
Lemma KP_send c' f : KP (send c' f).
Proof. intros s _. apply krel_same; reflexivity. Qed.
Lemma KP_add_sub a m c' : KP (add_sub a m c').
Proof.
  intros s _. unfold add_sub. destruct (existsb (sub_is a m c') (subs s)); apply krel_same; reflexivity.
Qed.
Lemma KP_remove_sub a m c' : KP (remove_sub a m c').
Proof. intros s _. apply krel_same; reflexivity. Qed.

Lemma KP_get_conn_bind {C} (k : conn_state -> M C) :
  (forall X, c_bound X = Some b -> KP (k X)) -> KP (bind (get_conn c) k).
Proof. intros H s Hb. rewrite bind_get_conn. exact (H (conn_of s c) Hb s Hb). Qed.

Lemma KP_set_conn X : c_bound X = Some b -> KP (set_conn c X).
Proof.
  intros HX s Hb. unfold set_conn.
  split; [reflexivity|]. split; [reflexivity|]. split; [reflexivity|].
  split; [cbn [conns set_conns]; apply update_conn_fst|].
  intros c'. unfold conn_of in *. cbn [conns set_conns].
  destruct (Nat.eq_dec c' c) as [->|N].
  - destruct (lookup_conn c (conns s)) as [cs0|] eqn:E; [|discriminate].
    rewrite (lookup_update_same c X (conns s) cs0 E). split; [congruence|].
    intros K. rewrite K in Hb. discriminate.
  - rewrite (lookup_update_other c c' X (conns s) N). auto.
Qed.

Lemma KP_stop_listeners a m : KP (stop_listeners a m).
Proof.
  intros s _. unfold stop_listeners. cbv zeta.
  split; [reflexivity|]. split; [reflexivity|]. split; [reflexivity|].
  split.
  - cbn [conns set_conns set_subs].
    apply (map_if_fst (fun n => existsb (Nat.eqb n) (subs_of a m (subs s))) stop_listener).
  - intros c'. unfold conn_of. cbn [conns set_conns set_subs].
    rewrite (lookup_map_if (fun n => existsb (Nat.eqb n) (subs_of a m (subs s))) stop_listener).
    destruct (lookup_conn c' (conns s)) as [cs|]; [|auto].
    destruct (existsb (Nat.eqb c') (subs_of a m (subs s))); [|auto].
    split; [reflexivity|]. intros ->. reflexivity.
Qed.

Create HintDb kpdb.

Ltac kp1 :=
  cbv beta;
  lazymatch goal with
  | |- KP (bind (get_conn _) _) =>
      apply KP_get_conn_bind; let X := fresh "X" in let H := fresh "HX" in intros X H
  | |- KP (bind _ _) => apply KP_bind; [|intros ?]
  | |- KP (ret _) => apply KP_ret
  | |- KP (raise _) => apply KP_raise
  | |- KP err => apply KP_raise
  | |- KP (try_catch _ _) => apply KP_try_catch; [|intros ?]
  | |- KP (catch_crowded _) => apply KP_try_catch; [|intros ?]
  | |- KP (catch_crowded_reclaimed _) => apply KP_try_catch; [|intros ?]
  | |- KP get => apply KP_get
  | |- KP (q _) => apply KP_q
  | |- KP (tx _) => apply KP_tx
  | |- KP (utx _) => apply KP_utx
  | |- KP (write_usage _ _) => apply KP_utx
  | |- KP commit_chan => apply KP_commit_chan
  | |- KP commit_usage => apply KP_commit_usage
  | |- KP (send _ _) => apply KP_send
  | |- KP (set_conn _ _) => apply KP_set_conn; assumption
  | |- KP (add_sub _ _ _) => apply KP_add_sub
  | |- KP (remove_sub _ _ _) => apply KP_remove_sub
  | |- KP (stop_listeners _ _) => apply KP_stop_listeners
  | |- KP (get_messages _ _) => apply KP_q
  | |- KP (if ?x then _ else _) => destruct x
  | |- KP (match ?x with _ => _ end) => destruct x
  | |- KP _ => solve [eauto with kpdb]
  end.

Lemma KP_open_mailbox a m side w : KP (open_mailbox a m side w).
Proof. unfold open_mailbox. repeat kp1. Qed.
Local Hint Resolve KP_open_mailbox : kpdb.

Lemma KP_claim_nameplate a name side w draw : KP (claim_nameplate a name side w draw).
Proof. unfold claim_nameplate. repeat kp1. Qed.
Local Hint Resolve KP_claim_nameplate : kpdb.

Lemma KP_allocate_nameplate a side w o draw : KP (allocate_nameplate a side w o draw).
Proof. unfold allocate_nameplate. repeat kp1. Qed.
Local Hint Resolve KP_allocate_nameplate : kpdb.

Lemma KP_release_nameplate a name side w : KP (release_nameplate cfg a name side w).
Proof. unfold release_nameplate. repeat kp1. Qed.
Local Hint Resolve KP_release_nameplate : kpdb.

Lemma KP_send_all cs f : KP (send_all cs f).
Proof. induction cs as [|c1 rest IH]; cbn [send_all]; repeat kp1. Qed.
Local Hint Resolve KP_send_all : kpdb.

Lemma KP_add_message a m r : KP (add_message a m r).
Proof. unfold add_message. repeat kp1. Qed.
Local Hint Resolve KP_add_message : kpdb.

Lemma KP_mailbox_close a m side mood w : KP (mailbox_close cfg a m side mood w).
Proof. unfold mailbox_close. repeat kp1. Qed.
Local Hint Resolve KP_mailbox_close : kpdb.

Lemma KP_log_client_version a side w cv : KP (log_client_version cfg a side w cv).
Proof. unfold log_client_version. repeat kp1. Qed.
Local Hint Resolve KP_log_client_version : kpdb.

Lemma KP_send_each c' l : KP (send_each c' l).
Proof. induction l as [|r rest IH]; cbn [send_each]; repeat kp1. Qed.
Local Hint Resolve KP_send_each : kpdb.

Lemma KP_handle_ping msg : KP (handle_ping c msg).
Proof. unfold handle_ping. repeat kp1. Qed.

Lemma KP_handle_bind msg : KP (handle_bind cfg c msg).
Proof.
  unfold handle_bind. apply KP_get_conn_bind. intros X HX. rewrite HX. apply KP_raise.
Qed.

Lemma KP_handle_list a : KP (handle_list cfg c a).
Proof. unfold handle_list. repeat kp1. Qed.
Lemma KP_handle_allocate a side o : KP (handle_allocate c a side o).
Proof. unfold handle_allocate. repeat kp1. Qed.
Lemma KP_handle_claim a side msg o : KP (handle_claim c a side msg o).
Proof. unfold handle_claim. repeat kp1. Qed.
Lemma KP_handle_release a side msg : KP (handle_release cfg c a side msg).
Proof. unfold handle_release. repeat kp1. Qed.
Lemma KP_handle_open a side msg : KP (handle_open c a side msg).
Proof. unfold handle_open. repeat kp1. Qed.
Lemma KP_handle_add a side msg : KP (handle_add c a side msg).
Proof. unfold handle_add. repeat kp1. Qed.
Lemma KP_handle_close a side msg : KP (handle_close cfg c a side msg).
Proof. unfold handle_close. repeat kp1. Qed.

Lemma KP_dispatch t msg o : KP (dispatch cfg c t msg o).
Proof.
  unfold dispatch.
  destruct t; try apply KP_handle_ping; try apply KP_handle_bind;
    apply KP_get_conn_bind; intros X HX; rewrite HX; destruct b as [a side].
  - apply KP_handle_list.
  - apply KP_handle_allocate.
  - apply KP_handle_claim.
  - apply KP_handle_release.
  - apply KP_handle_open.
  - apply KP_handle_add.
  - apply KP_handle_close.
  - apply KP_raise.
Qed.

Lemma KP_on_message msg o : KP (on_message cfg c msg o).
Proof.
  unfold on_message. apply KP_try_catch.
  - destruct (m_type msg) as [t|]; [|apply KP_raise].
    apply KP_bind; [apply KP_send|]. intros _. apply KP_dispatch.
  - intros e. destruct e; try apply KP_raise. apply KP_send.
Qed.

End KFrame.

(** * Events *)

Lemma max_ge (l : list nat) x : In x l -> (x <= fold_right Nat.max 0 l)%nat.
Proof.
  induction l as [|y l IH]; cbn [fold_right In]; [intros []|].
  intros [->|H]; [apply Nat.le_max_l|]. specialize (IH H). lia.
Qed.

Lemma fresh_nat (l : list (nat * conn_state)) : exists c0, lookup_conn c0 l = None.
Proof.
  exists (S (fold_right Nat.max 0%nat (map fst l))). apply lookup_none. intros H.
  apply max_ge in H. lia.
Qed.

Lemma absB_of_view B d d' : app_view d' B = app_view d B -> absB B d' = absB B d.
Proof. intros H. apply absB_VR. apply VR_of_view. exact H. Qed.

Section Top.
Variable cfg : config.
Hypothesis Hexp : 0 < exp cfg.
Variable B : string.

Local Notation era := (era B).
Local Notation isB := (isB B).

Lemma map_fst_era l : map fst (map era l) = map fst l.
Proof. rewrite map_map. apply map_ext. intros [c1 cs1]. reflexivity. Qed.

Lemma relB_set_log s1 s2 l1 l2 : relB B s1 s2 -> relB B (set_log s1 l1) (set_log s2 l2).
Proof. intros H. destruct H. constructor; assumption. Qed.

Lemma has_conn_rel s1 s2 c0 : relB B s1 s2 -> has_conn c0 s2 = has_conn c0 s1.
Proof.
  intros H. unfold has_conn. rewrite (rb_conns _ _ _ H).
  change (fun p : nat * conn_state => (fst p, eraseA B (snd p))) with era. rewrite lookup_era.
  destruct (lookup_conn c0 (conns s1)); reflexivity.
Qed.

Lemma clean_fields s : clean s -> chan_c s = chan_w s /\ usage_c s = usage_w s.
Proof. intros [E1 E2]. auto. Qed.

Lemma relB_of_sim c t1 t2 :
  sim B c t1 t2 -> chan_c t1 = chan_w t1 -> usage_c t1 = usage_w t1 ->
  chan_c t2 = chan_w t2 -> usage_c t2 = usage_w t2 -> relB B t1 t2.
Proof.
  intros Hs E1 E2 E3 E4. destruct Hs as [Xdb Xu Xsubs Xconns Xnow Xdue Xstart Xfl Xvis Xsb Xact].
  destruct Xdb as (I1 & I2 & V & O). apply absB_VR in V.
  constructor; rewrite ?E1, ?E2, ?E3, ?E4; assumption.
Qed.

Lemma sim_of_relB c s1 s2 :
  SInv s1 -> SInv s2 -> log s1 = [] -> log s2 = [] -> relB B s1 s2 -> visc B (conns s1) c ->
  sim B c s1 s2.
Proof.
  intros H1 H2 L1 L2 Hr Hc. destruct Hr. constructor; try assumption.
  - split; [exact (si_db s1 H1)|]. split; [exact (si_db s2 H2)|].
    split; [apply absB_VR; assumption|assumption].
  - rewrite L1, L2. reflexivity.
  - rewrite L1. intros c' f [].
  - intros m c' Hin. destruct (si_subs s1 H1 _ Hin) as [_ (cs & side & Hl & Hb & _)].
    unfold visc. rewrite Hl. unfold other_app. rewrite Hb, seqb_refl. reflexivity.
Qed.

Lemma framesB_vis s l :
  (forall c' f, In (c', f) (frames_of l) -> visc B (conns s) c') -> framesB B s l = frames_of l.
Proof.
  intros H. unfold framesB. apply filter_all_true. intros [c' f] Hin. cbn [fst].
  specialize (H c' f Hin). unfold visc in H.
  destruct (lookup_conn c' (conns s)); [rewrite H|]; reflexivity.
Qed.

Lemma finish c t1 t2 :
  sim B c t1 t2 -> clean t1 -> clean t2 ->
  relB B (set_log t1 []) (set_log t2 []) /\
  framesB B (set_log t1 []) (rev (log t1)) = frames_of (rev (log t2)).
Proof.
  intros Hs C1 C2. destruct (clean_fields _ C1) as [E1 E2]. destruct (clean_fields _ C2) as [E3 E4].
  split; [apply relB_set_log; exact (relB_of_sim c t1 t2 Hs E1 E2 E3 E4)|].
  rewrite framesB_vis.
  - rewrite !ViewFacts.frames_of_rev, (sm_fl _ _ _ _ Hs). reflexivity.
  - intros c' f Hin. rewrite ViewFacts.frames_of_rev in Hin. apply in_rev in Hin.
    exact (sm_vis _ _ _ _ Hs c' f Hin).
Qed.

Lemma step_clean s e : SInv s -> clean (fst (step cfg s e)) /\ log (fst (step cfg s e)) = [].
Proof.
  intros H. pose proof (step_spec cfg Hexp s e H) as W. destruct (step cfg s e) as [s' o].
  cbn [fst]. destruct W as (W1 & W2 & _). split; [exact (si_clean s' W1)|exact W2].
Qed.

(** ** a command of a connection that is not bound to another app *)

Lemma held_ok s c cs :
  SInv s -> lookup_conn c (conns s) = Some cs -> other_app B cs = false ->
  forall m, c_mailbox cs = Some m -> has_mb (chan_w s) B m.
Proof.
  intros HS Hl Ho m Hm. pose proof (si_conns s HS c cs Hl) as Hok. unfold conn_ok in Hok.
  rewrite Hm in Hok. destruct Hok as (a & side & Hb & _ & Hin).
  destruct (si_subs s HS _ Hin) as [Hmb _].
  unfold other_app in Ho. rewrite Hb in Ho. apply negb_false_iff, seqb_eq in Ho. subst a. exact Hmb.
Qed.

Lemma kept_cmd s1 s2 c msg o cs :
  SInv s1 -> SInv s2 -> log s1 = [] -> log s2 = [] -> relB B s1 s2 ->
  lookup_conn c (conns s1) = Some cs -> other_app B cs = false ->
  (c_bound cs = None -> m_type msg = Some TBind ->
   forall a sd, m_appid msg = Some a -> m_side msg = Some sd -> a = B) ->
  no_failure cfg s1 (EB (ECmd c msg o)) ->
  let '(s1', o1) := step cfg s1 (EB (ECmd c msg o)) in
  let '(s2', o2) := step cfg s2 (EB (ECmd c msg o)) in
  relB B s1' s2' /\ framesB B s1' (o_log o1) = frames_of (o_log o2) /\ o_exc o2 = None.
Proof.
  intros H1 H2 L1 L2 Hr Hl Ho Hb Hnf.
  assert (Hl2 : lookup_conn c (conns s2) = Some cs).
  { rewrite (rb_conns _ _ _ Hr).
    change (fun p : nat * conn_state => (fst p, eraseA B (snd p))) with era.
    rewrite lookup_era, Hl. cbn [option_map]. rewrite (eraseA_vis B cs Ho). reflexivity. }
  assert (Hv : visc B (conns s1) c) by (unfold visc; rewrite Hl; exact Ho).
  pose proof (sim_of_relB c s1 s2 H1 H2 L1 L2 Hr Hv) as Hs.
  assert (Ec : conn_of s1 c = cs) by (unfold conn_of; rewrite Hl; reflexivity).
  assert (HP : Pre0 B c msg s1 s2).
  { split.
    - unfold Held. rewrite Ec. exact (held_ok s1 c cs H1 Hl Ho).
    - intros Et. unfold BindOK. rewrite Ec. intros Eb. exact (Hb Eb Et). }
  pose proof (step_clean s1 (EB (ECmd c msg o)) H1) as C1.
  pose proof (step_clean s2 (EB (ECmd c msg o)) H2) as C2.
  unfold no_failure in Hnf. revert Hnf C1 C2.
  rewrite (step_cmd_eq cfg s1 c msg o cs L1 Hl), (step_cmd_eq cfg s2 c msg o cs L2 Hl2).
  pose proof (R_on_message cfg B c msg o s1 s2 Hs HP) as W.
  destruct (on_message cfg c msg o s1) as [[] t1|e t1].
  - destruct W as ([] & t2 & -> & Ht & _). cbn [fst snd o_exc o_log]. intros _ [C1 _] [C2 _].
    destruct (finish c t1 t2 Ht C1 C2) as [A1 A2]. auto.
  - cbn [snd o_exc]. discriminate.
Qed.

End Top.

Section Top2.
Variable cfg : config.
Hypothesis Hexp : 0 < exp cfg.
Variable B : string.

Local Notation era := (era B).
Local Notation isB := (isB B).

Lemma era_fold l : map (fun p : nat * conn_state => (fst p, eraseA B (snd p))) l = map era l.
Proof. reflexivity. Qed.

(** ** connect, disconnect *)

Lemma kept_connect s1 s2 c0 :
  log s1 = [] -> log s2 = [] -> relB B s1 s2 ->
  let '(s1', o1) := step cfg s1 (EB (EConnect c0)) in
  let '(s2', o2) := step cfg s2 (EB (EConnect c0)) in
  relB B s1' s2' /\ framesB B s1' (o_log o1) = frames_of (o_log o2) /\ o_exc o2 = None.
Proof.
  intros L1 L2 Hr. unfold step. rewrite (MbFactsA.set_log_nil s1 L1), (MbFactsA.set_log_nil s2 L2).
  pose proof (has_conn_rel B s1 s2 c0 Hr) as Eh.
  destruct (has_conn c0 s1) eqn:E1.
  - unfold step_b. rewrite E1, Eh. cbn [o_log o_exc]. rewrite L1, L2.
    split; [apply relB_set_log; exact Hr|]. split; reflexivity.
  - rewrite (welcome_first cfg c0 s1 E1), (welcome_first cfg c0 s2 Eh). cbn [o_log o_exc log set_log].
    rewrite L1, L2. cbn [rev app frames_of]. split; [|split; [|reflexivity]].
    + destruct Hr as [Rw Rc Ruw Ruc Rsubs Rconns Rnow Rdue Rstart Ronly]. constructor; cbn [chan_w chan_c usage_w usage_c subs conns now next_due timer_start
                                     set_log set_conns]; try assumption.
      rewrite Rconns, map_app. reflexivity.
    + unfold framesB. cbn [frames_of filter fst conns set_log set_conns].
      unfold has_conn in E1. destruct (lookup_conn c0 (conns s1)) eqn:El; [discriminate|].
      rewrite (lookup_app_r c0 (conns s1) [(c0, new_conn)] El). cbn [lookup_conn].
      rewrite Nat.eqb_refl. reflexivity.
Qed.

Lemma drop_conn_eq c0 s cs :
  lookup_conn c0 (conns s) = Some cs ->
  drop_conn c0 s =
  let X := match c_mailbox cs, c_bound cs with
           | Some m, Some (a, _) =>
               if c_listening cs
               then set_subs s (filter (fun p => negb (sub_is a m c0 p)) (subs s)) else s
           | _, _ => s
           end in
  set_conns X (remove_conn c0 (conns X)).
Proof. intros H. unfold drop_conn. rewrite (on_close_eq c0 s cs H). reflexivity. Qed.

Lemma remove_era c0 l : remove_conn c0 (map era l) = map era (remove_conn c0 l).
Proof. unfold remove_conn. rewrite filter_map_pre. reflexivity. Qed.

Lemma relB_remove s1 s2 c0 :
  relB B s1 s2 ->
  relB B (set_conns s1 (remove_conn c0 (conns s1))) (set_conns s2 (remove_conn c0 (conns s2))).
Proof.
  intros Hr. destruct Hr as [Rw Rc Ruw Ruc Rsubs Rconns Rnow Rdue Rstart Ronly]. constructor; cbn [chan_w chan_c usage_w usage_c subs conns now next_due
                                              timer_start set_conns]; try assumption.
  rewrite Rconns, !era_fold. apply remove_era.
Qed.

Lemma relB_unsub_other s1 s2 a m c0 :
  relB B s1 s2 -> a <> B ->
  relB B (set_subs s1 (filter (fun p => negb (sub_is a m c0 p)) (subs s1))) s2.
Proof.
  intros Hr Ha. destruct Hr as [Rw Rc Ruw Ruc Rsubs Rconns Rnow Rdue Rstart Ronly]. constructor; cbn [chan_w chan_c usage_w usage_c subs conns now next_due
                                                 timer_start set_subs]; try assumption.
  rewrite Rsubs. symmetry. apply filter_filter_keep. intros p _ Hp.
  destruct (sub_is a m c0 p) eqn:E; [|reflexivity]. exfalso.
  apply sub_is_true in E. subst p. cbn [fst] in Hp. apply seqb_eq in Hp. contradiction.
Qed.

Lemma relB_unsub_same s1 s2 (q : string * string * nat -> bool) :
  relB B s1 s2 -> relB B (set_subs s1 (filter q (subs s1))) (set_subs s2 (filter q (subs s2))).
Proof.
  intros Hr. destruct Hr as [Rw Rc Ruw Ruc Rsubs Rconns Rnow Rdue Rstart Ronly]. constructor; cbn [chan_w chan_c usage_w usage_c subs conns now next_due
                                              timer_start set_subs]; try assumption.
  rewrite Rsubs. apply filter_comm.
Qed.

Lemma relB_drop s1 s2 c0 cs :
  relB B s1 s2 -> lookup_conn c0 (conns s1) = Some cs ->
  relB B (drop_conn c0 s1) (drop_conn c0 s2) /\
  log (drop_conn c0 s1) = log s1 /\ log (drop_conn c0 s2) = log s2.
Proof.
  intros Hr Hl.
  assert (Hl2 : lookup_conn c0 (conns s2) = Some (eraseA B cs)).
  { rewrite (rb_conns _ _ _ Hr), era_fold, lookup_era, Hl. reflexivity. }
  rewrite (drop_conn_eq c0 s1 cs Hl), (drop_conn_eq c0 s2 _ Hl2). cbv zeta.
  unfold eraseA. destruct (other_app B cs) eqn:Eo.
  - cbn [c_mailbox new_conn].
    destruct (c_mailbox cs) as [m|]; [|split; [apply relB_remove; exact Hr|split; reflexivity]].
    destruct (c_bound cs) as [[a sd]|] eqn:Eb;
      [|split; [apply relB_remove; exact Hr|split; reflexivity]].
    destruct (c_listening cs); [|split; [apply relB_remove; exact Hr|split; reflexivity]].
    split; [|split; reflexivity].
    apply (relB_remove (set_subs s1 _) s2). apply relB_unsub_other; [exact Hr|].
    unfold other_app in Eo. rewrite Eb in Eo. apply negb_true_iff, seqb_neq in Eo. exact Eo.
  - destruct (c_mailbox cs) as [m|]; [|split; [apply relB_remove; exact Hr|split; reflexivity]].
    destruct (c_bound cs) as [[a sd]|];
      [|split; [apply relB_remove; exact Hr|split; reflexivity]].
    destruct (c_listening cs); [|split; [apply relB_remove; exact Hr|split; reflexivity]].
    split; [|split; reflexivity].
    apply (relB_remove (set_subs s1 _) (set_subs s2 _)). apply relB_unsub_same. exact Hr.
Qed.

Lemma kept_disconnect s1 s2 c0 :
  log s1 = [] -> log s2 = [] -> relB B s1 s2 ->
  let '(s1', o1) := step cfg s1 (EB (EDisconnect c0)) in
  let '(s2', o2) := step cfg s2 (EB (EDisconnect c0)) in
  relB B s1' s2' /\ framesB B s1' (o_log o1) = frames_of (o_log o2) /\ o_exc o2 = None.
Proof.
  intros L1 L2 Hr. unfold step. rewrite (MbFactsA.set_log_nil s1 L1), (MbFactsA.set_log_nil s2 L2).
  pose proof (has_conn_rel B s1 s2 c0 Hr) as Eh. unfold step_b. rewrite Eh.
  destruct (has_conn c0 s1) eqn:E1.
  - unfold has_conn in E1. destruct (lookup_conn c0 (conns s1)) as [cs|] eqn:El; [|discriminate].
    destruct (relB_drop s1 s2 c0 cs Hr El) as (Hr' & G1 & G2).
    cbn [o_log o_exc]. rewrite G1, G2, L1, L2.
    split; [apply relB_set_log; exact Hr'|]. split; reflexivity.
  - cbn [o_log o_exc]. rewrite L1, L2.
    split; [apply relB_set_log; exact Hr|]. split; reflexivity.
Qed.

(** ** sweeps *)

Lemma sim_set_now c s1 s2 t : sim B c s1 s2 -> sim B c (set_now s1 t) (set_now s2 t).
Proof.
  intros Hs. destruct Hs as [Xdb Xu Xsubs Xconns Xnow Xdue Xstart Xfl Xvis Xsb Xact].
  constructor; cbn [chan_w usage_w subs conns now next_due timer_start log set_now]; auto.
Qed.

Lemma sim_set_next_due c s1 s2 t : sim B c s1 s2 -> sim B c (set_next_due s1 t) (set_next_due s2 t).
Proof.
  intros Hs. destruct Hs as [Xdb Xu Xsubs Xconns Xnow Xdue Xstart Xfl Xvis Xsb Xact].
  constructor; cbn [chan_w usage_w subs conns now next_due timer_start log set_next_due]; auto.
Qed.

Lemma kept_expire c0 fault s1 s2 :
  SInv s1 -> log s1 = [] -> sim B c0 s1 s2 ->
  exists t1 t2, expire cfg fault s1 = Ok tt t1 /\ expire cfg fault s2 = Ok tt t2 /\ sim B c0 t1 t2.
Proof.
  intros H1 L1 Hs.
  destruct (expire_run cfg Hexp fault s1 H1 L1) as (t1 & E1 & _).
  assert (Hi : SI s1 s2).
  { split; [split; [exact (si_db s1 H1)|rewrite L1; constructor]|].
    split; [exact (si_clean s1 H1)|exact (SInv_subs_live s1 H1)]. }
  pose proof (R_expire cfg Hexp B c0 fault s1 s2 Hs Hi) as W. rewrite E1 in W.
  destruct W as ([] & t2 & E2 & Ht & _). exists t1, t2. auto.
Qed.

Lemma kept_sweep s1 s2 fault :
  SInv s1 -> SInv s2 -> log s1 = [] -> log s2 = [] -> relB B s1 s2 ->
  let '(s1', o1) := step cfg s1 (EB (ESweep fault)) in
  let '(s2', o2) := step cfg s2 (EB (ESweep fault)) in
  relB B s1' s2' /\ framesB B s1' (o_log o1) = frames_of (o_log o2) /\ o_exc o2 = None.
Proof.
  intros H1 H2 L1 L2 Hr.
  destruct (fresh_nat (conns s1)) as [c0 Hc0].
  assert (Hv : visc B (conns s1) c0) by (unfold visc; rewrite Hc0; reflexivity).
  pose proof (sim_of_relB B c0 s1 s2 H1 H2 L1 L2 Hr Hv) as Hs.
  destruct (kept_expire c0 fault s1 s2 H1 L1 Hs) as (t1 & t2 & E1 & E2 & Ht).
  pose proof (step_clean cfg Hexp s1 (EB (ESweep fault)) H1) as C1.
  pose proof (step_clean cfg Hexp s2 (EB (ESweep fault)) H2) as C2.
  revert C1 C2. unfold step, step_b, run_m.
  rewrite (MbFactsA.set_log_nil s1 L1), (MbFactsA.set_log_nil s2 L2), E1, E2.
  cbn [fst o_log o_exc]. intros [C1 _] [C2 _].
  destruct (finish B c0 t1 t2 Ht C1 C2) as [A1 A2]. auto.
Qed.

Lemma kept_advance s1 s2 dt fault :
  SInv s1 -> SInv s2 -> log s1 = [] -> log s2 = [] -> relB B s1 s2 ->
  let '(s1', o1) := step cfg s1 (EB (EAdvance dt fault)) in
  let '(s2', o2) := step cfg s2 (EB (EAdvance dt fault)) in
  relB B s1' s2' /\ framesB B s1' (o_log o1) = frames_of (o_log o2) /\ o_exc o2 = None.
Proof.
  intros H1 H2 L1 L2 Hr.
  destruct (fresh_nat (conns s1)) as [c0 Hc0].
  assert (Hv : visc B (conns s1) c0) by (unfold visc; rewrite Hc0; reflexivity).
  pose proof (sim_of_relB B c0 s1 s2 H1 H2 L1 L2 Hr Hv) as Hs.
  pose proof (step_clean cfg Hexp s1 (EB (EAdvance dt fault)) H1) as C1.
  pose proof (step_clean cfg Hexp s2 (EB (EAdvance dt fault)) H2) as C2.
  revert C1 C2. unfold step, step_b.
  rewrite (MbFactsA.set_log_nil s1 L1), (MbFactsA.set_log_nil s2 L2).
  destruct (dt <? 0).
  { cbn [fst o_log o_exc]. rewrite L1, L2. intros _ _.
    split; [apply relB_set_log; exact Hr|]. split; reflexivity. }
  cbv zeta.
  pose proof (sim_set_now c0 s1 s2 (now s1 + dt) Hs) as Hs'.
  rewrite (rb_now _ _ _ Hr).
  change (next_due (set_now s2 (now s1 + dt))) with (next_due s2).
  change (next_due (set_now s1 (now s1 + dt))) with (next_due s1).
  change (now (set_now s2 (now s1 + dt))) with (now s1 + dt).
  change (now (set_now s1 (now s1 + dt))) with (now s1 + dt).
  rewrite (rb_due _ _ _ Hr).
  destruct (next_due s1 <=? now s1 + dt).
  - assert (H1' : SInv (set_now s1 (now s1 + dt))) by (apply SInv_set_now; exact H1).
    destruct (kept_expire c0 fault _ _ H1' L1 Hs') as (t1 & t2 & E1 & E2 & Ht).
    unfold run_m. rewrite E1, E2. cbn [fst o_log o_exc log set_next_due]. intros [C1 _] [C2 _].
    rewrite (sm_start _ _ _ _ Ht), (sm_now _ _ _ _ Ht).
    pose proof (sim_set_next_due c0 t1 t2 (next_grid cfg (timer_start t1) (now t1)) Ht) as Ht'.
    destruct (finish B c0 _ _ Ht' C1 C2) as [A1 A2]. auto.
  - cbn [fst o_log o_exc log set_now]. intros [C1 _] [C2 _].
    destruct (finish B c0 _ _ Hs' C1 C2) as [A1 A2]. cbn [log set_now] in A2. auto.
Qed.

End Top2.

Section Top3.
Variable cfg : config.
Hypothesis Hexp : 0 < exp cfg.
Variable B : string.

Local Notation era := (era B).
Local Notation isB := (isB B).

(** ** a successful bind, exactly *)
Lemma on_message_bind s c msg o cs a sd :
  lookup_conn c (conns s) = Some cs -> c_bound cs = None ->
  m_type msg = Some TBind -> m_appid msg = Some a -> m_side msg = Some sd ->
  exists t, on_message cfg c msg o s = Ok tt t /\
    chan_w t = chan_w s /\ subs t = subs s /\
    conns t = update_conn c (set_bound cs (Some (a, sd))) (conns s) /\
    now t = now s /\ next_due t = next_due s /\ timer_start t = timer_start s /\
    (a <> B -> app_usage (usage_w t) B = app_usage (usage_w s) B) /\
    frames_of (log t) = (c, FAck (m_id msg)) :: frames_of (log s).
Proof.
  intros Hl Hb Ht Ha Hs. unfold on_message. rewrite Ht.
  unfold try_catch, bind, send. cbn [dispatch]. unfold handle_bind. rewrite bind_get_conn.
  unfold conn_of. cbn [conns set_log]. rewrite Hl, Hb, Ha, Hs.
  unfold bind, set_conn, get, log_client_version. cbn [conns set_conns set_log now].
  destruct (usage_on cfg).
  - unfold bind, utx, commit_usage. cbn. eexists. split; [reflexivity|]. cbn.
    split; [reflexivity|]. split; [reflexivity|]. split; [reflexivity|]. split; [reflexivity|].
    split; [reflexivity|]. split; [reflexivity|]. split; [|reflexivity].
    intros Hne. unfold app_usage, uins_cv. cbn [u_nameplates u_mailboxes u_versions ucv_app].
    rewrite filter_snoc_out; [reflexivity|]. cbn [ucv_app]. apply seqb_neq. exact Hne.
  - unfold ret. eexists. split; [reflexivity|]. cbn.
    split; [reflexivity|]. split; [reflexivity|]. split; [reflexivity|]. split; [reflexivity|].
    split; [reflexivity|]. split; [reflexivity|]. split; [|reflexivity]. intros _. reflexivity.
Qed.


Lemma map_era_ext l : forall l',
  map fst l' = map fst l -> NoDup (map fst l) ->
  (forall c', eraseA B (match lookup_conn c' l' with Some cs => cs | None => new_conn end) =
              eraseA B (match lookup_conn c' l with Some cs => cs | None => new_conn end)) ->
  map era l' = map era l.
Proof.
  induction l as [|[k x] l IH]; intros [|[k' x'] l'] Hf Hn H; cbn [map fst] in Hf; try discriminate;
    [reflexivity|].
  inversion Hf as [[Hk Hf']]. subst k'. cbn [map fst] in Hn. inversion Hn as [|? ? Hnin Hn']; subst.
  cbn [map]. f_equal.
  - unfold era. cbn [fst snd]. f_equal. specialize (H k). cbn [lookup_conn] in H.
    rewrite Nat.eqb_refl in H. exact H.
  - apply IH; [exact Hf'|exact Hn'|]. intros c'. specialize (H c'). cbn [lookup_conn] in H.
    destruct (Nat.eqb c' k) eqn:E; [|exact H]. apply Nat.eqb_eq in E. subst c'.
    assert (N1 : lookup_conn k l = None) by (apply lookup_none; exact Hnin).
    assert (N2 : lookup_conn k l' = None) by (apply lookup_none; rewrite Hf'; exact Hnin).
    rewrite N1, N2. reflexivity.
Qed.

Lemma map_era_update c X l cs0 :
  lookup_conn c l = Some cs0 -> eraseA B X = eraseA B cs0 ->
  map era (update_conn c X l) = map era l.
Proof.
  intros Hl HX. induction l as [|[k x] l IH]; cbn [update_conn lookup_conn] in *; [reflexivity|].
  destruct (Nat.eqb c k) eqn:E.
  - inversion Hl; subst x. cbn [map]. unfold era at 1 3. cbn [fst snd]. rewrite HX. reflexivity.
  - cbn [map]. rewrite (IH Hl). reflexivity.
Qed.

(** ** a command of another app, or a bind to another app *)

Lemma dropped_bound s1 s2 c msg o cs :
  SInv s1 -> log s1 = [] -> fresh_unbound s1 -> relB B s1 s2 ->
  lookup_conn c (conns s1) = Some cs -> other_app B cs = true ->
  no_failure cfg s1 (EB (ECmd c msg o)) ->
  let '(s1', o1) := step cfg s1 (EB (ECmd c msg o)) in
  relB B s1' s2 /\ framesB B s1' (o_log o1) = [].
Proof.
  intros H1 L1 Hf Hr Hl Ho Hnf.
  unfold other_app in Ho. destruct (c_bound cs) as [[A side]|] eqn:Eb; [|discriminate].
  apply negb_true_iff, seqb_neq in Ho.
  assert (HAB : B <> A) by congruence.
  pose proof (step_isolation cfg s1 c cs A side msg o B H1 L1 Hl Eb HAB) as HI.
  assert (Hbc : c_bound (conn_of s1 c) = Some (A, side)) by (unfold conn_of; rewrite Hl; exact Eb).
  pose proof (KP_on_message cfg c (A, side) msg o s1 Hbc) as HK.
  unfold no_failure in Hnf. revert Hnf HI. rewrite (step_cmd_eq cfg s1 c msg o cs L1 Hl).
  destruct (on_message cfg c msg o s1) as [[] t1|e t1]; [|cbn; discriminate].
  cbn [snd o_exc o_log]. intros _ (V1 & V2 & U1 & U2 & S1 & C1 & F1).
  destruct HK as (K1 & K2 & K3 & K4 & K5).
  cbn [chan_w chan_c usage_w usage_c subs conns set_log] in *.
  split.
  - destruct Hr as [Rw Rc Ruw Ruc Rsubs Rconns Rnow Rdue Rstart Ronly].
    constructor; cbn [chan_w chan_c usage_w usage_c subs conns now next_due timer_start set_log].
    + rewrite Rw. symmetry. apply absB_of_view. exact V1.
    + rewrite Rc. symmetry. apply absB_of_view. exact V2.
    + congruence.
    + congruence.
    + rewrite Rsubs. symmetry. exact S1.
    + rewrite Rconns. symmetry. apply map_era_ext; [exact K4|exact (si_conn_ids s1 H1)|].
      intros c'. destruct (K5 c') as [Kb Kn]. unfold conn_of in Kb, Kn.
      destruct (lookup_conn c' (conns s1)) as [cs'|] eqn:El.
      * destruct (c_bound cs') as [[a' sd']|] eqn:Eb'.
        -- destruct (string_dec a' B) as [->|Na].
           ++ rewrite (C1 c' cs' El (ex_intro _ sd' Eb')). reflexivity.
           ++ unfold eraseA, other_app. rewrite Kb, Eb'.
              assert (E : seqb a' B = false) by (apply seqb_neq; exact Na). rewrite E. reflexivity.
        -- rewrite (Hf c' cs' El Eb') in *. rewrite (Kn eq_refl). reflexivity.
      * rewrite (Kn eq_refl). reflexivity.
    + congruence.
    + congruence.
    + congruence.
    + exact Ronly.
  - unfold framesB. apply filter_nil. intros [c' f] Hin. cbn [fst conns set_log].
    destruct (F1 c' f Hin) as (sd & cs' & Hl' & Hb').
    destruct (K5 c') as [Kb _]. unfold conn_of in Kb. rewrite Hl', Hb' in Kb.
    destruct (lookup_conn c' (conns t1)) as [cs''|] eqn:El''.
    + unfold other_app. rewrite Kb.
      assert (E : seqb A B = false) by (apply seqb_neq; exact Ho). rewrite E. reflexivity.
    + cbn [c_bound new_conn] in Kb. discriminate.
Qed.

Lemma dropped_bind s1 s2 c msg o cs a sd :
  SInv s1 -> log s1 = [] -> fresh_unbound s1 -> relB B s1 s2 ->
  lookup_conn c (conns s1) = Some cs -> c_bound cs = None ->
  m_type msg = Some TBind -> m_appid msg = Some a -> m_side msg = Some sd -> a <> B ->
  let '(s1', o1) := step cfg s1 (EB (ECmd c msg o)) in
  relB B s1' s2 /\ framesB B s1' (o_log o1) = [].
Proof.
  intros H1 L1 Hf Hr Hl Hb Ht Ha Hs Hne.
  pose proof (step_clean cfg Hexp s1 (EB (ECmd c msg o)) H1) as C1. revert C1.
  rewrite (step_cmd_eq cfg s1 c msg o cs L1 Hl).
  destruct (on_message_bind s1 c msg o cs a sd Hl Hb Ht Ha Hs)
    as (t & -> & Ew & Es & Ec & En & Ed & Et & Eu & Efl).
  cbn [fst o_log]. intros [[Cw Cu] _]. cbn [chan_w chan_c usage_w usage_c set_log] in Cw, Cu.
  destruct (si_clean s1 H1) as [Dw Du].
  assert (Eo : other_app B (set_bound cs (Some (a, sd))) = true).
  { unfold other_app. cbn [c_bound set_bound]. apply negb_true_iff, seqb_neq. exact Hne. }
  split.
  - destruct Hr as [Rw Rc Ruw Ruc Rsubs Rconns Rnow Rdue Rstart Ronly].
    constructor; cbn [chan_w chan_c usage_w usage_c subs conns now next_due timer_start set_log].
    + rewrite Ew. exact Rw.
    + rewrite <- Cw, Ew, Dw. exact Rc.
    + rewrite (Eu Hne). exact Ruw.
    + rewrite <- Cu, (Eu Hne), Du. exact Ruc.
    + rewrite Es. exact Rsubs.
    + rewrite Rconns, Ec. symmetry. apply (map_era_update c _ (conns s1) cs Hl).
      pose proof (Hf c cs Hl Hb) as Ecs. unfold eraseA. rewrite Eo, Ecs. reflexivity.
    + congruence.
    + congruence.
    + congruence.
    + exact Ronly.
  - unfold framesB. rewrite ViewFacts.frames_of_rev, Efl, L1. cbn [frames_of rev app filter fst].
    cbn [conns set_log]. rewrite Ec, (lookup_update_same c _ (conns s1) cs Hl), Eo. reflexivity.
Qed.

(** ** unbound connections stay fresh *)

Lemma fresh_krel s t : krel s t -> fresh_unbound s -> fresh_unbound t.
Proof.
  intros (_ & _ & _ & _ & K5) Hf c' cs' Hl' Hb'. destruct (K5 c') as [Kb Kn].
  unfold conn_of in Kb, Kn. rewrite Hl' in Kb, Kn.
  destruct (lookup_conn c' (conns s)) as [cs0|] eqn:El.
  - rewrite Hb' in Kb. symmetry in Kb. rewrite (Hf c' cs0 El Kb) in Kn. exact (Kn eq_refl).
  - exact (Kn eq_refl).
Qed.

Lemma fresh_same s t : conns t = conns s -> fresh_unbound s -> fresh_unbound t.
Proof. intros E Hf c' cs'. rewrite E. apply Hf. Qed.

Lemma unbound_conns s c msg o cs t :
  lookup_conn c (conns s) = Some cs -> c_bound cs = None ->
  on_message cfg c msg o s = Ok tt t ->
  conns t = conns s \/
  exists X, c_bound X <> None /\ conns t = update_conn c X (conns s).
Proof.
  intros Hl Hb E.
  assert (Ec : conn_of s c = cs) by (unfold conn_of; rewrite Hl; reflexivity).
  destruct (erroneous cs msg) eqn:Ee.
  { rewrite (erroneous_harmless cfg c msg o s) in E by (rewrite Ec; exact Ee).
    inversion E. left. reflexivity. }
  unfold erroneous in Ee. rewrite Hb in Ee.
  destruct (m_type msg) as [ty|] eqn:Et; [|discriminate].
  destruct ty; try discriminate.
  - destruct (m_ping msg) as [v|] eqn:Ep; [|discriminate].
    rewrite (ping_pong cfg c msg o s v Et Ep) in E. inversion E. left. reflexivity.
  - destruct (m_appid msg) as [a|] eqn:Ea; [|discriminate].
    destruct (m_side msg) as [sd|] eqn:Es; [|discriminate].
    destruct (on_message_bind s c msg o cs a sd Hl Hb Et Ea Es) as (t' & E' & _ & _ & Ec' & _).
    rewrite E' in E. inversion E; subst t'. right. exists (set_bound cs (Some (a, sd))).
    split; [discriminate|exact Ec'].
Qed.

Lemma fresh_update s c X l :
  c_bound X <> None -> fresh_unbound s -> l = update_conn c X (conns s) ->
  forall c' cs', lookup_conn c' l = Some cs' -> c_bound cs' = None -> cs' = new_conn.
Proof.
  intros HX Hf -> c' cs' Hl' Hb'. destruct (Nat.eq_dec c' c) as [->|N].
  - destruct (lookup_conn c (conns s)) as [cs0|] eqn:E.
    + rewrite (lookup_update_same c X (conns s) cs0 E) in Hl'. inversion Hl'; subst. contradiction.
    + rewrite (update_absent c X (conns s) E) in Hl'. congruence.
  - rewrite (lookup_update_other c c' X (conns s) N) in Hl'. exact (Hf c' cs' Hl' Hb').
Qed.

Lemma expire_conns fault s :
  SInv s -> log s = [] -> conns (fst (run_m (expire cfg fault) s)) = conns s.
Proof.
  intros H L. destruct (expire_run cfg Hexp fault s H L) as (t & E & (_ & Ec & _)).
  unfold run_m. rewrite E. exact Ec.
Qed.

Lemma step_fresh s e :
  SInv s -> log s = [] -> fresh_unbound s -> plain_event e -> no_failure cfg s e ->
  fresh_unbound (fst (step cfg s e)).
Proof.
  intros H L Hf Hp Hnf. destruct e as [b|k b|]; try contradiction.
  destruct b as [c0|c msg o|c0|fault|dt fault].
  - unfold step. rewrite (MbFactsA.set_log_nil s L). destruct (has_conn c0 s) eqn:E.
    + unfold step_b. rewrite E. cbn [fst]. exact Hf.
    + rewrite (welcome_first cfg c0 s E). cbn [fst]. intros c' cs'. cbn [conns set_log set_conns].
      destruct (lookup_conn c' (conns s)) as [x|] eqn:El.
      * rewrite (lookup_app_l c' (conns s) _ x El). intros K. inversion K; subst. exact (Hf c' cs' El).
      * rewrite (lookup_app_r c' (conns s) _ El). cbn [lookup_conn].
        destruct (Nat.eqb c' c0); [|discriminate]. intros K _. inversion K. reflexivity.
  - destruct (lookup_conn c (conns s)) as [cs|] eqn:El.
    + unfold no_failure in Hnf. revert Hnf. rewrite (step_cmd_eq cfg s c msg o cs L El).
      destruct (on_message cfg c msg o s) as [[] t|e t] eqn:E; [|cbn; discriminate].
      intros _. cbn [fst]. destruct (c_bound cs) as [b|] eqn:Eb.
      * assert (Hbc : c_bound (conn_of s c) = Some b) by (unfold conn_of; rewrite El; exact Eb).
        pose proof (KP_on_message cfg c b msg o s Hbc) as HK. rewrite E in HK.
        exact (fresh_krel s t HK Hf).
      * destruct (unbound_conns s c msg o cs t El Eb E) as [Ec|(X & HX & Ec)].
        -- exact (fresh_same s (set_log t []) Ec Hf).
        -- intros c' cs'. cbn [conns set_log]. exact (fresh_update s c X (conns t) HX Hf Ec c' cs').
    + unfold step, step_b. rewrite (MbFactsA.set_log_nil s L). unfold has_conn. rewrite El.
      cbn [fst]. exact Hf.
  - unfold step, step_b. rewrite (MbFactsA.set_log_nil s L). destruct (has_conn c0 s) eqn:E.
    + unfold has_conn in E. destruct (lookup_conn c0 (conns s)) as [cs|] eqn:El; [|discriminate].
      cbn [fst]. rewrite (drop_conn_eq c0 s cs El). cbv zeta. intros c' cs'.
      cbn [conns set_log set_conns].
      assert (Ex : forall X, conns X = conns s ->
                 lookup_conn c' (remove_conn c0 (conns X)) = Some cs' -> c_bound cs' = None ->
                 cs' = new_conn).
      { intros X EX. rewrite EX. destruct (Nat.eq_dec c' c0) as [->|N].
        - rewrite lookup_remove_same. discriminate.
        - rewrite (lookup_remove_other c0 c' (conns s) N). apply Hf. }
      apply Ex. destruct (c_mailbox cs); [|reflexivity].
      destruct (c_bound cs) as [[a sd]|]; [|reflexivity].
      destruct (c_listening cs); reflexivity.
    + cbn [fst]. exact Hf.
  - unfold step, step_b. rewrite (MbFactsA.set_log_nil s L).
    pose proof (expire_conns fault s H L) as Ec.
    destruct (run_m (expire cfg fault) s) as [t x]. cbn [fst] in *.
    exact (fresh_same s (set_log t []) Ec Hf).
  - unfold step, step_b. rewrite (MbFactsA.set_log_nil s L). destruct (dt <? 0).
    + cbn [fst]. exact Hf.
    + cbv zeta. destruct (next_due (set_now s (now s + dt)) <=? now (set_now s (now s + dt))).
      * pose proof (expire_conns fault (set_now s (now s + dt)) (SInv_set_now s _ H) L) as Ec.
        destruct (run_m (expire cfg fault) (set_now s (now s + dt))) as [t x]. cbn [fst] in *.
        exact (fresh_same s _ Ec Hf).
      * cbn [fst]. exact Hf.
Qed.

(** ** the initial state *)

Lemma init_facts t0 :
  conns (init cfg t0) = [] /\ subs (init cfg t0) = [] /\ mailboxes (chan_w (init cfg t0)) = [].
Proof.
  unfold init. rewrite boot_on_eq.
  set (s0 := mkState empty_chan empty_chan empty_usage empty_usage [] [] t0 t0 t0 (t0 + period cfg) []).
  assert (HS : SInv s0).
  { constructor; cbn.
    - apply DbInv_empty.
    - split; reflexivity.
    - intros c cs K. discriminate.
    - intros p [].
    - constructor.
    - constructor. }
  destruct (sweep_char cfg Hexp s0 HS eq_refl) as (s' & E & K). cbv zeta in K.
  destruct K as (Hm & _ & _ & _ & _ & _ & _ & Hs & Hc & _). rewrite E. cbn [fst conns subs chan_w set_log].
  split; [exact Hc|]. split; [exact Hs|]. apply SweepFacts.nil_of_none. intros r Hr.
  apply Hm in Hr. destruct Hr as [[[] _]|(r0 & [] & _)].
Qed.

Lemma relB_init t0 : relB B (init cfg t0) (init cfg t0) /\ fresh_unbound (init cfg t0).
Proof.
  destruct (init_facts t0) as (Ec & Es & Em). split.
  - constructor; try reflexivity.
    + rewrite Es. reflexivity.
    + rewrite Ec. reflexivity.
    + rewrite Em. intros r [].
  - intros c cs. rewrite Ec. discriminate.
Qed.

End Top3.

Section WithConfig.
Variable cfg : config.
Hypothesis Hexp : 0 < exp cfg.

(** an event of another app is invisible to B *)
Theorem dropped_event_invisible B s1 s2 e :
  SInv s1 -> log s1 = [] -> fresh_unbound s1 -> relB B s1 s2 -> plain_event e ->
  dropB B s1 e = true -> no_failure cfg s1 e ->
  let '(s1', o1) := step cfg s1 e in
  relB B s1' s2 /\ framesB B s1' (o_log o1) = [].
Proof.
  intros H1 L1 Hf Hr Hp Hd Hnf. destruct e as [b|k b|]; try contradiction.
  destruct b as [c0|c msg o|c0|fault|dt fault]; try discriminate.
  cbn [dropB] in Hd. destruct (lookup_conn c (conns s1)) as [cs|] eqn:El; [|discriminate].
  destruct (other_app B cs) eqn:Eo.
  - exact (dropped_bound cfg B s1 s2 c msg o cs H1 L1 Hf Hr El Eo Hnf).
  - cbn [orb] in Hd. destruct (c_bound cs) eqn:Eb; [discriminate|].
    destruct (m_type msg) as [ty|] eqn:Et; [|discriminate]. destruct ty; try discriminate.
    destruct (m_appid msg) as [a|] eqn:Ea; [|discriminate].
    destruct (m_side msg) as [sd|] eqn:Es; [|discriminate].
    apply negb_true_iff, seqb_neq in Hd.
    exact (dropped_bind cfg Hexp B s1 s2 c msg o cs a sd H1 L1 Hf Hr El Eb Et Ea Es Hd).
Qed.

(** every other event has the same effect on B's world in both runs *)
Theorem kept_event_congruent B s1 s2 e :
  SInv s1 -> SInv s2 -> log s1 = [] -> log s2 = [] -> relB B s1 s2 ->
  plain_event e -> dropB B s1 e = false -> no_failure cfg s1 e ->
  let '(s1', o1) := step cfg s1 e in
  let '(s2', o2) := step cfg s2 e in
  relB B s1' s2' /\ framesB B s1' (o_log o1) = frames_of (o_log o2) /\ o_exc o2 = None.
Proof.
  intros H1 H2 L1 L2 Hr Hp Hd Hnf. destruct e as [b|k b|]; try contradiction.
  destruct b as [c0|c msg o|c0|fault|dt fault].
  - exact (kept_connect cfg B s1 s2 c0 L1 L2 Hr).
  - cbn [dropB] in Hd. destruct (lookup_conn c (conns s1)) as [cs|] eqn:El.
    + apply orb_false_iff in Hd. destruct Hd as [Ho Hbnd].
      apply (kept_cmd cfg Hexp B s1 s2 c msg o cs H1 H2 L1 L2 Hr El Ho); [|exact Hnf].
      intros Eb Et a sd Ea Es. rewrite Eb, Et, Ea, Es in Hbnd.
      apply negb_false_iff, seqb_eq in Hbnd. exact Hbnd.
    + assert (E1 : has_conn c s1 = false) by (unfold has_conn; rewrite El; reflexivity).
      assert (E2 : has_conn c s2 = false) by (rewrite (has_conn_rel B s1 s2 c Hr); exact E1).
      unfold step, step_b. rewrite (MbFactsA.set_log_nil s1 L1), (MbFactsA.set_log_nil s2 L2), E1, E2.
      cbn [o_log o_exc]. rewrite L1, L2.
      split; [apply relB_set_log; exact Hr|]. split; reflexivity.
  - exact (kept_disconnect cfg B s1 s2 c0 L1 L2 Hr).
  - exact (kept_sweep cfg Hexp B s1 s2 fault H1 H2 L1 L2 Hr).
  - exact (kept_advance cfg Hexp B s1 s2 dt fault H1 H2 L1 L2 Hr).
Qed.

(** the history with the other apps' commands removed (decided along the full run) *)
Fixpoint filterB (B : string) (s : state) (h : list event) : list event :=
  match h with
  | [] => []
  | e :: h' =>
      let s' := fst (step cfg s e) in
      if dropB B s e then filterB B s' h' else e :: filterB B s' h'
  end.

Fixpoint no_failure_run (s : state) (h : list event) : Prop :=
  match h with
  | [] => True
  | e :: h' => plain_event e /\ no_failure cfg s e /\ no_failure_run (fst (step cfg s e)) h'
  end.

(** frames seen by B's side over a whole run *)
Fixpoint framesB_run (B : string) (s : state) (h : list event) : list (nat * frame) :=
  match h with
  | [] => []
  | e :: h' =>
      let '(s', o) := step cfg s e in
      framesB B s' (o_log o) ++ framesB_run B s' h'
  end.

Lemma ni_gen B h : forall s1 s2,
  SInv s1 -> SInv s2 -> log s1 = [] -> log s2 = [] -> relB B s1 s2 -> fresh_unbound s1 ->
  no_failure_run s1 h ->
  relB B (fst (run cfg s1 h)) (fst (run cfg s2 (filterB B s1 h))) /\
  framesB_run B s1 h =
  flat_map (fun o => frames_of (o_log o)) (snd (run cfg s2 (filterB B s1 h))).
Proof.
  induction h as [|e h IH]; intros s1 s2 H1 H2 L1 L2 Hr Hf Hn.
  - cbn. auto.
  - cbn [no_failure_run] in Hn. destruct Hn as (Hp & Hnf & Hn').
    pose proof (step_spec cfg Hexp s1 e H1) as S1.
    pose proof (step_fresh cfg Hexp B s1 e H1 L1 Hf Hp Hnf) as F1.
    cbn [filterB framesB_run run]. destruct (dropB B s1 e) eqn:Ed.
    + pose proof (dropped_event_invisible B s1 s2 e H1 L1 Hf Hr Hp Ed Hnf) as D.
      destruct (step cfg s1 e) as [s1' o1]. cbn [fst] in *.
      destruct S1 as (I1 & M1 & _). destruct D as [Hr' Hfr].
      specialize (IH s1' s2 I1 H2 M1 L2 Hr' F1 Hn').
      destruct (run cfg s1' h) as [u1 os1]. cbn [fst] in *. destruct IH as [A1 A2].
      split; [exact A1|]. rewrite Hfr. exact A2.
    + pose proof (kept_event_congruent B s1 s2 e H1 H2 L1 L2 Hr Hp Ed Hnf) as K.
      pose proof (step_spec cfg Hexp s2 e H2) as S2.
      destruct (step cfg s1 e) as [s1' o1]. cbn [fst] in *. cbn [run].
      destruct (step cfg s2 e) as [s2' o2].
      destruct S1 as (I1 & M1 & _). destruct S2 as (I2 & M2 & _). destruct K as (Hr' & Hfr & _).
      specialize (IH s1' s2' I1 I2 M1 M2 Hr' F1 Hn').
      destruct (run cfg s1' h) as [u1 os1]. destruct (run cfg s2' (filterB B s1' h)) as [u2 os2].
      cbn [fst snd flat_map] in *. destruct IH as [A1 A2].
      split; [exact A1|]. rewrite Hfr, A2. reflexivity.
Qed.

(** C06: B's observations and B's stored rows in H equal those in H with all
    other apps' commands removed *)
Theorem noninterference B t0 h :
  no_failure_run (init cfg t0) h ->
  let s1 := fst (run cfg (init cfg t0) h) in
  let h2 := filterB B (init cfg t0) h in
  let s2 := fst (run cfg (init cfg t0) h2) in
  relB B s1 s2 /\
  framesB_run B (init cfg t0) h =
  flat_map (fun o => frames_of (o_log o)) (snd (run cfg (init cfg t0) h2)).
Proof.
  intros Hn. cbv zeta. destruct (init_spec cfg Hexp t0) as [HS HL].
  destruct (relB_init cfg Hexp B t0) as [Hr Hf].
  exact (ni_gen B h _ _ HS HS HL HL Hr Hf Hn).
Qed.

End WithConfig.
