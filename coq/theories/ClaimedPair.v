(** ClaimedPair.v -- C03 pairwise, over whole histories.

    "Every side that successfully claims a given live nameplate is told the
    same mailbox id, and repeating the claim returns that same id for as long
    as the nameplate lives."

    C03Facts.v has the ingredients: a `claimed` answer is the mailbox id of the
    unique nameplate row of (app, name) present after the command
    ([claimed_is_row]); rows seen anywhere along a run from [init] are a
    function of their nameplates.id ([rows_seen_functional]) and -- when the
    random draws are pairwise distinct 8-byte strings -- carry pairwise
    different mailbox ids ([incarnations_distinct]).  Here they are put
    together for two claim commands at positions i < j of one history:
      - [claimed_pair_same_id], [claimed_pair_same]: same nameplates.id => same answer;
      - [claimed_pair_same_live]: the name has a row in every state from after
        event i up to event j => same answer (no id in the statement);
      - [claimed_pair_distinct]: different ids (a later incarnation, another
        name, another app) => different answers, under fresh draws;
      - [claimed_pair_iff]: both at once. *)
From MW Require Import Base Store Monad Usage Server Websocket Service Findings
     Inv StoreFacts Hoare DbFactsA DbFactsB OpFacts ProtoFacts Obs StepFacts SweepFacts
     NpFactsA MbFactsA MbFactsB NpFactsB GenidFacts Corollaries HistFacts C03Facts WireFacts
     Inst_Params.
Local Open Scope list_scope.

Section WithConfig.
Variable cfg : config.
Hypothesis Hexp : 0 < exp cfg.

(** * Vocabulary *)

(** the state reached from the initial one over the events [p] *)
Definition at_ (t0 : Z) (p : list event) : state := fst (run cfg (init cfg t0) p).

(** [e], applied in state [s], is a claim command for nameplate [n] sent on a
    connection bound to app [a], and it is answered `claimed mbox` *)
Definition claim_answered (s : state) (e : event) (a n mbox : string) : Prop :=
  exists c cs side msg o,
    e = EB (ECmd c msg o) /\ lookup_conn c (conns s) = Some cs /\
    c_bound cs = Some (a, side) /\ m_type msg = Some TClaim /\ m_nameplate msg = Some n /\
    In (c, FClaimed mbox) (frames_of (o_log (snd (step cfg s e)))).

(** * Runs *)

Lemma run_app_fst_c h1 : forall h2 s,
  fst (run cfg s (h1 ++ h2)) = fst (run cfg (fst (run cfg s h1)) h2).
Proof.
  induction h1 as [|e h1 IH]; intros h2 s; [reflexivity|].
  cbn [app]. rewrite !(run_cons_fst cfg). apply IH.
Qed.

Lemma at_inv t0 p : SInv (at_ t0 p) /\ log (at_ t0 p) = [].
Proof. destruct (init_spec cfg Hexp t0) as [H1 H2]. apply (run_inv cfg Hexp); assumption. Qed.

Lemma at_snoc t0 p e : at_ t0 (p ++ [e]) = fst (step cfg (at_ t0 p) e).
Proof. unfold at_. rewrite run_app_fst_c, (run_cons_fst cfg). reflexivity. Qed.

Lemma at_app t0 p q : at_ t0 (p ++ q) = fst (run cfg (at_ t0 p) q).
Proof. unfold at_. apply run_app_fst_c. Qed.

(** every row of every state passed is a row seen *)
Lemma in_rows_seen p : forall q s np,
  In np (nameplates (chan_w (fst (run cfg s p)))) -> In np (rows_seen cfg s (p ++ q)).
Proof.
  induction p as [|e p IH]; intros q s np H.
  - cbn [app run fst] in *. destruct q; cbn [rows_seen]; apply in_or_app; left; exact H.
  - rewrite (run_cons_fst cfg) in H. cbn [app rows_seen]. apply in_or_app. right. apply IH. exact H.
Qed.

(** * One claim *)

(** the answer is the mailbox id of the row of (a, n) present afterwards *)
Lemma claim_answered_row s e a n mbox :
  SInv s -> log s = [] -> claim_answered s e a n mbox ->
  exists np, sel_np (chan_w (fst (step cfg s e))) a n = Some np /\ np_mbox np = mbox.
Proof.
  intros HS Hl (c & cs & side & msg & o & -> & Hlk & Hb & Ht & Hn & Hin).
  assert (Herr : erroneous cs msg = false).
  { destruct (erroneous cs msg) eqn:E; [exfalso|reflexivity].
    assert (Hc : has_conn c s = true) by (unfold has_conn; rewrite Hlk; reflexivity).
    assert (Ec : erroneous (conn_of s c) msg = true) by (unfold conn_of; rewrite Hlk; exact E).
    pose proof (erroneous_answer_exact cfg s c msg o Hl Hc Ec) as W.
    destruct (step cfg s (EB (ECmd c msg o))) as [s' ob]. cbn [snd] in Hin.
    destruct W as (_ & _ & _ & _ & _ & Hf & _). rewrite Hf, Ht in Hin.
    destruct Hin as [K|[K|[]]]; discriminate K. }
  pose proof (claimed_is_row cfg Hexp s c cs a side msg o n mbox HS Hl Hlk Hb Ht Herr Hn) as W.
  destruct (step_inv cfg Hexp s (EB (ECmd c msg o)) HS) as [HS' _].
  destruct (step cfg s (EB (ECmd c msg o))) as [s' ob]. cbn [fst snd] in *.
  destruct (W Hin) as (np & Hnp & Ha & Hnm & Hm & _).
  exists np. split; [|exact Hm]. apply sel_np_of_In; auto. apply inv_np_key. apply (si_db _ HS').
Qed.

Lemma claimed_rows t0 p e a n mbox q :
  claim_answered (at_ t0 p) e a n mbox ->
  exists np, sel_np (chan_w (at_ t0 (p ++ [e]))) a n = Some np /\ np_mbox np = mbox /\
             In np (rows_seen cfg (init cfg t0) ((p ++ [e]) ++ q)).
Proof.
  intros H. destruct (at_inv t0 p) as [HS Hl].
  destruct (claim_answered_row _ _ _ _ _ HS Hl H) as (np & Hs & Hm).
  rewrite <- at_snoc in Hs. exists np. split; [exact Hs|]. split; [exact Hm|].
  apply in_rows_seen. apply sel_np_some in Hs. apply Hs.
Qed.

(** * Two claims of one nameplate: the same id *)

(** in a run from the initial state: the claim at position i = |h1| is answered
    [mi], the one at position j = |h1| + 1 + |h2| is answered [mj], both for
    nameplate (a, n); if the row of (a, n) after event j carries the
    nameplates.id of the row after event i, the two answers are equal.
    (Whatever lies between: releases and re-claims of other sides, closes,
    sweeps, restarts, crashes at any commit boundary.) *)
Theorem claimed_pair_same_id t0 h1 ei h2 ej a n mi mj :
  claim_answered (at_ t0 h1) ei a n mi ->
  claim_answered (at_ t0 (h1 ++ ei :: h2)) ej a n mj ->
  (forall npi npj,
     sel_np (chan_w (at_ t0 (h1 ++ [ei]))) a n = Some npi ->
     sel_np (chan_w (at_ t0 (h1 ++ ei :: h2 ++ [ej]))) a n = Some npj ->
     np_id npj = np_id npi) ->
  mi = mj.
Proof.
  intros Ci Cj Hid.
  assert (E1 : (h1 ++ [ei]) ++ h2 ++ [ej] = h1 ++ ei :: h2 ++ [ej])
    by (rewrite <- app_assoc; reflexivity).
  assert (E2 : (h1 ++ ei :: h2) ++ [ej] = h1 ++ ei :: h2 ++ [ej])
    by (rewrite <- app_assoc; reflexivity).
  destruct (claimed_rows t0 h1 ei a n mi (h2 ++ [ej]) Ci) as (npi & Si & Mi & Ri).
  destruct (claimed_rows t0 (h1 ++ ei :: h2) ej a n mj [] Cj) as (npj & Sj & Mj & Rj).
  rewrite E1 in Ri. rewrite app_nil_r, E2 in Rj. rewrite E2 in Sj.
  assert (E : npj = npi).
  { apply (rows_seen_functional cfg Hexp t0 _ _ _ Rj Ri). exact (Hid npi npj Si Sj). }
  subst npj. congruence.
Qed.

(** the same with the hypothesis as the property puts it: the row of (a, n)
    present after event i is still the row of (a, n) -- same nameplates.id --
    after every event up to and including event j *)
Theorem claimed_pair_same t0 h1 ei h2 ej a n mi mj :
  claim_answered (at_ t0 h1) ei a n mi ->
  claim_answered (at_ t0 (h1 ++ ei :: h2)) ej a n mj ->
  (forall npi, sel_np (chan_w (at_ t0 (h1 ++ [ei]))) a n = Some npi ->
     forall p q, h2 ++ [ej] = p ++ q ->
       exists np, sel_np (chan_w (at_ t0 (h1 ++ ei :: p))) a n = Some np /\ np_id np = np_id npi) ->
  mi = mj.
Proof.
  intros Ci Cj H. apply (claimed_pair_same_id t0 h1 ei h2 ej a n mi mj Ci Cj).
  intros npi npj Si Sj.
  destruct (H npi Si (h2 ++ [ej]) [] (eq_sym (app_nil_r _))) as (np & S & E).
  rewrite Sj in S. inversion S; subst np. exact E.
Qed.

(** * ... for as long as the nameplate lives *)

(** over one event -- of any kind, crashes included -- the row of a key
    (app, name) is not replaced: if the key has a row before and a row after,
    it is the same row.  (A claim adds a row only for a key that has none when
    the command starts, and nothing is added after a deletion in one event.) *)
Lemma key_row_step s e a n np0 :
  SInv s -> sel_np (chan_w s) a n = Some np0 ->
  forall np, sel_np (chan_w (fst (step cfg s e))) a n = Some np -> np = np0.
Proof.
  intros HS Hsel np Hnp.
  destruct (sel_np_some _ _ _ _ Hsel) as (Hin0 & Ha0 & Hn0).
  set (P := fun d : chan_db =>
              forall r, In r (nameplates d) -> np_app r = a -> np_name r = n -> r = np0).
  set (C := fun (_ : option string) (d : chan_db) => nameplates d = nameplates (chan_w s)).
  assert (P0 : P (chan_w s)).
  { intros r Hr Ha Hn.
    apply (NoDup_map_inj np_key (nameplates (chan_w s)));
      [apply inv_np_key; apply (si_db s HS)|exact Hr|exact Hin0|].
    unfold np_key. congruence. }
  assert (Hc : chan_c s = chan_w s) by (symmetry; apply (si_clean s HS)).
  assert (T : TS P (fst (step cfg s e))).
  { apply (step_TS cfg P C).
    - intros d d' [_ [p E]] Hd r Hr. rewrite E in Hr. apply filter_In in Hr. apply Hd. apply Hr.
    - intros d a' name side w draw Hd Hcd.
      pose proof (claim_body_np d a' name side w draw) as K.
      assert (G : forall d', np_same d d' \/ np_grow1 a' name draw d d' -> P d').
      { intros d' [[N _]|(Hnone & bytes & _ & N & _)]; intros r Hr Ha Hn.
        - rewrite N in Hr. exact (Hd r Hr Ha Hn).
        - rewrite N in Hr. apply in_app_or in Hr. destruct Hr as [Hr|[<-|[]]]; [exact (Hd r Hr Ha Hn)|].
          exfalso. cbn [np_app np_name] in Ha, Hn. subst a' name.
          rewrite sel_np_none in Hnone. apply (Hnone np0); [|auto].
          unfold C in Hcd. rewrite Hcd. exact Hin0. }
      destruct (claim_body d a' name side w draw); apply G; exact K.
    - exact P0.
    - rewrite Hc. exact P0.
    - intros; reflexivity. }
  destruct T as (T & _).
  destruct (sel_np_some _ _ _ _ Hnp) as (Hin & Ha & Hn). exact (T np Hin Ha Hn).
Qed.

(** over a history in which the key has a row in every state passed, it is the
    same row throughout *)
Lemma key_row_run a n np0 h : forall s,
  SInv s -> log s = [] -> sel_np (chan_w s) a n = Some np0 ->
  (forall p q, h = p ++ q -> sel_np (chan_w (fst (run cfg s p))) a n <> None) ->
  sel_np (chan_w (fst (run cfg s h))) a n = Some np0.
Proof.
  induction h as [|e h IH]; intros s HS Hl Hsel Hall; [exact Hsel|].
  rewrite (run_cons_fst cfg). destruct (step_inv cfg Hexp s e HS) as [HS1 Hl1].
  apply IH; [exact HS1|exact Hl1| |].
  - pose proof (Hall [e] h eq_refl) as H1. rewrite (run_cons_fst cfg) in H1. cbn [run fst] in H1.
    destruct (sel_np (chan_w (fst (step cfg s e))) a n) as [np|] eqn:E; [|destruct (H1 eq_refl)].
    rewrite (key_row_step s e a n np0 HS Hsel np E). reflexivity.
  - intros p q Eh. rewrite <- (run_cons_fst cfg). apply (Hall (e :: p) q). rewrite Eh. reflexivity.
Qed.

(** C03, the property text: two claims of nameplate (a, n), at positions i < j
    of a run from the initial state, both answered `claimed`; if the name has a
    row in every state from the one after event i to the one in which event j
    is applied (the nameplate lives throughout), the two answers are equal *)
Theorem claimed_pair_same_live t0 h1 ei h2 ej a n mi mj :
  claim_answered (at_ t0 h1) ei a n mi ->
  claim_answered (at_ t0 (h1 ++ ei :: h2)) ej a n mj ->
  (forall p q, h2 = p ++ q -> sel_np (chan_w (at_ t0 (h1 ++ ei :: p))) a n <> None) ->
  mi = mj.
Proof.
  intros Ci Cj Hlive. apply (claimed_pair_same_id t0 h1 ei h2 ej a n mi mj Ci Cj).
  intros npi npj Si Sj.
  destruct (at_inv t0 (h1 ++ [ei])) as [HSi Hli].
  assert (Ecut : forall p, h1 ++ ei :: p = (h1 ++ [ei]) ++ p)
    by (intros p; rewrite <- app_assoc; reflexivity).
  (* the row is still npi in the state in which event j is applied *)
  assert (Sb : sel_np (chan_w (at_ t0 (h1 ++ ei :: h2))) a n = Some npi).
  { rewrite Ecut, at_app. apply (key_row_run a n npi h2 _ HSi Hli Si).
    intros p q Eh. rewrite <- at_app, <- Ecut. exact (Hlive p q Eh). }
  (* and after it *)
  destruct (at_inv t0 (h1 ++ ei :: h2)) as [HSj _].
  assert (E3 : h1 ++ ei :: h2 ++ [ej] = (h1 ++ ei :: h2) ++ [ej])
    by (rewrite <- app_assoc; reflexivity).
  rewrite E3, at_snoc in Sj.
  rewrite (key_row_step _ ej a n npi HSj Sb npj Sj). reflexivity.
Qed.

(** * Two claims: different ids *)

(** under the fresh-draws hypothesis of [incarnations_distinct]: two claims,
    of nameplate (a, n) at position i and of (a', n') at position j; if the rows
    they were answered from carry different nameplates.ids -- a new incarnation
    of the same name after the old one was retired, another name, another app
    -- the two answers differ *)
Theorem claimed_pair_distinct t0 h1 ei h2 ej h3 a n a' n' mi mj :
  let h := h1 ++ ei :: h2 ++ ej :: h3 in
  NoDup (draws_of h) -> Forall (fun b => String.length b = 8%nat) (draws_of h) ->
  claim_answered (at_ t0 h1) ei a n mi ->
  claim_answered (at_ t0 (h1 ++ ei :: h2)) ej a' n' mj ->
  (forall npi npj,
     sel_np (chan_w (at_ t0 (h1 ++ [ei]))) a n = Some npi ->
     sel_np (chan_w (at_ t0 (h1 ++ ei :: h2 ++ [ej]))) a' n' = Some npj ->
     np_id npj <> np_id npi) ->
  mi <> mj.
Proof.
  cbv zeta. intros Hnd H8 Ci Cj Hid Em.
  assert (E1 : (h1 ++ [ei]) ++ h2 ++ ej :: h3 = h1 ++ ei :: h2 ++ ej :: h3)
    by (rewrite <- app_assoc; reflexivity).
  assert (E2 : ((h1 ++ ei :: h2) ++ [ej]) ++ h3 = h1 ++ ei :: h2 ++ ej :: h3)
    by (rewrite <- !app_assoc; reflexivity).
  assert (E3 : (h1 ++ ei :: h2) ++ [ej] = h1 ++ ei :: h2 ++ [ej])
    by (rewrite <- app_assoc; reflexivity).
  destruct (claimed_rows t0 h1 ei a n mi (h2 ++ ej :: h3) Ci) as (npi & Si & Mi & Ri).
  destruct (claimed_rows t0 (h1 ++ ei :: h2) ej a' n' mj h3 Cj) as (npj & Sj & Mj & Rj).
  rewrite E1 in Ri. rewrite E2 in Rj. rewrite E3 in Sj.
  apply (Hid npi npj Si Sj).
  rewrite (incarnations_distinct cfg Hexp t0 _ npj npi Hnd H8 Rj Ri); [reflexivity|]. congruence.
Qed.

(** both directions at once: with fresh draws, two `claimed` answers anywhere
    in a history are equal exactly when they come from the same incarnation *)
Theorem claimed_pair_iff t0 h1 ei h2 ej h3 a n a' n' mi mj npi npj :
  let h := h1 ++ ei :: h2 ++ ej :: h3 in
  NoDup (draws_of h) -> Forall (fun b => String.length b = 8%nat) (draws_of h) ->
  claim_answered (at_ t0 h1) ei a n mi ->
  claim_answered (at_ t0 (h1 ++ ei :: h2)) ej a' n' mj ->
  sel_np (chan_w (at_ t0 (h1 ++ [ei]))) a n = Some npi ->
  sel_np (chan_w (at_ t0 (h1 ++ ei :: h2 ++ [ej]))) a' n' = Some npj ->
  (mi = mj <-> np_id npj = np_id npi).
Proof.
  cbv zeta. intros Hnd H8 Ci Cj Si Sj.
  assert (E1 : (h1 ++ [ei]) ++ h2 ++ ej :: h3 = h1 ++ ei :: h2 ++ ej :: h3)
    by (rewrite <- app_assoc; reflexivity).
  assert (E2 : ((h1 ++ ei :: h2) ++ [ej]) ++ h3 = h1 ++ ei :: h2 ++ ej :: h3)
    by (rewrite <- !app_assoc; reflexivity).
  assert (E3 : (h1 ++ ei :: h2) ++ [ej] = h1 ++ ei :: h2 ++ [ej])
    by (rewrite <- app_assoc; reflexivity).
  destruct (claimed_rows t0 h1 ei a n mi (h2 ++ ej :: h3) Ci) as (ri & Si' & Mi & Ri).
  destruct (claimed_rows t0 (h1 ++ ei :: h2) ej a' n' mj h3 Cj) as (rj & Sj' & Mj & Rj).
  rewrite E1 in Ri. rewrite E2 in Rj. rewrite E3 in Sj'.
  rewrite Si in Si'. inversion Si'; subst ri. rewrite Sj in Sj'. inversion Sj'; subst rj.
  split.
  - intros Em. rewrite (incarnations_distinct cfg Hexp t0 _ npj npi Hnd H8 Rj Ri); [reflexivity|].
    congruence.
  - intros Eid. rewrite (rows_seen_functional cfg Hexp t0 _ npj npi Rj Ri Eid) in Mj. congruence.
Qed.

End WithConfig.

(** * Non-vacuity: a concrete history on the repository's constants

    Side s1 of app "a" claims nameplate "7" (draw AAAAAAAA): `claimed genid(A)`.
    The server restarts.  Side s2 connects and claims "7" (its draw BBBBBBBB is
    not used): the row is the same, the answer is the same.  Then s2 releases,
    s1 (on a new connection) releases: the nameplate is retired.  s1 claims "7"
    again (draw CCCCCCCC): a new incarnation -- nameplates.id 2 -- and another
    mailbox id. *)
Module ClaimedPairExamples.

Definition cfg := Inst_Params.gen_cfg true false None.
Lemma cfg_exp : 0 < exp cfg.
Proof. exact (Inst_Params.gen_cfg_exp true false None). Qed.

Definition o0 := mkOracle None (mkAO None []).
Definition od b := mkOracle (Some b) (mkAO None []).
Definition bind s := mkCmd (Some TBind) None (Some "a") (Some s) None None None None None None None.
Definition claim := mkCmd (Some TClaim) None None None (Some "7") None None None None None None.
Definition rel := mkCmd (Some TRelease) None None None (Some "7") None None None None None None.

Definition hA := [EB (EConnect 1); EB (ECmd 1 (bind "s1") o0)].
Definition eA := EB (ECmd 1 claim (od "AAAAAAAA")).
Definition hB := [ERestart; EB (EConnect 2); EB (ECmd 2 (bind "s2") o0)].
Definition eB := EB (ECmd 2 claim (od "BBBBBBBB")).
Definition hC := [EB (ECmd 2 rel o0); EB (EConnect 3); EB (ECmd 3 (bind "s1") o0); EB (ECmd 3 rel o0)].
Definition eC := EB (ECmd 3 claim (od "CCCCCCCC")).

Definition row1 := mkNp 1 "a" "7" (genid "AAAAAAAA").
Definition row2 := mkNp 2 "a" "7" (genid "CCCCCCCC").

Definition bound s := mkConn (Some ("a", s)) false false false None false None None false.

Lemma answered_A : claim_answered cfg (at_ cfg 0 hA) eA "a" "7" (genid "AAAAAAAA").
Proof. exists 1%nat, (bound "s1"), "s1", claim, (od "AAAAAAAA"). vm_compute. auto 10. Qed.

Lemma answered_B : claim_answered cfg (at_ cfg 0 (hA ++ eA :: hB)) eB "a" "7" (genid "AAAAAAAA").
Proof. exists 2%nat, (bound "s2"), "s2", claim, (od "BBBBBBBB"). vm_compute. auto 10. Qed.

Lemma answered_C :
  claim_answered cfg (at_ cfg 0 (hA ++ eA :: (hB ++ eB :: hC))) eC "a" "7" (genid "CCCCCCCC").
Proof.
  exists 3%nat, (mkConn (Some ("a", "s1")) false false false None true None None false), "s1",
         claim, (od "CCCCCCCC").
  vm_compute. auto 10.
Qed.

Lemma prefix_firstn {A} (l p q : list A) :
  l = p ++ q -> p = firstn (List.length p) l /\ (List.length p <= List.length l)%nat.
Proof.
  intros ->. split.
  - rewrite firstn_app, firstn_all, Nat.sub_diag. cbn [firstn]. symmetry. apply app_nil_r.
  - rewrite app_length. lia.
Qed.

(** the row of ("a", "7") is [row1] in every state from after the first claim
    to after the second *)
Lemma live_AB : forall i, (i <= 4)%nat ->
  sel_np (chan_w (at_ cfg 0 (hA ++ eA :: firstn i (hB ++ [eB])))) "a" "7" = Some row1.
Proof.
  intros i Hi. do 5 (destruct i as [|i]; [vm_compute; reflexivity|]). lia.
Qed.

(** [claimed_pair_same_live] applied: whatever the second claim is answered,
    it is what the first was answered *)
Example pair_same_live_applied :
  forall mj, claim_answered cfg (at_ cfg 0 (hA ++ eA :: hB)) eB "a" "7" mj -> mj = genid "AAAAAAAA".
Proof.
  intros mj Hj. symmetry.
  apply (claimed_pair_same_live cfg cfg_exp 0 hA eA hB eB "a" "7" _ _ answered_A Hj).
  intros p q E.
  assert (E' : hB ++ [eB] = p ++ (q ++ [eB])) by (rewrite E, app_assoc; reflexivity).
  destruct (prefix_firstn _ p _ E') as [Ep Hlen]. rewrite Ep, live_AB; [discriminate|exact Hlen].
Qed.

(** [claimed_pair_same] (the nameplates.id form) applied *)
Example pair_same_applied :
  forall mj, claim_answered cfg (at_ cfg 0 (hA ++ eA :: hB)) eB "a" "7" mj -> mj = genid "AAAAAAAA".
Proof.
  intros mj Hj. symmetry.
  apply (claimed_pair_same cfg cfg_exp 0 hA eA hB eB "a" "7" _ _ answered_A Hj).
  intros npi Si p q E.
  assert (E0 : sel_np (chan_w (at_ cfg 0 (hA ++ [eA]))) "a" "7" = Some row1) by (vm_compute; reflexivity).
  rewrite E0 in Si. inversion Si; subst npi.
  destruct (prefix_firstn _ p q E) as [Ep Hlen]. exists row1. split; [|reflexivity].
  rewrite Ep. apply live_AB. exact Hlen.
Qed.

Lemma draws_all :
  draws_of (hA ++ eA :: (hB ++ eB :: hC) ++ eC :: []) = ["AAAAAAAA"; "BBBBBBBB"; "CCCCCCCC"].
Proof. vm_compute. reflexivity. Qed.

(** [claimed_pair_distinct] applied to the first and the third claim: another
    incarnation, another mailbox id *)
Example pair_distinct_applied : genid "AAAAAAAA" <> genid "CCCCCCCC".
Proof.
  apply (claimed_pair_distinct cfg cfg_exp 0 hA eA (hB ++ eB :: hC) eC [] "a" "7" "a" "7").
  - rewrite draws_all. constructor; [intros [K|[K|[]]]; discriminate K|].
    constructor; [intros [K|[]]; discriminate K|]. constructor; [intros []|constructor].
  - rewrite draws_all. repeat constructor.
  - exact answered_A.
  - exact answered_C.
  - intros npi npj Si Sj.
    assert (E0 : sel_np (chan_w (at_ cfg 0 (hA ++ [eA]))) "a" "7" = Some row1) by (vm_compute; reflexivity).
    assert (E1 : sel_np (chan_w (at_ cfg 0 (hA ++ eA :: (hB ++ eB :: hC) ++ [eC]))) "a" "7" = Some row2)
      by (vm_compute; reflexivity).
    rewrite E0 in Si. rewrite E1 in Sj. inversion Si; inversion Sj. discriminate.
Qed.

(** the three answers, as computed *)
Example answers_computed :
  filter (fun p => match snd p with FClaimed _ => true | _ => false end)
         (flat_map (fun ob => frames_of (o_log ob))
                   (snd (run cfg (init cfg 0) (hA ++ eA :: (hB ++ eB :: hC) ++ [eC])))) =
  [(1%nat, FClaimed (genid "AAAAAAAA")); (2%nat, FClaimed (genid "AAAAAAAA"));
   (3%nat, FClaimed (genid "CCCCCCCC"))].
Proof. vm_compute. reflexivity. Qed.

End ClaimedPairExamples.

Print Assumptions claimed_pair_same_id.
Print Assumptions claimed_pair_same.
Print Assumptions claimed_pair_same_live.
Print Assumptions claimed_pair_distinct.
Print Assumptions claimed_pair_iff.
Print Assumptions ClaimedPairExamples.pair_same_live_applied.
Print Assumptions ClaimedPairExamples.pair_same_applied.
Print Assumptions ClaimedPairExamples.pair_distinct_applied.
Print Assumptions ClaimedPairExamples.answers_computed.
