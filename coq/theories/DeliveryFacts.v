(** DeliveryFacts.v -- C02 (and the attribution half of C05) at the level of
    whole histories: where every message frame comes from, and what a
    subscribed connection receives over the whole time it is subscribed.

    MbFactsA.v states C02 per step ([add_effect]: the frames of one add;
    [open_outcome]: the frames of one open).  TwoSidesEver.v accounts for the
    receivers of message frames ([message_frames_accounted]) but not for what
    the frames are.  Here:

    Part A: [message_frame_origin] -- over every event (crashes at any commit
            boundary included) every message frame is EITHER part of the replay
            of the receiver's own served `open` of a mailbox (a, m) -- then it
            is the frame of a stored row of (a, m) -- OR the broadcast of an
            `add` of that event by a connection holding (a, m) to a connection
            holding (a, m) -- then it is the frame of exactly the row the add
            stores, stamped with the side the adder bound to.  Nothing else
            emits a message frame.
    Part B: [inbox]: the rows connection c was sent as messages of (a, m)
            along a run, read off the observed frames.  One event:
            [inbox_step_holding] (a holder is sent exactly the row the event
            adds to its mailbox, once), [inbox_step_begin] (the event that
            starts a subscription replays the stored rows),
            [not_subscribed_silent] / [inbox_step_outsider] /
            [inbox_step_crash_outsider] (a non-holder is sent nothing of it,
            its own open excepted), [inbox_step_cases] (all of it in one
            statement), [msg_frames_in_inbox] / [msg_frames_run_accounted]
            (every message frame a connection is sent is counted in an inbox).
            Histories: [delivered_once] -- over one continuous subscription
            the inbox is the stored rows at the open, in replay order, followed
            by the rows added since, in order, each exactly once;
            [delivered_is_stored] / [delivered_once_ledger] -- which is, up to
            the replay order of the first part, the stored content / the
            ledger (CrashHist.ledger_c) of the mailbox at the end: same rows,
            same multiplicities.
    Part C: [message_frames_to_served_of]: the receiver of a message frame of
            mailbox (a, m) is bound to a side that [TwoSidesEver.served_in]
            lists for THAT mailbox.
    Part D: non-vacuity. *)
From MW Require Import Base Store Monad Usage Server Websocket Service Findings
     Inv StoreFacts Hoare DbFactsA DbFactsB OpFacts ProtoFacts Obs StepFacts SweepFacts
     NpFactsA MbFactsA MbFactsB CrowdFacts LifeFacts NpFactsB ResumeFacts HistFacts CrashLife
     CrashHist MbStable TwoSidesEver Inst_Params.
From Coq Require Import Sorting.Permutation.
Local Open Scope list_scope.

(** * Auxiliary: the replay order is a permutation of the stored rows *)

Lemma msg_insert_perm x l : Permutation (msg_insert x l) (x :: l).
Proof.
  induction l as [|y l IH]; cbn [msg_insert]; [apply Permutation_refl|].
  destruct (msg_rx x <? msg_rx y); [apply Permutation_refl|].
  apply (perm_trans (perm_skip y IH)). apply perm_swap.
Qed.

Lemma msg_sort_perm l : Permutation (msg_sort l) l.
Proof.
  unfold msg_sort. induction l as [|x l IH]; cbn [fold_right]; [apply perm_nil|].
  apply (perm_trans (msg_insert_perm x _)). apply perm_skip. exact IH.
Qed.

Lemma msg_sort_In r l : In r (msg_sort l) <-> In r l.
Proof.
  split; apply Permutation_in; [apply msg_sort_perm|apply Permutation_sym, msg_sort_perm].
Qed.

(** * Part A: where a message frame comes from *)

Section Origin.
Variable cfg : config.
Hypothesis Hexp : 0 < exp cfg.

(** frame [f], sent to connection [c] while base event [b] is processed in
    state [s], is part of the replay of c's own served `open` of (a, m):
    the event is an `open` of m on c, c is bound to app a and holds nothing, the
    open is served (c holds (a, m) once the event is complete), and [f] is the
    frame of a row stored for (a, m) when the event began *)
Definition replay_b (s : state) (b : bevent) (c : nat) (f : frame) (a m : string) : Prop :=
  exists msg o r,
    b = ECmd c msg o /\ m_type msg = Some TOpen /\ m_mailbox msg = Some m /\
    (exists sd, bound_to s c a sd) /\ (forall a' m', ~ holds s c a' m') /\
    holds (fst (step cfg s (EB b))) c a m /\
    In r (sel_msgs (chan_w s) a m) /\ f = msg_frame r.

(** ... is the broadcast of the `add` this event is: the adder [c0] is bound
    to (a, sd) and holds (a, m), the receiver holds (a, m), and [f] is the
    frame of exactly the row the add stores: phase, body and id as submitted,
    the adder's bound side, the arrival time *)
Definition broadcast_b (s : state) (b : bevent) (c : nat) (f : frame) (a m : string) : Prop :=
  exists c0 msg o sd ph bd r,
    b = ECmd c0 msg o /\ m_type msg = Some TAdd /\
    bound_to s c0 a sd /\ holds s c0 a m /\ holds s c a m /\
    m_phase msg = Some ph /\ m_body msg = Some bd /\
    r = mkMsg a m sd ph bd (now s) (m_id msg) /\
    added_msg s (EB b) = [r] /\ f = msg_frame r.

(** the two origins, for any event ([base_of]: the base event a crash event processes) *)
Definition frame_of_mailbox (s : state) (e : event) (c : nat) (f : frame) (a m : string) : Prop :=
  exists b, base_of e = Some b /\ (replay_b s b c f a m \/ broadcast_b s b c f a m).

(** an erroneous command is answered by ack / error frames only *)
Lemma erroneous_no_msg s c0 cs msg o c f :
  log s = [] -> lookup_conn c0 (conns s) = Some cs -> erroneous cs msg = true ->
  In (c, f) (frames_of (o_log (snd (step cfg s (EB (ECmd c0 msg o)))))) -> ~ is_msg f.
Proof.
  intros Hlog El Herr Hin Hf. revert Hin.
  unfold step. rewrite (set_log_nil s Hlog). unfold step_b, has_conn.
  rewrite El. rewrite (erroneous_harmless cfg c0 msg o s)
    by (unfold conn_of; rewrite El; exact Herr).
  rewrite Hlog. destruct (m_type msg); cbn; intros [K|K];
    try (inversion K; subst f; exact Hf); try destruct K as [K|[]];
    try (inversion K; subst f; exact Hf); destruct K.
Qed.

Lemma idle_holds_nothing s c cs :
  lookup_conn c (conns s) = Some cs -> c_mailbox cs = None -> forall a m, ~ holds s c a m.
Proof.
  intros El Em a m (cs' & sd & Hl & _ & Hm). rewrite El in Hl. inversion Hl; subst cs'. congruence.
Qed.

Lemma eb_msg_origin s b c f :
  SInv s -> log s = [] -> is_msg f ->
  In (c, f) (frames_of (o_log (snd (step cfg s (EB b))))) ->
  exists a m, (exists sd, bound_to s c a sd) /\
              (replay_b s b c f a m \/ broadcast_b s b c f a m).
Proof.
  intros HS Hlog Hf Hin.
  destruct (eb_msg_frames cfg s b c f HS Hlog Hf Hin)
    as (c0 & msg & o & cs & a & sd & -> & El & Ebd & Hcase).
  destruct (erroneous cs msg) eqn:Herr;
    [destruct (erroneous_no_msg s c0 cs msg o c f Hlog El Herr Hin Hf)|].
  destruct Hcase as [(Et & -> & m & Em)|(Et & _)].
  - (* open *)
    assert (Emb : c_mailbox cs = None).
    { unfold erroneous in Herr. rewrite Et, Ebd in Herr.
      destruct (c_mailbox cs); [discriminate|reflexivity]. }
    pose proof (open_outcome cfg s c cs a sd msg o m HS Hlog El Ebd Et Herr Em) as H.
    exists a, m. split; [exists sd, cs; auto|]. left.
    destruct (step cfg s (EB (ECmd c msg o))) as [s' ob] eqn:Est. cbn [snd] in Hin. cbv zeta in H.
    destruct H as (_ & [(_ & Hfr & _)|(_ & _ & [(_ & Hfr & _)|(_ & Hfr & _ & Hh)])]);
      rewrite Hfr in Hin.
    + exfalso. destruct Hin as [K|[]]. inversion K; subst f; exact Hf.
    + exfalso. destruct Hin as [K|[K|[]]]; inversion K; subst f; exact Hf.
    + destruct Hin as [K|K]; [exfalso; inversion K; subst f; exact Hf|].
      apply in_map_iff in K. destruct K as (r & K & Hr). inversion K; subst f.
      exists msg, o, r. split; [reflexivity|]. split; [exact Et|]. split; [exact Em|].
      split; [exists sd, cs; auto|]. split; [exact (idle_holds_nothing s c cs El Emb)|].
      split; [rewrite Est; exact Hh|]. split; [|reflexivity].
      apply msg_sort_In. exact Hr.
  - (* add *)
    unfold erroneous in Herr. rewrite Et, Ebd in Herr.
    destruct (c_mailbox cs) as [m|] eqn:Emb; [|discriminate].
    destruct (m_phase msg) as [ph|] eqn:Eph; [|discriminate].
    destruct (m_body msg) as [bd|] eqn:Ebo; [|discriminate].
    pose proof (add_effect cfg s c0 cs a sd msg o m ph bd HS Hlog El Ebd Emb Et Eph Ebo) as H.
    destruct (step cfg s (EB (ECmd c0 msg o))) as [s' ob]. cbn [snd] in Hin. cbv zeta in H.
    destruct H as (_ & Hfr & _ & _ & _ & _ & _ & _ & _ & Hc0 & Hh).
    rewrite Hfr in Hin. destruct Hin as [K|K]; [inversion K; subst f; destruct Hf|].
    apply in_map_iff in K. destruct K as (c' & K & Hc'). inversion K; subst c' f.
    assert (Hhc : holds s c a m) by (apply Hh; exact Hc').
    exists a, m. split.
    { destruct Hhc as (cs' & sd' & Hl' & Hb' & _). exists sd', cs'. auto. }
    right. exists c0, msg, o, sd, ph, bd, (mkMsg a m sd ph bd (now s) (m_id msg)).
    split; [reflexivity|]. split; [exact Et|]. split; [exists cs; auto|].
    split; [exists cs, sd; auto|]. split; [exact Hhc|].
    split; [exact Eph|]. split; [exact Ebo|]. split; [reflexivity|]. split; [|reflexivity].
    cbn [added_msg]. rewrite El, Et, Ebd, Emb, Eph, Ebo. reflexivity.
Qed.

Lemma msg_frame_origin_gen s e c f :
  SInv s -> log s = [] -> is_msg f ->
  In (c, f) (frames_of (o_log (snd (step cfg s e)))) ->
  exists a m, (exists sd_c, bound_to s c a sd_c) /\ frame_of_mailbox s e c f a m.
Proof.
  intros HS Hlog Hf Hin.
  assert (Hb : exists b, base_of e = Some b /\
                 In (c, f) (frames_of (o_log (snd (step cfg s (EB b)))))).
  { destruct e as [b|k b|].
    - exists b. auto.
    - exists b. split; [reflexivity|]. exact (crash_frames_sub cfg s k b _ Hin).
    - exfalso. revert Hin. unfold step. cbv zeta. destruct (boot_on cfg _ _ _) as [[s1 bl] x].
      cbn. intros []. }
  destruct Hb as (b & Hb & Hin1).
  destruct (eb_msg_origin s b c f HS Hlog Hf Hin1) as (a & m & Hbd & H).
  exists a, m. split; [exact Hbd|]. exists b. auto.
Qed.

(** C02 / C05, every event (crashes at any commit boundary included): every
    message frame is part of the replay of the receiver's own served open of
    a mailbox (a, m) of its app, or the broadcast of this event's add to (a, m)
    to a holder of (a, m); restarts, sweeps, connects, disconnects and all
    other commands emit none *)
Theorem message_frame_origin s e c sd ph bd rx id :
  SInv s -> log s = [] ->
  In (c, FMessage sd ph bd rx id) (frames_of (o_log (snd (step cfg s e)))) ->
  exists a m, (exists sd_c, bound_to s c a sd_c) /\
              frame_of_mailbox s e c (FMessage sd ph bd rx id) a m.
Proof. intros HS Hlog Hin. exact (msg_frame_origin_gen s e c (FMessage sd ph bd rx id) HS Hlog I Hin). Qed.

(** the broadcast frame carries the adder's bound side, the submitted phase,
    body and id, and the arrival time *)
Lemma broadcast_frame s b c f a m :
  broadcast_b s b c f a m ->
  exists c0 msg o sd ph bd, b = ECmd c0 msg o /\ bound_to s c0 a sd /\
    m_phase msg = Some ph /\ m_body msg = Some bd /\
    f = FMessage sd ph bd (now s) (m_id msg).
Proof.
  intros (c0 & msg & o & sd & ph & bd & r & -> & _ & Hb & _ & _ & Eph & Ebo & -> & _ & ->).
  exists c0, msg, o, sd, ph, bd. auto.
Qed.

End Origin.

(** * Part B: what a connection is sent of one mailbox, along a run *)

(** ** definitions *)

(** the mailbox the message frames of an event are about: that of the `open`
    or of the `add` the event is (by [message_frame_origin] no other event
    emits message frames) *)
Definition event_mbox (s : state) (e : event) : option (string * string) :=
  match base_of e with
  | Some (ECmd c0 msg _) =>
      match lookup_conn c0 (conns s) with
      | Some cs =>
          match c_bound cs, m_type msg with
          | Some (a, _), Some TOpen =>
              match m_mailbox msg with Some m => Some (a, m) | None => None end
          | Some (a, _), Some TAdd =>
              match c_mailbox cs with Some m => Some (a, m) | None => None end
          | _, _ => None
          end
      | None => None
      end
  | _ => None
  end.

(** the row of (a, m) a message frame shows: a frame carries side, phase, body,
    arrival time and id, that is all of a row but the mailbox it is a row of *)
Definition row_of (a m : string) (f : frame) : list msg_row :=
  match f with FMessage sd ph bd rx id => [mkMsg a m sd ph bd rx id] | _ => [] end.

(** the message frames sent to [c] in a list of frames, in order, as rows of (a, m) *)
Definition rows_to (c : nat) (a m : string) (l : list (nat * frame)) : list msg_row :=
  flat_map (fun p => if Nat.eqb (fst p) c then row_of a m (snd p) else []) l.

(** the message frames sent to [c] in a list of frames, in order *)
Definition msg_frames_to (c : nat) (l : list (nat * frame)) : list frame :=
  flat_map (fun p => if Nat.eqb (fst p) c
                     then match snd p with FMessage _ _ _ _ _ => [snd p] | _ => [] end
                     else []) l.

Section Inbox.
Variable cfg : config.

(** what event [e], processed in state [s], sends to [c] as messages of (a, m) *)
Definition inbox_step (s : state) (e : event) (c : nat) (a m : string) : list msg_row :=
  match event_mbox s e with
  | Some (a', m') =>
      if seqb a' a && seqb m' m
      then rows_to c a m (frames_of (o_log (snd (step cfg s e)))) else []
  | None => []
  end.

(** the inbox of connection [c] for mailbox (a, m) over a history: every row
    it was sent as a message of (a, m), in the order of arrival, with repetitions *)
Fixpoint inbox (s : state) (h : list event) (c : nat) (a m : string) : list msg_row :=
  match h with
  | [] => []
  | e :: h' => inbox_step s e c a m ++ inbox (fst (step cfg s e)) h' c a m
  end.

(** the rows the events of a history add to (a, m) and broadcast, in order
    ([delivered_msg]: as [LifeFacts.added_msg]; a crash event broadcasts the
    row iff the process survives the add's one commit, [2 <= k]) *)
Definition delivered_msg (s : state) (e : event) : list msg_row :=
  match e with
  | ECrash k b => if (2 <=? k)%nat then added_msg s (EB b) else []
  | _ => added_msg s e
  end.

Fixpoint delivered (s : state) (h : list event) (a m : string) : list msg_row :=
  match h with
  | [] => []
  | e :: h' => filter (mine a m) (delivered_msg s e) ++ delivered (fst (step cfg s e)) h' a m
  end.

End Inbox.

(** ** lists of frames *)

Lemma rows_to_nil_iff c a m l :
  rows_to c a m l = [] <-> (forall f, is_msg f -> ~ In (c, f) l).
Proof.
  unfold rows_to. induction l as [|[c' f'] l IH]; cbn [flat_map fst snd].
  - split; [intros _ f _ []|reflexivity].
  - split.
    + intros H. apply app_eq_nil in H. destruct H as [H1 H2].
      intros f Hf [K|K]; [|exact (proj1 IH H2 f Hf K)].
      inversion K; subst c' f'. rewrite Nat.eqb_refl in H1. destruct f; try destruct Hf. discriminate.
    + intros H. rewrite (proj2 IH) by (intros f Hf K; exact (H f Hf (or_intror K))).
      rewrite app_nil_r. destruct (Nat.eqb c' c) eqn:E; [|reflexivity].
      apply Nat.eqb_eq in E. subst c'.
      destruct f'; try reflexivity. exfalso. exact (H (FMessage _ _ _ _ _) I (or_introl eq_refl)).
Qed.

Lemma rows_to_replay c a m l :
  (forall r, In r l -> mine a m r = true) ->
  rows_to c a m (map (fun r => (c, msg_frame r)) l) = l.
Proof.
  unfold rows_to. induction l as [|r l IH]; intros H; [reflexivity|].
  cbn [map flat_map fst snd]. rewrite Nat.eqb_refl, IH by (intros x Hx; apply H; right; exact Hx).
  destruct (mine_true a m r (H r (or_introl eq_refl))) as [Ha Hm].
  destruct r; cbn in *. subst. reflexivity.
Qed.

Lemma rows_to_fanout_out c a m f L :
  ~ In c L -> rows_to c a m (map (fun c' => (c', f)) L) = [].
Proof.
  unfold rows_to. induction L as [|c' L IH]; intros H; [reflexivity|].
  cbn [map flat_map fst snd]. rewrite IH by (intros K; apply H; right; exact K).
  destruct (Nat.eqb c' c) eqn:E; [|reflexivity].
  apply Nat.eqb_eq in E. exfalso. apply H. left. exact E.
Qed.

Lemma rows_to_fanout c a m r L :
  mine a m r = true -> NoDup L -> In c L ->
  rows_to c a m (map (fun c' => (c', msg_frame r)) L) = [r].
Proof.
  intros Hr. destruct (mine_true a m r Hr) as [Ha Hm].
  induction L as [|c' L IH]; intros Hnd Hin; [destruct Hin|].
  inversion Hnd as [|c'' L' Hnin Hnd']; subst.
  change (rows_to c (msg_app r) (msg_mbox r) (map (fun c'0 => (c'0, msg_frame r)) (c' :: L)))
    with ((if Nat.eqb c' c then row_of (msg_app r) (msg_mbox r) (msg_frame r) else []) ++
          rows_to c (msg_app r) (msg_mbox r) (map (fun c'0 => (c'0, msg_frame r)) L)).
  destruct Hin as [->|Hin].
  - rewrite Nat.eqb_refl, rows_to_fanout_out by exact Hnin. destruct r; reflexivity.
  - rewrite (IH Hnd' Hin). destruct (Nat.eqb c' c) eqn:E; [|reflexivity].
    apply Nat.eqb_eq in E. subst c'. contradiction.
Qed.

Lemma rows_to_cons_other c a m c' f l :
  ~ is_msg f -> rows_to c a m ((c', f) :: l) = rows_to c a m l.
Proof.
  intros Hf. unfold rows_to. cbn [flat_map fst snd].
  destruct f; try (destruct (Nat.eqb c' c); reflexivity). destruct (Hf I).
Qed.

(** the message frames of a list, as frames, are the frames of the rows read off them *)
Lemma msg_frames_rows c a m l : msg_frames_to c l = map msg_frame (rows_to c a m l).
Proof.
  unfold msg_frames_to, rows_to. induction l as [|[c' f] l IH]; [reflexivity|].
  cbn [flat_map fst snd]. rewrite map_app, IH. f_equal.
  destruct (Nat.eqb c' c); [|reflexivity]. destruct f; reflexivity.
Qed.

Lemma msg_frames_to_spec c l f :
  In f (msg_frames_to c l) <-> is_msg f /\ In (c, f) l.
Proof.
  unfold msg_frames_to. rewrite in_flat_map. split.
  - intros ([c' f'] & Hin & H). cbn [fst snd] in H.
    destruct (Nat.eqb c' c) eqn:E; [|destruct H]. apply Nat.eqb_eq in E. subst c'.
    destruct f'; cbn [snd] in H; try contradiction. destruct H as [<-|[]]. split; [exact I|exact Hin].
  - intros [Hf Hin]. exists (c, f). split; [exact Hin|]. cbn [fst snd]. rewrite Nat.eqb_refl.
    destruct f; try destruct Hf. left. reflexivity.
Qed.

(** the row an event adds *)
Lemma added_msg_inv s b r l :
  added_msg s (EB b) = r :: l ->
  exists c0 msg o cs a m sd ph bd,
    b = ECmd c0 msg o /\ lookup_conn c0 (conns s) = Some cs /\ m_type msg = Some TAdd /\
    c_bound cs = Some (a, sd) /\ c_mailbox cs = Some m /\ m_phase msg = Some ph /\
    m_body msg = Some bd /\ r = mkMsg a m sd ph bd (now s) (m_id msg) /\ l = [].
Proof.
  destruct b as [c0|c0 msg o|c0|fl|dt fl]; cbn [added_msg]; try discriminate.
  destruct (lookup_conn c0 (conns s)) as [cs|] eqn:El; [|discriminate].
  destruct (m_type msg) as [t|] eqn:Et; [|discriminate].
  destruct t; try discriminate.
  destruct (c_bound cs) as [[a sd]|] eqn:Eb; [|discriminate].
  destruct (c_mailbox cs) as [m|] eqn:Em; [|discriminate].
  destruct (m_phase msg) as [ph|] eqn:Eph; [|discriminate].
  destruct (m_body msg) as [bd|] eqn:Ebo; [|discriminate].
  intros H. inversion H; subst r l.
  exists c0, msg, o, cs, a, m, sd, ph, bd. auto 10.
Qed.

Section Delivery.
Variable cfg : config.
Hypothesis Hexp : 0 < exp cfg.

(** ** one event, the receiver holds the mailbox *)

Lemma inbox_step_holding_eb s b c a m :
  SInv s -> log s = [] -> holds s c a m ->
  inbox_step cfg s (EB b) c a m = filter (mine a m) (added_msg s (EB b)).
Proof.
  intros HS Hlog Hh. unfold inbox_step.
  destruct (added_msg s (EB b)) as [|r l] eqn:Ea.
  - cbn [filter]. destruct (event_mbox s (EB b)) as [[a' m']|]; [|reflexivity].
    destruct (seqb a' a && seqb m' m); [|reflexivity].
    apply rows_to_nil_iff. intros f Hf Hin.
    destruct (eb_msg_origin cfg s b c f HS Hlog Hf Hin) as (a0 & m0 & _ & [R|B]).
    + destruct R as (msg & o & r & _ & _ & _ & _ & Hno & _). exact (Hno a m Hh).
    + destruct B as (c0 & msg & o & sd & ph & bd & r & _ & _ & _ & _ & _ & _ & _ & _ & Hadd & _).
      rewrite Ea in Hadd. discriminate.
  - destruct (added_msg_inv s b r l Ea)
      as (c0 & msg & o & cs & a0 & m0 & sd & ph & bd & -> & El & Et & Eb & Em & Eph & Ebo & -> & ->).
    unfold event_mbox. cbn [base_of]. rewrite El, Eb, Et, Em.
    cbn [filter]. unfold mine at 1. cbn [msg_app msg_mbox].
    destruct (seqb a0 a && seqb m0 m) eqn:Emine; [|reflexivity].
    assert (Hmine : mine a m (mkMsg a0 m0 sd ph bd (now s) (m_id msg)) = true) by exact Emine.
    apply andb_true_iff in Emine. destruct Emine as [Ea0 Em0].
    apply seqb_eq in Ea0. apply seqb_eq in Em0. subst a0 m0.
    pose proof (add_effect cfg s c0 cs a sd msg o m ph bd HS Hlog El Eb Em Et Eph Ebo) as H.
    destruct (step cfg s (EB (ECmd c0 msg o))) as [s' ob]. cbn [snd]. cbv zeta in H.
    destruct H as (_ & Hfr & _ & _ & _ & _ & _ & _ & Hnd & _ & Hsub).
    rewrite Hfr, rows_to_cons_other by (intros []).
    apply rows_to_fanout; [exact Hmine|exact Hnd|]. apply Hsub. exact Hh.
Qed.

(** C02, one event, crashes included: a connection holding (a, m) when the
    event begins is sent, as messages of (a, m), exactly the row the event adds
    to (a, m) -- once -- and nothing else; if the process dies during the
    event, the row iff it survives the add's commit *)
Theorem inbox_step_holding s e c a m :
  SInv s -> log s = [] -> holds s c a m ->
  inbox_step cfg s e c a m = filter (mine a m) (delivered_msg s e).
Proof.
  intros HS Hlog Hh. destruct e as [b|k b|].
  - exact (inbox_step_holding_eb s b c a m HS Hlog Hh).
  - pose proof (inbox_step_holding_eb s b c a m HS Hlog Hh) as H0.
    unfold inbox_step in *. change (event_mbox s (ECrash k b)) with (event_mbox s (EB b)).
    cbn [delivered_msg].
    destruct (added_msg s (EB b)) as [|r l] eqn:Ea.
    + assert (E : filter (mine a m) (if (2 <=? k)%nat then [] else []) = [])
        by (destruct (2 <=? k)%nat; reflexivity).
      rewrite E. cbn [filter] in H0.
      destruct (event_mbox s (EB b)) as [[a' m']|]; [|reflexivity].
      destruct (seqb a' a && seqb m' m); [|reflexivity].
      apply rows_to_nil_iff. intros f Hf Hin.
      apply (crash_frames_sub cfg) in Hin.
      exact (proj1 (rows_to_nil_iff c a m _) H0 f Hf Hin).
    + destruct (added_msg_inv s b r l Ea)
        as (c0 & msg & o & cs & a0 & m0 & sd & ph & bd & -> & El & Et & Eb & Em & Eph & Ebo & -> & ->).
      destruct (add_step_b cfg s c0 cs a0 sd msg o m0 ph bd Hlog El Eb Em Et Eph Ebo)
        as (s1 & fr & Est & Hcc & Hnow & Hrev & Hfr). cbv zeta in Hcc, Hrev.
      destruct (event_mbox s (EB (ECmd c0 msg o))) as [[a' m']|]; [|destruct (2 <=? k)%nat; [exact H0|reflexivity]].
      destruct (seqb a' a && seqb m' m);
        [|destruct (2 <=? k)%nat; [exact H0|reflexivity]].
      revert H0. unfold step. rewrite (set_log_nil s Hlog), Est. cbv zeta. cbn [snd o_log]. rewrite Hrev.
      set (r := mkMsg a0 m0 sd ph bd (now s) (m_id msg)) in *.
      assert (Hcnt : count_commits (LFrame c0 (FAck (m_id msg)) (is_clean s) (now s) ::
                                    LCommitChan (upd_touch (ins_msg (chan_w s) r) m0 (now s)) :: fr)
                     = 1%nat).
      { unfold count_commits. cbn [filter is_commit]. rewrite (filter_commit_nil fr Hfr). reflexivity. }
      rewrite Hcnt. cbn [negb orb]. rewrite orb_false_r.
      destruct k as [|[|k]].
      * intros _. cbn [Nat.ltb Nat.leb]. rewrite log_prefix_0.
        destruct (replay_commits _ _ _) as [c1 u1]. destruct (boot_on cfg _ _ _) as [[s2 bl] x2].
        reflexivity.
      * intros _. cbn [Nat.ltb Nat.leb log_prefix is_commit]. rewrite log_prefix_0.
        destruct (replay_commits _ _ _) as [c1 u1]. destruct (boot_on cfg _ _ _) as [[s2 bl] x2].
        cbn [snd o_log frames_of]. rewrite rows_to_cons_other by (intros []). reflexivity.
      * intros H0. cbn [Nat.ltb Nat.leb].
        destruct (boot_on cfg _ _ _) as [[s2 bl] x2]. cbn [snd o_log]. exact H0.
  - reflexivity.
Qed.

(** ** one event, the receiver does not hold the mailbox *)

(** the mailbox a replay / a broadcast is about is the event's mailbox *)
Lemma event_mbox_origin s e c f a m :
  frame_of_mailbox cfg s e c f a m -> event_mbox s e = Some (a, m).
Proof.
  intros (b & Hb & [R|B]); unfold event_mbox; rewrite Hb.
  - destruct R as (msg & o & r & -> & Et & Em & (sd & cs & El & Ebd) & _).
    rewrite El, Ebd, Et, Em. reflexivity.
  - destruct B as (c0 & msg & o & sd & ph & bd & r & -> & Et & (cs & El & Ebd) & Hh & _).
    destruct Hh as (cs' & sd' & El' & _ & Em). rewrite El in El'. inversion El'; subst cs'.
    rewrite El, Ebd, Et, Em. reflexivity.
Qed.

(** C02, "connections that are not subscribed to that mailbox receive nothing
    from it": while an event adds a row to (a, m), a connection that does not
    hold (a, m) is sent no message frame at all *)
Theorem not_subscribed_silent s e b c a m r :
  SInv s -> log s = [] -> base_of e = Some b ->
  added_msg s (EB b) = [r] -> mine a m r = true -> ~ holds s c a m ->
  forall f, is_msg f -> ~ In (c, f) (frames_of (o_log (snd (step cfg s e)))).
Proof.
  intros HS Hlog Hb Ha Hr Hn f Hf Hin.
  destruct (msg_frame_origin_gen cfg s e c f HS Hlog Hf Hin) as (a0 & m0 & _ & b' & Hb' & [R|B]);
    rewrite Hb in Hb'; inversion Hb'; subst b'.
  - destruct R as (msg & o & r0 & -> & Et & _). cbn [added_msg] in Ha.
    rewrite Et in Ha. destruct (lookup_conn c (conns s)); discriminate.
  - destruct B as (c0 & msg & o & sd & ph & bd & r0 & _ & _ & _ & _ & Hh & _ & _ & -> & Ha' & _).
    rewrite Ha in Ha'. inversion Ha'; subst r.
    apply mine_true in Hr. cbn [msg_app msg_mbox] in Hr. destruct Hr as [-> ->]. exact (Hn Hh).
Qed.

(** ... and whatever the event: a connection that does not hold (a, m) when
    the event begins is sent nothing as a message of (a, m), unless the event
    is its own `open` of m *)
Theorem inbox_step_outsider s e c a m :
  SInv s -> log s = [] -> ~ holds s c a m ->
  (forall msg o, base_of e = Some (ECmd c msg o) ->
                 ~ (m_type msg = Some TOpen /\ m_mailbox msg = Some m)) ->
  inbox_step cfg s e c a m = [].
Proof.
  intros HS Hlog Hn Hno. unfold inbox_step.
  destruct (event_mbox s e) as [[a' m']|] eqn:Eev; [|reflexivity].
  destruct (seqb a' a && seqb m' m) eqn:Et; [|reflexivity].
  apply andb_true_iff in Et. destruct Et as [Ea Em].
  apply seqb_eq in Ea. apply seqb_eq in Em. subst a' m'.
  apply rows_to_nil_iff. intros f Hf Hin.
  destruct (msg_frame_origin_gen cfg s e c f HS Hlog Hf Hin) as (a0 & m0 & _ & Hfm).
  pose proof (event_mbox_origin s e c f a0 m0 Hfm) as Eev'. rewrite Eev in Eev'.
  inversion Eev'; subst a0 m0.
  destruct Hfm as (b & Hb & [R|B]).
  - destruct R as (msg & o & r & -> & Et & Em & _). exact (Hno msg o Hb (conj Et Em)).
  - destruct B as (c0 & msg & o & sd & ph & bd & r & _ & _ & _ & _ & Hh & _). exact (Hn Hh).
Qed.

(** ** the event that starts a subscription *)

Lemma sel_msgs_mine_all d a m r : In r (sel_msgs d a m) -> mine a m r = true.
Proof. rewrite sel_msgs_mine. intros H. apply filter_In in H. exact (proj2 H). Qed.

(** C02 / C01: the event after which [c] holds (a, m), not having held it
    before, sends [c] the rows stored for (a, m) when the event began -- each
    once, in replay order (oldest first) -- and nothing else of (a, m) *)
Theorem inbox_step_begin s e c a m :
  SInv s -> log s = [] -> ~ holds s c a m -> holds (fst (step cfg s e)) c a m ->
  inbox_step cfg s e c a m = msg_sort (sel_msgs (chan_w s) a m) /\
  added_msg_c s e = [] /\ delivered_msg s e = [] /\
  exists msg o, e = EB (ECmd c msg o) /\ m_type msg = Some TOpen /\ m_mailbox msg = Some m.
Proof.
  intros HS Hlog Hn Hh.
  destruct (holds_begins_only_by_open_all cfg Hexp s e c a m HS Hlog Hh Hn)
    as (msg & o & -> & Et & Em & sd & cs & El & Ebd).
  assert (Hadd : added_msg s (EB (ECmd c msg o)) = []).
  { cbn [added_msg]. rewrite El, Et. reflexivity. }
  split; [|split; [exact Hadd|split; [exact Hadd|exists msg, o; auto]]].
  destruct (erroneous cs msg) eqn:Herr.
  { exfalso. apply Hn. revert Hh. unfold step. rewrite (set_log_nil s Hlog). unfold step_b, has_conn.
    rewrite El. rewrite (erroneous_harmless cfg c msg o s)
      by (unfold conn_of; rewrite El; exact Herr).
    cbn [fst]. unfold holds. cbn [conns set_log]. auto. }
  pose proof (open_outcome cfg s c cs a sd msg o m HS Hlog El Ebd Et Herr Em) as H.
  unfold inbox_step, event_mbox. cbn [base_of]. rewrite El, Ebd, Et, Em, !seqb_refl. cbn [andb].
  destruct (step cfg s (EB (ECmd c msg o))) as [s' ob] eqn:Est. cbn [fst snd] in *. cbv zeta in H.
  destruct H as (_ & [(Hx & _)|(_ & _ & [(_ & _ & _ & Hno)|(_ & Hfr & _)])]).
  - exfalso. pose proof (step_exc_dropped cfg s c msg o s' ob XIntegrity Est Hx) as Hnone.
    destruct Hh as (cs' & sd' & Hl' & _). congruence.
  - destruct (Hno Hh).
  - rewrite Hfr, rows_to_cons_other by (intros []).
    apply rows_to_replay. intros r Hr. apply (proj1 (msg_sort_In _ _)) in Hr.
    exact (sel_msgs_mine_all _ a m r Hr).
Qed.

(** ... and if the process dies while it processes an `open` (of a connection
    that does not hold (a, m)): nothing of (a, m), or the complete replay of an
    open that was served before the process died *)
Theorem inbox_step_crash_outsider s k b c a m :
  SInv s -> log s = [] -> ~ holds s c a m ->
  inbox_step cfg s (ECrash k b) c a m = [] \/
  (inbox_step cfg s (ECrash k b) c a m = msg_sort (sel_msgs (chan_w s) a m) /\
   holds (fst (step cfg s (EB b))) c a m).
Proof.
  intros HS Hlog Hn.
  destruct (inbox_step cfg s (ECrash k b) c a m) as [|r0 l0] eqn:Ei; [left; reflexivity|right].
  assert (Hex : exists f, is_msg f /\ In (c, f) (frames_of (o_log (snd (step cfg s (ECrash k b)))))).
  { revert Ei. unfold inbox_step. destruct (event_mbox s (ECrash k b)) as [[a' m']|]; [|discriminate].
    destruct (seqb a' a && seqb m' m); [|discriminate]. intros Ei.
    destruct (msg_frame_dec c (frames_of (o_log (snd (step cfg s (ECrash k b))))))
      as [(f & Hf & Hin)|Hno]; [exists f; auto|].
    rewrite (proj2 (rows_to_nil_iff c a m _) Hno) in Ei. discriminate. }
  destruct Hex as (f & Hf & Hin).
  pose proof (crash_told_completed is_msg (fun f H => or_introl H) cfg s k b c f Hf Hin) as Ecr.
  assert (Eq : inbox_step cfg s (ECrash k b) c a m = inbox_step cfg s (EB b) c a m).
  { unfold inbox_step. change (event_mbox s (ECrash k b)) with (event_mbox s (EB b)).
    rewrite Ecr. destruct (step cfg s (EB b)) as [s1 ob1].
    destruct (boot_on cfg _ _ _) as [[s2 bl] x2]. reflexivity. }
  rewrite <- Ei, Eq.
  assert (Hh : holds (fst (step cfg s (EB b))) c a m).
  { assert (Hne : inbox_step cfg s (EB b) c a m <> []) by (rewrite <- Eq, Ei; discriminate).
    destruct (inbox_step cfg s (EB b) c a m) as [|r1 l1] eqn:Ei1; [destruct (Hne eq_refl)|].
    revert Ei1. unfold inbox_step.
    destruct (event_mbox s (EB b)) as [[a' m']|] eqn:Eev; [|discriminate].
    destruct (seqb a' a && seqb m' m) eqn:Et; [|discriminate].
    apply andb_true_iff in Et. destruct Et as [Ea Em].
    apply seqb_eq in Ea. apply seqb_eq in Em. subst a' m'. intros Ei1.
    destruct (msg_frame_dec c (frames_of (o_log (snd (step cfg s (EB b))))))
      as [(f1 & Hf1 & Hin1)|Hno].
    2:{ rewrite (proj2 (rows_to_nil_iff c a m _) Hno) in Ei1. discriminate. }
    destruct (msg_frame_origin_gen cfg s (EB b) c f1 HS Hlog Hf1 Hin1) as (a0 & m0 & _ & Hfm).
    pose proof (event_mbox_origin s (EB b) c f1 a0 m0 Hfm) as Eev'. rewrite Eev in Eev'.
    inversion Eev'; subst a0 m0.
    destruct Hfm as (b' & Hb' & [R|B]); cbn [base_of] in Hb'; inversion Hb'; subst b'.
    - destruct R as (msg & o & r & _ & _ & _ & _ & _ & Hh & _). exact Hh.
    - destruct B as (c0 & msg & o & sd & ph & bd & r & _ & _ & _ & _ & Hh & _). destruct (Hn Hh). }
  split; [|exact Hh].
  exact (proj1 (inbox_step_begin s (EB b) c a m HS Hlog Hn Hh)).
Qed.

(** ** along a run *)

(** [c] holds (a, m) (is subscribed to it) *)
Definition holding (c : nat) (a m : string) : state -> Prop := fun s => holds s c a m.

(** [c] holds (a, m) in every state of the run over [h] from [s], the last one included *)
Fixpoint holds_through (s : state) (h : list event) (c : nat) (a m : string) : Prop :=
  holds s c a m /\
  match h with
  | [] => True
  | e :: h' => holds_through (fst (step cfg s e)) h' c a m
  end.

Lemma holds_through_spec h : forall s c a m,
  holds_through s h c a m <->
  (forall h1 h2, h = h1 ++ h2 -> holds (fst (run cfg s h1)) c a m).
Proof.
  induction h as [|e h IH]; intros s c a m; cbn [holds_through].
  - split.
    + intros [H _] h1 h2 E. destruct h1; [exact H|discriminate].
    + intros H. split; [exact (H [] [] eq_refl)|exact I].
  - rewrite IH. split.
    + intros [H0 H] h1 h2 E. destruct h1 as [|e1 h1]; [exact H0|].
      cbn [app] in E. inversion E; subst e1 h. rewrite run_cons_fst. exact (H h1 h2 eq_refl).
    + intros H. split; [exact (H [] (e :: h) eq_refl)|].
      intros h1 h2 E. rewrite <- run_cons_fst. apply (H (e :: h1) h2). rewrite E. reflexivity.
Qed.

Lemma holds_through_along s h c a m :
  holds_through s h c a m -> alive_along cfg (holding c a m) s h.
Proof.
  intros H h1 h2 E _. exact (proj1 (holds_through_spec h s c a m) H h1 h2 E).
Qed.

(** while [c] holds (a, m) -- in the state every event of [h] starts in; what
    the last event of [h] leaves is free: it may be the event that ends the
    subscription, a crash included -- its inbox is exactly the rows the events
    add to (a, m), in order, each once *)
Theorem inbox_while_holding h : forall s c a m,
  SInv s -> log s = [] -> alive_along cfg (holding c a m) s h ->
  inbox cfg s h c a m = delivered cfg s h a m.
Proof.
  induction h as [|e h IH]; intros s c a m HS Hlog Hal; [reflexivity|].
  apply alive_along_cons in Hal. destruct Hal as [Hh Hal].
  destruct (step_inv cfg Hexp s e HS) as [HS1 Hlog1].
  cbn [inbox delivered]. rewrite (inbox_step_holding s e c a m HS Hlog Hh).
  f_equal. exact (IH _ c a m HS1 Hlog1 Hal).
Qed.

(** C02 over one continuous subscription: event [e] starts it ([c] does not
    hold (a, m) before, holds it after: necessarily c's own served open,
    [inbox_step_begin]), and [c] still holds (a, m) when each event of [h]
    begins (the last event of [h] may end the subscription: close, disconnect,
    deletion of the mailbox, restart, crash).  Then, over [e :: h], [c] is sent
    as messages of (a, m): the rows stored for (a, m) when it opened, in replay
    order; then the rows added to (a, m) by the events of [h], in order; each
    exactly once; nothing else *)
Theorem delivered_once s e h c a m :
  SInv s -> log s = [] -> ~ holds s c a m ->
  let s1 := fst (step cfg s e) in
  holds s1 c a m -> alive_along cfg (holding c a m) s1 h ->
  inbox cfg s (e :: h) c a m = msg_sort (sel_msgs (chan_w s) a m) ++ delivered cfg s1 h a m.
Proof.
  intros HS Hlog Hn s1 Hh Hal.
  destruct (step_inv cfg Hexp s e HS) as [HS1 Hlog1].
  cbn [inbox]. rewrite (proj1 (inbox_step_begin s e c a m HS Hlog Hn Hh)).
  f_equal. exact (inbox_while_holding h s1 c a m HS1 Hlog1 Hal).
Qed.

(** while [c] holds (a, m) the mailbox is there and the process does not die *)
Lemma holds_has_mb s c a m : SInv s -> holds s c a m -> has_mb (chan_w s) a m.
Proof.
  intros HS Hh. apply (holds_iff_sub s c a m HS) in Hh.
  exact (proj1 (si_subs s HS _ Hh)).
Qed.

Lemma holds_after_not_crash s e c a m :
  SInv s -> holds (fst (step cfg s e)) c a m -> not_crash e.
Proof.
  intros HS Hh. destruct e as [b|k b|]; [exact I| |exact I].
  destruct (crash_holds_nothing cfg Hexp s k b c a m HS Hh).
Qed.

Lemma delivered_msg_not_crash s e : not_crash e -> delivered_msg s e = added_msg_c s e.
Proof. destruct e as [b|k b|]; [reflexivity|intros []|reflexivity]. Qed.

(** ... what is stored for (a, m) meanwhile: the rows stored before, then the rows added *)
Theorem stored_while_holding h : forall s c a m,
  SInv s -> log s = [] -> holds_through s h c a m ->
  sel_msgs (chan_w (fst (run cfg s h))) a m = sel_msgs (chan_w s) a m ++ delivered cfg s h a m.
Proof.
  induction h as [|e h IH]; intros s c a m HS Hlog Hh.
  - cbn [run fst delivered]. rewrite app_nil_r. reflexivity.
  - destruct Hh as [Hh0 Hh]. destruct (step_inv cfg Hexp s e HS) as [HS1 Hlog1].
    assert (Hh1 : holds (fst (step cfg s e)) c a m) by (destruct h; exact (proj1 Hh)).
    rewrite run_cons_fst, (IH _ c a m HS1 Hlog1 Hh). cbn [delivered].
    rewrite (mailbox_messages_stable_all cfg Hexp s e a m HS Hlog (holds_has_mb _ c a m HS1 Hh1)).
    rewrite (delivered_msg_not_crash s e (holds_after_not_crash s e c a m HS Hh1)).
    rewrite app_assoc. reflexivity.
Qed.

(** C02 + C01: if [c] still holds (a, m) at the end of the run, what it has
    been sent since its open is what is stored for (a, m) at the end -- the
    rows stored at the open in replay order, the later ones in the order of
    storage -- each stored row sent exactly once, nothing else sent *)
Theorem delivered_is_stored s e h c a m :
  SInv s -> log s = [] -> ~ holds s c a m ->
  let s1 := fst (step cfg s e) in
  let s2 := fst (run cfg s (e :: h)) in
  holds_through s1 h c a m ->
  inbox cfg s (e :: h) c a m = msg_sort (sel_msgs (chan_w s) a m) ++ delivered cfg s1 h a m /\
  sel_msgs (chan_w s2) a m = sel_msgs (chan_w s) a m ++ delivered cfg s1 h a m /\
  Permutation (inbox cfg s (e :: h) c a m) (sel_msgs (chan_w s2) a m) /\
  (forall r, count_occ msg_row_dec (inbox cfg s (e :: h) c a m) r =
             count_occ msg_row_dec (sel_msgs (chan_w s2) a m) r).
Proof.
  intros HS Hlog Hn s1 s2 Hh.
  destruct (step_inv cfg Hexp s e HS) as [HS1 Hlog1].
  assert (Hh1 : holds s1 c a m) by (destruct h; exact (proj1 Hh)).
  pose proof (delivered_once s e h c a m HS Hlog Hn Hh1 (holds_through_along _ _ _ _ _ Hh)) as E1.
  assert (E2 : sel_msgs (chan_w s2) a m = sel_msgs (chan_w s) a m ++ delivered cfg s1 h a m).
  { unfold s2. rewrite run_cons_fst. fold s1.
    rewrite (stored_while_holding h s1 c a m HS1 Hlog1 Hh). f_equal.
    unfold s1.
    rewrite (mailbox_messages_stable_all cfg Hexp s e a m HS Hlog (holds_has_mb _ c a m HS1 Hh1)).
    destruct (inbox_step_begin s e c a m HS Hlog Hn Hh1) as (_ & -> & _). apply app_nil_r. }
  assert (P : Permutation (inbox cfg s (e :: h) c a m) (sel_msgs (chan_w s2) a m)).
  { cbv zeta in E1. fold s1 in E1. rewrite E1, E2. apply Permutation_app_tail. apply msg_sort_perm. }
  split; [exact E1|]. split; [exact E2|]. split; [exact P|].
  apply (Permutation_count_occ msg_row_dec). exact P.
Qed.

(** ... from the initial state: the stored rows are the mailbox's ledger
    (CrashHist.ledger_c: every row added and committed since the mailbox's row
    was created, crashes included) *)
Theorem delivered_once_ledger t0 h0 e h c a m :
  let s := fst (run cfg (init cfg t0) h0) in
  let s1 := fst (step cfg s e) in
  let L0 := ledger_c cfg (init cfg t0) h0 a m [] in
  let L := ledger_c cfg (init cfg t0) (h0 ++ e :: h) a m [] in
  ~ holds s c a m -> holds_through s1 h c a m ->
  inbox cfg s (e :: h) c a m = msg_sort L0 ++ delivered cfg s1 h a m /\
  L = L0 ++ delivered cfg s1 h a m /\
  (forall r, count_occ msg_row_dec (inbox cfg s (e :: h) c a m) r = count_occ msg_row_dec L r).
Proof.
  intros s s1 L0 L Hn Hh.
  destruct (init_spec cfg Hexp t0) as [Hi Li].
  destruct (run_inv cfg Hexp h0 (init cfg t0) Hi Li) as [HS Hlog]. fold s in HS, Hlog.
  destruct (delivered_is_stored s e h c a m HS Hlog Hn Hh) as (E1 & E2 & _ & E4).
  assert (F0 : sel_msgs (chan_w s) a m = L0).
  { unfold s, L0. rewrite (stored_is_ledger_all cfg Hexp h0 (init cfg t0) a m Hi Li).
    rewrite sel_msgs_mine, init_messages. reflexivity. }
  assert (F1 : sel_msgs (chan_w (fst (run cfg s (e :: h)))) a m = L).
  { unfold s, L. rewrite <- run_app_fst_t.
    rewrite (stored_is_ledger_all cfg Hexp (h0 ++ e :: h) (init cfg t0) a m Hi Li).
    rewrite sel_msgs_mine, init_messages. reflexivity. }
  rewrite F0 in E1, E2. rewrite F1 in E2, E4. auto.
Qed.

(** ** the complete account of one event, for any connection and mailbox *)

Lemma holds_dec s c a m : {holds s c a m} + {~ holds s c a m}.
Proof.
  unfold holds. destruct (lookup_conn c (conns s)) as [cs|] eqn:El.
  2:{ right. intros (cs & sd & H & _). discriminate. }
  destruct (c_bound cs) as [[a' sd]|] eqn:Eb.
  2:{ right. intros (cs' & sd & H & Hb & _). inversion H; subst cs'. congruence. }
  destruct (c_mailbox cs) as [m'|] eqn:Em.
  2:{ right. intros (cs' & sd' & H & _ & Hm). inversion H; subst cs'. congruence. }
  destruct (string_dec a' a) as [->|Na].
  2:{ right. intros (cs' & sd' & H & Hb & _). inversion H; subst cs'. congruence. }
  destruct (string_dec m' m) as [->|Nm].
  2:{ right. intros (cs' & sd' & H & _ & Hm). inversion H; subst cs'. congruence. }
  left. exists cs, sd. auto.
Qed.

(** a message frame of (a, m) to a connection that does not hold (a, m) starts its subscription *)
Lemma inbox_step_eb_quiet s b c a m :
  SInv s -> log s = [] -> ~ holds s c a m -> ~ holds (fst (step cfg s (EB b))) c a m ->
  inbox_step cfg s (EB b) c a m = [].
Proof.
  intros HS Hlog Hn Hn'. unfold inbox_step.
  destruct (event_mbox s (EB b)) as [[a' m']|] eqn:Eev; [|reflexivity].
  destruct (seqb a' a && seqb m' m) eqn:Et; [|reflexivity].
  apply andb_true_iff in Et. destruct Et as [Ea Em].
  apply seqb_eq in Ea. apply seqb_eq in Em. subst a' m'.
  apply rows_to_nil_iff. intros f Hf Hin.
  destruct (msg_frame_origin_gen cfg s (EB b) c f HS Hlog Hf Hin) as (a0 & m0 & _ & Hfm).
  pose proof (event_mbox_origin s (EB b) c f a0 m0 Hfm) as Eev'. rewrite Eev in Eev'.
  inversion Eev'; subst a0 m0.
  destruct Hfm as (b' & Hb' & [R|B]); cbn [base_of] in Hb'; inversion Hb'; subst b'.
  - destruct R as (msg & o & r & _ & _ & _ & _ & _ & Hh & _). exact (Hn' Hh).
  - destruct B as (c0 & msg & o & sd & ph & bd & r & _ & _ & _ & _ & Hh & _). exact (Hn Hh).
Qed.

(** C02, the whole of it for one event -- any event, any connection, any
    mailbox: what [c] is sent as messages of (a, m) is
    - if it holds (a, m): the row the event adds to (a, m), once, or nothing;
    - if it does not: nothing -- unless the event is its own served `open` of
      (a, m) (possibly followed by the death of the process): then the rows
      stored for (a, m), each once, in replay order *)
Theorem inbox_step_cases s e c a m :
  SInv s -> log s = [] ->
  (holds s c a m /\ inbox_step cfg s e c a m = filter (mine a m) (delivered_msg s e)) \/
  (~ holds s c a m /\
   (inbox_step cfg s e c a m = [] \/
    (inbox_step cfg s e c a m = msg_sort (sel_msgs (chan_w s) a m) /\
     exists msg o, base_of e = Some (ECmd c msg o) /\ m_type msg = Some TOpen /\
                   m_mailbox msg = Some m /\
                   holds (fst (step cfg s (EB (ECmd c msg o)))) c a m))).
Proof.
  intros HS Hlog. destruct (holds_dec s c a m) as [Hh|Hn].
  - left. split; [exact Hh|]. exact (inbox_step_holding s e c a m HS Hlog Hh).
  - right. split; [exact Hn|].
    assert (Hopen : forall b, holds (fst (step cfg s (EB b))) c a m ->
              exists msg o, b = ECmd c msg o /\ m_type msg = Some TOpen /\ m_mailbox msg = Some m).
    { intros b Hh. destruct (inbox_step_begin s (EB b) c a m HS Hlog Hn Hh)
        as (_ & _ & _ & msg & o & E & Et & Em). inversion E; subst b. exists msg, o. auto. }
    destruct e as [b|k b|].
    + destruct (holds_dec (fst (step cfg s (EB b))) c a m) as [Hh|Hn'].
      * right. split; [exact (proj1 (inbox_step_begin s (EB b) c a m HS Hlog Hn Hh))|].
        destruct (Hopen b Hh) as (msg & o & -> & Et & Em). exists msg, o. auto.
      * left. exact (inbox_step_eb_quiet s b c a m HS Hlog Hn Hn').
    + destruct (inbox_step_crash_outsider s k b c a m HS Hlog Hn) as [E|[E Hh]]; [left; exact E|].
      right. split; [exact E|].
      destruct (Hopen b Hh) as (msg & o & -> & Et & Em). exists msg, o. auto.
    + left. reflexivity.
Qed.

(** every message frame an event sends to [c] is counted in [inbox_step], for
    the mailbox the event is about; an event about no mailbox sends none *)
Theorem msg_frames_in_inbox s e c :
  SInv s -> log s = [] ->
  msg_frames_to c (frames_of (o_log (snd (step cfg s e)))) =
    match event_mbox s e with
    | Some (a, m) => map msg_frame (inbox_step cfg s e c a m)
    | None => []
    end.
Proof.
  intros HS Hlog. unfold inbox_step.
  destruct (event_mbox s e) as [[a m]|] eqn:Eev.
  - rewrite !seqb_refl. cbn [andb]. apply msg_frames_rows.
  - destruct (msg_frames_to c (frames_of (o_log (snd (step cfg s e))))) as [|f l] eqn:E; [reflexivity|].
    exfalso.
    assert (Hin : In f (msg_frames_to c (frames_of (o_log (snd (step cfg s e))))))
      by (rewrite E; left; reflexivity).
    apply msg_frames_to_spec in Hin. destruct Hin as [Hf Hin].
    destruct (msg_frame_origin_gen cfg s e c f HS Hlog Hf Hin) as (a0 & m0 & _ & Hfm).
    rewrite (event_mbox_origin s e c f a0 m0 Hfm) in Eev. discriminate.
Qed.

(** ... over a history: all the message frames [c] is sent, event by event *)
Fixpoint msg_frames_run (s : state) (h : list event) (c : nat) : list (list frame) :=
  match h with
  | [] => []
  | e :: h' => msg_frames_to c (frames_of (o_log (snd (step cfg s e))))
               :: msg_frames_run (fst (step cfg s e)) h' c
  end.

Fixpoint inbox_run (s : state) (h : list event) (c : nat) : list (list frame) :=
  match h with
  | [] => []
  | e :: h' => match event_mbox s e with
               | Some (a, m) => map msg_frame (inbox_step cfg s e c a m)
               | None => []
               end :: inbox_run (fst (step cfg s e)) h' c
  end.

Theorem msg_frames_run_accounted h : forall s c,
  SInv s -> log s = [] -> msg_frames_run s h c = inbox_run s h c.
Proof.
  induction h as [|e h IH]; intros s c HS Hlog; [reflexivity|].
  destruct (step_inv cfg Hexp s e HS) as [HS1 Hlog1].
  cbn [msg_frames_run inbox_run]. rewrite (msg_frames_in_inbox s e c HS Hlog).
  f_equal. exact (IH _ c HS1 Hlog1).
Qed.

End Delivery.

(** * Part C: C05, attribution to the mailbox *)

Section Attribution.
Variable cfg : config.
Hypothesis Hexp : 0 < exp cfg.

(** one event: the receiver of a message frame of mailbox (a, m) is bound to
    a side that holds (a, m) when the event begins, or that this event's open
    of (a, m) serves *)
Theorem message_frames_accounted_of s e c f :
  SInv s -> log s = [] -> is_msg f ->
  In (c, f) (frames_of (o_log (snd (step cfg s e)))) ->
  exists a m sd, bound_to s c a sd /\ frame_of_mailbox cfg s e c f a m /\
                 (side_holds s a m sd \/ open_replayed cfg s e a m sd).
Proof.
  intros HS Hlog Hf Hin.
  destruct (msg_frame_origin_gen cfg s e c f HS Hlog Hf Hin) as (a & m & _ & Hfm).
  assert (Hfm' := Hfm). destruct Hfm' as (b & Hb & [R|B]).
  - destruct R as (msg & o & r & -> & Et & Em & (sd & Hbd) & _).
    exists a, m, sd. split; [exact Hbd|]. split; [exact Hfm|]. right.
    exists c, msg, o, f. auto 10.
  - destruct B as (c0 & msg & o & sd0 & ph & bd & r & _ & _ & _ & _ & Hh & _).
    destruct Hh as (cs & sd & El & Ebd & Em).
    exists a, m, sd. split; [exists cs; auto|]. split; [exact Hfm|]. left. exists c, cs. auto.
Qed.

(** C05 for message frames, over a whole history, mailbox by mailbox: whoever
    is sent a message frame by the event that follows history [h] is sent a
    frame of one mailbox (a, m) -- the replay of its served open of (a, m), or
    the broadcast of an add to (a, m) -- and is bound to a side that the current
    incarnation of THAT mailbox has served (hence one of its first two sides:
    [TwoSidesEver.two_sides_ever_mailbox_last]) *)
Theorem message_frames_to_served_of t0 h e c f :
  let s := fst (run cfg (init cfg t0) h) in
  is_msg f -> In (c, f) (frames_of (o_log (snd (step cfg s e)))) ->
  exists a m sd, bound_to s c a sd /\ frame_of_mailbox cfg s e c f a m /\
                 served_in cfg (init cfg t0) (h ++ [e]) a m nobody sd.
Proof.
  cbv zeta. intros Hf Hin.
  destruct (init_spec cfg Hexp t0) as [Hi Hl].
  destruct (run_inv cfg Hexp h (init cfg t0) Hi Hl) as [HS Hlog].
  destruct (message_frames_accounted_of _ e c f HS Hlog Hf Hin)
    as (a & m & sd & Hb & Hfm & [Hh|Ho]);
    exists a, m, sd; (split; [exact Hb|]); (split; [exact Hfm|]); apply served_in_snoc.
  - left. split.
    + destruct Hh as (c' & cs & El & Ebd & Em).
      apply (holds_has_mb _ c' a m HS). exists cs, sd. auto.
    + apply (holders_served cfg Hexp). exact Hh.
  - right. right. exact Ho.
Qed.

(** ... so the side of the receiver is one of the first two sides of that mailbox *)
Corollary message_frames_first_two_of t0 h e c f :
  let s := fst (run cfg (init cfg t0) h) in
  is_msg f -> In (c, f) (frames_of (o_log (snd (step cfg s e)))) ->
  exists a m sd, bound_to s c a sd /\ frame_of_mailbox cfg s e c f a m /\
    (has_mb (chan_w s) a m ->
     exists l, In sd (firstn 2 (mb_side_list (chan_w s) m ++ l))).
Proof.
  cbv zeta. intros Hf Hin.
  destruct (message_frames_to_served_of t0 h e c f Hf Hin) as (a & m & sd & Hb & Hfm & Hs).
  exists a, m, sd. split; [exact Hb|]. split; [exact Hfm|]. intros Hmb.
  destruct (two_sides_ever_mailbox_last cfg Hexp t0 h e a m Hmb) as (l & Hl).
  exists l. exact (Hl sd Hs).
Qed.

End Attribution.

(** * Part D: non-vacuity *)

(** [holds], computably *)
Definition holds_b (s : state) (c : nat) (a m : string) : bool :=
  match lookup_conn c (conns s) with
  | Some cs =>
      match c_bound cs, c_mailbox cs with
      | Some (a', _), Some m' => seqb a' a && seqb m' m
      | _, _ => false
      end
  | None => false
  end.

Lemma holds_b_true s c a m : holds_b s c a m = true <-> holds s c a m.
Proof.
  unfold holds_b, holds. split.
  - destruct (lookup_conn c (conns s)) as [cs|]; [|discriminate].
    destruct (c_bound cs) as [[a' sd]|] eqn:Eb; [|discriminate].
    destruct (c_mailbox cs) as [m'|] eqn:Em; [|discriminate].
    intros H. apply andb_true_iff in H. destruct H as [Ha Hm].
    apply seqb_eq in Ha. apply seqb_eq in Hm. subst. exists cs, sd. auto.
  - intros (cs & sd & -> & -> & ->). rewrite !seqb_refl. reflexivity.
Qed.

Lemma holds_b_false s c a m : holds_b s c a m = false -> ~ holds s c a m.
Proof. intros H Hh. apply holds_b_true in Hh. congruence. Qed.

Fixpoint holds_through_b (cfg : config) (s : state) (h : list event) (c : nat) (a m : string) : bool :=
  holds_b s c a m &&
  match h with
  | [] => true
  | e :: h' => holds_through_b cfg (fst (step cfg s e)) h' c a m
  end.

Lemma holds_through_b_true cfg h : forall s c a m,
  holds_through_b cfg s h c a m = true -> holds_through cfg s h c a m.
Proof.
  induction h as [|e h IH]; intros s c a m H; cbn [holds_through_b holds_through] in *;
    apply andb_true_iff in H; destruct H as [H0 H]; (split; [apply holds_b_true; exact H0|]).
  - exact I.
  - apply IH. exact H.
Qed.

Definition d_cfg : config := gen_cfg true false None.
Lemma d_exp : 0 < exp d_cfg.
Proof. apply gen_cfg_exp. Qed.
Definition d_o : oracle := mkOracle None (mkAO None []).
Definition d_bind (a sd : string) : command :=
  mkCmd (Some TBind) None (Some a) (Some sd) None None None None None None None.
Definition d_open (m : string) : command :=
  mkCmd (Some TOpen) None None None None (Some m) None None None None None.
Definition d_add (i ph bd : string) : command :=
  mkCmd (Some TAdd) (Some i) None None None None (Some ph) (Some bd) None None None.

(** connections 1 (side A) and 2 (side B) of app "a" on mailbox "m1",
    connection 3 of app "z" on mailbox "m2"; adds from 1, 2 and 3; 1
    disconnects; 2 adds again; side A comes back on connection 4, re-opens
    "m1" (replay of the three stored rows) and adds *)
Definition d_hist : list event :=
  [ EB (EConnect 1); EB (ECmd 1 (d_bind "a" "A") d_o); EB (ECmd 1 (d_open "m1") d_o);
    EB (ECmd 1 (d_add "i1" "p1" "b1") d_o);
    EB (EConnect 2); EB (ECmd 2 (d_bind "a" "B") d_o); EB (ECmd 2 (d_open "m1") d_o);
    EB (EConnect 3); EB (ECmd 3 (d_bind "z" "A") d_o); EB (ECmd 3 (d_open "m2") d_o);
    EB (EAdvance 5 false);
    EB (ECmd 2 (d_add "i2" "p2" "b2") d_o);
    EB (ECmd 3 (d_add "i3" "p3" "b3") d_o);
    EB (EDisconnect 1);
    EB (EAdvance 5 false);
    EB (ECmd 2 (d_add "i4" "p4" "b4") d_o);
    EB (EConnect 4); EB (ECmd 4 (d_bind "a" "A") d_o); EB (ECmd 4 (d_open "m1") d_o);
    EB (ECmd 4 (d_add "i5" "p5" "b5") d_o) ].

Definition d_r1 := mkMsg "a" "m1" "A" "p1" "b1" 0 (Some "i1").
Definition d_r2 := mkMsg "a" "m1" "B" "p2" "b2" 5 (Some "i2").
Definition d_r3 := mkMsg "z" "m2" "A" "p3" "b3" 5 (Some "i3").
Definition d_r4 := mkMsg "a" "m1" "B" "p4" "b4" 10 (Some "i4").
Definition d_r5 := mkMsg "a" "m1" "A" "p5" "b5" 10 (Some "i5").
Definition d_r6 := mkMsg "a" "m1" "B" "p6" "b6" 10 (Some "i6").

Notation d_init := (init d_cfg 0).

Example delivery_nonvacuous :
  (* the message frames every connection was sent, event by event *)
  msg_frames_run d_cfg d_init d_hist 1 =
    [ []; []; []; [msg_frame d_r1]; []; []; []; []; []; []; []; [msg_frame d_r2]; [];
      []; []; []; []; []; []; [] ] /\
  msg_frames_run d_cfg d_init d_hist 2 =
    [ []; []; []; []; []; []; [msg_frame d_r1]; []; []; []; []; [msg_frame d_r2]; [];
      []; []; [msg_frame d_r4]; []; []; []; [msg_frame d_r5] ] /\
  msg_frames_run d_cfg d_init d_hist 3 =
    [ []; []; []; []; []; []; []; []; []; []; []; []; [msg_frame d_r3];
      []; []; []; []; []; []; [] ] /\
  msg_frames_run d_cfg d_init d_hist 4 =
    [ []; []; []; []; []; []; []; []; []; []; []; []; [];
      []; []; []; []; []; [msg_frame d_r1; msg_frame d_r2; msg_frame d_r4]; [msg_frame d_r5] ] /\
  (* the inboxes *)
  inbox d_cfg d_init d_hist 1 "a" "m1" = [d_r1; d_r2] /\
  inbox d_cfg d_init d_hist 2 "a" "m1" = [d_r1; d_r2; d_r4; d_r5] /\
  inbox d_cfg d_init d_hist 4 "a" "m1" = [d_r1; d_r2; d_r4; d_r5] /\
  inbox d_cfg d_init d_hist 3 "z" "m2" = [d_r3] /\
  (* nothing of the other app's mailbox *)
  inbox d_cfg d_init d_hist 3 "a" "m1" = [] /\ inbox d_cfg d_init d_hist 3 "a" "m2" = [] /\
  inbox d_cfg d_init d_hist 1 "z" "m2" = [] /\ inbox d_cfg d_init d_hist 2 "z" "m2" = [] /\
  (* the ledgers *)
  ledger_c d_cfg d_init d_hist "a" "m1" [] = [d_r1; d_r2; d_r4; d_r5] /\
  ledger_c d_cfg d_init d_hist "z" "m2" [] = [d_r3] /\
  (* the process dies while connection 2 adds once more: after the add's commit
     the row is stored but nobody is sent it; one commit later all holders were *)
  inbox d_cfg d_init (d_hist ++ [ECrash 1 (ECmd 2 (d_add "i6" "p6" "b6") d_o)]) 2 "a" "m1" =
    [d_r1; d_r2; d_r4; d_r5] /\
  ledger_c d_cfg d_init (d_hist ++ [ECrash 1 (ECmd 2 (d_add "i6" "p6" "b6") d_o)]) "a" "m1" [] =
    [d_r1; d_r2; d_r4; d_r5; d_r6] /\
  inbox d_cfg d_init (d_hist ++ [ECrash 2 (ECmd 2 (d_add "i6" "p6" "b6") d_o)]) 2 "a" "m1" =
    [d_r1; d_r2; d_r4; d_r5; d_r6] /\
  inbox d_cfg d_init (d_hist ++ [ECrash 2 (ECmd 2 (d_add "i6" "p6" "b6") d_o)]) 4 "a" "m1" =
    [d_r1; d_r2; d_r4; d_r5; d_r6].
Proof. repeat (split; [vm_compute; reflexivity|]). vm_compute. reflexivity. Qed.

(** [delivered_once_ledger] applies to connection 2 of that history: its
    subscription starts with event 6 and lasts to the end *)
Example delivery_conn2 :
  let s := fst (run d_cfg d_init (firstn 6 d_hist)) in
  let e := EB (ECmd 2 (d_open "m1") d_o) in
  let h := skipn 7 d_hist in
  (~ holds s 2 "a" "m1" /\ holds_through d_cfg (fst (step d_cfg s e)) h 2 "a" "m1") /\
  inbox d_cfg s (e :: h) 2 "a" "m1" = msg_sort [d_r1] ++ [d_r2; d_r4; d_r5] /\
  ledger_c d_cfg d_init d_hist "a" "m1" [] = [d_r1] ++ [d_r2; d_r4; d_r5].
Proof.
  cbv zeta.
  assert (H1 : ~ holds (fst (run d_cfg d_init (firstn 6 d_hist))) 2 "a" "m1")
    by (apply holds_b_false; vm_compute; reflexivity).
  assert (H2 : holds_through d_cfg
                 (fst (step d_cfg (fst (run d_cfg d_init (firstn 6 d_hist)))
                            (EB (ECmd 2 (d_open "m1") d_o))))
                 (skipn 7 d_hist) 2 "a" "m1")
    by (apply holds_through_b_true; vm_compute; reflexivity).
  split; [split; assumption|].
  destruct (delivered_once_ledger d_cfg d_exp 0 (firstn 6 d_hist) (EB (ECmd 2 (d_open "m1") d_o))
              (skipn 7 d_hist) 2 "a" "m1" H1 H2) as (E1 & E2 & _).
  assert (EL0 : ledger_c d_cfg d_init (firstn 6 d_hist) "a" "m1" [] = [d_r1])
    by (vm_compute; reflexivity).
  assert (ED : delivered d_cfg
                 (fst (step d_cfg (fst (run d_cfg d_init (firstn 6 d_hist)))
                            (EB (ECmd 2 (d_open "m1") d_o))))
                 (skipn 7 d_hist) "a" "m1" = [d_r2; d_r4; d_r5])
    by (vm_compute; reflexivity).
  rewrite EL0, ED in E1, E2. split; [exact E1|exact E2].
Qed.

(** [message_frames_to_served_of] applies to the replay of connection 4's re-open *)
Example delivery_attribution :
  exists a m sd,
    bound_to (fst (run d_cfg d_init (firstn 18 d_hist))) 4 a sd /\
    frame_of_mailbox d_cfg (fst (run d_cfg d_init (firstn 18 d_hist)))
      (EB (ECmd 4 (d_open "m1") d_o)) 4 (msg_frame d_r2) a m /\
    served_in d_cfg d_init (firstn 18 d_hist ++ [EB (ECmd 4 (d_open "m1") d_o)]) a m nobody sd.
Proof.
  apply (message_frames_to_served_of d_cfg d_exp 0 (firstn 18 d_hist)
           (EB (ECmd 4 (d_open "m1") d_o)) 4%nat (msg_frame d_r2) I).
  vm_compute. right. right. left. reflexivity.
Qed.

Print Assumptions message_frame_origin.
Print Assumptions not_subscribed_silent.
Print Assumptions inbox_step_holding.
Print Assumptions inbox_step_begin.
Print Assumptions inbox_step_outsider.
Print Assumptions inbox_step_crash_outsider.
Print Assumptions inbox_step_cases.
Print Assumptions msg_frames_in_inbox.
Print Assumptions msg_frames_run_accounted.
Print Assumptions inbox_while_holding.
Print Assumptions delivered_once.
Print Assumptions stored_while_holding.
Print Assumptions delivered_is_stored.
Print Assumptions delivered_once_ledger.
Print Assumptions message_frames_accounted_of.
Print Assumptions message_frames_to_served_of.
Print Assumptions message_frames_first_two_of.
Print Assumptions delivery_nonvacuous.
Print Assumptions delivery_conn2.
Print Assumptions delivery_attribution.
