(** Prop_C13.v -- C13: idle channels are swept completely and the store
    returns to empty. *)
From MW Require Import Base Store Monad Usage Server Websocket Service Inv Obs
     StepFacts SweepFacts TimeInv Corollaries QuiesceFacts Inst_Params Inst_Timer IdleFacts CrashAck.
From MWGen Require GenParams.
Local Open Scope list_scope.

(** after a non-faulty sweep no mailbox with no subscriber and no activity
    within the expiration time remains ... *)
Theorem C13_sweep_complete :
  forall cfg, 0 < exp cfg -> forall s s' r,
  SInv s -> log s = [] -> expire cfg false s = Ok tt s' ->
  In r (mailboxes (chan_w s')) -> now s - exp cfg < mb_updated r.
Proof. exact sweep_complete. Qed.
Print Assumptions C13_sweep_complete.

(** ... and (exact effect of the sweep, Prop_C12.C12_sweep_exact) every side
    row, message and nameplate goes with its mailbox; the database after the
    sweep is again well-formed, so nothing dangles: no message, side row or
    nameplate without its mailbox *)
Theorem C13_nothing_dangles :
  forall cfg, 0 < exp cfg -> forall s, reachable cfg s ->
    DbInv (chan_c s) /\ chan_c s = chan_w s /\ usage_c s = usage_w s.
Proof. exact crash_state_wf. Qed.
Print Assumptions C13_nothing_dangles.

(** sweeps keep running at the configured period for the life of the service,
    also after a failed one: the next sweep is always due within one period,
    after every event of every history, whatever faults occurred; and a clock
    advance that reaches the due time runs the sweep (faulty or not) *)
Theorem C13_timer_never_dies :
  forall cfg, 0 < exp cfg -> 0 < period cfg -> forall s,
  reachable cfg s -> timer_inv cfg s /\ time_ok s.
Proof. exact reachable_timer_time. Qed.
Print Assumptions C13_timer_never_dies.

Theorem C13_due_sweep_runs :
  forall cfg, 0 < exp cfg -> 0 < period cfg -> forall s dt fault,
  SInv s -> log s = [] -> 0 <= dt -> next_due s <= now s + dt ->
  exists s1, expire cfg fault (set_now s (now s + dt)) = Ok tt s1 /\
             fst (step cfg s (EB (EAdvance dt fault))) =
             set_log (set_next_due s1 (next_grid cfg (timer_start s1) (now s1))) [].
Proof. exact due_sweep_runs. Qed.
Print Assumptions C13_due_sweep_runs.

(** whatever history preceded (any apps, sides, connections, crowding, errors,
    restarts, crashes): once all clients have gone, after the expiration time
    (sweeps firing meanwhile may fail) plus one period (sweeps succeeding), the
    channel database holds no nameplates, mailboxes, side records or messages,
    and that emptiness is committed *)
Theorem C13_store_returns_to_empty :
  forall cfg, 0 < exp cfg -> 0 < period cfg -> forall s l1 l2,
  reachable cfg s -> conns s = [] ->
  Forall (fun p => 0 <= fst p) l1 ->
  Forall (fun p => 0 <= fst p /\ snd p = false) l2 ->
  exp cfg <= zsum (map fst l1) -> period cfg <= zsum (map fst l2) ->
  let s' := fst (run cfg s (advances (l1 ++ l2))) in
  chan_empty (chan_w s') /\ chan_c s' = chan_w s' /\ conns s' = [].
Proof. exact reachable_store_returns_to_empty. Qed.
Print Assumptions C13_store_returns_to_empty.

(** the repository's constants satisfy the hypotheses, and the period is shorter
    than the expiration time *)
(** ** "no activity for longer than the expiration time" at history level (IdleFacts.v): a mailbox's stamp moves
    ONLY by activity concerning it ([moves]: a claim / allocate / open / add / fresh close of that mailbox by a
    connection of its app -- completed or cut short by a crash) or by a sweep at which it has a subscriber, and
    then to the time of that event; so over a history that is idle for it the stamp is constant, and the
    fault-free sweep firing at or after stamp + exp deletes it with its messages, side records and nameplate *)
Theorem C13_stamp_moves_only_by : ltac:(let t := type of stamp_moves_only_by in exact t).
Proof. exact stamp_moves_only_by. Qed.
Check C13_stamp_moves_only_by.
Print Assumptions C13_stamp_moves_only_by.

Theorem C13_idle_stamp_constant : ltac:(let t := type of idle_stamp_constant in exact t).
Proof. exact idle_stamp_constant. Qed.
Check C13_idle_stamp_constant.
Print Assumptions C13_idle_stamp_constant.

Theorem C13_idle_is_swept : ltac:(let t := type of idle_is_swept in exact t).
Proof. exact idle_is_swept. Qed.
Check C13_idle_is_swept.
Print Assumptions C13_idle_is_swept.

Theorem C13_idle_is_swept_timer : ltac:(let t := type of idle_is_swept_timer in exact t).
Proof. exact idle_is_swept_timer. Qed.
Check C13_idle_is_swept_timer.
Print Assumptions C13_idle_is_swept_timer.


Example C13_idle_swept_at_exactly_t_plus_exp : ltac:(let t := type of idle_swept_at_exactly_t_plus_exp in exact t).
Proof. exact idle_swept_at_exactly_t_plus_exp. Qed.
Example C13_add_in_between_keeps : ltac:(let t := type of add_in_between_keeps in exact t).
Proof. exact add_in_between_keeps. Qed.


Example C13_constants_ok : GenParams.gen_period < GenParams.gen_exp.
Proof. exact gen_period_lt_exp. Qed.

Example C13_nonvacuous :
  0 < exp (gen_cfg true true None) /\ 0 < period (gen_cfg true true None) /\
  reachable (gen_cfg true true None) (init (gen_cfg true true None) 0).
Proof.
  split; [exact (gen_cfg_exp _ _ _)|]. split; [exact (gen_cfg_period _ _ _)|].
  exists 0, []. reflexivity.
Qed.

(** * anchored in the history alone (quoted by type from CrashAck.v) *)

(** from any reachable state: no activity concerning a mailbox during a continuation that ends in a fault-free timer firing at or after exp later => deleted (no hypothesis about the stored stamp) *)
Theorem C13_idle_since_is_swept : ltac:(let t := type of idle_since_is_swept in exact t).
Proof. exact idle_since_is_swept. Qed.
Check C13_idle_since_is_swept.
Print Assumptions C13_idle_since_is_swept.

(** (explicit sweep) *)
Theorem C13_idle_since_is_swept_sweep : ltac:(let t := type of idle_since_is_swept_sweep in exact t).
Proof. exact idle_since_is_swept_sweep. Qed.
Check C13_idle_since_is_swept_sweep.
Print Assumptions C13_idle_since_is_swept_sweep.

(** the timer callback never raises -- which is why the timer survives *)
Theorem C13_expire_total : ltac:(let t := type of expire_total in exact t).
Proof. exact expire_total. Qed.
Check C13_expire_total.
Print Assumptions C13_expire_total.

(** non-vacuity *)
Theorem C13_idle_since_nonvacuous : ltac:(let t := type of idle_since_nonvacuous in exact t).
Proof. exact idle_since_nonvacuous. Qed.
Check C13_idle_since_nonvacuous.
Print Assumptions C13_idle_since_nonvacuous.

