(** NameFacts.v -- closing the gaps an audit found between the English texts of
    C03, C04, C07 and the theorems about nameplate names.

    (C03) "Mailbox ids handed out for different live nameplates, for the same
    name in different apps, and for a new incarnation of a name after the
    previous one was retired, are all different from each other."
    ClaimedPair.v proves it from a hypothesis on nameplates.id, a model-internal
    row id.  Here the hypothesis is the observable situation:
      - [claimed_pair_distinct_keys]: the two claims are of different
        (app, name) pairs;
      - [claimed_pair_distinct_reincarnated]: the same (app, name), and in some
        state between the two answers the name has no row (it was retired);
      - [claimed_pair_same_iff_live]: for one (app, name) the two answers are
        equal EXACTLY when the name has a row in every state in between.

    (C04) "... so no other allocate can be given the same nameplate until it is
    retired."  NpFactsB.allocate_outcome is about one event.  Here, over a
    history from [init]:
      - [alloc_pair_retired_between]: two events answered `allocated n` for
        one app (commands processed completely or cut short by a crash): in
        the state in which the second one is applied -- after the first and
        everything in between -- the name has no row;
      - [alloc_pair_ender_between]: and some event strictly between them ended
        the first allocator's claim ([claim_ender]: its own release, or the
        deletion of the nameplate's mailbox).

    (C07) "stays listed ... disappears from listings and can be allocated
    again": "listed" now is membership in the `nameplates` frame answering
    `list`:
      - [listed_frame]: the frames of a `list` command are [ack; nameplates l]
        with n in l exactly when (app, n) has a row;
      - [last_release_frees]: after the release by the last claiming side the
        name has no row, is in no `nameplates` frame, and an allocate whose
        allocator picks it is answered `allocated n`. *)
From MW Require Import Base Store Monad Usage Server Websocket Service Findings
     Inv StoreFacts Hoare DbFactsA DbFactsB OpFacts ProtoFacts Obs StepFacts SweepFacts
     NpFactsA MbFactsA MbFactsB CrowdFacts LifeFacts NpFactsB ResumeFacts GenidFacts Corollaries
     HistFacts C03Facts WireFacts AllocFacts CrashLife RunLifts ActivityFacts Inst_Params ClaimedPair.
Local Open Scope list_scope.

(** * Small list facts *)

Lemma nf_app_cons_assoc {A} (h1 : list A) e h2 : (h1 ++ [e]) ++ h2 = h1 ++ e :: h2.
Proof. rewrite <- app_assoc. reflexivity. Qed.

Section WithConfig.
Variable cfg : config.
Hypothesis Hexp : 0 < exp cfg.

Local Notation at_ := (at_ cfg).
Local Notation claim_answered := (claim_answered cfg).

(** * C03: different keys, different ids *)

(** the row a `claimed` answer was read from: it is the row of (a, n) after the
    event, it carries the answered id, and it is a row seen along the history *)
Lemma claimed_row_seen t0 p e a n mbox q :
  claim_answered (at_ t0 p) e a n mbox ->
  exists np, In np (nameplates (chan_w (at_ t0 (p ++ [e])))) /\
             np_app np = a /\ np_name np = n /\ np_mbox np = mbox /\
             In np (rows_seen cfg (init cfg t0) ((p ++ [e]) ++ q)).
Proof.
  intros H. destruct (claimed_rows cfg Hexp t0 p e a n mbox q H) as (np & Hs & Hm & Hr).
  destruct (sel_np_some _ _ _ _ Hs) as (Hin & Ha & Hn). exists np. auto.
Qed.

(** C03, "different live nameplates / the same name in different apps": two
    claims anywhere in a history from the initial state, of nameplates (a, n)
    and (a', n') that differ in the app or in the name, both answered `claimed`:
    under fresh draws the two mailbox ids differ.  (Nothing about row ids; the
    nameplates need not even be live at the same time.) *)
Theorem claimed_pair_distinct_keys t0 h1 ei h2 ej h3 a n a' n' mi mj :
  let h := h1 ++ ei :: h2 ++ ej :: h3 in
  NoDup (draws_of h) -> Forall (fun b => String.length b = 8%nat) (draws_of h) ->
  claim_answered (at_ t0 h1) ei a n mi ->
  claim_answered (at_ t0 (h1 ++ ei :: h2)) ej a' n' mj ->
  (a, n) <> (a', n') ->
  mi <> mj.
Proof.
  cbv zeta. intros Hnd H8 Ci Cj Hne Em.
  assert (E1 : (h1 ++ [ei]) ++ h2 ++ ej :: h3 = h1 ++ ei :: h2 ++ ej :: h3)
    by apply nf_app_cons_assoc.
  assert (E2 : ((h1 ++ ei :: h2) ++ [ej]) ++ h3 = h1 ++ ei :: h2 ++ ej :: h3)
    by (rewrite <- !app_assoc; reflexivity).
  destruct (claimed_row_seen t0 h1 ei a n mi (h2 ++ ej :: h3) Ci)
    as (npi & _ & Ai & Ni & Mi & Ri).
  destruct (claimed_row_seen t0 (h1 ++ ei :: h2) ej a' n' mj h3 Cj)
    as (npj & _ & Aj & Nj & Mj & Rj).
  rewrite E1 in Ri. rewrite E2 in Rj.
  assert (E : npj = npi).
  { apply (incarnations_distinct cfg Hexp t0 _ npj npi Hnd H8 Rj Ri). congruence. }
  apply Hne. subst npj. congruence.
Qed.

(** the form suggested by the audit: ... and both nameplates are live when the
    second answer is sent *)
Corollary claimed_pair_distinct_keys_live t0 h1 ei h2 ej h3 a n a' n' mi mj :
  let h := h1 ++ ei :: h2 ++ ej :: h3 in
  NoDup (draws_of h) -> Forall (fun b => String.length b = 8%nat) (draws_of h) ->
  claim_answered (at_ t0 h1) ei a n mi ->
  claim_answered (at_ t0 (h1 ++ ei :: h2)) ej a' n' mj ->
  sel_np (chan_w (at_ t0 (h1 ++ ei :: h2 ++ [ej]))) a n <> None ->
  sel_np (chan_w (at_ t0 (h1 ++ ei :: h2 ++ [ej]))) a' n' <> None ->
  (a <> a' \/ n <> n') ->
  mi <> mj.
Proof.
  cbv zeta. intros Hnd H8 Ci Cj _ _ Hne.
  apply (claimed_pair_distinct_keys t0 h1 ei h2 ej h3 a n a' n' mi mj Hnd H8 Ci Cj).
  intros E. inversion E. destruct Hne as [K|K]; apply K; assumption.
Qed.

(** * C03: a new incarnation, another id *)

(** over any history the nameplates table is [np_stable]: the row-id counter
    does not decrease and every row present afterwards was present before or
    has an id above the old counter *)
Lemma np_stable_run h : forall s,
  SInv s -> log s = [] -> np_stable (chan_w s) (chan_w (fst (run cfg s h))).
Proof.
  induction h as [|e h IH]; intros s HS Hl; [apply np_stable_refl|].
  rewrite (run_cons_fst cfg).
  pose proof (np_rows_immutable cfg Hexp s e HS Hl) as R. cbv zeta in R.
  destruct (step_inv cfg Hexp s e HS) as [HS1 Hl1].
  exact (np_stable_trans _ _ _ R (IH _ HS1 Hl1)).
Qed.

(** a name that has no row now: whatever row it has later carries an id above
    the present counter *)
Lemma reincarnation_id_above s h a n np :
  SInv s -> log s = [] -> sel_np (chan_w s) a n = None ->
  sel_np (chan_w (fst (run cfg s h))) a n = Some np ->
  np_seq (chan_w s) < np_id np.
Proof.
  intros HS Hl Hnone Hsel.
  destruct (np_stable_run h s HS Hl) as [_ K].
  destruct (sel_np_some _ _ _ _ Hsel) as (Hin & Ha & Hn).
  destruct (K np Hin) as [Hold|Hlt]; [exfalso|exact Hlt].
  rewrite sel_np_none in Hnone. exact (Hnone np Hold (conj Ha Hn)).
Qed.

(** the row ids of the two incarnations: if the name has no row in some state
    between the two answers, the second row's id is above the first's *)
Lemma reincarnated_ids t0 h1 ei p q a n npi npj :
  sel_np (chan_w (at_ t0 (h1 ++ [ei]))) a n = Some npi ->
  sel_np (chan_w (at_ t0 (h1 ++ ei :: p))) a n = None ->
  sel_np (chan_w (at_ t0 (h1 ++ ei :: p ++ q))) a n = Some npj ->
  np_id npi < np_id npj.
Proof.
  intros Si Sk Sj.
  destruct (at_inv cfg Hexp t0 (h1 ++ [ei])) as [HSi Hli].
  destruct (at_inv cfg Hexp t0 (h1 ++ ei :: p)) as [HSk Hlk].
  (* the first row's id is at most the counter after event i ... *)
  pose proof (inv_np_seq _ (si_db _ HSi) npi (proj1 (sel_np_some _ _ _ _ Si))) as L1.
  (* ... which is at most the counter at the retirement point ... *)
  assert (L2 : np_seq (chan_w (at_ t0 (h1 ++ [ei]))) <= np_seq (chan_w (at_ t0 (h1 ++ ei :: p)))).
  { assert (E : at_ t0 (h1 ++ ei :: p) = fst (run cfg (at_ t0 (h1 ++ [ei])) p))
      by (rewrite <- (nf_app_cons_assoc h1 ei p); apply (at_app cfg)).
    rewrite E. exact (proj1 (np_stable_run p _ HSi Hli)). }
  (* ... which is below the id of every later row of the name *)
  assert (L3 : np_seq (chan_w (at_ t0 (h1 ++ ei :: p))) < np_id npj).
  { apply (reincarnation_id_above _ q a n npj HSk Hlk Sk).
    assert (E : fst (run cfg (at_ t0 (h1 ++ ei :: p)) q) = at_ t0 (h1 ++ ei :: p ++ q)).
    { rewrite <- (at_app cfg), <- app_assoc. reflexivity. }
    rewrite E. exact Sj. }
  lia.
Qed.

(** C03, "a new incarnation of a name after the previous one was retired": two
    claims of the SAME nameplate (a, n) at positions i < j of a history from the
    initial state, both answered `claimed`; if in some state between the two
    answers the name has no row (every side released it, or it expired, or its
    mailbox was deleted), then under fresh draws the two mailbox ids differ *)
Theorem claimed_pair_distinct_reincarnated t0 h1 ei h2 ej h3 a n mi mj :
  let h := h1 ++ ei :: h2 ++ ej :: h3 in
  NoDup (draws_of h) -> Forall (fun b => String.length b = 8%nat) (draws_of h) ->
  claim_answered (at_ t0 h1) ei a n mi ->
  claim_answered (at_ t0 (h1 ++ ei :: h2)) ej a n mj ->
  (exists p q, h2 = p ++ q /\ sel_np (chan_w (at_ t0 (h1 ++ ei :: p))) a n = None) ->
  mi <> mj.
Proof.
  cbv zeta. intros Hnd H8 Ci Cj (p & q & Eh & Sk).
  apply (claimed_pair_distinct cfg Hexp t0 h1 ei h2 ej h3 a n a n mi mj Hnd H8 Ci Cj).
  intros npi npj Si Sj.
  assert (L : np_id npi < np_id npj).
  { apply (reincarnated_ids t0 h1 ei p (q ++ [ej]) a n npi npj Si Sk).
    rewrite app_assoc, <- Eh. exact Sj. }
  lia.
Qed.

(** both directions, without row ids: under fresh draws two `claimed` answers
    for one nameplate (a, n) are equal EXACTLY when the name has a row in every
    state from the one after the first answer to the one in which the second
    claim is applied *)
Theorem claimed_pair_same_iff_live t0 h1 ei h2 ej h3 a n mi mj :
  let h := h1 ++ ei :: h2 ++ ej :: h3 in
  NoDup (draws_of h) -> Forall (fun b => String.length b = 8%nat) (draws_of h) ->
  claim_answered (at_ t0 h1) ei a n mi ->
  claim_answered (at_ t0 (h1 ++ ei :: h2)) ej a n mj ->
  (mi = mj <->
   forall p q, h2 = p ++ q -> sel_np (chan_w (at_ t0 (h1 ++ ei :: p))) a n <> None).
Proof.
  cbv zeta. intros Hnd H8 Ci Cj. split.
  - intros Em p q Eh Sk.
    apply (claimed_pair_distinct_reincarnated t0 h1 ei h2 ej h3 a n mi mj Hnd H8 Ci Cj);
      [|exact Em].
    exists p, q. split; [exact Eh|exact Sk].
  - intros Hlive. exact (claimed_pair_same_live cfg Hexp t0 h1 ei h2 ej a n mi mj Ci Cj Hlive).
Qed.


(** * C07: "listed" is what the `nameplates` frame says *)

(** the frames of a `list` command on a bound connection: the ack, then one
    `nameplates` frame.  With listing allowed a name is in it EXACTLY when
    (app, name) has a row in the database the command finds; with listing
    disallowed it is empty.  Nothing else happens. *)
Theorem listed_frame s c a sd msg o :
  SInv s -> log s = [] -> bound_to s c a sd -> m_type msg = Some TList ->
  let '(s', ob) := step cfg s (EB (ECmd c msg o)) in
  exists l, frames_of (o_log ob) = [(c, FAck (m_id msg)); (c, FNameplates l)] /\
            o_exc ob = None /\ chan_w s' = chan_w s /\ chan_c s' = chan_c s /\
            (allow_list cfg = true -> forall n, In n l <-> sel_np (chan_w s) a n <> None) /\
            (allow_list cfg = false -> l = []).
Proof.
  intros _ Hlog (cs & Hlk & Hb) Ht.
  assert (Hhas : has_conn c s = true) by (unfold has_conn; rewrite Hlk; reflexivity).
  assert (Hbo : c_bound (conn_of s c) = Some (a, sd)) by (unfold conn_of; rewrite Hlk; exact Hb).
  unfold step. rewrite (MbFactsA.set_log_nil s Hlog). unfold step_b. rewrite Hhas.
  rewrite (list_answer cfg c msg o s a sd Ht Hbo).
  cbn [log set_log o_log o_exc chan_w chan_c]. rewrite Hlog. cbn [rev app frames_of].
  exists (ssort (if allow_list cfg then sel_names (chan_w s) a else [])).
  split; [reflexivity|]. split; [reflexivity|]. split; [reflexivity|]. split; [reflexivity|].
  split.
  - intros Hal n. rewrite Hal, NpFactsA.ssort_In. split.
    + intros Hin Hnone. apply sel_np_names in Hnone.
      apply StoreFacts.smem_In in Hin. congruence.
    + intros Hsome. destruct (smem n (sel_names (chan_w s) a)) eqn:E.
      * apply StoreFacts.smem_In. exact E.
      * exfalso. apply Hsome. apply sel_np_names. exact E.
  - intros Hal. rewrite Hal. reflexivity.
Qed.

(** the form suggested by the audit (listing allowed): the frames are
    [ack; nameplates l] with n in l iff (a, n) has a row *)
Corollary listed_frame_allowed s c a sd msg o :
  allow_list cfg = true -> SInv s -> log s = [] -> bound_to s c a sd -> m_type msg = Some TList ->
  exists l, frames_of (o_log (snd (step cfg s (EB (ECmd c msg o))))) =
              [(c, FAck (m_id msg)); (c, FNameplates l)] /\
            forall n, In n l <-> sel_np (chan_w s) a n <> None.
Proof.
  intros Hal HS Hlog Hbd Ht.
  pose proof (listed_frame s c a sd msg o HS Hlog Hbd Ht) as H.
  destruct (step cfg s (EB (ECmd c msg o))) as [s' ob]. cbn [snd].
  destruct H as (l & Hf & _ & _ & _ & Hin & _). exists l. split; [exact Hf|exact (Hin Hal)].
Qed.

(** * C04/C07: an allocate whose allocator picks a free name is answered with it *)

(** the log of an `allocate`: either [ack; commit; commit; commit; allocated n]
    -- the three commits of the claim, then the answer as the LAST entry --
    with n what the allocator computed, or only the ack is sent; and the
    second happens, when the allocator found a name, only if no mailbox id
    was drawn or the drawn id already exists *)
Lemma allocate_shape s c cs a side msg o :
  SInv s -> log s = [] ->
  lookup_conn c (conns s) = Some cs -> c_bound cs = Some (a, side) ->
  m_type msg = Some TAllocate -> erroneous cs msg = false ->
  let '(s', ob) := step cfg s (EB (ECmd c msg o)) in
  (exists n d1 d2 b tx,
      find_available (sel_names (chan_w s) a) (o_alloc o) = AllocOk n /\
      o_log ob = [LFrame c (FAck (m_id msg)) (is_clean s) (now s); LCommitChan d1;
                  LCommitChan d2; LCommitChan d2; LFrame c (FAllocated n) b tx]) \/
  (frames_of (o_log ob) = [(c, FAck (m_id msg))] /\
   forall n bytes, find_available (sel_names (chan_w s) a) (o_alloc o) = AllocOk n ->
                   o_draw o = Some bytes -> mb_exists (chan_w s) (genid bytes) = true).
Proof.
  intros HS Hlog Hlk Hb Ht Herr.
  assert (HH : HInv s) by (split; [exact HS|rewrite Hlog; constructor]).
  destruct HS as [Hdb [Hcw Hcu] _ _ _ _].
  unfold erroneous in Herr. rewrite Ht, Hb in Herr.
  rewrite (step_cmd cfg s c msg o TAllocate cs Hlk Ht).
  set (s1 := set_log s [LFrame c (FAck (m_id msg)) (is_clean s) (now s)]).
  assert (Hco : conn_of s1 c = cs) by (unfold conn_of; cbn; rewrite Hlk; reflexivity).
  rewrite (dispatch_bound cfg c TAllocate msg o s1 a side); try discriminate;
    [|rewrite Hco; exact Hb].
  assert (HH1 : HInv s1).
  { pose proof (HInv_send s c (FAck (m_id msg)) HH) as K. rewrite Hlog in K. exact K. }
  destruct (find_available (sel_names (chan_w s) a) (o_alloc o)) as [n| |] eqn:Ef.
  - pose proof (sel_np_fresh _ _ _ _ Ef) as Hnone.
    pose proof (claim_body_ok (chan_w s) a n side (now s) (o_draw o) Hdb) as Hok.
    pose proof (claim_body_extras (chan_w s) a n side (now s) (o_draw o) Hdb) as Hex.
    destruct (claim_body (chan_w s) a n side (now s) (o_draw o)) as [[npid mbox] d1|e d1] eqn:Ecb.
    + destruct Hok as (Hdb1 & _ & Hmb1 & _).
      pose proof (open_body_ok d1 a mbox side (now s) Hdb1) as Hob.
      destruct (open_body d1 a mbox side (now s)) as [[] d2|e2 d2'] eqn:Eob;
        [|exfalso; destruct Hob as (_ & -> & _ & Hno); exact (Hno Hmb1)].
      pose proof (handle_allocate_ok_wp c a side o n s1 cs npid mbox d1 d2 Hlk Herr Ef Ecb Eob) as W.
      pose proof (handle_allocate_spec c a side o cs s1 HH1 Hlk) as W2.
      pose proof (wp_and _ _ _ _ _ _ W W2) as W3. apply wp_elim in W3.
      destruct W3 as [([] & s' & E & (Hw & Hc & Hs & b & tx & Hl) & _)
                     |(e & s' & E & (-> & ->) & (_ & _ & Hce))]; rewrite E.
      * left. exists n, d1, d2, b, tx. split; [reflexivity|].
        cbn [o_log]. rewrite Hl. reflexivity.
      * right. destruct (drop_conn_frame c (claimed_state s1 d1 d2)) as (_ & _ & D3).
        cbn [o_log]. rewrite D3. split; [reflexivity|].
        intros n' bytes _ Hd.
        destruct Hce as [(k & K)|[[(K & _)|K]|[(K & _)|(_ & bytes' & Hd' & Hm)]]];
          try discriminate K.
        assert (bytes' = bytes) by congruence. subst bytes'.
        apply mb_exists_iff. destruct Hm as (r & Hr & _ & Hid). exists r. split; assumption.
    + destruct Hok as (-> & Hcases).
      pose proof (handle_allocate_fail_wp c a side o n s1 cs e Hlk Herr Ef Ecb) as W.
      apply wp_elim in W. destruct W as [(x & s' & _ & [])|(e' & s' & E & -> & ->)].
      rewrite E.
      destruct (drop_conn_frame c s1) as (_ & _ & D3).
      assert (Hlast : forall n' bytes, AllocOk n = AllocOk n' -> o_draw o = Some bytes ->
                                       mb_exists (chan_w s) (genid bytes) = true).
      { intros n' bytes _ Hd.
        destruct Hcases as [->|[(_ & Hdn & _)|(_ & _ & bytes' & Hd' & Hm & _)]].
        - exfalso. destruct Hex as [(_ & np & r & K & _)|([K|K] & _)]; [congruence| |];
            discriminate K.
        - congruence.
        - assert (bytes' = bytes) by congruence. subst bytes'. exact Hm. }
      destruct Hcases as [->|[(-> & _)|(-> & _)]];
        (right; cbn [o_log]; rewrite D3; split; [reflexivity|exact Hlast]).
  - assert (Hno : forall n, find_available (sel_names (chan_w s1) a) (o_alloc o) <> AllocOk n).
    { intros n. cbn [chan_w s1 set_log]. rewrite Ef. discriminate. }
    pose proof (handle_allocate_none_wp c a side o s1 cs Hlk Herr Hno) as W.
    apply wp_elim in W. destruct W as [(x & s' & _ & [])|(e' & s' & E & He & ->)].
    rewrite E. destruct (drop_conn_frame c s1) as (_ & _ & D3).
    destruct He as [-> | ->]; (right; cbn [o_log]; rewrite D3; split; [reflexivity|]);
      intros n bytes K; discriminate K.
  - assert (Hno : forall n, find_available (sel_names (chan_w s1) a) (o_alloc o) <> AllocOk n).
    { intros n. cbn [chan_w s1 set_log]. rewrite Ef. discriminate. }
    pose proof (handle_allocate_none_wp c a side o s1 cs Hlk Herr Hno) as W.
    apply wp_elim in W. destruct W as [(x & s' & _ & [])|(e' & s' & E & He & ->)].
    rewrite E. destruct (drop_conn_frame c s1) as (_ & _ & D3).
    destruct He as [-> | ->]; (right; cbn [o_log]; rewrite D3; split; [reflexivity|]);
      intros n bytes K; discriminate K.
Qed.

(** an allocate is answered `allocated n` whenever the allocator, run on the
    names in use, returns n and the mailbox id drawn for the new nameplate is
    not in use *)
Theorem allocate_answered s c cs a side msg o n bytes :
  SInv s -> log s = [] ->
  lookup_conn c (conns s) = Some cs -> c_bound cs = Some (a, side) ->
  m_type msg = Some TAllocate -> erroneous cs msg = false ->
  find_available (sel_names (chan_w s) a) (o_alloc o) = AllocOk n ->
  o_draw o = Some bytes -> mb_exists (chan_w s) (genid bytes) = false ->
  frames_of (o_log (snd (step cfg s (EB (ECmd c msg o))))) =
    [(c, FAck (m_id msg)); (c, FAllocated n)].
Proof.
  intros HS Hlog Hlk Hb Ht Herr Ef Hd Hfr.
  pose proof (allocate_shape s c cs a side msg o HS Hlog Hlk Hb Ht Herr) as A.
  destruct (step cfg s (EB (ECmd c msg o))) as [s' ob]. cbn [snd].
  destruct A as [(n' & d1 & d2 & b & tx & Ef' & El)|(_ & K)].
  - rewrite Ef in Ef'. inversion Ef'; subst n'. rewrite El. reflexivity.
  - rewrite (K n bytes Ef Hd) in Hfr. discriminate Hfr.
Qed.


(** * C07: after the last release the name is free again *)

(** the release by the last claiming side (the deleting case of
    [release_effect]: the side has a claim row on the live nameplate and no
    OTHER side's row says claimed): answered `released`; afterwards the name
    has no row and is not among the names in use; no later `list` of the app
    shows it (whatever the listing configuration); and it can be allocated
    again: an allocate for which the allocator returns it (and whose drawn
    mailbox id is new) is answered `allocated n` -- and the allocator does
    return it for every honest random choice of it *)
Theorem last_release_frees s c cs a side msg o n np r :
  SInv s -> log s = [] ->
  lookup_conn c (conns s) = Some cs -> c_bound cs = Some (a, side) ->
  m_type msg = Some TRelease -> erroneous cs msg = false -> cmd_nameplate cs msg = Some n ->
  sel_np (chan_w s) a n = Some np ->
  sel_nps (chan_w s) (np_id np) side = Some r ->
  existsb (fun x => nps_claimed x && negb (seqb (nps_side x) side))
          (sel_nps_all (chan_w s) (np_id np)) = false ->
  let s' := fst (step cfg s (EB (ECmd c msg o))) in
  let d' := chan_w s' in
  frames_of (o_log (snd (step cfg s (EB (ECmd c msg o))))) =
    [(c, FAck (m_id msg)); (c, FReleased)] /\
  sel_np d' a n = None /\ ~ In n (sel_names d' a) /\
  (forall c2 sd2 msg2 o2 l,
     bound_to s' c2 a sd2 -> m_type msg2 = Some TList ->
     In (c2, FNameplates l) (frames_of (o_log (snd (step cfg s' (EB (ECmd c2 msg2 o2)))))) ->
     ~ In n l) /\
  (forall c2 cs2 sd2 msg2 o2 bytes,
     lookup_conn c2 (conns s') = Some cs2 -> c_bound cs2 = Some (a, sd2) ->
     m_type msg2 = Some TAllocate -> erroneous cs2 msg2 = false ->
     find_available (sel_names d' a) (o_alloc o2) = AllocOk n ->
     o_draw o2 = Some bytes -> mb_exists d' (genid bytes) = false ->
     frames_of (o_log (snd (step cfg s' (EB (ECmd c2 msg2 o2))))) =
       [(c2, FAck (m_id msg2)); (c2, FAllocated n)]) /\
  (forall dd v draws,
     (1 <= dd <= 3)%nat -> In v (size_range dd) -> n = show_Z v ->
     (forall d0, (1 <= d0 < dd)%nat -> free_names (sel_names d' a) (size_range d0) = []) ->
     find_available (sel_names d' a) (mkAO (Some n) draws) = AllocOk n).
Proof.
  intros HS Hlog Hlk Hb Ht Herr Hn Hsel Hnps Hlast. cbv zeta.
  pose proof (release_effect cfg s c cs a side msg o n HS Hlog Hlk Hb Ht Herr Hn) as R.
  destruct (step_inv cfg Hexp s (EB (ECmd c msg o)) HS) as [HS' Hlog'].
  destruct (step cfg s (EB (ECmd c msg o))) as [s' ob]. cbn [fst snd] in *. cbv zeta in R.
  rewrite Hsel, Hnps, Hlast in R.
  destruct R as (_ & Hfr & _ & _ & _ & _ & _ & _ & Rn & _).
  (* no row of (a, n) is left *)
  assert (Hnone : sel_np (chan_w s') a n = None).
  { apply sel_np_none. intros x Hx [Ha Hnm]. rewrite Rn in Hx. apply filter_In in Hx.
    destruct Hx as [Hx Hid]. apply negb_true_iff, Z.eqb_neq in Hid. apply Hid.
    destruct (sel_np_some _ _ _ _ Hsel) as (Hin & Ha0 & Hn0).
    assert (E : x = np).
    { apply (NoDup_map_inj np_key (nameplates (chan_w s)));
        [apply inv_np_key; apply (si_db s HS)|exact Hx|exact Hin|].
      unfold np_key. congruence. }
    rewrite E. reflexivity. }
  assert (Hfree : smem n (sel_names (chan_w s') a) = false) by (apply sel_np_names; exact Hnone).
  split; [exact Hfr|]. split; [exact Hnone|]. split.
  { intros Hin. apply StoreFacts.smem_In in Hin. congruence. }
  split.
  { intros c2 sd2 msg2 o2 l Hbd Ht2 Hin.
    pose proof (listed_frame s' c2 a sd2 msg2 o2 HS' Hlog' Hbd Ht2) as L.
    destruct (step cfg s' (EB (ECmd c2 msg2 o2))) as [s2 ob2]. cbn [snd] in Hin.
    destruct L as (l0 & Hf0 & _ & _ & _ & Hyes & Hno). rewrite Hf0 in Hin.
    destruct Hin as [K|[K|[]]]; [discriminate K|]. inversion K; subst l0.
    intros Hl. destruct (allow_list cfg) eqn:Eal.
    - apply (proj1 (Hyes eq_refl n) Hl). exact Hnone.
    - rewrite (Hno eq_refl) in Hl. destruct Hl. }
  split.
  { intros c2 cs2 sd2 msg2 o2 bytes Hlk2 Hb2 Ht2 Herr2 Ef Hd Hnew.
    exact (allocate_answered s' c2 cs2 a sd2 msg2 o2 n bytes HS' Hlog' Hlk2 Hb2 Ht2 Herr2 Ef Hd Hnew). }
  intros dd v draws Hdd Hv En Hlow.
  apply (find_available_accepts _ n draws dd Hdd); [|exact Hlow].
  apply free_names_In. exists v. split; [exact Hv|]. split; [exact En|exact Hfree].
Qed.

(** * C04: two allocates of one name: the name was retired in between *)

(** [e], applied in state [s], is an allocate command sent on a connection bound
    to (app [a], side [side]) -- processed completely, or with the process
    dying after its k-th commit -- and the frame `allocated n` is among the
    frames it produced *)
Definition alloc_answered_by (s : state) (e : event) (a side n : string) : Prop :=
  exists c cs msg o,
    (e = EB (ECmd c msg o) \/ exists k, e = ECrash k (ECmd c msg o)) /\
    lookup_conn c (conns s) = Some cs /\ c_bound cs = Some (a, side) /\
    m_type msg = Some TAllocate /\
    In (c, FAllocated n) (frames_of (o_log (snd (step cfg s e)))).

Definition alloc_answered (s : state) (e : event) (a n : string) : Prop :=
  exists side, alloc_answered_by s e a side n.

Lemma frames_of_log_prefix_In x : forall l k,
  In x (frames_of (log_prefix k l)) -> In x (frames_of l).
Proof.
  induction l as [|y l IH]; intros k H.
  - destruct k; exact H.
  - destruct k as [|k]; [destruct H|].
    destruct y as [d|u|c f b tx]; cbn [log_prefix is_commit frames_of] in *.
    + exact (IH k H).
    + exact (IH k H).
    + destruct H as [H|H]; [left; exact H|right; exact (IH (S k) H)].
Qed.

(** a command with the process dying after its k-th commit: either the command
    had fewer than k commits -- it completed, its whole log was produced, and
    the state is the one a restart right after the completed command gives --
    or what was produced is the log up to the k-th commit *)
Lemma crash_cmd_cases s k c cs msg o :
  log s = [] -> lookup_conn c (conns s) = Some cs ->
  let sb := step cfg s (EB (ECmd c msg o)) in
  let sk := step cfg s (ECrash k (ECmd c msg o)) in
  ((count_commits (o_log (snd sb)) < k)%nat /\
   fst sk = fst (step cfg (fst sb) ERestart) /\ o_log (snd sk) = o_log (snd sb)) \/
  ((k <= count_commits (o_log (snd sb)))%nat /\
   o_log (snd sk) = log_prefix k (o_log (snd sb))).
Proof.
  intros Hlog Hlk. cbv zeta. unfold step. rewrite (MbFactsA.set_log_nil s Hlog).
  destruct (step_b_cmd_facts cfg s c cs msg o Hlk) as (s1 & x & Eb & _). rewrite Eb.
  cbn [fst snd o_log negb]. rewrite orb_false_r.
  destruct (count_commits (rev (log s1)) <? k)%nat eqn:Ek.
  - left. apply Nat.ltb_lt in Ek. split; [exact Ek|].
    cbn [set_log chan_c usage_c now].
    destruct (boot_on cfg (chan_c s1) (usage_c s1) (now s1)) as [[s2 bl] x2].
    split; reflexivity.
  - right. apply Nat.ltb_ge in Ek. split; [exact Ek|].
    destruct (replay_commits (log_prefix k (rev (log s1))) (chan_c s) (usage_c s)) as [c0 u0].
    destruct (boot_on cfg c0 u0 (now s1)) as [[s2 bl] x2]. reflexivity.
Qed.

(** a restart right after a nameplate's mailbox was stamped with the present
    clock: the start-up sweep keeps it (its cut-off is [exp] > 0 in the past),
    so a claim on the nameplate survives the restart *)
Lemma restart_keeps_stamped_holder s a n side np :
  SInv s -> log s = [] -> holder (chan_w s) a n side ->
  sel_np (chan_w s) a n = Some np -> stamped (chan_w s) a (np_mbox np) (now s) ->
  holder (chan_w (fst (step cfg s ERestart))) a n side.
Proof.
  intros HS Hlog Hh Hsel (mr & Hmr & Hma & Hmi & Hmu).
  destruct (holder_stable_all cfg Hexp s ERestart a n side HS Hlog Hh)
    as [K|[(c & cs & msg & o & [K|(k & K)] & _)|(np' & Hsel' & Hdead)]];
    [exact K|discriminate K|discriminate K|exfalso].
  assert (np' = np) by congruence. subst np'. apply Hdead. clear Hdead.
  assert (Hcw : chan_c s = chan_w s) by (symmetry; apply (si_clean s HS)).
  set (s0 := mkState (chan_c s) (chan_c s) (usage_c s) (usage_c s) [] [] (now s) (now s) (now s)
                     (now s + period cfg) []).
  assert (HS0 : SInv s0).
  { constructor; cbn.
    - rewrite Hcw. apply (si_db s HS).
    - split; reflexivity.
    - intros c1 cs1 K. discriminate.
    - intros p [].
    - constructor.
    - constructor. }
  destruct (sweep_char cfg Hexp s0 HS0 eq_refl) as (s' & E & H). cbv zeta in H.
  destruct H as (Hmb & _).
  assert (Ew : chan_w (fst (step cfg s ERestart)) = chan_w s').
  { unfold step. cbv zeta. rewrite boot_on_eq. cbn [chan_c usage_c now set_log].
    fold s0. rewrite E. reflexivity. }
  rewrite Ew. exists mr. split; [|exact Hmi].
  apply Hmb. left. split; [cbn [chan_w s0]; rewrite Hcw; exact Hmr|].
  split; [intros (c1 & Hc1); destruct Hc1|]. cbn [now s0]. lia.
Qed.

(** what an answered allocate means for the state it is applied in and the
    state it leaves: the name had no row, and afterwards the allocating side
    holds it -- also when the process died right after the command (a crash
    that cuts the command short never produces `allocated`: the answer is the
    last entry of the command's log, after all its commits) *)
Lemma alloc_answered_facts s e a side n :
  SInv s -> log s = [] -> alloc_answered_by s e a side n ->
  sel_np (chan_w s) a n = None /\
  holder (chan_w (fst (step cfg s e))) a n side /\
  (forall k b, e = ECrash k b ->
     (count_commits (o_log (snd (step cfg s (EB b)))) < k)%nat /\
     fst (step cfg s e) = fst (step cfg (fst (step cfg s (EB b))) ERestart)).
Proof.
  intros HS Hlog (c & cs & msg & o & He & Hlk & Hb & Ht & Hin).
  assert (Hhas : has_conn c s = true) by (unfold has_conn; rewrite Hlk; reflexivity).
  (* the frame is among those of the completely processed command *)
  assert (HinB : In (c, FAllocated n) (frames_of (o_log (snd (step cfg s (EB (ECmd c msg o))))))).
  { destruct He as [->|(k & ->)]; [exact Hin|].
    destruct (crash_cmd_cases s k c cs msg o Hlog Hlk) as [(_ & _ & El)|(_ & El)];
      rewrite El in Hin; [exact Hin|].
    exact (frames_of_log_prefix_In _ _ _ Hin). }
  (* so the command was well-formed *)
  assert (Herr : erroneous cs msg = false).
  { destruct (erroneous cs msg) eqn:E; [exfalso|reflexivity].
    assert (Ec : erroneous (conn_of s c) msg = true) by (unfold conn_of; rewrite Hlk; exact E).
    pose proof (erroneous_answer_exact cfg s c msg o Hlog Hhas Ec) as W.
    destruct (step cfg s (EB (ECmd c msg o))) as [s' ob]. cbn [snd] in HinB.
    destruct W as (_ & _ & _ & _ & _ & Hf & _). rewrite Hf, Ht in HinB.
    destruct HinB as [K|[K|[]]]; discriminate K. }
  pose proof (allocate_outcome cfg Hexp s c cs a side msg o HS Hlog Hlk Hb Ht Herr) as A.
  pose proof (allocate_stamps cfg s c cs a side msg o n HS Hlog Hlk Hb Ht Herr) as St.
  pose proof (allocate_shape s c cs a side msg o HS Hlog Hlk Hb Ht Herr) as Sh.
  destruct (step_inv cfg Hexp s (EB (ECmd c msg o)) HS) as [HSb Hlogb].
  pose proof (crash_cmd_cases s) as Cr.
  destruct (step cfg s (EB (ECmd c msg o))) as [sb ob] eqn:Esb. cbn [fst snd] in *. cbv zeta in A.
  destruct A as (_ & [(n' & Hf & _ & _ & Hnone & _ & Hh & _)|(Hf & _)]);
    [|rewrite Hf in HinB; destruct HinB as [K|[]]; discriminate K].
  assert (n' = n).
  { rewrite Hf in HinB. destruct HinB as [K|[K|[]]]; [discriminate K|]. inversion K. reflexivity. }
  subst n'. split; [exact Hnone|].
  destruct He as [->|(k & ->)].
  - rewrite Esb. cbn [fst]. split; [exact Hh|]. intros k b K. discriminate K.
  - (* a crash: the command completed *)
    specialize (Cr k c cs msg o Hlog Hlk). rewrite Esb in Cr. cbv zeta in Cr. cbn [fst snd] in Cr.
    assert (Hdone : (count_commits (o_log ob) < k)%nat /\
                    fst (step cfg s (ECrash k (ECmd c msg o))) = fst (step cfg sb ERestart)).
    { destruct Cr as [(Hk & Es & _)|(Hk & El)]; [split; assumption|exfalso].
      rewrite El in Hin.
      destruct Sh as [(n' & d1 & d2 & b & tx & _ & Eo)|(Hf' & _)].
      - rewrite Eo in Hin, Hk. clear - Hin Hk.
        destruct k as [|[|[|[|k]]]]; cbn in Hin, Hk; try lia;
          repeat (destruct Hin as [Hin|Hin]; [discriminate Hin|]); exact Hin.
      - rewrite Hf' in HinB. destruct HinB as [K|[]]; discriminate K. }
    destruct Hdone as [Hk Es]. split.
    + rewrite Es. destruct (St HinB) as (np & Hsel & Hst & _ & Hnow).
      apply (restart_keeps_stamped_holder sb a n side np HSb Hlogb Hh Hsel).
      rewrite Hnow. exact Hst.
    + intros k' b' K. inversion K; subst k' b'. rewrite Esb. cbn [fst snd]. split; assumption.
Qed.

(** C04, "no other allocate can be given the same nameplate until it is
    retired": two events at positions i < j of a history from the initial
    state, both answered `allocated n` for app [a] (by any connections, any
    sides; processed completely or followed by a crash).  After event i the
    name has a row; in the state in which event j is applied -- after event i
    and everything between -- it has none: so there are events in between,
    and strictly between the two answers there is a point at which (a, n) is
    retired *)
Theorem alloc_pair_retired_between t0 h1 ei h2 ej a n :
  alloc_answered (at_ t0 h1) ei a n ->
  alloc_answered (at_ t0 (h1 ++ ei :: h2)) ej a n ->
  sel_np (chan_w (at_ t0 (h1 ++ [ei]))) a n <> None /\
  sel_np (chan_w (at_ t0 (h1 ++ ei :: h2))) a n = None /\
  exists p q, h2 = p ++ q /\ p <> [] /\ sel_np (chan_w (at_ t0 (h1 ++ ei :: p))) a n = None.
Proof.
  intros (sdi & Ai) (sdj & Aj).
  destruct (at_inv cfg Hexp t0 h1) as [HSi Hli].
  destruct (at_inv cfg Hexp t0 (h1 ++ ei :: h2)) as [HSj Hlj].
  destruct (alloc_answered_facts _ _ _ _ _ HSi Hli Ai) as (_ & Hh & _).
  destruct (alloc_answered_facts _ _ _ _ _ HSj Hlj Aj) as (Hnone & _).
  rewrite <- (at_snoc cfg) in Hh.
  assert (Hsome : sel_np (chan_w (at_ t0 (h1 ++ [ei]))) a n <> None).
  { destruct (listed_while_held _ _ _ _ Hh) as (_ & np & K). congruence. }
  split; [exact Hsome|]. split; [exact Hnone|].
  exists h2, []. split; [symmetry; apply app_nil_r|]. split; [|exact Hnone].
  intros ->. rewrite <- (nf_app_cons_assoc h1 ei []), app_nil_r in Hnone. exact (Hsome Hnone).
Qed.

(** ... and it was retired the only way C07 allows: some event strictly between
    the two answers found the first allocator's claim still held and ended it
    ([claim_ender]: that side's own release of n -- completed or cut short by a
    crash --, or the deletion of the nameplate's mailbox by close or expiry) *)
Theorem alloc_pair_ender_between t0 h1 ei h2 ej a side n :
  alloc_answered_by (at_ t0 h1) ei a side n ->
  alloc_answered (at_ t0 (h1 ++ ei :: h2)) ej a n ->
  exists p e q, h2 = p ++ e :: q /\
    holder (chan_w (at_ t0 (h1 ++ ei :: p))) a n side /\
    claim_ender cfg (at_ t0 (h1 ++ ei :: p)) e a n side.
Proof.
  intros Ai (sdj & Aj).
  destruct (at_inv cfg Hexp t0 h1) as [HSi Hli].
  destruct (at_inv cfg Hexp t0 (h1 ++ [ei])) as [HSi' Hli'].
  destruct (at_inv cfg Hexp t0 (h1 ++ ei :: h2)) as [HSj Hlj].
  destruct (alloc_answered_facts _ _ _ _ _ HSi Hli Ai) as (_ & Hh & _).
  destruct (alloc_answered_facts _ _ _ _ _ HSj Hlj Aj) as (Hnone & _).
  rewrite <- (at_snoc cfg) in Hh.
  assert (Ecut : forall p, at_ t0 (h1 ++ ei :: p) = fst (run cfg (at_ t0 (h1 ++ [ei])) p)).
  { intros p. rewrite <- (nf_app_cons_assoc h1 ei p). apply (at_app cfg). }
  destruct (holder_stable_run cfg Hexp a n side h2 _ HSi' Hli' Hh) as [K|(p & e & q & Eh & K1 & K2)].
  - exfalso. rewrite <- Ecut in K. destruct (listed_while_held _ _ _ _ K) as (_ & np & K'). congruence.
  - exists p, e, q. rewrite Ecut. auto.
Qed.

(** the single-state reading: while (a, n) has a row, no allocate for app [a]
    -- by anyone, completed or crashed -- is answered `allocated n` *)
Corollary no_alloc_while_live s e a n :
  SInv s -> log s = [] -> sel_np (chan_w s) a n <> None -> ~ alloc_answered s e a n.
Proof.
  intros HS Hlog Hsome (sd & A). apply Hsome.
  exact (proj1 (alloc_answered_facts s e a sd n HS Hlog A)).
Qed.

End WithConfig.

Print Assumptions claimed_pair_distinct_keys.
Print Assumptions claimed_pair_distinct_keys_live.
Print Assumptions claimed_pair_distinct_reincarnated.
Print Assumptions claimed_pair_same_iff_live.
Print Assumptions listed_frame.
Print Assumptions listed_frame_allowed.
Print Assumptions allocate_shape.
Print Assumptions allocate_answered.
Print Assumptions last_release_frees.
Print Assumptions alloc_answered_facts.
Print Assumptions alloc_pair_retired_between.
Print Assumptions alloc_pair_ender_between.
Print Assumptions no_alloc_while_live.

(** * Non-vacuity: concrete histories on the repository's constants *)
Module NameFactsExamples.
Import ClaimedPairExamples.

(** ** C03 *)

(** ClaimedPair's history: side s1 claims ("a", "7") (answer genid A), restart,
    s2 claims it (same answer), both release -- the nameplate is retired: no row
    after [hB ++ eB :: hC] --, s1 claims it again (answer genid C).
    [claimed_pair_distinct_reincarnated] applied to the first and third claim:
    no row id in sight *)
Lemma retired_between :
  sel_np (chan_w (at_ cfg 0 (hA ++ eA :: (hB ++ eB :: hC)))) "a" "7" = None.
Proof. vm_compute. reflexivity. Qed.

Lemma draws_nodup : NoDup ["AAAAAAAA"; "BBBBBBBB"; "CCCCCCCC"]%string.
Proof.
  constructor; [intros [K|[K|[]]]; discriminate K|].
  constructor; [intros [K|[]]; discriminate K|]. constructor; [intros []|constructor].
Qed.

Example reincarnated_applied : genid "AAAAAAAA" <> genid "CCCCCCCC".
Proof.
  apply (claimed_pair_distinct_reincarnated cfg cfg_exp 0 hA eA (hB ++ eB :: hC) eC [] "a" "7").
  - rewrite draws_all. exact draws_nodup.
  - rewrite draws_all. repeat constructor.
  - exact answered_A.
  - exact answered_C.
  - exists (hB ++ eB :: hC), []. split; [symmetry; apply app_nil_r|exact retired_between].
Qed.

(** [claimed_pair_same_iff_live], right to left on the first two claims (the
    nameplate lives throughout: [live_AB]) and left to right on the first and
    third (it does not) *)
Example same_iff_live_applied :
  (forall mj, claim_answered cfg (at_ cfg 0 (hA ++ eA :: (hB ++ eB :: hC))) eC "a" "7" mj ->
              mj <> genid "AAAAAAAA").
Proof.
  intros mj Hj Em.
  assert (Hd : draws_of (hA ++ eA :: (hB ++ eB :: hC) ++ eC :: []) =
               ["AAAAAAAA"; "BBBBBBBB"; "CCCCCCCC"]%string) by exact draws_all.
  pose proof (claimed_pair_same_iff_live cfg cfg_exp 0 hA eA (hB ++ eB :: hC) eC [] "a" "7"
                (genid "AAAAAAAA") mj) as H. cbv zeta in H. rewrite Hd in H.
  specialize (H draws_nodup ltac:(repeat constructor) answered_A Hj).
  apply (proj1 H (eq_sym Em) (hB ++ eB :: hC) [] (eq_sym (app_nil_r _))).
  exact retired_between.
Qed.

(** the fresh-draws hypothesis is needed: if the draw of the first incarnation
    is repeated at the second (the mailbox of the first still exists, in the
    same app), the new incarnation is told the OLD mailbox id, although the
    nameplate was retired in between *)
Definition eC' := EB (ECmd 3 claim (od "AAAAAAAA")).

Example reincarnated_without_fresh_draws_refuted :
  claim_answered cfg (at_ cfg 0 hA) eA "a" "7" (genid "AAAAAAAA") /\
  claim_answered cfg (at_ cfg 0 (hA ++ eA :: (hB ++ eB :: hC))) eC' "a" "7" (genid "AAAAAAAA") /\
  sel_np (chan_w (at_ cfg 0 (hA ++ eA :: (hB ++ eB :: hC)))) "a" "7" = None /\
  draws_of (hA ++ eA :: (hB ++ eB :: hC) ++ eC' :: []) = ["AAAAAAAA"; "BBBBBBBB"; "AAAAAAAA"]%string.
Proof.
  split; [exact answered_A|]. split; [|split; [exact retired_between|vm_compute; reflexivity]].
  exists 3%nat, (mkConn (Some ("a", "s1")) false false false None true None None false), "s1",
         claim, (od "AAAAAAAA").
  vm_compute. auto 10.
Qed.

(** different keys: ("a", "7"), ("b", "7") -- the same name in another app --
    and ("a", "8") -- another name in the same app --, all live at the end *)
Definition bindb s := mkCmd (Some TBind) None (Some "b") (Some s) None None None None None None None.
Definition claim8 := mkCmd (Some TClaim) None None None (Some "8") None None None None None None.
Definition hK := [EB (EConnect 1); EB (ECmd 1 (bind "s1") o0);
                  EB (EConnect 2); EB (ECmd 2 (bindb "s1") o0);
                  EB (EConnect 3); EB (ECmd 3 (bind "s2") o0)].
Definition eK1 := EB (ECmd 1 claim (od "AAAAAAAA")).
Definition eK2 := EB (ECmd 2 claim (od "BBBBBBBB")).
Definition eK3 := EB (ECmd 3 claim8 (od "CCCCCCCC")).
Definition boundb s := mkConn (Some ("b", s)) false false false None false None None false.

Lemma answered_K1 : claim_answered cfg (at_ cfg 0 hK) eK1 "a" "7" (genid "AAAAAAAA").
Proof. exists 1%nat, (bound "s1"), "s1", claim, (od "AAAAAAAA"). vm_compute. auto 10. Qed.
Lemma answered_K2 : claim_answered cfg (at_ cfg 0 (hK ++ eK1 :: [])) eK2 "b" "7" (genid "BBBBBBBB").
Proof. exists 2%nat, (boundb "s1"), "s1", claim, (od "BBBBBBBB"). vm_compute. auto 10. Qed.
Lemma answered_K3 : claim_answered cfg (at_ cfg 0 (hK ++ eK1 :: [eK2])) eK3 "a" "8" (genid "CCCCCCCC").
Proof. exists 3%nat, (bound "s2"), "s2", claim8, (od "CCCCCCCC"). vm_compute. auto 10. Qed.

Lemma draws_K : draws_of (hK ++ eK1 :: [] ++ eK2 :: [eK3]) = ["AAAAAAAA"; "BBBBBBBB"; "CCCCCCCC"]%string.
Proof. vm_compute. reflexivity. Qed.

Example distinct_keys_other_app : genid "AAAAAAAA" <> genid "BBBBBBBB".
Proof.
  apply (claimed_pair_distinct_keys cfg cfg_exp 0 hK eK1 [] eK2 [eK3] "a" "7" "b" "7").
  - rewrite draws_K. exact draws_nodup.
  - rewrite draws_K. repeat constructor.
  - exact answered_K1.
  - exact answered_K2.
  - intros K. discriminate K.
Qed.

Example distinct_keys_other_name : genid "AAAAAAAA" <> genid "CCCCCCCC".
Proof.
  apply (claimed_pair_distinct_keys cfg cfg_exp 0 hK eK1 [eK2] eK3 [] "a" "7" "a" "8").
  - change (NoDup (draws_of (hK ++ eK1 :: [] ++ eK2 :: [eK3]))). rewrite draws_K. exact draws_nodup.
  - change (Forall (fun b => String.length b = 8%nat) (draws_of (hK ++ eK1 :: [] ++ eK2 :: [eK3]))).
    rewrite draws_K. repeat constructor.
  - exact answered_K1.
  - exact answered_K3.
  - intros K. discriminate K.
Qed.

Example keys_all_live_at_the_end :
  let d := chan_w (at_ cfg 0 (hK ++ [eK1; eK2; eK3])) in
  sel_np d "a" "7" <> None /\ sel_np d "b" "7" <> None /\ sel_np d "a" "8" <> None.
Proof. vm_compute. repeat split; discriminate. Qed.

(** ** C04 and C07: allocate, list, release, list, allocate again *)

Definition alloc := mkCmd (Some TAllocate) None None None None None None None None None None.
Definition lst := mkCmd (Some TList) None None None None None None None None None None.
Definition rel1 := mkCmd (Some TRelease) None None None (Some "1") None None None None None None.
Definition oA := mkOracle (Some "AAAAAAAA") (mkAO (Some "1") []).
Definition oB := mkOracle (Some "BBBBBBBB") (mkAO (Some "1") []).
Definition hL := [EB (EConnect 1); EB (ECmd 1 (bind "s1") o0);
                  EB (EConnect 2); EB (ECmd 2 (bind "s2") o0)].
Definition eL1 := EB (ECmd 1 alloc oA).
Definition eR := EB (ECmd 1 rel1 o0).
(** the second allocate, with the process dying right after it (it has three commits) *)
Definition eL2 := ECrash 9 (ECmd 2 alloc oB).
Definition allocated1 := mkConn (Some ("a", "s1")) true false false None false None None false.

(** the frames, event by event (with a `list` before and after the release) *)
Example frames_computed :
  map (fun ob => frames_of (o_log ob))
      (snd (run cfg (init cfg 0)
                (hL ++ eL1 :: EB (ECmd 2 lst o0) :: eR :: EB (ECmd 2 lst o0) :: [eL2]))) =
  [ [(1%nat, FWelcome (mkWelcome None None None))]; [(1%nat, FAck None)];
    [(2%nat, FWelcome (mkWelcome None None None))]; [(2%nat, FAck None)];
    [(1%nat, FAck None); (1%nat, FAllocated "1")];
    [(2%nat, FAck None); (2%nat, FNameplates ["1"%string])];
    [(1%nat, FAck None); (1%nat, FReleased)];
    [(2%nat, FAck None); (2%nat, FNameplates [])];
    [(2%nat, FAck None); (2%nat, FAllocated "1")] ].
Proof. vm_compute. reflexivity. Qed.

Lemma alloc_first : alloc_answered_by cfg (at_ cfg 0 hL) eL1 "a" "s1" "1".
Proof.
  exists 1%nat, (bound "s1"), alloc, oA. split; [left; reflexivity|]. vm_compute. auto 10.
Qed.

Lemma alloc_second : alloc_answered cfg (at_ cfg 0 (hL ++ eL1 :: [eR])) eL2 "a" "1".
Proof.
  exists "s2"%string, 2%nat, (bound "s2"), alloc, oB.
  split; [right; exists 9%nat; reflexivity|]. vm_compute. auto 10.
Qed.

(** [alloc_pair_retired_between] and [alloc_pair_ender_between] applied: the
    name was retired between the two answers, by the release *)
Example alloc_pair_applied :
  sel_np (chan_w (at_ cfg 0 (hL ++ [eL1]))) "a" "1" <> None /\
  sel_np (chan_w (at_ cfg 0 (hL ++ eL1 :: [eR]))) "a" "1" = None /\
  exists p e q, [eR] = p ++ e :: q /\
    holder (chan_w (at_ cfg 0 (hL ++ eL1 :: p))) "a" "1" "s1" /\
    claim_ender cfg (at_ cfg 0 (hL ++ eL1 :: p)) e "a" "1" "s1".
Proof.
  destruct (alloc_pair_retired_between cfg cfg_exp 0 hL eL1 [eR] eL2 "a" "1"
              (ex_intro _ "s1"%string alloc_first) alloc_second) as (H1 & H2 & _).
  split; [exact H1|]. split; [exact H2|].
  exact (alloc_pair_ender_between cfg cfg_exp 0 hL eL1 [eR] eL2 "a" "s1" "1" alloc_first alloc_second).
Qed.

(** a crash that cuts the allocate short (after its third commit, before the
    answer) produces no `allocated` frame; and while the name has a row nobody
    is given it ([no_alloc_while_live] on the state after the first allocate) *)
Example cut_short_allocate_not_answered :
  frames_of (o_log (snd (step cfg (at_ cfg 0 (hL ++ eL1 :: [eR])) (ECrash 3 (ECmd 2 alloc oB))))) =
  [(2%nat, FAck None)].
Proof. vm_compute. reflexivity. Qed.

Example no_alloc_while_live_applied :
  forall e, ~ alloc_answered cfg (at_ cfg 0 (hL ++ [eL1])) e "a" "1".
Proof.
  intros e. destruct (at_inv cfg cfg_exp 0 (hL ++ [eL1])) as [HS Hl].
  apply (no_alloc_while_live cfg cfg_exp _ e "a" "1" HS Hl). vm_compute. discriminate.
Qed.

(** [listed_frame_allowed] applied after the first allocate: the `nameplates`
    frame sent to connection 2 contains "1" *)
Example listed_applied :
  exists l, frames_of (o_log (snd (step cfg (at_ cfg 0 (hL ++ [eL1])) (EB (ECmd 2 lst o0))))) =
              [(2%nat, FAck None); (2%nat, FNameplates l)] /\ In "1"%string l.
Proof.
  destruct (at_inv cfg cfg_exp 0 (hL ++ [eL1])) as [HS Hl].
  destruct (listed_frame_allowed cfg (at_ cfg 0 (hL ++ [eL1])) 2 "a" "s2" lst o0 eq_refl HS Hl)
    as (l & Hf & Hin).
  - exists (bound "s2"). vm_compute. auto.
  - reflexivity.
  - exists l. split; [exact Hf|]. apply Hin. vm_compute. discriminate.
Qed.

(** [last_release_frees] applied to the release: no row, not listed to
    connection 2, and connection 2's allocate (allocator choice "1", new
    mailbox id) is answered `allocated 1` *)
Example last_release_applied :
  let s' := at_ cfg 0 (hL ++ eL1 :: [eR]) in
  sel_np (chan_w s') "a" "1" = None /\
  (forall l, In (2%nat, FNameplates l)
                (frames_of (o_log (snd (step cfg s' (EB (ECmd 2 lst o0)))))) -> ~ In "1"%string l) /\
  frames_of (o_log (snd (step cfg s' (EB (ECmd 2 alloc oB))))) =
    [(2%nat, FAck None); (2%nat, FAllocated "1")] /\
  (forall draws, find_available (sel_names (chan_w s') "a") (mkAO (Some "1"%string) draws) = AllocOk "1").
Proof.
  cbv zeta.
  destruct (at_inv cfg cfg_exp 0 (hL ++ [eL1])) as [HS Hl].
  assert (Es : at_ cfg 0 (hL ++ eL1 :: [eR]) = fst (step cfg (at_ cfg 0 (hL ++ [eL1])) eR)).
  { change (hL ++ eL1 :: [eR]) with ((hL ++ [eL1]) ++ [eR]). apply at_snoc. }
  rewrite Es.
  destruct (last_release_frees cfg cfg_exp (at_ cfg 0 (hL ++ [eL1])) 1 allocated1 "a" "s1" rel1 o0 "1"
              (mkNp 1 "a" "1" (genid "AAAAAAAA")) (mkNps 1 true "s1" 0) HS Hl)
    as (_ & F2 & _ & F4 & F5 & F6); try (vm_compute; reflexivity).
  split; [exact F2|]. split; [|split].
  - intros l Hin. apply (F4 2%nat "s2"%string lst o0 l); [|reflexivity|exact Hin].
    exists (bound "s2"). vm_compute. split; reflexivity.
  - apply (F5 2%nat (bound "s2") "s2"%string alloc oB "BBBBBBBB"%string); vm_compute; reflexivity.
  - intros draws. apply (F6 1%nat 1 draws); [lia|vm_compute; left; reflexivity|reflexivity|intros d0 Hd0; lia].
Qed.

End NameFactsExamples.

Print Assumptions NameFactsExamples.reincarnated_applied.
Print Assumptions NameFactsExamples.same_iff_live_applied.
Print Assumptions NameFactsExamples.reincarnated_without_fresh_draws_refuted.
Print Assumptions NameFactsExamples.distinct_keys_other_app.
Print Assumptions NameFactsExamples.distinct_keys_other_name.
Print Assumptions NameFactsExamples.keys_all_live_at_the_end.
Print Assumptions NameFactsExamples.frames_computed.
Print Assumptions NameFactsExamples.alloc_pair_applied.
Print Assumptions NameFactsExamples.cut_short_allocate_not_answered.
Print Assumptions NameFactsExamples.no_alloc_while_live_applied.
Print Assumptions NameFactsExamples.listed_applied.
Print Assumptions NameFactsExamples.last_release_applied.
