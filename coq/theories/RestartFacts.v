(** RestartFacts.v -- C11, made exact and closed.

    ViewFacts.v proves that a restart leaves the channel-relevant view of
    "drop every connection, then run one sweep" on a server that keeps running
    ([restart_as_drop_and_sweep]) and that every continuation of PLAIN events
    in which the two sweep timers fire at the same events cannot tell the two
    apart ([restart_invisible]).  Here:

    1. [restart_vs_kept_exact]: the comparison WITHOUT the inserted sweep.  The
       kept server [sk] (all connections dropped, nothing else) and the
       restarted server [sr] have the same registries (empty) and the same
       clock; their timers differ ([restart_timers]: the restarted one starts
       a fresh grid at [now s], the kept one keeps its grid); their channel
       databases differ EXACTLY by the mailboxes that are expired at [now s]
       (with their nameplates, side rows and messages) -- the rows the
       start-up sweep of the new process deletes; the views are equal IF AND
       ONLY IF nothing is expirable at [now s].  The inserted sweep of the
       reference run is that start-up sweep and nothing else.
       [kept_next_sweep]: if nobody reconnects before the kept server's timer
       is due, that firing deletes everything the restart deleted.
       [expired_reopen_visible] (computed) shows that the difference is real
       when something is expirable: a client that re-opens an expired mailbox
       before the kept server's next periodic sweep still finds its messages
       there, and finds nothing after a restart.
    2. [restart_invisible_r]: the continuation may contain further restarts
       and crashes before an event ([ECrash 0 b]); the firing hypothesis is
       asked only for the [EAdvance] events before the first such reboot of
       the continuation ([same_firing_until_reboot]) -- from then on both
       processes run a timer started at the same instant.
       [restart_invisible_kept]: under [nothing_expirable] the same holds
       against the kept server itself, no sweep inserted.
    3. [restart_invisible_from_init]: the closed form, both runs from
       [init cfg t0] through an arbitrary history [h1] (any events, crashes at
       any commit included).
    4. [restart_nonvacuous]: computed instance in which the hypothesis holds
       on a continuation where clients reconnect and work, an [EAdvance] fires
       the sweep in BOTH runs although their timers differ (and deletes a
       mailbox), a second restart and a crash before a command follow. *)
From MW Require Import Base Store Monad Usage Server Websocket Service Findings
     Inv StoreFacts UsageFacts Hoare DbFactsA DbFactsB OpFacts ProtoFacts Obs StepFacts SweepFacts
     ViewFacts ViewFactsR ResumeFacts RestartUsage.
Local Open Scope list_scope.

(** an event after which the process has been started afresh *)
Definition reboots (e : event) : Prop := match e with EB _ => False | _ => True end.

(** * Auxiliary: runs *)

Lemma run_app_snd cfg h1 h2 : forall s,
  snd (run cfg s (h1 ++ h2)) = snd (run cfg s h1) ++ snd (run cfg (fst (run cfg s h1)) h2).
Proof.
  induction h1 as [|e h1 IH]; intros s; [reflexivity|].
  cbn [app run]. destruct (step cfg s e) as [s1 o]. specialize (IH s1).
  destruct (run cfg s1 (h1 ++ h2)) as [u os]. destruct (run cfg s1 h1) as [u1 os1].
  cbn [fst snd] in *. rewrite IH. reflexivity.
Qed.

Lemma run_snd_length cfg h : forall s, List.length (snd (run cfg s h)) = List.length h.
Proof.
  induction h as [|e h IH]; intros s; [reflexivity|].
  cbn [run]. destruct (step cfg s e) as [s1 o]. specialize (IH s1).
  destruct (run cfg s1 h) as [u os]. cbn [snd List.length] in *. rewrite IH. reflexivity.
Qed.

Lemma skipn_app_exact {A} (l1 l2 : list A) n : n = List.length l1 -> skipn n (l1 ++ l2) = l2.
Proof.
  intros ->. induction l1 as [|x l1 IH]; [reflexivity|]. cbn [List.length app skipn]. exact IH.
Qed.

Lemma firstn_app_exact {A} (l1 l2 : list A) n : n = List.length l1 -> firstn n (l1 ++ l2) = l1.
Proof.
  intros ->. induction l1 as [|x l1 IH]; [reflexivity|]. cbn [List.length app firstn]. rewrite IH.
  reflexivity.
Qed.

Section WithConfig.
Variable cfg : config.
Hypothesis Hexp : 0 < exp cfg.

Notation simF := (sim cfg cfg False).
Notation simT := (sim cfg cfg True).

Lemma run_inv_log h : forall s,
  SInv s -> log s = [] -> SInv (fst (run cfg s h)) /\ log (fst (run cfg s h)) = [].
Proof.
  induction h as [|e h IH]; intros s HS L; [split; assumption|].
  rewrite run_cons_fst. pose proof (step_spec cfg Hexp s e HS) as K.
  destruct (step cfg s e) as [t o]. cbn [fst]. destruct K as (A & B & _). apply IH; assumption.
Qed.

Lemma init_run_inv t0 h :
  SInv (fst (run cfg (init cfg t0) h)) /\ log (fst (run cfg (init cfg t0) h)) = [].
Proof. destruct (init_spec cfg Hexp t0) as [A B]. apply run_inv_log; assumption. Qed.

(** * Part 1: restarted server against kept server, no sweep inserted *)

(** dropping connections does not touch the timer *)
Lemma disconnect_timer s c :
  let t := fst (step cfg s (EB (EDisconnect c))) in
  timer_start t = timer_start s /\ next_due t = next_due s /\ boot t = boot s.
Proof.
  cbv zeta. unfold step, step_b. cbv zeta.
  destruct (has_conn c (set_log s [])) eqn:Eh; [|cbn; auto].
  unfold has_conn in Eh. destruct (lookup_conn c (conns (set_log s []))) as [cs|] eqn:El; [|discriminate].
  cbn [fst]. unfold drop_conn. rewrite (on_close_eq c _ cs El).
  destruct (c_mailbox cs); [|cbn; auto].
  destruct (c_bound cs) as [[a sd]|]; [|cbn; auto].
  destruct (c_listening cs); cbn; auto.
Qed.

Lemma disconnects_timer l : forall s,
  let t := fst (run cfg s (map (fun p : nat * conn_state => EB (EDisconnect (fst p))) l)) in
  timer_start t = timer_start s /\ next_due t = next_due s /\ boot t = boot s.
Proof.
  induction l as [|p l IH]; intros s; cbv zeta; [cbn; auto|].
  cbn [map]. rewrite run_cons_fst.
  destruct (disconnect_timer s (fst p)) as (A & B & C).
  destruct (IH (fst (step cfg s (EB (EDisconnect (fst p)))))) as (A' & B' & C').
  split; [congruence|]. split; congruence.
Qed.

(** the kept server: the same process, every connection dropped *)
Lemma kept_facts s :
  SInv s -> log s = [] ->
  let sk := fst (run cfg s (drop_all s)) in
  SInv sk /\ log sk = [] /\ conns sk = [] /\ subs sk = [] /\
  chan_w sk = chan_w s /\ chan_c sk = chan_c s /\ now sk = now s /\
  timer_start sk = timer_start s /\ next_due sk = next_due s.
Proof.
  intros HS L sk.
  assert (Ed : drop_all s = map (fun c => EB (EDisconnect c)) (map fst (conns s))).
  { unfold drop_all. rewrite map_map. reflexivity. }
  destruct (drop_run cfg Hexp (map fst (conns s)) s HS L eq_refl) as (Hd & Ld & Cd & Wd & Cd' & Nd).
  rewrite <- Ed in Hd, Ld, Cd, Wd, Cd', Nd. fold sk in Hd, Ld, Cd, Wd, Cd', Nd.
  assert (Sd : subs sk = []).
  { destruct (subs sk) as [|[[a m] c] rest] eqn:Es; [reflexivity|exfalso].
    assert (Hin : In (a, m, c) (subs sk)) by (rewrite Es; now left).
    destruct (si_subs sk Hd _ Hin) as (_ & cs & side & Hl & _).
    rewrite Cd in Hl. discriminate. }
  destruct (disconnects_timer (conns s) s) as (T1 & T2 & _). fold (drop_all s) in T1, T2.
  fold sk in T1, T2. repeat (split; [assumption|]). assumption.
Qed.

Lemma restart_boot s :
  fst (step cfg s ERestart) = fst (fst (boot_on cfg (chan_c s) (usage_c s) (now s))).
Proof.
  unfold step. cbv zeta. cbn [chan_c usage_c now set_log].
  destruct (boot_on cfg (chan_c s) (usage_c s) (now s)) as [[s1 bl] x]. reflexivity.
Qed.

(** the timers: a fresh grid after the restart, the old grid on the kept
    server (with or without the extra sweep) *)
Theorem restart_timers s :
  SInv s -> log s = [] ->
  let sr := fst (step cfg s ERestart) in
  let sk := fst (run cfg s (drop_all s)) in
  let sd := fst (step cfg sk (EB (ESweep false))) in
  timer_start sr = now s /\ next_due sr = now s + period cfg /\
  timer_start sk = timer_start s /\ next_due sk = next_due s /\
  timer_start sd = timer_start s /\ next_due sd = next_due s.
Proof.
  intros HS L sr sk sd.
  destruct (kept_facts s HS L) as (Hk & Lk & _ & _ & _ & _ & _ & T1 & T2). fold sk in Hk, Lk, T1, T2.
  destruct (restart_is_boot_sweep cfg Hexp s HS) as (s1 & E & Er). fold sr in Er.
  destruct (booted_inv cfg s HS) as [HB LB].
  destruct (expire_run cfg Hexp false (booted cfg s) HB LB) as (s1' & E' & D).
  rewrite E in E'. inversion E'; subst s1'. clear E'.
  destruct D as (_ & _ & _ & _ & D1 & D2 & _).
  split; [rewrite Er; cbn [timer_start set_log]; rewrite D1; reflexivity|].
  split; [rewrite Er; cbn [next_due set_log]; rewrite D2; reflexivity|].
  split; [exact T1|]. split; [exact T2|].
  destruct (expire_run cfg Hexp false sk Hk Lk) as (s2 & E2 & D').
  destruct D' as (_ & _ & _ & _ & D1' & D2' & _).
  unfold sd. rewrite (sweep_state cfg sk Lk), E2. cbn [timer_start next_due set_log].
  split; congruence.
Qed.

Theorem restart_vs_kept_exact s :
  SInv s -> log s = [] ->
  let sr := fst (step cfg s ERestart) in
  let sk := fst (run cfg s (drop_all s)) in
  let sd := fst (step cfg sk (EB (ESweep false))) in
  (* the kept server: same files, same instant, nobody connected *)
  (SInv sk /\ log sk = [] /\ conns sk = [] /\ subs sk = [] /\
   chan_w sk = chan_w s /\ chan_c sk = chan_c s /\ now sk = now s) /\
  SInv sr /\ log sr = [] /\
  (* (a) restart = kept server + one fault-free sweep at the same instant *)
  view_of sr = view_of sd /\
  (* (b) the views of restarted and kept server coincide exactly when
         nothing is expirable at that instant *)
  (view_of sr = view_of sk <-> nothing_expirable cfg s) /\
  (* (c) in general: same registries, same clock; the channel databases
         differ exactly by the mailboxes expired at [now s] *)
  subs sr = subs sk /\ conns sr = conns sk /\ now sr = now sk /\ chan_c sr = chan_w sr /\
  let d := chan_w sk in
  let d' := chan_w sr in
  let old := now s - exp cfg in
  (forall r, In r (mailboxes d') <-> In r (mailboxes d) /\ old < mb_updated r) /\
  (forall n, In n (nameplates d') <-> In n (nameplates d) /\ mb_alive d' (np_mbox n)) /\
  (forall x, In x (np_sides d') <->
             In x (np_sides d) /\ exists n, In n (nameplates d') /\ np_id n = nps_npid x) /\
  (forall x, In x (mb_sides d') <-> In x (mb_sides d) /\ mb_alive d' (mbs_mbox x)) /\
  (forall x, In x (messages d') <-> In x (messages d) /\ mb_alive d' (msg_mbox x)) /\
  np_seq d' = np_seq d.
Proof.
  intros HS L sr sk sd.
  destruct (kept_facts s HS L) as (Hk & Lk & Ck & Sk & Wk & Ck' & Nk & _). fold sk in Hk, Lk, Ck, Sk, Wk, Ck', Nk.
  destruct (restart_as_drop_and_sweep cfg s Hexp HS L) as (Hv & Hr & _ & Lr & _).
  fold sr in Hv, Hr, Lr.
  assert (Esd : fst (run cfg s (drop_all s ++ [EB (ESweep false)])) = sd).
  { rewrite run_app_fst. fold sk. rewrite run_cons_fst. reflexivity. }
  rewrite Esd in Hv.
  (* the start-up sweep, characterised *)
  destruct (booted_inv cfg s HS) as [HB LB].
  destruct (restart_is_boot_sweep cfg Hexp s HS) as (s1 & E & Er). fold sr in Er.
  destruct (sweep_char cfg Hexp (booted cfg s) HB LB) as (s1' & E' & K).
  rewrite E in E'. inversion E'; subst s1'. clear E'. cbv zeta in K.
  cbn [chan_w booted now subs conns] in K.
  destruct K as (Km & Kn & Kns & Kms & Kmsg & Kseq & Kc & Ks & Kcn & Know).
  assert (Km' : forall r, In r (mailboxes (chan_w s1)) <->
                          In r (mailboxes (chan_w s)) /\ now s - exp cfg < mb_updated r).
  { intros r. rewrite (Km r). split.
    - intros [(A & _ & B)|(r0 & _ & (c & []) & _)]. auto.
    - intros [A B]. left. split; [exact A|]. split; [intros (c & [])|exact B]. }
  assert (Ew : chan_w sr = chan_w s1) by (rewrite Er; reflexivity).
  assert (Ec : chan_c sr = chan_c s1) by (rewrite Er; reflexivity).
  assert (Esub : subs sr = []) by (rewrite Er; cbn [subs set_log]; exact Ks).
  assert (Econ : conns sr = []) by (rewrite Er; cbn [conns set_log]; exact Kcn).
  assert (Enow : now sr = now s) by (rewrite Er; cbn [now set_log]; exact Know).
  split; [repeat (split; [assumption|]); assumption|].
  split; [exact Hr|]. split; [exact Lr|]. split; [exact Hv|].
  split; [|split; [congruence|split; [congruence|split; [congruence|split; [congruence|]]]]].
  - (* (b) *)
    split.
    + intros Hvk r Hr0.
      assert (Hw : chan_w sr = chan_w sk) by (unfold view_of in Hvk; congruence).
      rewrite Ew, Wk in Hw. rewrite <- Hw in Hr0. apply Km' in Hr0. apply Hr0.
    + intros Hne.
      destruct (si_clean s HS) as [Ecl _].
      assert (Hdb : DbInv (chan_c s)) by (rewrite <- Ecl; apply (si_db s HS)).
      assert (Hy : young (exp cfg) (now s) (chan_c s)).
      { intros r Hr0. apply Hne. rewrite Ecl. exact Hr0. }
      pose proof (boot_on_idle cfg Hexp (chan_c s) (usage_c s) (now s) Hdb Hy) as B.
      cbv zeta in B. rewrite <- restart_boot in B. fold sr in B.
      destruct B as (B1 & _ & B3 & B4 & B5 & B6).
      destruct (si_clean sr B1) as [Eclr _].
      unfold view_of. rewrite <- Eclr, B5, B3, B4, B6, Wk, Ck', Sk, Ck, Nk, <- Ecl. reflexivity.
  - cbv zeta. rewrite Ew, Wk.
    split; [exact Km'|]. split; [exact Kn|]. split; [exact Kns|]. split; [exact Kms|].
    split; [exact Kmsg|exact Kseq].
Qed.

(** "the start-up sweep only anticipates the next periodic sweep": if the
    kept server is left alone (nobody reconnects) until its timer is due, that
    firing deletes every mailbox the restart deleted (and whatever expired in
    the meantime): what the kept server then stores is contained in what the
    restarted server stored right after the restart.  The proviso matters: see
    [expired_reopen_visible] below. *)
Theorem kept_next_sweep s dt :
  SInv s -> log s = [] -> 0 <= dt -> next_due s <= now s + dt ->
  let sr := fst (step cfg s ERestart) in
  let sk := fst (run cfg s (drop_all s)) in
  let sk' := fst (step cfg sk (EB (EAdvance dt false))) in
  now sk' = now s + dt /\
  (forall r, In r (mailboxes (chan_w sk')) <->
             In r (mailboxes (chan_w s)) /\ now s + dt - exp cfg < mb_updated r) /\
  (forall r, In r (mailboxes (chan_w sk')) -> In r (mailboxes (chan_w sr))).
Proof.
  intros HS L Hdt Hdue sr sk sk'.
  destruct (kept_facts s HS L) as (Hk & Lk & Ck & Sk & Wk & _ & Nk & _ & T2).
  fold sk in Hk, Lk, Ck, Sk, Wk, Nk, T2.
  destruct (restart_vs_kept_exact s HS L) as (_ & _ & _ & _ & _ & _ & _ & _ & _ & Hm & _).
  cbv zeta in Hm. fold sr sk in Hm. rewrite Wk in Hm.
  set (s1 := set_now sk (now sk + dt)).
  assert (H1 : SInv s1) by (apply SInv_set_now; exact Hk).
  destruct (sweep_char cfg Hexp s1 H1 Lk) as (s' & E & K). cbv zeta in K.
  destruct K as (Km & _ & _ & _ & _ & _ & _ & _ & _ & Know).
  assert (Esk : sk' = set_log (set_next_due s' (next_grid cfg (timer_start s') (now s'))) []).
  { unfold sk', step, step_b. cbv zeta. rewrite (set_log_nil sk Lk).
    assert (Eneg : (dt <? 0) = false) by (apply Z.ltb_ge; exact Hdt). rewrite Eneg.
    fold s1.
    assert (Ed : (next_due s1 <=? now s1) = true).
    { apply Z.leb_le. unfold s1. cbn [next_due now set_now]. rewrite T2, Nk. exact Hdue. }
    rewrite Ed. unfold run_m. rewrite E. reflexivity. }
  assert (Hm' : forall r, In r (mailboxes (chan_w sk')) <->
                          In r (mailboxes (chan_w s)) /\ now s + dt - exp cfg < mb_updated r).
  { intros r. rewrite Esk. cbn [chan_w set_log set_next_due]. rewrite (Km r).
    unfold s1 at 1 2 3 4 5 6. cbn [chan_w now set_now]. rewrite Wk, Nk.
    assert (Hnl : forall a m, ~ listened s1 a m).
    { intros a m (c & Hc). unfold s1 in Hc. cbn [subs set_now] in Hc. rewrite Sk in Hc. exact Hc. }
    split.
    - intros [(A & _ & B)|(r0 & _ & HL & _)]; [auto|destruct (Hnl _ _ HL)].
    - intros [A B]. left. split; [exact A|]. split; [apply Hnl|exact B]. }
  split; [rewrite Esk; cbn [now set_log set_next_due]; rewrite Know; unfold s1; cbn [now set_now];
          rewrite Nk; reflexivity|].
  split; [exact Hm'|].
  intros r Hr0. apply Hm' in Hr0. apply Hm. split; [apply Hr0|]. destruct Hr0 as [_ Ho]. lia.
Qed.

(** * Part 2: continuations with further restarts *)

Lemma simT_F s1 s2 : simT s1 s2 -> simF s1 s2.
Proof. intros []. constructor; auto; intros []. Qed.

(** the firing hypothesis: only for the clock advances up to the first reboot
    ([ERestart] or [ECrash]) of the continuation *)
Fixpoint same_firing_until_reboot (s1 s2 : state) (h : list event) : Prop :=
  match h with
  | [] => True
  | EB b :: h' =>
      same_firing s1 s2 (EB b) /\
      same_firing_until_reboot (fst (step cfg s1 (EB b))) (fst (step cfg s2 (EB b))) h'
  | _ :: _ => True
  end.

(** the hypothesis of [restart_invisible] implies it *)
Lemma same_firing_run_until_reboot h : forall s1 s2,
  same_firing_run cfg cfg s1 s2 h -> same_firing_until_reboot s1 s2 h.
Proof.
  induction h as [|e h IH]; intros s1 s2 H; [exact I|].
  cbn [same_firing_run] in H. destruct H as (Hp & Hf & Hr).
  destruct e as [b|k b|]; try exact I. split; [exact Hf|apply IH; exact Hr].
Qed.

(** a clock advance: validity and the new instant do not depend on the timer *)
Lemma step_b_advance s dt fault :
  SInv s -> log s = [] ->
  exists t x, step_b cfg s (EAdvance dt fault) = (t, negb (dt <? 0), x) /\
              ((dt <? 0) = false -> now t = now s + dt).
Proof.
  intros HS L. unfold step_b. destruct (dt <? 0) eqn:Ed.
  - exists s, None. split; [reflexivity|discriminate].
  - cbv zeta. set (s1 := set_now s (now s + dt)).
    destruct (next_due s1 <=? now s1).
    + destruct (expire_run cfg Hexp fault s1 (SInv_set_now s _ HS) L) as (s' & E & D).
      unfold run_m. rewrite E. eexists. eexists. split; [reflexivity|].
      intros _. cbn [now set_next_due]. destruct D as (_ & _ & D & _). rewrite D. reflexivity.
    + exists s1, None. split; [reflexivity|]. intros _. reflexivity.
Qed.

Lemma step_b_valid_now a1 a2 b :
  simF a1 a2 -> SInv a1 -> SInv a2 -> log a1 = [] -> log a2 = [] ->
  let '(t1, v1, x1) := step_b cfg a1 b in
  let '(t2, v2, x2) := step_b cfg a2 b in
  v1 = v2 /\ (v1 = true -> now t1 = now t2).
Proof.
  intros Hs H1 H2 L1 L2.
  assert (Gen : same_firing a1 a2 (EB b) ->
                let '(t1, v1, x1) := step_b cfg a1 b in
                let '(t2, v2, x2) := step_b cfg a2 b in
                v1 = v2 /\ (v1 = true -> now t1 = now t2)).
  { intros Hf.
    pose proof (step_b_sim cfg cfg False eq_refl (fun f : False => match f with end) eq_refl
                           a1 a2 b Hs (si_db _ H1) Hf) as K.
    destruct (step_b cfg a1 b) as [[t1 v1] x1]. destruct (step_b cfg a2 b) as [[t2 v2] x2].
    destruct K as (Kt & Kv & _). split; [exact Kv|]. intros _. exact (sim_now _ _ _ _ _ Kt). }
  destruct b as [c|c m o|c|fault|dt fault]; try (apply Gen; exact I).
  destruct (step_b_advance a1 dt fault H1 L1) as (t1 & x1 & E1 & N1).
  destruct (step_b_advance a2 dt fault H2 L2) as (t2 & x2 & E2 & N2).
  rewrite E1, E2. split; [reflexivity|]. intros Hv. apply negb_true_iff in Hv.
  rewrite (N1 Hv), (N2 Hv), (sim_now _ _ _ _ _ Hs). reflexivity.
Qed.

Lemma SInv_set_log_nil s : SInv s -> SInv (set_log s []).
Proof. intros H. apply (SInv_same s); auto. Qed.

(** one event before the first reboot: plain (with the firing hypothesis),
    restart, or crash before the event (no hypothesis; equal timers afterwards) *)
Lemma step_simP s1 s2 e :
  simF s1 s2 -> SInv s1 -> SInv s2 -> early_crash e -> same_firing s1 s2 e ->
  let '(s1', o1) := step cfg s1 e in
  let '(s2', o2) := step cfg s2 e in
  simF s1' s2' /\ obs_agree cfg cfg o1 o2 /\ (reboots e -> simT s1' s2').
Proof.
  intros Hs H1 H2 He Hf.
  assert (Hdbw : DbInv (chan_w s1)) by exact (si_db _ H1).
  assert (Hdbc : DbInv (chan_c s1)).
  { destruct (si_clean _ H1) as [E _]. rewrite <- E. exact Hdbw. }
  assert (Hs0 : simF (set_log s1 []) (set_log s2 [])).
  { destruct Hs. constructor; cbn; auto. }
  destruct e as [b|k b|].
  - (* plain *)
    pose proof (step_sim cfg cfg False eq_refl (fun f : False => match f with end) eq_refl
                         s1 s2 b Hs Hdbw Hf) as K.
    assert (B1 : o_boot_log (snd (step cfg s1 (EB b))) = []).
    { unfold step. cbv zeta. destruct (step_b cfg (set_log s1 []) b) as [[? ?] ?]. reflexivity. }
    assert (B2 : o_boot_log (snd (step cfg s2 (EB b))) = []).
    { unfold step. cbv zeta. destruct (step_b cfg (set_log s2 []) b) as [[? ?] ?]. reflexivity. }
    destruct (step cfg s1 (EB b)) as [t1 o1]. destruct (step cfg s2 (EB b)) as [t2 o2].
    cbn [snd] in B1, B2.
    destruct K as (A & B & C & D & E). split; [exact A|]. split; [|intros []].
    unfold obs_agree. rewrite B1, B2. auto.
  - (* crash before the event *)
    destruct k as [|k]; [|destruct He].
    unfold step. cbv zeta.
    set (a1 := set_log s1 []) in *. set (a2 := set_log s2 []) in *.
    pose proof (step_b_valid_now a1 a2 b Hs0 (SInv_set_log_nil _ H1) (SInv_set_log_nil _ H2)
                                 eq_refl eq_refl) as K.
    destruct (step_b cfg a1 b) as [[t1 v1] x1] eqn:E1.
    destruct (step_b cfg a2 b) as [[t2 v2] x2] eqn:E2.
    destruct K as (<- & Hn). rewrite !ltb_0. cbn [orb].
    assert (Ec : chan_c a2 = chan_c a1) by (symmetry; exact (sim_c _ _ _ _ _ Hs0)).
    destruct v1; cbn [negb].
    + rewrite !log_prefix_0. cbn [replay_commits].
      rewrite Ec, <- (Hn eq_refl).
      pose proof (boot_sim cfg cfg eq_refl eq_refl (chan_c a1) (usage_c a1) (usage_c a2) (now t1) Hdbc) as B.
      destruct (boot_on cfg (chan_c a1) (usage_c a1) (now t1)) as [[r1 bl1] y1].
      destruct (boot_on cfg (chan_c a1) (usage_c a2) (now t1)) as [[r2 bl2] y2].
      destruct B as (Br & _ & Bm). split; [apply simT_F; exact Br|]. split; [|intros _; exact Br].
      unfold obs_agree. cbn [o_log o_exc o_valid o_boot_log frames_of map]. auto.
    + destruct (step_b_invalid _ _ _ _ _ E1) as [-> ->].
      destruct (step_b_invalid _ _ _ _ _ E2) as [-> ->].
      rewrite Ec, <- (sim_now _ _ _ _ _ Hs0).
      pose proof (boot_sim cfg cfg eq_refl eq_refl (chan_c a1) (usage_c a1) (usage_c a2) (now a1) Hdbc) as B.
      destruct (boot_on cfg (chan_c a1) (usage_c a1) (now a1)) as [[r1 bl1] y1].
      destruct (boot_on cfg (chan_c a1) (usage_c a2) (now a1)) as [[r2 bl2] y2].
      destruct B as (Br & _ & Bm). split; [apply simT_F; exact Br|]. split; [|intros _; exact Br].
      unfold obs_agree, a1, a2. cbn [o_log o_exc o_valid o_boot_log log set_log rev frames_of map].
      auto.
  - (* restart *)
    unfold step. cbv zeta.
    set (a1 := set_log s1 []) in *. set (a2 := set_log s2 []) in *.
    assert (Ec : chan_c a2 = chan_c a1) by (symmetry; exact (sim_c _ _ _ _ _ Hs0)).
    rewrite Ec, <- (sim_now _ _ _ _ _ Hs0).
    pose proof (boot_sim cfg cfg eq_refl eq_refl (chan_c a1) (usage_c a1) (usage_c a2) (now a1) Hdbc) as B.
    destruct (boot_on cfg (chan_c a1) (usage_c a1) (now a1)) as [[r1 bl1] y1].
    destruct (boot_on cfg (chan_c a1) (usage_c a2) (now a1)) as [[r2 bl2] y2].
    destruct B as (Br & Bx & Bm). split; [apply simT_F; exact Br|]. split; [|intros _; exact Br].
    unfold obs_agree. cbn [o_log o_exc o_valid o_boot_log frames_of map]. auto.
Qed.

(** whole continuations *)
Theorem run_simP h : forall s1 s2,
  simF s1 s2 -> SInv s1 -> SInv s2 -> Forall early_crash h ->
  same_firing_until_reboot s1 s2 h ->
  let '(s1', os1) := run cfg s1 h in
  let '(s2', os2) := run cfg s2 h in
  simF s1' s2' /\ Forall2 (obs_agree cfg cfg) os1 os2 /\ (Exists reboots h -> simT s1' s2').
Proof.
  induction h as [|e h IH]; intros s1 s2 Hs H1 H2 Hh Hf; cbn [run].
  - split; [exact Hs|]. split; [constructor|]. intros K. inversion K.
  - inversion Hh as [|? ? He Hh']; subst.
    assert (Hf1 : same_firing s1 s2 e).
    { destruct e as [b|k b|]; [exact (proj1 Hf)|exact I|exact I]. }
    pose proof (step_simP s1 s2 e Hs H1 H2 He Hf1) as K.
    pose proof (step_spec cfg Hexp s1 e H1) as S1.
    pose proof (step_spec cfg Hexp s2 e H2) as S2.
    destruct e as [b|k b|].
    + (* plain: stay in the first phase *)
      destruct Hf as [_ Hf'].
      destruct (step cfg s1 (EB b)) as [t1 o1]. destruct (step cfg s2 (EB b)) as [t2 o2].
      cbn [fst] in Hf'. destruct K as (Kt & Ko & _).
      destruct S1 as (I1 & _). destruct S2 as (I2 & _).
      specialize (IH t1 t2 Kt I1 I2 Hh' Hf').
      destruct (run cfg t1 h) as [u1 os1]. destruct (run cfg t2 h) as [u2 os2].
      destruct IH as (A & B & C). split; [exact A|]. split; [constructor; assumption|].
      intros Hx. inversion Hx as [? ? Hr|? ? Hr]; subst; [destruct Hr|exact (C Hr)].
    + (* crash: the timers agree from here on *)
      destruct (step cfg s1 (ECrash k b)) as [t1 o1]. destruct (step cfg s2 (ECrash k b)) as [t2 o2].
      destruct K as (_ & Ko & Kt). specialize (Kt I). destruct S1 as (I1 & _).
      pose proof (run_simR cfg cfg eq_refl eq_refl eq_refl Hexp h t1 t2 Kt I1 Hh') as R.
      destruct (run cfg t1 h) as [u1 os1]. destruct (run cfg t2 h) as [u2 os2].
      destruct R as [A B]. split; [apply simT_F; exact A|]. split; [constructor; assumption|].
      intros _. exact A.
    + destruct (step cfg s1 ERestart) as [t1 o1]. destruct (step cfg s2 ERestart) as [t2 o2].
      destruct K as (_ & Ko & Kt). specialize (Kt I). destruct S1 as (I1 & _).
      pose proof (run_simR cfg cfg eq_refl eq_refl eq_refl Hexp h t1 t2 Kt I1 Hh') as R.
      destruct (run cfg t1 h) as [u1 os1]. destruct (run cfg t2 h) as [u2 os2].
      destruct R as [A B]. split; [apply simT_F; exact A|]. split; [constructor; assumption|].
      intros _. exact A.
Qed.

(** the conclusion in the form of [restart_invisible], from two states with
    the same view *)
Lemma run_view_P h s1 s2 :
  SInv s1 -> SInv s2 -> log s1 = [] -> log s2 = [] -> view_of s1 = view_of s2 ->
  Forall early_crash h -> same_firing_until_reboot s1 s2 h ->
  let '(s1', os1) := run cfg s1 h in
  let '(s2', os2) := run cfg s2 h in
  view_of s1' = view_of s2' /\
  map (fun o => frames_of (o_log o)) os1 = map (fun o => frames_of (o_log o)) os2 /\
  map o_exc os1 = map o_exc os2 /\
  map o_valid os1 = map o_valid os2 /\
  (Exists reboots h -> timer_start s1' = timer_start s2' /\ next_due s1' = next_due s2').
Proof.
  intros H1 H2 L1 L2 Hv Hh Hf.
  assert (Hs : simF s1 s2) by (apply view_sim; try assumption; intros []).
  pose proof (run_simP h s1 s2 Hs H1 H2 Hh Hf) as K.
  destruct (run cfg s1 h) as [u1 os1]. destruct (run cfg s2 h) as [u2 os2].
  destruct K as (A & B & C). apply obs_agree_lists in B.
  destruct B as (_ & B2 & B3 & B4 & _).
  split; [exact (sim_view _ _ _ _ _ A)|]. split; [exact (B2 eq_refl)|].
  split; [exact B3|]. split; [exact B4|].
  intros Hx. exact (sim_tm _ _ _ _ _ (C Hx) I).
Qed.

(** C11 with further restarts (and crashes before an event) in the continuation *)
Theorem restart_invisible_r s h2 :
  SInv s -> log s = [] ->
  let sr := fst (step cfg s ERestart) in
  let sd := fst (run cfg s (drop_all s ++ [EB (ESweep false)])) in
  Forall early_crash h2 ->
  same_firing_until_reboot sr sd h2 ->
  let '(sr', osr) := run cfg sr h2 in
  let '(sd', osd) := run cfg sd h2 in
  view_of sr' = view_of sd' /\
  map (fun o => frames_of (o_log o)) osr = map (fun o => frames_of (o_log o)) osd /\
  map o_exc osr = map o_exc osd /\
  map o_valid osr = map o_valid osd /\
  (Exists reboots h2 -> timer_start sr' = timer_start sd' /\ next_due sr' = next_due sd').
Proof.
  intros HS L sr sd Hh Hf.
  destruct (restart_as_drop_and_sweep cfg s Hexp HS L) as (Hv & Hr & Hd & Lr & Ld).
  exact (run_view_P h2 sr sd Hr Hd Lr Ld Hv Hh Hf).
Qed.

(** when nothing is expirable the reference run needs no sweep at all: the
    restarted server against the server that merely lost its connections *)
Theorem restart_invisible_kept s h2 :
  SInv s -> log s = [] -> nothing_expirable cfg s ->
  let sr := fst (step cfg s ERestart) in
  let sk := fst (run cfg s (drop_all s)) in
  Forall early_crash h2 ->
  same_firing_until_reboot sr sk h2 ->
  let '(sr', osr) := run cfg sr h2 in
  let '(sk', osk) := run cfg sk h2 in
  view_of sr' = view_of sk' /\
  map (fun o => frames_of (o_log o)) osr = map (fun o => frames_of (o_log o)) osk /\
  map o_exc osr = map o_exc osk /\
  map o_valid osr = map o_valid osk /\
  (Exists reboots h2 -> timer_start sr' = timer_start sk' /\ next_due sr' = next_due sk').
Proof.
  intros HS L Hne sr sk Hh Hf.
  destruct (restart_vs_kept_exact s HS L) as ((Hk & Lk & _) & Hr & Lr & _ & Hb & _).
  fold sr in Hr, Lr, Hb. fold sk in Hk, Lk, Hb.
  exact (run_view_P h2 sr sk Hr Hk Lr Lk (proj2 Hb Hne) Hh Hf).
Qed.

(** * Part 3: closed form, from the initial state *)
Theorem restart_invisible_from_init t0 h1 h2 :
  let s := fst (run cfg (init cfg t0) h1) in
  let hr := h1 ++ [ERestart] ++ h2 in
  let hd := h1 ++ (drop_all s ++ [EB (ESweep false)]) ++ h2 in
  let n := List.length h1 in
  let k := List.length (conns s) in
  Forall early_crash h2 ->
  same_firing_until_reboot
    (fst (run cfg (init cfg t0) (h1 ++ [ERestart])))
    (fst (run cfg (init cfg t0) (h1 ++ drop_all s ++ [EB (ESweep false)]))) h2 ->
  let rr := run cfg (init cfg t0) hr in
  let rd := run cfg (init cfg t0) hd in
  (* the two runs share the history [h1] ... *)
  firstn n (snd rr) = firstn n (snd rd) /\
  (* ... reach the same view ... *)
  view_of (fst rr) = view_of (fst rd) /\
  (* ... and agree on every observation of the continuation [h2] *)
  map (fun o => frames_of (o_log o)) (skipn (n + 1) (snd rr)) =
  map (fun o => frames_of (o_log o)) (skipn (n + (k + 1)) (snd rd)) /\
  map o_exc (skipn (n + 1) (snd rr)) = map o_exc (skipn (n + (k + 1)) (snd rd)) /\
  map o_valid (skipn (n + 1) (snd rr)) = map o_valid (skipn (n + (k + 1)) (snd rd)) /\
  (Exists reboots h2 ->
   timer_start (fst rr) = timer_start (fst rd) /\ next_due (fst rr) = next_due (fst rd)).
Proof.
  intros s hr hd n k Hh Hf rr rd.
  destruct (init_run_inv t0 h1) as [HS L]. fold s in HS, L.
  set (mid := drop_all s ++ [EB (ESweep false)]) in *.
  assert (E1 : fst (run cfg (init cfg t0) (h1 ++ [ERestart])) = fst (step cfg s ERestart)).
  { rewrite run_app_fst. fold s. rewrite run_cons_fst. reflexivity. }
  assert (E2 : fst (run cfg (init cfg t0) (h1 ++ mid)) = fst (run cfg s mid)).
  { rewrite run_app_fst. reflexivity. }
  rewrite E1, E2 in Hf.
  pose proof (restart_invisible_r s h2 HS L Hh Hf) as K. cbv zeta in K. fold mid in K.
  set (sr := fst (step cfg s ERestart)) in *. set (sd := fst (run cfg s mid)) in *.
  (* decompose the two runs *)
  assert (Fr : fst rr = fst (run cfg sr h2)).
  { unfold rr, hr. rewrite app_assoc, run_app_fst, E1. reflexivity. }
  assert (Fd : fst rd = fst (run cfg sd h2)).
  { unfold rd, hd. rewrite app_assoc, run_app_fst, E2. reflexivity. }
  assert (Sr : snd rr = snd (run cfg (init cfg t0) h1) ++ snd (run cfg s [ERestart]) ++
                        snd (run cfg sr h2)).
  { unfold rr, hr. rewrite run_app_snd. fold s. rewrite run_app_snd.
    replace (fst (run cfg s [ERestart])) with sr by (unfold sr; rewrite run_cons_fst; reflexivity).
    reflexivity. }
  assert (Sd : snd rd = snd (run cfg (init cfg t0) h1) ++ snd (run cfg s mid) ++
                        snd (run cfg sd h2)).
  { unfold rd, hd. rewrite run_app_snd. fold s. rewrite run_app_snd. reflexivity. }
  assert (Ln : List.length (snd (run cfg (init cfg t0) h1)) = n) by apply run_snd_length.
  assert (Lr1 : List.length (snd (run cfg s [ERestart])) = 1%nat) by apply run_snd_length.
  assert (Lm : List.length (snd (run cfg s mid)) = (k + 1)%nat).
  { rewrite run_snd_length. unfold mid, drop_all, k. rewrite app_length, map_length. reflexivity. }
  assert (Kr : skipn (n + 1) (snd rr) = snd (run cfg sr h2)).
  { rewrite Sr, app_assoc. apply skipn_app_exact. rewrite app_length, Ln, Lr1. reflexivity. }
  assert (Kd : skipn (n + (k + 1)) (snd rd) = snd (run cfg sd h2)).
  { rewrite Sd, app_assoc. apply skipn_app_exact. rewrite app_length, Ln, Lm. reflexivity. }
  split.
  { rewrite Sr, Sd. rewrite !firstn_app_exact by (symmetry; exact Ln). reflexivity. }
  rewrite Kr, Kd, Fr, Fd.
  destruct (run cfg sr h2) as [u1 os1]. destruct (run cfg sd h2) as [u2 os2].
  exact K.
Qed.

End WithConfig.

(** * Part 4: non-vacuity (computed) *)
Definition rf_cfg : config := mkCfg true true (Some 10) 100 50 (mkWelcome None None None).
Lemma rf_exp : 0 < exp rf_cfg.
Proof. reflexivity. Qed.
Definition rf_o0 : oracle := mkOracle None (mkAO None []).
Definition rf_od : oracle := mkOracle (Some "AAAAAAAA") (mkAO None []).
Definition rf_bind (s : string) : command :=
  mkCmd (Some TBind) None (Some "a") (Some s) None None None None None None None.
Definition rf_claim (n : string) : command :=
  mkCmd (Some TClaim) None None None (Some n) None None None None None None.
Definition rf_open (m : string) : command :=
  mkCmd (Some TOpen) None None None None (Some m) None None None None None.
Definition rf_add (p b : string) : command :=
  mkCmd (Some TAdd) (Some "i") None None None None (Some p) (Some b) None None None.
Definition rf_list : command :=
  mkCmd (Some TList) None None None None None None None None None None.
(* the mailbox id the server derives from the draw "AAAAAAAA" *)
Definition rf_mb : string := "ifaucqkbifauc".

(** two clients: side s1 claims nameplate 7, opens its mailbox, adds a
    message; side s2 opens mailbox "mm" and adds a message; the timer (period
    50, from 0) fires at 70 and at 120 and stamps both subscribed mailboxes *)
Definition rf_h1 : list event :=
  [EB (EConnect 1); EB (ECmd 1 (rf_bind "s1") rf_o0); EB (ECmd 1 (rf_claim "7") rf_od);
   EB (ECmd 1 (rf_open rf_mb) rf_o0); EB (ECmd 1 (rf_add "p1" "hello") rf_o0);
   EB (EConnect 2); EB (ECmd 2 (rf_bind "s2") rf_o0); EB (ECmd 2 (rf_open "mm") rf_o0);
   EB (ECmd 2 (rf_add "q" "x") rf_o0);
   EB (EAdvance 70 false); EB (EAdvance 50 false)].

(** the continuation: s1 reconnects, claims, opens (replay), adds; the clock
    advances by 100 to 220 -- the restarted server's timer (due 170) and the
    kept server's (due 150) BOTH fire, "mm" expires, the subscribed mailbox is
    stamped --; `list`; a second advance (neither due: 270 / 250); A SECOND
    RESTART; s2 reconnects, claims, opens (both messages replayed); a crash
    before a command; a long advance whose sweep empties the store *)
Definition rf_h2 : list event :=
  [EB (EConnect 3); EB (ECmd 3 (rf_bind "s1") rf_o0); EB (ECmd 3 (rf_claim "7") rf_od);
   EB (ECmd 3 (rf_open rf_mb) rf_o0); EB (ECmd 3 (rf_add "p2" "again") rf_o0);
   EB (EAdvance 100 false);
   EB (ECmd 3 rf_list rf_o0);
   EB (EAdvance 10 false);
   ERestart;
   EB (EConnect 4); EB (ECmd 4 (rf_bind "s2") rf_o0); EB (ECmd 4 (rf_claim "7") rf_od);
   EB (ECmd 4 (rf_open rf_mb) rf_o0);
   ECrash 0 (ECmd 4 (rf_add "p3" "lost") rf_o0);
   EB (EAdvance 200 false);
   EB (EConnect 5); EB (ECmd 5 (rf_bind "s2") rf_o0); EB (ECmd 5 rf_list rf_o0)].

Definition rf_s : state := fst (run rf_cfg (init rf_cfg 0) rf_h1).
Definition rf_mid : list event := drop_all rf_s ++ [EB (ESweep false)].

Example restart_nonvacuous :
  let sr := fst (run rf_cfg (init rf_cfg 0) (rf_h1 ++ [ERestart])) in
  let sd := fst (run rf_cfg (init rf_cfg 0) (rf_h1 ++ rf_mid)) in
  let rr := run rf_cfg (init rf_cfg 0) (rf_h1 ++ [ERestart] ++ rf_h2) in
  let rd := run rf_cfg (init rf_cfg 0) (rf_h1 ++ rf_mid ++ rf_h2) in
  let frames l := map (fun o => frames_of (o_log o)) l in
  let commits l := map (fun o => count_commits (o_log o)) l in
  let tr := skipn 12 (snd rr) in
  let td := skipn 14 (snd rd) in
  (* the hypotheses of [restart_invisible_from_init] *)
  0 < exp rf_cfg /\ Forall early_crash rf_h2 /\ same_firing_until_reboot rf_cfg sr sd rf_h2 /\
  (* two connections are dropped; the two timers differ *)
  map fst (conns rf_s) = [1%nat; 2%nat] /\ now rf_s = 120 /\
  (timer_start sr, next_due sr) = (120, 170) /\ (timer_start sd, next_due sd) = (0, 150) /\
  (* the firing hypothesis is a real condition: an advance to 155 would fire
     the kept server's timer only *)
  ~ same_firing sr sd (EB (EAdvance 35 false)) /\
  (* the conclusion, computed *)
  view_of (fst rr) = view_of (fst rd) /\ frames tr = frames td /\
  map o_exc tr = map o_exc td /\
  (* (a) the reconnecting client gets its mailbox and its message back *)
  nth 2 (frames tr) [] = [(3%nat, FAck None); (3%nat, FClaimed rf_mb)] /\
  nth 3 (frames tr) [] = [(3%nat, FAck None); (3%nat, FMessage "s1" "p1" "hello" 0 (Some "i"))] /\
  (* (b) the advance to 220 fires the sweep in both runs (4 commits each) *)
  nth 5 (commits tr) 0%nat = 4%nat /\ nth 5 (commits td) 0%nat = 4%nat /\
  map mb_id (mailboxes (chan_w (fst (run rf_cfg sr (firstn 5 rf_h2))))) = [rf_mb; "mm"] /\
  map mb_id (mailboxes (chan_w (fst (run rf_cfg sr (firstn 6 rf_h2))))) = [rf_mb] /\
  map mb_id (mailboxes (chan_w (fst (run rf_cfg sd (firstn 6 rf_h2))))) = [rf_mb] /\
  (next_due (fst (run rf_cfg sr (firstn 6 rf_h2))), next_due (fst (run rf_cfg sd (firstn 6 rf_h2)))) =
    (270, 250) /\
  (* (c) after the second restart the timers coincide; the other side gets both messages *)
  (next_due (fst (run rf_cfg sr (firstn 9 rf_h2))), next_due (fst (run rf_cfg sd (firstn 9 rf_h2)))) =
    (280, 280) /\
  nth 12 (frames tr) [] =
    [(4%nat, FAck None); (4%nat, FMessage "s1" "p1" "hello" 0 (Some "i"));
     (4%nat, FMessage "s1" "p2" "again" 120 (Some "i"))] /\
  (* the last sweep (at 430, both runs) empties the store *)
  nth 14 (commits tr) 0%nat = 4%nat /\ nth 14 (commits td) 0%nat = 4%nat /\
  mailboxes (chan_c (fst rr)) = [] /\ nameplates (chan_c (fst rr)) = [] /\
  nth 17 (frames tr) [] = [(5%nat, FAck None); (5%nat, FNameplates [])] /\
  next_due (fst rr) = 480 /\ next_due (fst rd) = 480.
Proof.
  vm_compute. repeat split; try reflexivity; repeat constructor. intros K; discriminate K.
Qed.

(** in this instance nothing is expirable at the restart (both mailboxes were
    stamped at 120): the restarted and the kept server have the same view
    outright ([restart_vs_kept_exact] (b)) and the continuation cannot tell
    them apart either, no sweep inserted ([restart_invisible_kept]) *)
Example restart_kept_nonvacuous :
  let sr := fst (step rf_cfg rf_s ERestart) in
  let sk := fst (run rf_cfg rf_s (drop_all rf_s)) in
  (forall r, In r (mailboxes (chan_w rf_s)) -> now rf_s - exp rf_cfg < mb_updated r) /\
  Forall early_crash rf_h2 /\ same_firing_until_reboot rf_cfg sr sk rf_h2 /\
  view_of sr = view_of sk /\
  map (fun o => frames_of (o_log o)) (snd (run rf_cfg sr rf_h2)) =
  map (fun o => frames_of (o_log o)) (snd (run rf_cfg sk rf_h2)).
Proof.
  split.
  - assert (E : mailboxes (chan_w rf_s) =
                [mkMb "a" rf_mb 120 true; mkMb "a" "mm" 120 false]) by (vm_compute; reflexivity).
    assert (E1 : now rf_s - exp rf_cfg = 20) by (vm_compute; reflexivity).
    rewrite E, E1. intros r [<-|[<-|[]]]; reflexivity.
  - vm_compute. repeat split; try reflexivity; repeat constructor.
Qed.

(** ... whereas when a mailbox IS expirable at the restart the inserted sweep
    matters, and so does the restart: side s opens "mm" at 10 and leaves; the
    sweeps at 55 and 105 spare it (cut-offs -45 and 5); at 120 (cut-off 20, next
    sweep of the kept server due at 150) the server is restarted / merely
    loses its connections; the client comes back at once and re-opens "mm":
    the kept server replays the message, the restarted server has deleted it.
    (The kept server would have deleted it at 150 had nobody come back -- now
    the mailbox is subscribed and survives that sweep.) *)
Definition rf_k1 : list event :=
  [EB (EConnect 1); EB (EAdvance 10 false);
   EB (ECmd 1 (rf_bind "s") rf_o0); EB (ECmd 1 (rf_open "mm") rf_o0);
   EB (ECmd 1 (rf_add "q" "x") rf_o0); EB (EDisconnect 1);
   EB (EAdvance 45 false); EB (EAdvance 50 false); EB (EAdvance 15 false)].
Definition rf_k2 : list event :=
  [EB (EConnect 2); EB (ECmd 2 (rf_bind "s") rf_o0); EB (ECmd 2 (rf_open "mm") rf_o0);
   EB (EAdvance 30 false)].

Example expired_reopen_visible :
  let s := fst (run rf_cfg (init rf_cfg 0) rf_k1) in
  let sr := fst (step rf_cfg s ERestart) in
  let sk := fst (run rf_cfg s (drop_all s)) in
  let frames r := map (fun o => frames_of (o_log o)) (snd r) in
  now s = 120 /\ conns s = [] /\ next_due s = 150 /\
  mailboxes (chan_w s) = [mkMb "a" "mm" 10 false] /\
  ~ nothing_expirable rf_cfg s /\
  mailboxes (chan_w sr) = [] /\ messages (chan_w sr) = [] /\
  chan_w sk = chan_w s /\
  nth 2 (frames (run rf_cfg sk rf_k2)) [] =
    [(2%nat, FAck None); (2%nat, FMessage "s" "q" "x" 10 (Some "i"))] /\
  nth 2 (frames (run rf_cfg sr rf_k2)) [] = [(2%nat, FAck None)] /\
  (* the kept server's sweep at 150 fires and spares the re-opened mailbox *)
  nth 3 (map (fun o => count_commits (o_log o)) (snd (run rf_cfg sk rf_k2))) 0%nat = 2%nat /\
  map mb_updated (mailboxes (chan_w (fst (run rf_cfg sk rf_k2)))) = [150] /\
  List.length (messages (chan_w (fst (run rf_cfg sk rf_k2)))) = 1%nat /\
  messages (chan_w (fst (run rf_cfg sr rf_k2))) = [].
Proof.
  assert (E : mailboxes (chan_w (fst (run rf_cfg (init rf_cfg 0) rf_k1))) = [mkMb "a" "mm" 10 false])
    by (vm_compute; reflexivity).
  assert (E1 : now (fst (run rf_cfg (init rf_cfg 0) rf_k1)) - exp rf_cfg = 20)
    by (vm_compute; reflexivity).
  cbv zeta. split; [vm_compute; reflexivity|]. split; [vm_compute; reflexivity|].
  split; [vm_compute; reflexivity|]. split; [exact E|].
  split.
  { intros K. specialize (K (mkMb "a" "mm" 10 false)). rewrite E, E1 in K.
    specialize (K (or_introl eq_refl)). discriminate K. }
  vm_compute. repeat split; reflexivity.
Qed.

Print Assumptions restart_timers.
Print Assumptions restart_vs_kept_exact.
Print Assumptions kept_next_sweep.
Print Assumptions run_simP.
Print Assumptions restart_invisible_r.
Print Assumptions restart_invisible_kept.
Print Assumptions restart_invisible_from_init.
Print Assumptions restart_nonvacuous.
Print Assumptions restart_kept_nonvacuous.
Print Assumptions expired_reopen_visible.
