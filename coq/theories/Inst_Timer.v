(** Inst_Timer.v -- "expiration must exceed the period" (server_tap.py): with
    period < exp a client may be away for at least exp - period without losing its
    channel (C12), and quiescence for exp + period empties the store (C13). *)
From MW Require Import Base Store Monad Inst_Params.
From MWGen Require Import GenParams.

Definition params_ok (e p : Z) : bool := (0 <? p) && (p <? e).

Lemma gen_params_ok : params_ok gen_exp gen_period = true.
Proof. vm_compute. reflexivity. Qed.

Lemma gen_period_lt_exp : gen_period < gen_exp.
Proof.
  pose proof gen_params_ok as H. unfold params_ok in H. apply andb_true_iff in H.
  destruct H as [_ H2]. now apply Z.ltb_lt in H2.
Qed.
