(** Prop_C10.v -- C10: any crash leaves a database the server can restart
    from and clean up. *)
From MW Require Import Base Store Monad Usage Server Websocket Service Findings Inv Obs
     StepFacts SweepFacts TimeInv Corollaries QuiesceFacts NpFactsA MbFactsA MbFactsB DupFacts ResumeFacts ResumeMore Inst_Params CrashAck.
Local Open Scope list_scope.

(** histories may contain any number of [ECrash k e] events: the process dies
    right after the k-th commit of event e (any k, any command or sweep) and is
    started again on the files.  [DbInv] is: one row per (app, name), per
    nameplate id, per (nameplate, side), per mailbox id, per (mailbox, side);
    the three foreign keys hold (so PRAGMA foreign_key_check is empty); every
    nameplate has a side row; every message has its mailbox. *)

(** every database a crash can leave -- every committed snapshot of every
    command and sweep of every history -- is well-formed *)
Theorem C10_every_commit_wellformed :
  forall cfg, 0 < exp cfg -> forall t0 h o d,
  In o (snd (run cfg (init cfg t0) h)) ->
  In (LCommitChan d) (o_log o ++ o_boot_log o) -> DbInv d.
Proof. exact committed_snapshots_wf. Qed.
Print Assumptions C10_every_commit_wellformed.

(** after any history with any crashes the restarted server's state is
    well-formed, nothing is pending ... *)
Theorem C10_crash_state_wf :
  forall cfg, 0 < exp cfg -> forall s, reachable cfg s ->
    DbInv (chan_c s) /\ chan_c s = chan_w s /\ usage_c s = usage_w s.
Proof. exact crash_state_wf. Qed.
Print Assumptions C10_crash_state_wf.

(** ... it serves clients and completes its sweeps without internal errors
    (the only exceptions are the crash-independent known findings) ... *)
Theorem C10_no_internal_error_after_crash :
  forall cfg, 0 < exp cfg ->
  forall s e o ex, SInv s -> snd (step cfg s e) = o -> o_exc o = Some ex ->
  exists k c msg ora, (e = EB (ECmd c msg ora) \/ e = ECrash k (ECmd c msg ora)) /\
    (kf1_trigger s c msg \/ id_collision s ora \/ kf3_cmd s c msg ora = true \/ ex = XOracle).
Proof. exact internal_error_causes. Qed.
Print Assumptions C10_no_internal_error_after_crash.

Theorem C10_start_up_sweep_completes :
  forall cfg, 0 < exp cfg -> forall c u t, DbInv c ->
  let '(s1, bl, x) := boot_on cfg c u t in
  SInv s1 /\ log s1 = [] /\ conns s1 = [] /\ subs s1 = [] /\ Forall entry_ok bl /\ x = None.
Proof. exact boot_on_spec. Qed.
Print Assumptions C10_start_up_sweep_completes.

(** ... and empties the store once nobody returns (crashes are events of the
    history that leads to [s]) *)
Theorem C10_crash_then_quiescence_empties :
  forall cfg, 0 < exp cfg -> 0 < period cfg -> forall s l1 l2,
  reachable cfg s -> conns s = [] ->
  Forall (fun p => 0 <= fst p) l1 ->
  Forall (fun p => 0 <= fst p /\ snd p = false) l2 ->
  exp cfg <= zsum (map fst l1) -> period cfg <= zsum (map fst l2) ->
  let s' := fst (run cfg s (advances (l1 ++ l2))) in
  chan_empty (chan_w s') /\ chan_c s' = chan_w s' /\ conns s' = [].
Proof. exact reachable_store_returns_to_empty. Qed.
Print Assumptions C10_crash_then_quiescence_empties.

(** * clients that reconnect and re-send their unacknowledged command (quoted by
    type from ResumeFacts.v).  [ECrash k (ECmd c msg o)]: the server dies right
    after the k-th commit of the command, for EVERY k (0 = before any, beyond the
    last = after completing it) and restarts on the files; the client reconnects
    as the same side and re-sends ([dup_events]).  [nothing_expirable]: the
    start-up sweep of the restarted server has nothing old enough to delete
    (otherwise the restart -- not the crash -- changes the state: that is expiry). *)

(** claim: same `claimed` id, same channel database as the uncrashed run *)
Theorem C10_claim_resume : ltac:(let t := type of claim_resume in exact t).
Proof. exact claim_resume. Qed.
Check C10_claim_resume.
Print Assumptions C10_claim_resume.

(** release: `released`, same channel database *)
Theorem C10_release_resume : ltac:(let t := type of release_resume in exact t).
Proof. exact release_resume. Qed.
Check C10_release_resume.
Print Assumptions C10_release_resume.

(** open: the same stored messages are replayed, same channel database *)
Theorem C10_open_resume : ltac:(let t := type of open_resume in exact t).
Proof. exact open_resume. Qed.
Check C10_open_resume.
Print Assumptions C10_open_resume.

(** close: `closed`; same channel database when the close was the last one; when
    the mailbox survives, the only difference is its `updated` stamp (KF4: the re-sent
    close goes through open_mailbox) *)
Theorem C10_close_resume : ltac:(let t := type of close_resume in exact t).
Proof. exact close_resume. Qed.
Check C10_close_resume.
Print Assumptions C10_close_resume.

(** a crash between claim's two commits really leaves a mailbox without side
    row (the state defect D12 was about), and it is well-formed by [DbInv] *)
Example C10_nonvacuous :
  let cfg := gen_cfg true true None in
  let bind := mkCmd (Some TBind) None (Some "a") (Some "s") None None None None None None None in
  let claim := mkCmd (Some TClaim) None None None (Some "7") None None None None None None in
  let o := mkOracle (Some "AAAAAAAA") (mkAO None []) in
  let s := fst (run cfg (init cfg 0)
                    [EB (EConnect 1); EB (ECmd 1 bind (mkOracle None (mkAO None [])));
                     ECrash 1 (ECmd 1 claim o)]) in
  List.length (mailboxes (chan_c s)) = 1%nat /\ mb_sides (chan_c s) = [] /\
  List.length (nameplates (chan_c s)) = 1%nat.
Proof. vm_compute. repeat split; reflexivity. Qed.

(** * dying again inside the start-up sweep, downtime before the restart, and the usage database of a
    resumed command (quoted by type from ResumeMore.v).  [SubDb d d']: every mailbox row of [d'] is a row
    of [d], and nameplates, side rows and messages survive exactly with their mailbox / nameplate. *)

(** the process dies after the k-th commit of its START-UP sweep (any k): the files left are well-formed
    and a sub-database of what the sweep started from *)
Theorem C10_boot_crash_chain : ltac:(let t := type of boot_crash_chain in exact t).
Proof. exact boot_crash_chain. Qed.
Check C10_boot_crash_chain.
Print Assumptions C10_boot_crash_chain.

(** any number of deaths inside start-up sweeps, at any instants, then a start that completes: no internal
    error, nothing pending, a well-formed sub-database *)
Theorem C10_boot_chain_restarts : ltac:(let t := type of boot_chain_restarts in exact t).
Proof. exact boot_chain_restarts. Qed.
Check C10_boot_chain_restarts.
Print Assumptions C10_boot_chain_restarts.

(** a restart at ANY later instant t' (downtime): start-up completes, the timer is armed, time stamps are sane *)
Theorem C10_boot_after_downtime : ltac:(let t := type of boot_after_downtime in exact t).
Proof. exact boot_after_downtime. Qed.
Check C10_boot_after_downtime.
Print Assumptions C10_boot_after_downtime.

(** the three composed: a crash of any event at any commit, any chain of deaths inside start-up sweeps, a start
    after any downtime -- the server serves (exceptions only at the known-finding triggers) and empties the
    store once nobody returns *)
Theorem C10_crash_then_downtime : ltac:(let t := type of crash_then_downtime in exact t).
Proof. exact crash_then_downtime. Qed.
Check C10_crash_then_downtime.
Print Assumptions C10_crash_then_downtime.

(** the usage database after crash + re-sent claim: the uncrashed one plus the restart's status row and the
    reconnecting client's version row *)
Theorem C10_claim_resume_usage : ltac:(let t := type of claim_resume_usage in exact t).
Proof. exact claim_resume_usage. Qed.
Check C10_claim_resume_usage.
Print Assumptions C10_claim_resume_usage.

(** the same for open *)
Theorem C10_open_resume_usage : ltac:(let t := type of open_resume_usage in exact t).
Proof. exact open_resume_usage. Qed.
Check C10_open_resume_usage.
Print Assumptions C10_open_resume_usage.

(** release, exactly: the same, plus ONE MORE copy of the nameplate's usage record iff the crash fell between
    the usage commit and the deleting channel commit (k = 2) -- known finding KF5 *)
Theorem C10_release_resume_usage : ltac:(let t := type of release_resume_usage in exact t).
Proof. exact release_resume_usage. Qed.
Check C10_release_resume_usage.
Print Assumptions C10_release_resume_usage.

(** close, exactly: k = 2 doubles the records of the retiring close; k >= 3 adds one transient-mailbox record
    (the re-sent close re-creates and retires the mailbox: KF4's door) -- KF5 *)
Theorem C10_close_resume_usage : ltac:(let t := type of close_resume_usage in exact t).
Proof. exact close_resume_usage. Qed.
Check C10_close_resume_usage.
Print Assumptions C10_close_resume_usage.

(** ... and no difference at all for every other crash point *)
Theorem C10_release_resume_usage_once : ltac:(let t := type of release_resume_usage_once in exact t).
Proof. exact release_resume_usage_once. Qed.
Check C10_release_resume_usage_once.
Print Assumptions C10_release_resume_usage_once.

(** ... (close: k <= 1, or the mailbox survives) *)
Theorem C10_close_resume_usage_once : ltac:(let t := type of close_resume_usage_once in exact t).
Proof. exact close_resume_usage_once. Qed.
Check C10_close_resume_usage_once.
Print Assumptions C10_close_resume_usage_once.

(** without a usage database nothing is recorded either way *)
Theorem C10_release_resume_usage_off : ltac:(let t := type of release_resume_usage_off in exact t).
Proof. exact release_resume_usage_off. Qed.
Check C10_release_resume_usage_off.
Print Assumptions C10_release_resume_usage_off.

(** (close) *)
Theorem C10_close_resume_usage_off : ltac:(let t := type of close_resume_usage_off in exact t).
Proof. exact close_resume_usage_off. Qed.
Check C10_close_resume_usage_off.
Print Assumptions C10_close_resume_usage_off.

(** KF5 is real in the model: the concrete state, crash point and doubled record (vm_compute) *)
Theorem C10_release_usage_once_refuted : ltac:(let t := type of release_usage_once_refuted in exact t).
Proof. exact release_usage_once_refuted. Qed.
Check C10_release_usage_once_refuted.
Print Assumptions C10_release_usage_once_refuted.

(** (close) *)
Theorem C10_close_usage_once_refuted : ltac:(let t := type of close_usage_once_refuted in exact t).
Proof. exact close_usage_once_refuted. Qed.
Check C10_close_usage_once_refuted.
Print Assumptions C10_close_usage_once_refuted.

(** non-vacuity: crash files, 200 ticks of downtime, two deaths inside the 4-commit start-up sweep, a third
    start that completes *)
Theorem C10_boot_chain_nonvacuous : ltac:(let t := type of boot_chain_nonvacuous in exact t).
Proof. exact boot_chain_nonvacuous. Qed.
Check C10_boot_chain_nonvacuous.
Print Assumptions C10_boot_chain_nonvacuous.

(** non-vacuity of the resume theorems' hypotheses *)
Theorem C10_release_resume_nonvacuous : ltac:(let t := type of release_resume_nonvacuous in exact t).
Proof. exact release_resume_nonvacuous. Qed.
Check C10_release_resume_nonvacuous.
Print Assumptions C10_release_resume_nonvacuous.

(** (close) *)
Theorem C10_close_resume_nonvacuous : ltac:(let t := type of close_resume_nonvacuous in exact t).
Proof. exact close_resume_nonvacuous. Qed.
Check C10_close_resume_nonvacuous.
Print Assumptions C10_close_resume_nonvacuous.

(** * sweeps really complete; more resumed commands (quoted by type from CrashAck.v) *)

(** `prune_all_apps` itself never raises on a well-formed database (expire() would swallow it: this is the load-bearing fact) *)
Theorem C10_prune_never_fails : ltac:(let t := type of prune_never_fails in exact t).
Proof. exact prune_never_fails. Qed.
Check C10_prune_never_fails.
Print Assumptions C10_prune_never_fails.

(** the timer callback never raises *)
Theorem C10_expire_total : ltac:(let t := type of expire_total in exact t).
Proof. exact expire_total. Qed.
Check C10_expire_total.
Print Assumptions C10_expire_total.

(** the start-up sweep after a crash at any commit of any event: prune and dump_stats both complete *)
Theorem C10_crash_boot_prune_completes : ltac:(let t := type of crash_boot_prune_completes in exact t).
Proof. exact crash_boot_prune_completes. Qed.
Check C10_crash_boot_prune_completes.
Print Assumptions C10_crash_boot_prune_completes.

(** (clean restart) *)
Theorem C10_restart_prune_completes : ltac:(let t := type of restart_prune_completes in exact t).
Proof. exact restart_prune_completes. Qed.
Check C10_restart_prune_completes.
Print Assumptions C10_restart_prune_completes.

(** a close sent on a connection that had NOT opened the mailbox, crashed at any commit and re-sent: `closed`, the uncrashed channel database *)
Theorem C10_close_fresh_resume : ltac:(let t := type of close_fresh_resume in exact t).
Proof. exact close_fresh_resume. Qed.
Check C10_close_fresh_resume.
Print Assumptions C10_close_fresh_resume.

(** a claim whose answer is `crowded` (it commits the refused side's rows first), crashed and re-sent: `crowded` again, the same database *)
Theorem C10_claim_resume_error : ltac:(let t := type of claim_resume_error in exact t).
Proof. exact claim_resume_error. Qed.
Check C10_claim_resume_error.
Print Assumptions C10_claim_resume_error.

(** non-vacuity (5 commits, every k) *)
Theorem C10_close_fresh_resume_nonvacuous : ltac:(let t := type of close_fresh_resume_nonvacuous in exact t).
Proof. exact close_fresh_resume_nonvacuous. Qed.
Check C10_close_fresh_resume_nonvacuous.
Print Assumptions C10_close_fresh_resume_nonvacuous.

