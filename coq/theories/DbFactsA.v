(** DbFactsA.v -- every transaction body that inserts or updates preserves
    [DbInv]; when and how it can fail. *)
From MW Require Import Base Store Monad Usage Server Inv StoreFacts.
From Coq Require Import List Bool ZArith Lia.

Definition mb_mono (d d' : chan_db) : Prop := forall a m, has_mb d a m -> has_mb d' a m.

(** * List helpers *)

Lemma NoDup_snoc {A} (l : list A) x : NoDup l -> ~ In x l -> NoDup (l ++ [x]).
Proof.
  induction l as [|y l IH]; intros Hnd Hni; cbn.
  - constructor; [intros []|constructor].
  - inversion Hnd as [|? ? Hy Hl]; subst. constructor.
    + rewrite in_app_iff. cbn. intros [H|[H|[]]]; [tauto|]. apply Hni. left. auto.
    + apply IH; auto. intros H; apply Hni; right; auto.
Qed.

Lemma NoDup_map_snoc {A B} (f : A -> B) l x :
  NoDup (map f l) -> ~ In (f x) (map f l) -> NoDup (map f (l ++ [x])).
Proof. intros Hnd Hni. rewrite map_app. cbn. apply NoDup_snoc; auto. Qed.

Lemma find_snoc {A} (f : A -> bool) l x :
  find f l = None -> f x = true -> find f (l ++ [x]) = Some x.
Proof.
  induction l as [|y l IH]; cbn; intros H Hx.
  - rewrite Hx. reflexivity.
  - destruct (f y); [discriminate|auto].
Qed.

(** * [has_mb] and [mb_mono] *)

Lemma has_mb_sel d a m : has_mb d a m <-> exists r, sel_mb d a m = Some r.
Proof.
  split.
  - intros [r [Hr [Ha Hm]]]. destruct (sel_mb d a m) as [r'|] eqn:E; [eauto|].
    exfalso. rewrite sel_mb_none in E. apply (E r Hr). auto.
  - intros [r Hr]. apply sel_mb_some in Hr. exists r. exact Hr.
Qed.

Lemma mb_mono_refl d : mb_mono d d.
Proof. intros a m H. exact H. Qed.
Lemma mb_mono_trans d1 d2 d3 : mb_mono d1 d2 -> mb_mono d2 d3 -> mb_mono d1 d3.
Proof. intros H1 H2 a m H. apply H2. apply H1. exact H. Qed.

Lemma has_mb_same d d' a m : mailboxes d' = mailboxes d -> has_mb d' a m <-> has_mb d a m.
Proof. unfold has_mb. intros ->. tauto. Qed.

Lemma mb_mono_same d d' : mailboxes d' = mailboxes d -> mb_mono d d'.
Proof. intros H a m Hm. apply (has_mb_same d d'); auto. Qed.

Lemma mb_mono_incl d d' :
  (forall r, In r (mailboxes d) -> In r (mailboxes d')) -> mb_mono d d'.
Proof. intros H a m [r [Hr Hk]]. exists r. auto. Qed.

Lemma has_mb_exists d a m : has_mb d a m -> mb_exists d m = true.
Proof. intros [r [Hr [_ Hm]]]. apply mb_exists_iff. eauto. Qed.

Lemma has_mb_upd_touch d m w a x : has_mb (upd_touch d m w) a x <-> has_mb d a x.
Proof.
  unfold has_mb. split.
  - intros [r [Hr [Ha Hi]]]. apply In_upd_touch_mb in Hr. destruct Hr as [r0 [Hr0 ->]].
    exists r0. destruct (seqb (mb_id r0) m); cbn in *; auto.
  - intros [r0 [Hr0 [Ha Hi]]].
    exists (if seqb (mb_id r0) m then mkMb (mb_app r0) (mb_id r0) w (mb_fornp r0) else r0).
    split.
    + apply In_upd_touch_mb. exists r0; auto.
    + destruct (seqb (mb_id r0) m); cbn; auto.
Qed.

Lemma mb_mono_upd_touch d m w : mb_mono d (upd_touch d m w).
Proof. intros a x H. apply has_mb_upd_touch. exact H. Qed.

(** * Preservation of [DbInv] by the individual statements *)

Lemma DbInv_upd_touch d m w : DbInv d -> DbInv (upd_touch d m w).
Proof.
  intros [I1 I2 I3 I4 I5 I6 I7 I8 I9 I10 I11]. constructor.
  - exact I1.
  - exact I2.
  - exact I3.
  - exact I4.
  - rewrite upd_touch_ids. exact I5.
  - exact I6.
  - exact I7.
  - intros n Hn. apply has_mb_upd_touch. apply I8. exact Hn.
  - intros r Hr. destruct (I9 r Hr) as [x [Hx Hid]].
    assert (H : has_mb d (mb_app x) (mbs_mbox r)) by (exists x; auto).
    apply (has_mb_upd_touch d m w) in H. destruct H as [y [Hy [_ Hy2]]]. exists y; auto.
  - exact I10.
  - intros r Hr. apply has_mb_upd_touch. apply I11. exact Hr.
Qed.

Lemma DbInv_ins_mb d r :
  DbInv d -> mb_exists d (mb_id r) = false ->
  DbInv (set_mailboxes d (mailboxes d ++ [r])).
Proof.
  intros [I1 I2 I3 I4 I5 I6 I7 I8 I9 I10 I11] Hex.
  assert (Hmono : mb_mono d (set_mailboxes d (mailboxes d ++ [r]))).
  { apply mb_mono_incl. intros x Hx. cbn. apply in_or_app. auto. }
  constructor.
  - exact I1.
  - exact I2.
  - exact I3.
  - exact I4.
  - cbn. apply NoDup_map_snoc; [exact I5|]. intros Hin. apply in_map_iff in Hin.
    destruct Hin as [x [Hx1 Hx2]]. rewrite mb_exists_false in Hex. exact (Hex x Hx2 Hx1).
  - exact I6.
  - exact I7.
  - intros n Hn. apply Hmono. apply I8. exact Hn.
  - intros x Hx. destruct (I9 x Hx) as [y [Hy1 Hy2]]. exists y. split; [|exact Hy2].
    cbn. apply in_or_app. auto.
  - exact I10.
  - intros x Hx. apply Hmono. apply I11. exact Hx.
Qed.

Lemma DbInv_ins_mbs d r :
  DbInv d -> mb_exists d (mbs_mbox r) = true ->
  sel_mbs d (mbs_mbox r) (mbs_side r) = None ->
  DbInv (set_mb_sides d (mb_sides d ++ [r])).
Proof.
  intros [I1 I2 I3 I4 I5 I6 I7 I8 I9 I10 I11] Hex Hsel. constructor.
  - exact I1.
  - exact I2.
  - exact I3.
  - exact I4.
  - exact I5.
  - cbn. apply NoDup_map_snoc; [exact I6|]. intros Hin. apply in_map_iff in Hin.
    destruct Hin as [x [Hx1 Hx2]]. unfold mbs_key in Hx1. inversion Hx1 as [[K1 K2]].
    rewrite sel_mbs_none in Hsel. apply (Hsel x Hx2). auto.
  - exact I7.
  - exact I8.
  - intros x Hx. cbn in Hx. apply in_app_or in Hx. destruct Hx as [Hx|[<-|[]]].
    + exact (I9 x Hx).
    + apply mb_exists_iff in Hex. exact Hex.
  - exact I10.
  - exact I11.
Qed.

Lemma DbInv_ins_nps d r :
  DbInv d -> np_exists d (nps_npid r) = true ->
  sel_nps d (nps_npid r) (nps_side r) = None ->
  DbInv (set_np_sides d (np_sides d ++ [r])).
Proof.
  intros [I1 I2 I3 I4 I5 I6 I7 I8 I9 I10 I11] Hex Hsel. constructor.
  - exact I1.
  - exact I2.
  - exact I3.
  - cbn. apply NoDup_map_snoc; [exact I4|]. intros Hin. apply in_map_iff in Hin.
    destruct Hin as [x [Hx1 Hx2]]. unfold nps_key in Hx1. inversion Hx1 as [[K1 K2]].
    rewrite sel_nps_none in Hsel. apply (Hsel x Hx2). auto.
  - exact I5.
  - exact I6.
  - intros x Hx. cbn in Hx. apply in_app_or in Hx. destruct Hx as [Hx|[<-|[]]].
    + exact (I7 x Hx).
    + apply np_exists_iff in Hex. exact Hex.
  - exact I8.
  - exact I9.
  - intros n Hn. destruct (I10 n Hn) as [x [Hx1 Hx2]]. exists x. split; [|exact Hx2].
    cbn. apply in_or_app. auto.
  - exact I11.
Qed.

Lemma DbInv_map_mbs d g :
  (forall r, mbs_key (g r) = mbs_key r) ->
  DbInv d -> DbInv (set_mb_sides d (map g (mb_sides d))).
Proof.
  intros Hg [I1 I2 I3 I4 I5 I6 I7 I8 I9 I10 I11]. constructor.
  - exact I1.
  - exact I2.
  - exact I3.
  - exact I4.
  - exact I5.
  - cbn. rewrite map_map. rewrite (map_ext _ mbs_key Hg). exact I6.
  - exact I7.
  - exact I8.
  - intros x Hx. cbn in Hx. apply in_map_iff in Hx. destruct Hx as [x0 [<- Hx0]].
    destruct (I9 x0 Hx0) as [y [Hy1 Hy2]]. exists y. split; [exact Hy1|].
    pose proof (Hg x0) as K. unfold mbs_key in K. inversion K as [[K1 K2]]. congruence.
  - exact I10.
  - exact I11.
Qed.

Lemma DbInv_map_nps d g :
  (forall r, nps_key (g r) = nps_key r) ->
  DbInv d -> DbInv (set_np_sides d (map g (np_sides d))).
Proof.
  intros Hg [I1 I2 I3 I4 I5 I6 I7 I8 I9 I10 I11].
  assert (Hid : forall r, nps_npid (g r) = nps_npid r).
  { intros r. pose proof (Hg r) as K. unfold nps_key in K. inversion K as [[K1 K2]]. reflexivity. }
  constructor.
  - exact I1.
  - exact I2.
  - exact I3.
  - cbn. rewrite map_map. rewrite (map_ext _ nps_key Hg). exact I4.
  - exact I5.
  - exact I6.
  - intros x Hx. cbn in Hx. apply in_map_iff in Hx. destruct Hx as [x0 [<- Hx0]].
    rewrite Hid. exact (I7 x0 Hx0).
  - exact I8.
  - exact I9.
  - intros n Hn. destruct (I10 n Hn) as [x [Hx1 Hx2]]. exists (g x). split.
    + cbn. apply in_map. exact Hx1.
    + rewrite Hid. exact Hx2.
  - exact I11.
Qed.

Lemma DbInv_ins_msg d r :
  DbInv d -> has_mb d (msg_app r) (msg_mbox r) -> DbInv (ins_msg d r).
Proof.
  intros [I1 I2 I3 I4 I5 I6 I7 I8 I9 I10 I11] Hmb. constructor.
  - exact I1.
  - exact I2.
  - exact I3.
  - exact I4.
  - exact I5.
  - exact I6.
  - exact I7.
  - exact I8.
  - exact I9.
  - exact I10.
  - intros x Hx. unfold ins_msg in Hx. cbn in Hx. apply in_app_or in Hx.
    destruct Hx as [Hx|[<-|[]]].
    + exact (I11 x Hx).
    + exact Hmb.
Qed.

(** a fresh nameplate together with its first side row *)
Lemma DbInv_fresh_np d a name m side when :
  DbInv d -> has_mb d a m -> sel_np d a name = None ->
  DbInv (mkChan (nameplates d ++ [mkNp (np_seq d + 1) a name m])
                (np_sides d ++ [mkNps (np_seq d + 1) true side when])
                (mailboxes d) (mb_sides d) (messages d) (np_seq d + 1)).
Proof.
  intros [I1 I2 I3 I4 I5 I6 I7 I8 I9 I10 I11] Hmb Hsel. constructor; cbn.
  - apply NoDup_map_snoc; [exact I1|]. intros Hin. apply in_map_iff in Hin.
    destruct Hin as [x [Hx1 Hx2]]. unfold np_key in Hx1. cbn in Hx1. inversion Hx1 as [[K1 K2]].
    rewrite sel_np_none in Hsel. apply (Hsel x Hx2). auto.
  - apply NoDup_map_snoc; [exact I2|]. intros Hin. apply in_map_iff in Hin.
    destruct Hin as [x [Hx1 Hx2]]. cbn in Hx1. pose proof (I3 x Hx2). lia.
  - intros x Hx. apply in_app_or in Hx. destruct Hx as [Hx|[<-|[]]].
    + pose proof (I3 x Hx). lia.
    + cbn. lia.
  - apply NoDup_map_snoc; [exact I4|]. intros Hin. apply in_map_iff in Hin.
    destruct Hin as [x [Hx1 Hx2]]. unfold nps_key in Hx1. cbn in Hx1. inversion Hx1 as [[K1 K2]].
    destruct (I7 x Hx2) as [n [Hn1 Hn2]]. pose proof (I3 n Hn1). lia.
  - exact I5.
  - exact I6.
  - intros x Hx. apply in_app_or in Hx. destruct Hx as [Hx|[<-|[]]].
    + destruct (I7 x Hx) as [n [Hn1 Hn2]]. exists n. split; [|exact Hn2].
      apply in_or_app. auto.
    + exists (mkNp (np_seq d + 1) a name m). split; [|reflexivity].
      apply in_or_app. right. left. reflexivity.
  - intros n Hn. apply in_app_or in Hn. destruct Hn as [Hn|[<-|[]]].
    + exact (I8 n Hn).
    + exact Hmb.
  - exact I9.
  - intros n Hn. apply in_app_or in Hn. destruct Hn as [Hn|[<-|[]]].
    + destruct (I10 n Hn) as [x [Hx1 Hx2]]. exists x. split; [|exact Hx2].
      apply in_or_app. auto.
    + exists (mkNps (np_seq d + 1) true side when). split; [|reflexivity].
      apply in_or_app. right. left. reflexivity.
  - exact I11.
Qed.

(** * The transaction bodies *)

(** AppNamespace._add_mailbox: fails only on the global PRIMARY KEY, i.e. when
    the id exists under another app *)
Lemma add_mailbox_ok d a m fornp when :
  DbInv d ->
  match add_mailbox d a m fornp when with
  | Some d' => DbInv d' /\ has_mb d' a m /\ mb_mono d d'
  | None => mb_exists d m = true /\ ~ has_mb d a m
  end.
Proof.
  intros Hinv. unfold add_mailbox. destruct (sel_mb d a m) as [r|] eqn:E.
  - split; [exact Hinv|]. split; [|apply mb_mono_refl]. apply has_mb_sel. eauto.
  - unfold ins_mb. cbn [mb_id]. destruct (mb_exists d m) eqn:Ex.
    + split; [reflexivity|]. intros H. apply has_mb_sel in H. destruct H as [r Hr]. congruence.
    + split; [apply DbInv_ins_mb; [exact Hinv|exact Ex]|]. split.
      * exists (mkMb a m when fornp). split; [|auto]. cbn. apply in_or_app. right. left. reflexivity.
      * apply mb_mono_incl. intros x Hx. cbn. apply in_or_app. auto.
Qed.

Lemma add_mailbox_frame d a m fornp when d' :
  add_mailbox d a m fornp when = Some d' -> nameplates d' = nameplates d.
Proof.
  unfold add_mailbox. destruct (sel_mb d a m) as [r|].
  - intros H; inversion H. reflexivity.
  - unfold ins_mb. destruct (mb_exists d _); [discriminate|]. intros H; inversion H. reflexivity.
Qed.

Lemma mailbox_open_body_ok d a m side when :
  DbInv d -> has_mb d a m ->
  exists d2, mailbox_open_body d m side when = Some d2 /\ DbInv d2 /\ mb_mono d d2.
Proof.
  intros Hinv Hmb. unfold mailbox_open_body. destruct (sel_mbs d m side) as [r|] eqn:E.
  - exists (upd_touch d m when). split; [reflexivity|]. split.
    + apply DbInv_upd_touch. exact Hinv.
    + apply mb_mono_upd_touch.
  - unfold ins_mbs. cbn [mbs_mbox]. rewrite (has_mb_exists d a m Hmb).
    eexists. split; [reflexivity|]. split.
    + apply DbInv_upd_touch.
      apply (DbInv_ins_mbs d (mkMbs m true side when None)); [exact Hinv| |exact E].
      exact (has_mb_exists d a m Hmb).
    + eapply mb_mono_trans; [|apply mb_mono_upd_touch]. apply mb_mono_same. reflexivity.
Qed.

Lemma open_body_ok d a m side when :
  DbInv d ->
  match open_body d a m side when with
  | TxOk _ d' => DbInv d' /\ has_mb d' a m /\ mb_mono d d'
  | TxFail e d' => e = XIntegrity /\ d' = d /\ mb_exists d m = true /\ ~ has_mb d a m
  end.
Proof.
  intros Hinv. unfold open_body.
  pose proof (add_mailbox_ok d a m false when Hinv) as Hadd.
  destruct (add_mailbox d a m false when) as [d1|].
  - destruct Hadd as [Hinv1 [Hmb1 Hmono1]].
    destruct (mailbox_open_body_ok d1 a m side when Hinv1 Hmb1) as [d2 [E [Hinv2 Hmono2]]].
    rewrite E. split; [exact Hinv2|]. split; [apply Hmono2; exact Hmb1|].
    eapply mb_mono_trans; eauto.
  - destruct Hadd as [H1 H2]. auto.
Qed.

Lemma claim_side_existing d npid mbox side when :
  DbInv d -> np_exists d npid = true ->
  match claim_side_body d npid mbox side when with
  | TxOk p d' => p = (npid, mbox) /\ DbInv d' /\ mb_mono d d' /\
                 nameplates d' = nameplates d
  | TxFail e d' => d' = d /\ e = XReclaimed
  end.
Proof.
  intros Hinv Hex. unfold claim_side_body. destruct (sel_nps d npid side) as [r|] eqn:E.
  - destruct (nps_claimed r); [|auto].
    split; [reflexivity|]. split; [exact Hinv|]. split; [apply mb_mono_refl|reflexivity].
  - unfold ins_nps. cbn [nps_npid]. rewrite Hex.
    split; [reflexivity|]. split.
    + apply (DbInv_ins_nps d (mkNps npid true side when)); [exact Hinv|exact Hex|exact E].
    + split; [apply mb_mono_same; reflexivity|reflexivity].
Qed.

Lemma claim_fresh_eval d a name m side when :
  DbInv d -> has_mb d a m ->
  match ins_np d a name m with
  | None => TxFail XIntegrity d
  | Some (d2, npid) => claim_side_body d2 npid m side when
  end =
  TxOk (np_seq d + 1, m)
       (mkChan (nameplates d ++ [mkNp (np_seq d + 1) a name m])
               (np_sides d ++ [mkNps (np_seq d + 1) true side when])
               (mailboxes d) (mb_sides d) (messages d) (np_seq d + 1)).
Proof.
  intros Hinv Hmb. unfold ins_np. rewrite (has_mb_exists d a m Hmb). cbv zeta.
  unfold claim_side_body.
  match goal with |- context [sel_nps ?d2 ?i ?s] =>
    assert (Hs : sel_nps d2 i s = None) end.
  { apply sel_nps_none. cbn [np_sides]. intros r Hr [K _].
    destruct (inv_fk_nps d Hinv r Hr) as [n [Hn1 Hn2]].
    pose proof (inv_np_seq d Hinv n Hn1). lia. }
  rewrite Hs. unfold ins_nps. cbn [nps_npid].
  match goal with |- context [np_exists ?d2 ?i] =>
    assert (Hn : np_exists d2 i = true) end.
  { apply np_exists_iff. exists (mkNp (np_seq d + 1) a name m). split; [|reflexivity].
    cbn [nameplates]. apply in_or_app. right. left. reflexivity. }
  rewrite Hn. reflexivity.
Qed.

Lemma claim_body_ok d a name side when draw :
  DbInv d ->
  match claim_body d a name side when draw with
  | TxOk (npid, mbox) d' =>
      DbInv d' /\ mb_mono d d' /\ has_mb d' a mbox /\
      exists np, sel_np d' a name = Some np /\ np_id np = npid /\ np_mbox np = mbox
  | TxFail e d' =>
      d' = d /\
      (e = XReclaimed \/
       (e = XOracle /\ draw = None /\ sel_np d a name = None) \/
       (e = XIntegrity /\ sel_np d a name = None /\
        exists bytes, draw = Some bytes /\ mb_exists d (genid bytes) = true /\
                      ~ has_mb d a (genid bytes)))
  end.
Proof.
  intros Hinv. unfold claim_body. destruct (sel_np d a name) as [row|] eqn:Enp.
  - pose proof (sel_np_some d a name row Enp) as [Hin [Ha Hn]].
    assert (Hex : np_exists d (np_id row) = true) by (apply np_exists_iff; eauto).
    pose proof (claim_side_existing d (np_id row) (np_mbox row) side when Hinv Hex) as H.
    destruct (claim_side_body d (np_id row) (np_mbox row) side when) as [[i mb] d'|e d'].
    + destruct H as [Hp [Hinv' [Hmono Hnps]]]. inversion Hp; subst i mb.
      split; [exact Hinv'|]. split; [exact Hmono|]. split.
      * apply Hmono. rewrite <- Ha. apply (inv_fk_np d Hinv). exact Hin.
      * exists row. split; [|auto]. unfold sel_np. rewrite Hnps. exact Enp.
    + destruct H as [-> ->]. auto.
  - destruct draw as [bytes|]; [|split; [reflexivity|]; right; left; auto].
    cbv zeta.
    pose proof (add_mailbox_ok d a (genid bytes) true when Hinv) as Hadd.
    destruct (add_mailbox d a (genid bytes) true when) as [d1|] eqn:Eadd.
    + destruct Hadd as [Hinv1 [Hmb1 Hmono1]].
      assert (Hsel1 : sel_np d1 a name = None).
      { unfold sel_np. rewrite (add_mailbox_frame _ _ _ _ _ _ Eadd). exact Enp. }
      rewrite (claim_fresh_eval d1 a name (genid bytes) side when Hinv1 Hmb1).
      split; [apply DbInv_fresh_np; assumption|]. split.
      * eapply mb_mono_trans; [exact Hmono1|]. apply mb_mono_same. reflexivity.
      * split.
        -- apply (has_mb_same d1); [reflexivity|exact Hmb1].
        -- exists (mkNp (np_seq d1 + 1) a name (genid bytes)). split; [|auto].
           unfold sel_np. cbn [nameplates]. apply find_snoc; [exact Hsel1|].
           cbn. rewrite !seqb_refl. reflexivity.
    + destruct Hadd as [H1 H2]. split; [reflexivity|]. right; right.
      split; [reflexivity|]. split; [reflexivity|]. exists bytes. auto.
Qed.

Lemma close_mark_body_ok d a m side mood f d' :
  DbInv d -> close_mark_body d a m side mood = Some (f, d') ->
  DbInv d' /\ mb_mono d d' /\ has_mb d a m.
Proof.
  intros Hinv. unfold close_mark_body.
  destruct (sel_mb d a m) as [row|] eqn:E1; [|discriminate].
  destruct (sel_mbs d m side) as [r|] eqn:E2; [|discriminate].
  intros H; inversion H; subst. split; [|split].
  - unfold upd_mbs_close. apply DbInv_map_mbs; [|exact Hinv].
    intros x. destruct (_ && _); reflexivity.
  - apply mb_mono_same. reflexivity.
  - apply has_mb_sel. eauto.
Qed.

Lemma release_mark_body_ok d a name side npid d' :
  DbInv d -> release_mark_body d a name side = Some (npid, d') ->
  DbInv d' /\ mb_mono d d' /\ np_exists d' npid = true.
Proof.
  intros Hinv. unfold release_mark_body.
  destruct (sel_np d a name) as [np|] eqn:E1; [|discriminate].
  destruct (sel_nps d (np_id np) side) as [r|] eqn:E2; [|discriminate].
  intros H; inversion H; subst. split; [|split].
  - unfold upd_nps_release. apply DbInv_map_nps; [|exact Hinv].
    intros x. destruct (_ && _); reflexivity.
  - apply mb_mono_same. reflexivity.
  - apply np_exists_iff. exists np. split; [|reflexivity].
    apply sel_np_some in E1. exact (proj1 E1).
Qed.

Lemma touch_all_ok d ms when :
  DbInv d ->
  DbInv (touch_all d ms when) /\ mb_mono d (touch_all d ms when) /\
  (forall r, In r (mailboxes (touch_all d ms when)) -> In (mb_id r) ms -> mb_updated r = when) /\
  (forall r, In r (mailboxes (touch_all d ms when)) -> ~ In (mb_id r) ms -> In r (mailboxes d)).
Proof.
  revert d. induction ms as [|m rest IH]; intros d Hinv; cbn [touch_all].
  - split; [exact Hinv|]. split; [apply mb_mono_refl|]. split.
    + intros r _ [].
    + intros r Hr _. exact Hr.
  - destruct (IH (upd_touch d m when) (DbInv_upd_touch d m when Hinv)) as [H1 [H2 [H3 H4]]].
    split; [exact H1|]. split; [eapply mb_mono_trans; [apply mb_mono_upd_touch|exact H2]|]. split.
    + intros r Hr Hin. destruct (in_dec string_dec (mb_id r) rest) as [Hi|Hi].
      * exact (H3 r Hr Hi).
      * destruct Hin as [Hm|Hm]; [|contradiction].
        pose proof (H4 r Hr Hi) as Hr1. apply In_upd_touch_mb in Hr1.
        destruct Hr1 as [r0 [Hr0 Hreq]]. destruct (seqb (mb_id r0) m) eqn:Es.
        -- subst r. reflexivity.
        -- subst r. apply seqb_neq in Es. congruence.
    + intros r Hr Hni.
      assert (Hi : ~ In (mb_id r) rest) by (intros K; apply Hni; right; exact K).
      pose proof (H4 r Hr Hi) as Hr1. apply In_upd_touch_mb in Hr1.
      destruct Hr1 as [r0 [Hr0 Hreq]]. destruct (seqb (mb_id r0) m) eqn:Es.
      * exfalso. apply Hni. left. subst r. cbn. apply seqb_eq in Es. auto.
      * subst r. exact Hr0.
Qed.

Lemma add_msg_ok d r :
  DbInv d -> has_mb d (msg_app r) (msg_mbox r) ->
  DbInv (upd_touch (ins_msg d r) (msg_mbox r) (msg_rx r)) /\
  mb_mono d (upd_touch (ins_msg d r) (msg_mbox r) (msg_rx r)).
Proof.
  intros Hinv Hmb. split.
  - apply DbInv_upd_touch. apply DbInv_ins_msg; assumption.
  - eapply mb_mono_trans; [|apply mb_mono_upd_touch]. apply mb_mono_same. reflexivity.
Qed.
