(** Inst_Writes.v -- instance obligation for the data-modifying SQL statements of the server modules,
    regenerated from /repo on every run (gen/GenSql.v: every INSERT / UPDATE / DELETE -- or any other
    statement that is not a query -- occurring as a string constant anywhere in server.py,
    server_websocket.py, server_tap.py, in canonical form: kind, table, columns written, columns tested).

    Store.v has one function per statement; the list below is that correspondence, and the Example
    re-checks on every build that the set of statements in the current source is exactly this set.
    A statement that is rewritten, added or removed breaks the obligation (and with it every property
    whose theorems speak about the stored state); moving a statement into a helper or a constant, or
    re-formatting it, does not. *)
From Coq Require Import String List.
From MWGen Require Import GenSql.
Import ListNotations.
Local Open Scope string_scope.

Definition modelled_writes : list string :=
  [ "DELETE current";                                                                  (* Store.uset_current (with the INSERT) *)
    "DELETE mailbox_sides WHERE mailbox_id";                                           (* Store.del_mbs_of *)
    "DELETE mailboxes WHERE id";                                                       (* Store.del_mb *)
    "DELETE messages WHERE mailbox_id";                                                (* Store.del_msgs_of *)
    "DELETE nameplate_sides WHERE nameplates_id";                                      (* Store.del_nps_of *)
    "DELETE nameplates WHERE id";                                                      (* Store.del_np *)
    "INSERT client_versions(app_id,side,connect_time,implementation,version)";         (* Store.uins_cv *)
    "INSERT current(rebooted,updated,blur_time,connections_websocket)";                (* Store.uset_current *)
    "INSERT mailbox_sides(mailbox_id,opened,side,added)";                              (* Store.ins_mbs *)
    "INSERT mailboxes(app_id,for_nameplate,started,total_time,waiting_time,result)";   (* Store.uins_mb (usage db) *)
    "INSERT mailboxes(app_id,id,for_nameplate,updated)";                               (* Store.ins_mb *)
    "INSERT messages(app_id,mailbox_id,side,phase,body,server_rx,msg_id)";             (* Store.ins_msg *)
    "INSERT nameplate_sides(nameplates_id,claimed,side,added)";                        (* Store.ins_nps *)
    "INSERT nameplates(app_id,name,mailbox_id)";                                       (* Store.ins_np *)
    "INSERT nameplates(app_id,started,total_time,waiting_time,result)";                (* Store.uins_np (usage db) *)
    "UPDATE mailbox_sides SET opened,mood WHERE mailbox_id,side";                      (* Store.upd_mbs_close *)
    "UPDATE mailboxes SET updated WHERE id";                                           (* Store.upd_touch *)
    "UPDATE nameplate_sides SET claimed WHERE nameplates_id,side" ].                   (* Store.upd_nps_release *)

Example server_writes_as_modelled : gen_server_writes = modelled_writes.
Proof. vm_compute. reflexivity. Qed.
