(** Websocket.v -- server_websocket.py: WebSocketServer.
    onOpen, onMessage (ack first, dispatch, Error -> error frame), every
    handle_*, onClose.  [now s] is time.time().  (The commands -- [mtype],
    [command] -- are declared in Monad.v, because an `error` frame echoes one.) *)
From MW Require Import Base Store Monad Usage Server.

(** everything nondeterministic the implementation did while handling a command *)
Record oracle := mkOracle
  { o_draw : option string;        (* os.urandom(8), if called *)
    o_alloc : alloc_oracle }.

Section WithConfig.
Variable cfg : config.

Definition err {A} : M A := raise (XErr ErrOther).

Definition set_bound cs v := mkConn v (c_did_allocate cs) (c_listening cs) (c_did_claim cs) (c_nameplate_id cs) (c_did_release cs) (c_mailbox cs) (c_mailbox_id cs) (c_did_close cs).
Definition set_did_allocate cs v := mkConn (c_bound cs) v (c_listening cs) (c_did_claim cs) (c_nameplate_id cs) (c_did_release cs) (c_mailbox cs) (c_mailbox_id cs) (c_did_close cs).
Definition set_listening cs v := mkConn (c_bound cs) (c_did_allocate cs) v (c_did_claim cs) (c_nameplate_id cs) (c_did_release cs) (c_mailbox cs) (c_mailbox_id cs) (c_did_close cs).
Definition set_did_claim cs v := mkConn (c_bound cs) (c_did_allocate cs) (c_listening cs) v (c_nameplate_id cs) (c_did_release cs) (c_mailbox cs) (c_mailbox_id cs) (c_did_close cs).
Definition set_nameplate_id cs v := mkConn (c_bound cs) (c_did_allocate cs) (c_listening cs) (c_did_claim cs) v (c_did_release cs) (c_mailbox cs) (c_mailbox_id cs) (c_did_close cs).
Definition set_did_release cs v := mkConn (c_bound cs) (c_did_allocate cs) (c_listening cs) (c_did_claim cs) (c_nameplate_id cs) v (c_mailbox cs) (c_mailbox_id cs) (c_did_close cs).
Definition set_mailbox cs v := mkConn (c_bound cs) (c_did_allocate cs) (c_listening cs) (c_did_claim cs) (c_nameplate_id cs) (c_did_release cs) v (c_mailbox_id cs) (c_did_close cs).
Definition set_mailbox_id cs v := mkConn (c_bound cs) (c_did_allocate cs) (c_listening cs) (c_did_claim cs) (c_nameplate_id cs) (c_did_release cs) (c_mailbox cs) v (c_did_close cs).
Definition set_did_close cs v := mkConn (c_bound cs) (c_did_allocate cs) (c_listening cs) (c_did_claim cs) (c_nameplate_id cs) (c_did_release cs) (c_mailbox cs) (c_mailbox_id cs) v.

(* map server exceptions to protocol errors, as the except clauses do *)
Definition catch_crowded {A} (m : M A) : M A :=
  try_catch m (fun e => match e with
                        | XCrowded => raise (XErr ErrCrowded)
                        | _ => raise e
                        end).
Definition catch_crowded_reclaimed {A} (m : M A) : M A :=
  try_catch m (fun e => match e with
                        | XCrowded => raise (XErr ErrCrowded)
                        | XReclaimed => raise (XErr ErrReclaimed)
                        | _ => raise e
                        end).

Definition handle_ping (c : nat) (msg : command) : M unit :=
  match m_ping msg with
  | None => err
  | Some v => send c (FPong v)
  end.

Definition handle_bind (c : nat) (msg : command) : M unit :=
  cs <- get_conn c ;;
  match c_bound cs with
  | Some _ => err                       (* already bound *)
  | None =>
      match m_appid msg, m_side msg with
      | None, _ => err
      | Some _, None => err
      | Some a, Some side =>
          set_conn c (set_bound cs (Some (a, side))) ;;;
          s <- get ;;
          log_client_version cfg a side (now s)
            (match m_client_version msg with Some cv => cv | None => (None, None) end)
      end
  end.

Definition handle_list (c : nat) (a : string) : M unit :=
  names <- q (fun d => if allow_list cfg then sel_names d a else []) ;;
  send c (FNameplates (ssort names)).

Definition handle_allocate (c : nat) (a side : string) (o : oracle) : M unit :=
  cs <- get_conn c ;;
  if c_did_allocate cs then err
  else
    s <- get ;;
    n <- allocate_nameplate a side (now s) (o_alloc o) (o_draw o) ;;
    cs <- get_conn c ;;
    set_conn c (set_did_allocate cs true) ;;;
    send c (FAllocated n).

Definition handle_claim (c : nat) (a side : string) (msg : command) (o : oracle) : M unit :=
  match m_nameplate msg with
  | None => err
  | Some n =>
      cs <- get_conn c ;;
      if c_did_claim cs then err
      else
        set_conn c (set_nameplate_id (set_did_claim cs true) (Some n)) ;;;
        s <- get ;;
        m <- catch_crowded_reclaimed (claim_nameplate a n side (now s) (o_draw o)) ;;
        send c (FClaimed m)
  end.

Definition handle_release (c : nat) (a side : string) (msg : command) : M unit :=
  cs <- get_conn c ;;
  if c_did_release cs then err
  else
    n <- match m_nameplate msg, c_nameplate_id cs with
         | Some n, Some n' => if seqb n n' then ret n else err
         | Some n, None => ret n
         | None, Some n' => ret n'
         | None, None => err
         end ;;
    set_conn c (set_did_release cs true) ;;;
    s <- get ;;
    release_nameplate cfg a n side (now s) ;;;
    send c FReleased.

Fixpoint send_each (c : nat) (l : list msg_row) : M unit :=
  match l with
  | [] => ret tt
  | r :: rest => send c (msg_frame r) ;;; send_each c rest
  end.

Definition handle_open (c : nat) (a side : string) (msg : command) : M unit :=
  cs <- get_conn c ;;
  match c_mailbox cs with
  | Some _ => err
  | None =>
      match m_mailbox msg with
      | None => err
      | Some m =>
          set_conn c (set_mailbox_id cs (Some m)) ;;;
          s <- get ;;
          catch_crowded (open_mailbox a m side (now s)) ;;;
          cs <- get_conn c ;;
          set_conn c (set_listening (set_mailbox cs (Some m)) true) ;;;
          add_sub a m c ;;;
          old <- get_messages a m ;;
          send_each c old
      end
  end.

Definition handle_add (c : nat) (a side : string) (msg : command) : M unit :=
  cs <- get_conn c ;;
  match c_mailbox cs with
  | None => err
  | Some m =>
      match m_phase msg, m_body msg with
      | None, _ => err
      | Some _, None => err
      | Some phase, Some body =>
          s <- get ;;
          add_message a m (mkMsg a m side phase body (now s) (m_id msg))
      end
  end.

Definition handle_close (c : nat) (a side : string) (msg : command) : M unit :=
  cs <- get_conn c ;;
  if c_did_close cs then err
  else
    m <- match m_mailbox msg, c_mailbox_id cs with
         | Some m, Some m' => if seqb m m' then ret m else err
         | Some m, None => ret m
         | None, Some m' => ret m'
         | None, None => err
         end ;;
    s <- get ;;
    held <- match c_mailbox cs with
            | Some h => ret h
            | None =>
                catch_crowded (open_mailbox a m side (now s)) ;;;
                cs1 <- get_conn c ;;
                set_conn c (set_mailbox cs1 (Some m)) ;;;
                ret m
            end ;;
    cs2 <- get_conn c ;;
    (if c_listening cs2
     then remove_sub a held c ;;; set_conn c (set_listening cs2 false)
     else ret tt) ;;;
    cs3 <- get_conn c ;;
    set_conn c (set_did_close cs3 true) ;;;
    mailbox_close cfg a held side (m_mood msg) (now s) ;;;
    cs4 <- get_conn c ;;
    set_conn c (set_mailbox cs4 None) ;;;
    send c FClosed.

Definition dispatch (c : nat) (t : mtype) (msg : command) (o : oracle) : M unit :=
  match t with
  | TPing => handle_ping c msg
  | TBind => handle_bind c msg
  | _ =>
      cs <- get_conn c ;;
      match c_bound cs with
      | None => err                        (* must bind first *)
      | Some (a, side) =>
          match t with
          | TList => handle_list c a
          | TAllocate => handle_allocate c a side o
          | TClaim => handle_claim c a side msg o
          | TRelease => handle_release c a side msg
          | TOpen => handle_open c a side msg
          | TAdd => handle_add c a side msg
          | TClose => handle_close c a side msg
          | _ => err                       (* unknown type *)
          end
      end
  end.

(* onMessage.  An exception other than Error escapes (Exn). *)
Definition on_message (c : nat) (msg : command) (o : oracle) : M unit :=
  try_catch
    (match m_type msg with
     | None => err
     | Some t => send c (FAck (m_id msg)) ;;; dispatch c t msg o
     end)
    (fun e => match e with
              | XErr k => send c (FError k msg)
              | _ => raise e
              end).

Definition on_open (c : nat) : M unit := send c (FWelcome (welcome cfg)).

(* onClose *)
Definition on_close (c : nat) : M unit :=
  cs <- get_conn c ;;
  match c_mailbox cs, c_bound cs with
  | Some m, Some (a, _) => if c_listening cs then remove_sub a m c else ret tt
  | _, _ => ret tt
  end.

End WithConfig.
