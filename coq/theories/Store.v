(** Store.v -- the two SQLite databases as lists of rows, and one Gallina
    function per SQL statement that server.py executes.

    Tables are lists in rowid (= insertion) order.  The constraints SQLite
    itself enforces with this schema are modelled in the statement functions:
    PRIMARY KEY on mailboxes.id, AUTOINCREMENT on nameplates.id, and the three
    REFERENCES clauses (PRAGMA foreign_keys=ON, immediate): a statement that
    would violate one returns [None] (sqlite3.IntegrityError) and has no
    effect.  Nothing else (in particular no uniqueness of (app,name),
    (nameplate,side), (mailbox,side)) is a database constraint. *)
From MW Require Import Base.

(** * Channel database (channel-v1.sql) *)

Record np_row := mkNp
  { np_id : Z; np_app : string; np_name : string; np_mbox : string }.
Record nps_row := mkNps
  { nps_npid : Z; nps_claimed : bool; nps_side : string; nps_added : Z }.
Record mb_row := mkMb
  { mb_app : string; mb_id : string; mb_updated : Z; mb_fornp : bool }.
Record mbs_row := mkMbs
  { mbs_mbox : string; mbs_opened : bool; mbs_side : string; mbs_added : Z;
    mbs_mood : option string }.
Record msg_row := mkMsg
  { msg_app : string; msg_mbox : string; msg_side : string; msg_phase : string;
    msg_body : string; msg_rx : Z; msg_id : option string }.

Record chan_db := mkChan
  { nameplates : list np_row;
    np_sides : list nps_row;
    mailboxes : list mb_row;
    mb_sides : list mbs_row;
    messages : list msg_row;
    np_seq : Z   (* sqlite_sequence for nameplates: largest id ever used *) }.

Definition empty_chan : chan_db := mkChan [] [] [] [] [] 0.

Definition set_nameplates d x := mkChan x (np_sides d) (mailboxes d) (mb_sides d) (messages d) (np_seq d).
Definition set_np_sides d x := mkChan (nameplates d) x (mailboxes d) (mb_sides d) (messages d) (np_seq d).
Definition set_mailboxes d x := mkChan (nameplates d) (np_sides d) x (mb_sides d) (messages d) (np_seq d).
Definition set_mb_sides d x := mkChan (nameplates d) (np_sides d) (mailboxes d) x (messages d) (np_seq d).
Definition set_messages d x := mkChan (nameplates d) (np_sides d) (mailboxes d) (mb_sides d) x (np_seq d).

(** ** SELECTs *)

(* SELECT * FROM nameplates WHERE app_id=? AND name=?  (fetchone) *)
Definition sel_np (d : chan_db) (a n : string) : option np_row :=
  find (fun r => seqb (np_app r) a && seqb (np_name r) n) (nameplates d).

(* SELECT * FROM nameplates WHERE app_id=? *)
Definition sel_nps_of_app (d : chan_db) (a : string) : list np_row :=
  filter (fun r => seqb (np_app r) a) (nameplates d).

(* SELECT * FROM nameplates WHERE mailbox_id=? *)
Definition sel_np_by_mbox (d : chan_db) (m : string) : list np_row :=
  filter (fun r => seqb (np_mbox r) m) (nameplates d).

(* SELECT * FROM nameplate_sides WHERE nameplates_id=? AND side=?  (fetchone) *)
Definition sel_nps (d : chan_db) (npid : Z) (side : string) : option nps_row :=
  find (fun r => (nps_npid r =? npid) && seqb (nps_side r) side) (np_sides d).

(* SELECT * FROM nameplate_sides WHERE nameplates_id=? *)
Definition sel_nps_all (d : chan_db) (npid : Z) : list nps_row :=
  filter (fun r => nps_npid r =? npid) (np_sides d).

(* SELECT * FROM mailboxes WHERE app_id=? AND id=?  (fetchone) *)
Definition sel_mb (d : chan_db) (a m : string) : option mb_row :=
  find (fun r => seqb (mb_app r) a && seqb (mb_id r) m) (mailboxes d).

(* SELECT * FROM mailboxes WHERE id=?  (fetchone) *)
Definition sel_mb_by_id (d : chan_db) (m : string) : option mb_row :=
  find (fun r => seqb (mb_id r) m) (mailboxes d).

(* SELECT * FROM mailboxes WHERE app_id=? *)
Definition sel_mbs_of_app (d : chan_db) (a : string) : list mb_row :=
  filter (fun r => seqb (mb_app r) a) (mailboxes d).

(* SELECT * FROM mailbox_sides WHERE mailbox_id=? AND side=?  (fetchone) *)
Definition sel_mbs (d : chan_db) (m side : string) : option mbs_row :=
  find (fun r => seqb (mbs_mbox r) m && seqb (mbs_side r) side) (mb_sides d).

(* SELECT * FROM mailbox_sides WHERE mailbox_id=? *)
Definition sel_mbs_all (d : chan_db) (m : string) : list mbs_row :=
  filter (fun r => seqb (mbs_mbox r) m) (mb_sides d).

(* SELECT * FROM messages WHERE app_id=? AND mailbox_id=?   (ORDER BY is applied by the caller) *)
Definition sel_msgs (d : chan_db) (a m : string) : list msg_row :=
  filter (fun r => seqb (msg_app r) a && seqb (msg_mbox r) m) (messages d).

(* SELECT DISTINCT name FROM nameplates WHERE app_id=? *)
Definition sel_names (d : chan_db) (a : string) : list string :=
  sdedup (map np_name (sel_nps_of_app d a)).

(* get_all_apps: three SELECT DISTINCT app_id, unioned *)
Definition sel_all_apps (d : chan_db) : list string :=
  sdedup (map np_app (nameplates d) ++ map mb_app (mailboxes d) ++ map msg_app (messages d)).

(** ** Constraint predicates *)

Definition mb_exists (d : chan_db) (m : string) : bool :=
  existsb (fun r => seqb (mb_id r) m) (mailboxes d).
Definition np_exists (d : chan_db) (npid : Z) : bool :=
  existsb (fun r => np_id r =? npid) (nameplates d).

(** ** INSERTs (None = IntegrityError, no effect) *)

(* INSERT INTO mailboxes (app_id,id,for_nameplate,updated): PK on id *)
Definition ins_mb (d : chan_db) (r : mb_row) : option chan_db :=
  if mb_exists d (mb_id r) then None
  else Some (set_mailboxes d (mailboxes d ++ [r])).

(* INSERT INTO nameplates (app_id,name,mailbox_id): AUTOINCREMENT id, FK mailbox_id *)
Definition ins_np (d : chan_db) (a n m : string) : option (chan_db * Z) :=
  if mb_exists d m then
    let id := np_seq d + 1 in
    Some (mkChan (nameplates d ++ [mkNp id a n m]) (np_sides d) (mailboxes d)
                 (mb_sides d) (messages d) id, id)
  else None.

(* INSERT INTO nameplate_sides: FK nameplates_id *)
Definition ins_nps (d : chan_db) (r : nps_row) : option chan_db :=
  if np_exists d (nps_npid r) then Some (set_np_sides d (np_sides d ++ [r]))
  else None.

(* INSERT INTO mailbox_sides: FK mailbox_id *)
Definition ins_mbs (d : chan_db) (r : mbs_row) : option chan_db :=
  if mb_exists d (mbs_mbox r) then Some (set_mb_sides d (mb_sides d ++ [r]))
  else None.

(* INSERT INTO messages: no constraint *)
Definition ins_msg (d : chan_db) (r : msg_row) : chan_db :=
  set_messages d (messages d ++ [r]).

(** ** UPDATEs *)

(* UPDATE mailboxes SET updated=? WHERE id=? *)
Definition upd_touch (d : chan_db) (m : string) (when : Z) : chan_db :=
  set_mailboxes d
    (map (fun r => if seqb (mb_id r) m
                   then mkMb (mb_app r) (mb_id r) when (mb_fornp r) else r)
         (mailboxes d)).

(* UPDATE mailbox_sides SET opened=?, mood=? WHERE mailbox_id=? AND side=? *)
Definition upd_mbs_close (d : chan_db) (m side : string) (mood : option string) : chan_db :=
  set_mb_sides d
    (map (fun r => if seqb (mbs_mbox r) m && seqb (mbs_side r) side
                   then mkMbs (mbs_mbox r) false (mbs_side r) (mbs_added r) mood else r)
         (mb_sides d)).

(* UPDATE nameplate_sides SET claimed=? WHERE nameplates_id=? AND side=? *)
Definition upd_nps_release (d : chan_db) (npid : Z) (side : string) : chan_db :=
  set_np_sides d
    (map (fun r => if (nps_npid r =? npid) && seqb (nps_side r) side
                   then mkNps (nps_npid r) false (nps_side r) (nps_added r) else r)
         (np_sides d)).

(** ** DELETEs *)

(* DELETE FROM nameplate_sides WHERE nameplates_id=? *)
Definition del_nps_of (d : chan_db) (npid : Z) : chan_db :=
  set_np_sides d (filter (fun r => negb (nps_npid r =? npid)) (np_sides d)).

(* DELETE FROM nameplates WHERE id=? : fails if a nameplate_sides row still refers to it *)
Definition del_np (d : chan_db) (npid : Z) : option chan_db :=
  if np_exists d npid && existsb (fun r => nps_npid r =? npid) (np_sides d) then None
  else Some (set_nameplates d (filter (fun r => negb (np_id r =? npid)) (nameplates d))).

(* DELETE FROM messages WHERE mailbox_id=? *)
Definition del_msgs_of (d : chan_db) (m : string) : chan_db :=
  set_messages d (filter (fun r => negb (seqb (msg_mbox r) m)) (messages d)).

(* DELETE FROM mailbox_sides WHERE mailbox_id=? *)
Definition del_mbs_of (d : chan_db) (m : string) : chan_db :=
  set_mb_sides d (filter (fun r => negb (seqb (mbs_mbox r) m)) (mb_sides d)).

(* DELETE FROM mailboxes WHERE id=? : fails if a nameplate or a mailbox_sides row refers to it *)
Definition del_mb (d : chan_db) (m : string) : option chan_db :=
  if mb_exists d m &&
     (existsb (fun r => seqb (np_mbox r) m) (nameplates d) ||
      existsb (fun r => seqb (mbs_mbox r) m) (mb_sides d))
  then None
  else Some (set_mailboxes d (filter (fun r => negb (seqb (mb_id r) m)) (mailboxes d))).

(** * Usage database (usage-v2.sql) *)

Record u_np_row := mkUNp
  { unp_app : string; unp_started : Z; unp_waiting : option Z; unp_total : Z;
    unp_result : string }.
Record u_mb_row := mkUMb
  { umb_app : string; umb_fornp : bool; umb_started : Z; umb_total : Z;
    umb_waiting : option Z; umb_result : string }.
Record u_cv_row := mkUCv
  { ucv_app : string; ucv_side : string; ucv_time : Z;
    ucv_impl : option string; ucv_version : option string }.
Record u_cur_row := mkUCur
  { ucur_rebooted : Z; ucur_updated : Z; ucur_blur : option Z; ucur_conns : Z }.

Record usage_db := mkUsage
  { u_nameplates : list u_np_row;
    u_mailboxes : list u_mb_row;
    u_versions : list u_cv_row;
    u_current : list u_cur_row }.

Definition empty_usage : usage_db := mkUsage [] [] [] [].

Definition uins_np (u : usage_db) (r : u_np_row) : usage_db :=
  mkUsage (u_nameplates u ++ [r]) (u_mailboxes u) (u_versions u) (u_current u).
Definition uins_mb (u : usage_db) (r : u_mb_row) : usage_db :=
  mkUsage (u_nameplates u) (u_mailboxes u ++ [r]) (u_versions u) (u_current u).
Definition uins_cv (u : usage_db) (r : u_cv_row) : usage_db :=
  mkUsage (u_nameplates u) (u_mailboxes u) (u_versions u ++ [r]) (u_current u).
(* DELETE FROM current; INSERT INTO current *)
Definition uset_current (u : usage_db) (r : u_cur_row) : usage_db :=
  mkUsage (u_nameplates u) (u_mailboxes u) (u_versions u) [r].
