(** Prop_C18.v -- C18: listing and usage options change nothing but what they
    advertise.  Statements quoted by type from ProtoFacts.v, NpFactsA.v and
    ViewFacts.v (printed by [Check] below). *)
From MW Require Import Base Store Monad Usage Server Websocket Service Findings Inv Obs
     ProtoFacts NpFactsA StepFacts ViewFacts ViewFactsR ViewFactsX Inst_Params ArrivalFacts.
Local Open Scope list_scope.

(** `list` is answered (after the ack) by exactly one `nameplates` frame carrying
    [ssort (sel_names d a)] when listing is allowed and [] -- always -- when it is
    disallowed; nothing else changes *)
Theorem C18_list_answer : ltac:(let t := type of list_answer in exact t).
Proof. exact list_answer. Qed.
Check C18_list_answer.
Print Assumptions C18_list_answer.
(** [sel_names d a] is exactly the set of names that have a nameplate row in the caller's app ... *)
Theorem C18_names_exact : ltac:(let t := type of sel_names_spec in exact t).
Proof. exact sel_names_spec. Qed.
Check C18_names_exact.
Print Assumptions C18_names_exact.
(** ... each once ... *)
Theorem C18_names_once : ltac:(let t := type of sel_names_NoDup in exact t).
Proof. exact sel_names_NoDup. Qed.
Check C18_names_once.
Print Assumptions C18_names_once.
(** ... and sorting (Python's sorted()) keeps the set ... *)
Theorem C18_sorted_same_set : ltac:(let t := type of ssort_In in exact t).
Proof. exact ssort_In. Qed.
Check C18_sorted_same_set.
Print Assumptions C18_sorted_same_set.
(** ... and the multiplicities ... *)
Theorem C18_sorted_once : ltac:(let t := type of ssort_NoDup in exact t).
Proof. exact ssort_NoDup. Qed.
Check C18_sorted_once.
Print Assumptions C18_sorted_once.
(** ... in ascending order *)
Theorem C18_sorted_order : ltac:(let t := type of ssort_sorted in exact t).
Proof. exact ssort_sorted. Qed.
Check C18_sorted_order.
Print Assumptions C18_sorted_order.
(** one event from two states with the same channel-relevant part ([view_of]:
    both copies of the channel database, subscriptions, connection records,
    clock) under ANY two configurations with the same expiration time and the
    same welcome notices -- the welcome frame shows them -- (listing
    allowed or not, usage database or not, any blur interval, any usage database
    content): same next view, same frames (modulo the content of `nameplates`
    answers; identical when the listing setting agrees), same escaped exception *)
Theorem C18_config_erasure_step : ltac:(let t := type of step_view_congruence in exact t).
Proof. exact step_view_congruence. Qed.
Check C18_config_erasure_step.
Print Assumptions C18_config_erasure_step.
(** whole histories: everything clients observe and everything stored in the
    channel database is identical across configurations, apart from the one answer *)
Theorem C18_config_erasure_run : ltac:(let t := type of run_view_congruence in exact t).
Proof. exact run_view_congruence. Qed.
Check C18_config_erasure_run.
Print Assumptions C18_config_erasure_run.
(** with the same period the sweeps fire at the same instants automatically *)
Theorem C18_same_timer_same_firing : ltac:(let t := type of same_firing_same_timer in exact t).
Proof. exact same_firing_same_timer. Qed.
Check C18_same_timer_same_firing.
Print Assumptions C18_same_timer_same_firing.

(** all twelve configurations of the property share the repository's constants *)
(** ** closed form, from the initial state, for every history with sweeps AND RESTARTS (ViewFactsR.v)

    Any two configurations with the same expiration time, sweep period and welcome notices
    (listing allowed or not, usage database or not, any blur interval), the same history from their initial states:
    the channel-relevant view of the final states, every frame on every connection except for
    the content of `nameplates` answers (all frames outright when the listing setting agrees),
    and every escaped exception are identical.  No hypothesis about when the sweep timers fire:
    with equal periods they fire at the same instants (carried in the invariant).  [ERestart]
    and [ECrash 0 b] (the process dies before the event) are allowed; a crash after the k-th
    commit is not comparable across configurations -- the usage database's commits are
    interleaved with the channel database's, so "the k-th commit" names different instants
    (the Example shows 4 against 2 commits for one sweep) -- and is what C10 covers. *)
Theorem C18_config_erasure_from_init : ltac:(let t := type of config_erasure_from_init in exact t).
Proof. exact config_erasure_from_init. Qed.
Check C18_config_erasure_from_init.
Print Assumptions C18_config_erasure_from_init.

Theorem C18_config_erasure_from_init_full : ltac:(let t := type of config_erasure_from_init_full in exact t).
Proof. exact config_erasure_from_init_full. Qed.
Check C18_config_erasure_from_init_full.
Print Assumptions C18_config_erasure_from_init_full.

(** ... and from any two related states (different usage databases, different boot times) *)
Theorem C18_config_erasure_any_state : ltac:(let t := type of config_erasure_run in exact t).
Proof. exact config_erasure_run. Qed.
Check C18_config_erasure_any_state.
Print Assumptions C18_config_erasure_any_state.

Example C18_restart_nonvacuous : ltac:(let t := type of config_erasure_nonvacuous in exact t).
Proof. exact config_erasure_nonvacuous. Qed.


Example C18_nonvacuous :
  exp (gen_cfg true true (Some 56)) = exp (gen_cfg false false None) /\
  period (gen_cfg true true (Some 56)) = period (gen_cfg false false None) /\
  welcome (gen_cfg true true (Some 56)) = welcome (gen_cfg false false None) /\
  0 < exp (gen_cfg true true (Some 56)).
Proof. split; [reflexivity|]. split; [reflexivity|]. split; [reflexivity|]. exact (gen_cfg_exp _ _ _). Qed.

(** * crashes after a commit, across configurations (quoted by type from ViewFactsX.v).  The k-th commit
    names different instants with and without a usage database; the crash index is TRANSLATED: [translate_k]
    is the least index under the second configuration at which the process has made the same number of
    CHANNEL commits ([crash_match]); [translate] rewrites every crash index of a history along the two runs. *)

(** equal erased logs and equally many channel commits before the crash points: the same channel files *)
Theorem C18_crash_same_files : ltac:(let t := type of crash_same_files in exact t).
Proof. exact crash_same_files. Qed.
Check C18_crash_same_files.
Print Assumptions C18_crash_same_files.

(** one crash event, translated index: related states again; same exception / validity / boot frames; the frames of
    the second run are a prefix of the first's (the first may have sent more before dying) *)
Theorem C18_crash_translate_step : ltac:(let t := type of crash_translate_step in exact t).
Proof. exact crash_translate_step. Qed.
Check C18_crash_translate_step.
Print Assumptions C18_crash_translate_step.

(** ... for ANY matching index, not only the least *)
Theorem C18_crash_translate_step_any : ltac:(let t := type of crash_translate_step_any in exact t).
Proof. exact crash_translate_step_any. Qed.
Check C18_crash_translate_step_any.
Print Assumptions C18_crash_translate_step_any.

(** the translated index is the least matching one *)
Theorem C18_translate_k_least : ltac:(let t := type of translate_k_least in exact t).
Proof. exact translate_k_least. Qed.
Check C18_translate_k_least.
Print Assumptions C18_translate_k_least.

(** the translated history differs from the original only in crash indices *)
Theorem C18_translate_shape : ltac:(let t := type of translate_shape in exact t).
Proof. exact translate_shape. Qed.
Check C18_translate_shape.
Print Assumptions C18_translate_shape.

(** ... and is the original when it has no crash *)
Theorem C18_translate_no_crash : ltac:(let t := type of translate_no_crash in exact t).
Proof. exact translate_no_crash. Qed.
Check C18_translate_no_crash.
Print Assumptions C18_translate_no_crash.

(** history level, ALL event kinds, any crash index: there is a history differing only in crash indices whose run
    under the second configuration ends in the same view (and timer), with the same exceptions and validity, and
    frames that agree event by event (prefix for crash events) *)
Theorem C18_config_erasure_with_crashes : ltac:(let t := type of config_erasure_with_crashes in exact t).
Proof. exact config_erasure_with_crashes. Qed.
Check C18_config_erasure_with_crashes.
Print Assumptions C18_config_erasure_with_crashes.

(** non-vacuity: release crashed at index 2 with a usage database = index 1 without; the untranslated index differs *)
Theorem C18_crash_translate_nonvacuous : ltac:(let t := type of crash_translate_nonvacuous in exact t).
Proof. exact crash_translate_nonvacuous. Qed.
Check C18_crash_translate_nonvacuous.
Print Assumptions C18_crash_translate_nonvacuous.

(** the other direction: 0,1,2,3 -> 0,1,3,4 *)
Theorem C18_crash_translate_degenerate : ltac:(let t := type of crash_translate_degenerate in exact t).
Proof. exact crash_translate_degenerate. Qed.
Check C18_crash_translate_degenerate.
Print Assumptions C18_crash_translate_degenerate.

(** full frame equality at the least matching index is false (bind crashed at its usage commit: the ack was sent
    in one run only): prefix is what holds *)
Theorem C18_crash_frames_equal_refuted : ltac:(let t := type of crash_frames_equal_refuted in exact t).
Proof. exact crash_frames_equal_refuted. Qed.
Check C18_crash_frames_equal_refuted.
Print Assumptions C18_crash_frames_equal_refuted.

(** * send stamps too (quoted by type from ArrivalFacts.v) *)

(** `everything clients observe` includes server_tx: the stamps of all frames agree in the two runs *)
Theorem C18_config_erasure_stamps : ltac:(let t := type of config_erasure_stamps in exact t).
Proof. exact config_erasure_stamps. Qed.
Check C18_config_erasure_stamps.
Print Assumptions C18_config_erasure_stamps.

