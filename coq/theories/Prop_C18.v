(** Prop_C18.v -- C18: listing and usage options change nothing but what they
    advertise.  Statements quoted by type from ProtoFacts.v, NpFactsA.v and
    ViewFacts.v (printed by [Check] below). *)
From MW Require Import Base Store Monad Usage Server Websocket Service Findings Inv Obs
     ProtoFacts NpFactsA StepFacts ViewFacts ViewFactsR Inst_Params.
Local Open Scope list_scope.

(** `list` is answered (after the ack) by exactly one `nameplates` frame carrying
    [ssort (sel_names d a)] when listing is allowed and [] -- always -- when it is
    disallowed; nothing else changes *)
Theorem C18_list_answer : ltac:(let t := type of list_answer in exact t).
Proof. exact list_answer. Qed.
Check C18_list_answer.
Print Assumptions C18_list_answer.
(** [sel_names d a] is exactly the set of names that have a nameplate row in the caller's app ... *)
Theorem C18_names_exact : ltac:(let t := type of sel_names_spec in exact t).
Proof. exact sel_names_spec. Qed.
Check C18_names_exact.
Print Assumptions C18_names_exact.
(** ... each once ... *)
Theorem C18_names_once : ltac:(let t := type of sel_names_NoDup in exact t).
Proof. exact sel_names_NoDup. Qed.
Check C18_names_once.
Print Assumptions C18_names_once.
(** ... and sorting (Python's sorted()) keeps the set ... *)
Theorem C18_sorted_same_set : ltac:(let t := type of ssort_In in exact t).
Proof. exact ssort_In. Qed.
Check C18_sorted_same_set.
Print Assumptions C18_sorted_same_set.
(** ... and the multiplicities ... *)
Theorem C18_sorted_once : ltac:(let t := type of ssort_NoDup in exact t).
Proof. exact ssort_NoDup. Qed.
Check C18_sorted_once.
Print Assumptions C18_sorted_once.
(** ... in ascending order *)
Theorem C18_sorted_order : ltac:(let t := type of ssort_sorted in exact t).
Proof. exact ssort_sorted. Qed.
Check C18_sorted_order.
Print Assumptions C18_sorted_order.
(** one event from two states with the same channel-relevant part ([view_of]:
    both copies of the channel database, subscriptions, connection records,
    clock) under ANY two configurations with the same expiration time and the
    same welcome notices -- the welcome frame shows them -- (listing
    allowed or not, usage database or not, any blur interval, any usage database
    content): same next view, same frames (modulo the content of `nameplates`
    answers; identical when the listing setting agrees), same escaped exception *)
Theorem C18_config_erasure_step : ltac:(let t := type of step_view_congruence in exact t).
Proof. exact step_view_congruence. Qed.
Check C18_config_erasure_step.
Print Assumptions C18_config_erasure_step.
(** whole histories: everything clients observe and everything stored in the
    channel database is identical across configurations, apart from the one answer *)
Theorem C18_config_erasure_run : ltac:(let t := type of run_view_congruence in exact t).
Proof. exact run_view_congruence. Qed.
Check C18_config_erasure_run.
Print Assumptions C18_config_erasure_run.
(** with the same period the sweeps fire at the same instants automatically *)
Theorem C18_same_timer_same_firing : ltac:(let t := type of same_firing_same_timer in exact t).
Proof. exact same_firing_same_timer. Qed.
Check C18_same_timer_same_firing.
Print Assumptions C18_same_timer_same_firing.

(** all twelve configurations of the property share the repository's constants *)
(** ** closed form, from the initial state, for every history with sweeps AND RESTARTS (ViewFactsR.v)

    Any two configurations with the same expiration time, sweep period and welcome notices
    (listing allowed or not, usage database or not, any blur interval), the same history from their initial states:
    the channel-relevant view of the final states, every frame on every connection except for
    the content of `nameplates` answers (all frames outright when the listing setting agrees),
    and every escaped exception are identical.  No hypothesis about when the sweep timers fire:
    with equal periods they fire at the same instants (carried in the invariant).  [ERestart]
    and [ECrash 0 b] (the process dies before the event) are allowed; a crash after the k-th
    commit is not comparable across configurations -- the usage database's commits are
    interleaved with the channel database's, so "the k-th commit" names different instants
    (the Example shows 4 against 2 commits for one sweep) -- and is what C10 covers. *)
Theorem C18_config_erasure_from_init : ltac:(let t := type of config_erasure_from_init in exact t).
Proof. exact config_erasure_from_init. Qed.
Check C18_config_erasure_from_init.
Print Assumptions C18_config_erasure_from_init.

Theorem C18_config_erasure_from_init_full : ltac:(let t := type of config_erasure_from_init_full in exact t).
Proof. exact config_erasure_from_init_full. Qed.
Check C18_config_erasure_from_init_full.
Print Assumptions C18_config_erasure_from_init_full.

(** ... and from any two related states (different usage databases, different boot times) *)
Theorem C18_config_erasure_any_state : ltac:(let t := type of config_erasure_run in exact t).
Proof. exact config_erasure_run. Qed.
Check C18_config_erasure_any_state.
Print Assumptions C18_config_erasure_any_state.

Example C18_restart_nonvacuous : ltac:(let t := type of config_erasure_nonvacuous in exact t).
Proof. exact config_erasure_nonvacuous. Qed.


Example C18_nonvacuous :
  exp (gen_cfg true true (Some 56)) = exp (gen_cfg false false None) /\
  period (gen_cfg true true (Some 56)) = period (gen_cfg false false None) /\
  welcome (gen_cfg true true (Some 56)) = welcome (gen_cfg false false None) /\
  0 < exp (gen_cfg true true (Some 56)).
Proof. split; [reflexivity|]. split; [reflexivity|]. split; [reflexivity|]. exact (gen_cfg_exp _ _ _). Qed.
